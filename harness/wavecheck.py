"""Shared campaign driver for the timing-simulation properties (C03, C04, C05, C13, C06, C07)."""
import random
import traceback
import numpy as np

from harness import circgen as cg, wavesim_corr as wc, waveoracle as wo


class Case:
    pass


GLITCHY = [g for g in cg.GATE_KINDS if g[0].lower().startswith(('xor', 'xnor'))] * 3 + [('MUX21', 3), ('INV1', 1), ('BUF1', 1)]


def stress_kw(rng):
    """Glitch stress: small parity-rich circuits, every input with a multi-transition waveform, widely differing per-line
    capacities -- outputs collect many transitions, so capacities (and which capacity belongs to which line) matter."""
    return {'n_gates': rng.choice([3, 5, 8, 12, 20]), 'kinds': GLITCHY, 'allow_dangling': False, 'tmax': 40, 'busy': True, 'n_pi': rng.randint(3, 7), 'distinct_ins': True, 'capmode': rng.choice(['vec', 'skew', 'skew']),
            'extra_prob': 0.9, 'seq': rng.random() < 0.3, 'style': rng.choice(['polfree', 'uniform', 'polfree', 'full']), 'allow_unconnected': False}


def gen_wave_case(rng, **kw):
    k = Case()
    k.c, k.a = cg.gen_circuit(rng, **{x: kw[x] for x in ('n_gates', 'seq', 'allow_unconnected', 'allow_dangling', 'fork_style', 'branchforks', 'kinds', 'n_pi', 'distinct_ins', 'p_nodata') if x in kw})
    k.reuse = kw.get('reuse', rng.random() < 0.5)
    # fork stripping only where asked for (strip_prob); the simulators accept every circuit with it since fix 9137925
    k.strip = kw.get('strip', rng.random() < kw['strip_prob'] if 'strip_prob' in kw else False)
    k.sims = kw.get('sims', rng.choice([1, 2, 3, 5]))
    k.delays, k.style = wc.gen_delays(rng, len(k.c.lines), kw.get('style'))
    if k.strip and len(k.c.lines) % 3 != 0:
        # two thirds of the stripped cases: zero delay on fork inputs (the side condition under which strip_forks is proved not to
        # change results, C03_wavesim_model_correct / C06_wave_strip_forks_irrelevant); decided without consuming the generator stream
        for f in k.c.forks.values():
            for l in f.ins:
                if l is not None:
                    k.delays[l.index] = 0
    capmode = kw.get('capmode', rng.choice(['4', '8', '16', 'vec', 'vec']))
    if capmode == 'skew':
        k.caps = [4 if rng.random() < (0.4 if i < 10 else 0.08) else rng.choice([16, 24, 32]) for i in range(len(k.c.lines))]
    else:
        k.caps = int(capmode) if capmode != 'vec' else [rng.choice([4, 8, 12, 16]) for _ in range(len(k.c.lines))]
    k.s0, k.s1, k.s2, k.extra = wc.gen_stimulus(rng, k.c, k.sims, tmax=kw.get('tmax', 12), extra_prob=kw.get('extra_prob', 0.4), busy=kw.get('busy', False))
    k.tcap = kw.get('tcap', rng.choice([None, None, 3, 6, 9, 14, 0, 0, -2]))      # capture times incl. exactly 0 and before every transition
    k.a_ctrl = None
    if kw.get('with_actrl', False):
        n = len(k.c.lines)       # the documented shape: one row per line
        nacc = rng.randint(1, 4)
        k.a_ctrl = np.zeros((n, 3), dtype=np.int32)
        for i in range(n):
            # weights are signed integers (e.g. rise +1 / fall -1 on one accumulator)
            k.a_ctrl[i] = [rng.choice([-1] + list(range(nacc))), rng.choice([0, 1, 2, 3, 1, 2, -1, -2]), rng.choice([0, 1, 2, 3, 1, -1, -3])]
        if n > 0 and rng.random() < 0.3:
            # one line with weights beyond the exact range of float32 (the accumulators are integers): sums are still far below 2^31
            i = rng.randrange(n)
            k.a_ctrl[i] = [rng.randrange(nacc), rng.choice([1 << 24, (1 << 24) + 1, 1 << 20]), rng.choice([(1 << 24) + 1, 1, 0])]
    return k


def describe(k):
    return {'circuit': cg.describe(k.c), 'c_reuse': k.reuse, 'strip_forks': k.strip, 'sims': k.sims,
            'delays': np.asarray(k.delays).tolist(), 'delay_style': k.style, 'c_caps': k.caps,
            's0': k.s0.tolist(), 's1': k.s1.tolist(), 's2': k.s2.tolist(),
            'extra': [[p, l, wf] for (p, l), wf in k.extra.items()], 'tcap': k.tcap,
            'a_ctrl': None if k.a_ctrl is None else k.a_ctrl.tolist()}


def from_description(d):
    k = Case()
    k.c = cg.from_description(d['circuit'])
    k.reuse, k.strip, k.sims = d['c_reuse'], d['strip_forks'], d['sims']
    k.delays, k.style, k.caps = np.array(d['delays']), d.get('delay_style'), d['c_caps']
    k.s0, k.s1, k.s2 = (np.array(d[x], dtype=np.float32) for x in ('s0', 's1', 's2'))
    k.extra = {(p, l): wf for p, l, wf in d['extra']}
    k.tcap = d['tcap']
    k.a_ctrl = None if d.get('a_ctrl') is None else np.array(d['a_ctrl'], dtype=np.int32)
    return k


def run_case(k, cuda=False, **over):
    return wc.run_wavesim(k.c, over.get('delays', k.delays), over.get('sims', k.sims), over.get('caps', k.caps),
                          over.get('reuse', k.reuse), over.get('strip', k.strip), k.s0, k.s1, k.s2, k.extra, k.tcap,
                          a_ctrl=k.a_ctrl, cuda=cuda, warm=over.get('warm'), repickle=over.get('repickle'), prop_sims=over.get('prop_sims'), pre_extra=over.get('pre_extra'))


def warm_round(rng, k):
    """stimulus of an earlier round on the same simulator object: busy, with directly written multi-transition waveforms that fill
    the three slots s_to_c owns (and more) at most positions"""
    return wc.gen_stimulus(rng, k.c, k.sims, tmax=30, extra_prob=0.8, max_trans=rng.choice([3, 3, 2]), busy=True)


def same_as_fresh(k, w, w2, lanes=None):
    """a round on a USED simulator (w2, after warm_round) must give what the fresh simulator (w) gives: every capture result, every
    tracked waveform up to its terminator, and the accumulator increments -> None | text.  lanes: the round on w2 was restricted to the
    first `lanes` lanes (c_prop(sims=lanes)); only those are compared."""
    nl = k.sims if lanes is None else lanes
    a, b = np.asarray(w.s)[3:11, :, :nl], np.asarray(w2.s)[3:11, :, :nl]
    if not np.array_equal(a, b, equal_nan=True):
        i = np.argwhere(~((a == b) | (np.isnan(a) & np.isnan(b))))[0]
        return f'capture result s[{3 + int(i[0])}] of s_node {int(i[1])}, lane {int(i[2])} is {b[tuple(i)]} on a used simulator, {a[tuple(i)]} on a fresh one'
    nidx = len(k.c.lines) if not k.reuse else 0
    for idx in list(range(nidx)) + [int(w.ppi_offset) + p for p in range(len(k.c.s_nodes))]:
        for lane in range(nl):
            x, y = wo.waveform(w, idx, lane), wo.waveform(w2, idx, lane)
            if x != y:
                return f'waveform of signal {idx}, lane {lane} is {y} on a used simulator, {x} on a fresh one'
    if w.abuf_len > 0 and lanes is None:
        d = np.asarray(w2.abuf) - (w2.abuf_warm if w2.abuf_warm is not None else 0)
        if not np.array_equal(d, np.asarray(w.abuf)):
            return f'accumulated activity of the round on a used simulator is {d.tolist()}, on a fresh one {np.asarray(w.abuf).tolist()}'
    return None


def mixed_dataset_run(rng, k, nds=3, cuda=False):
    """One simulator with several delay datasets and MIXED per-simulation selection modes: lanes in mode 0 use the dataset named by the
    propagation seed, lanes in mode 1 the dataset of their own control entry.  -> (simulator, dataset array, effective dataset per lane)"""
    dsets = np.stack([wc.gen_delays(rng, len(k.c.lines), 'full')[0] for _ in range(nds)])
    g = rng.randrange(nds)
    pick = [rng.randrange(nds) for _ in range(k.sims)]
    mode = [rng.randint(0, 1) for _ in range(k.sims)]
    if k.sims > 1 and len(set(mode)) == 1:
        mode[rng.randrange(k.sims)] ^= 1
    ctl = np.array([pick, mode], dtype=np.int32)
    w = wc.run_wavesim(k.c, dsets, k.sims, k.caps, k.reuse, k.strip, k.s0, k.s1, k.s2, k.extra, k.tcap, cuda=cuda, simctl=ctl, seed=g)
    return w, dsets, [g if mode[l] == 0 else pick[l] for l in range(k.sims)], {'datasets': dsets.tolist(), 'seed': g, 'simctl': ctl.tolist()}


def pre_extra_replay(d):
    k = from_description(d)
    pre = {(p, l): wf for p, l, wf in d['pre_extra']}
    try:
        return same_as_fresh(k, run_case(k), run_case(k, pre_extra=pre)) is not None
    except Exception:
        return True


def copied_replay(d, oracle):
    """replay of a 'copied simulator' failure"""
    k = from_description(d)
    cuda, how = d['copied_simulator']
    try:
        w, w2 = run_case(k), run_case(k, cuda=cuda, repickle=how)
        return oracle(k, w2) is not None or not np.array_equal(np.asarray(w2.s)[3:11], np.asarray(w.s)[3:11], equal_nan=True)
    except Exception:
        return True


def warm_replay(d):
    """replay of a 'simulator reuse' failure: True if the used simulator still differs from the fresh one"""
    k = from_description(d)
    wr = d['warm_round']
    warm = (np.array(wr['s0'], dtype=np.float32), np.array(wr['s1'], dtype=np.float32), np.array(wr['s2'], dtype=np.float32),
            {(p, l): wf for p, l, wf in wr['extra']})
    try:
        j = wr.get('first_lanes')
        return same_as_fresh(k, run_case(k), run_case(k, warm=warm, prop_sims=j), lanes=j) is not None
    except Exception:
        return True


def campaign(ck, n, oracle, gen_kw=None, coq_lanes=1, label='WaveSim', coq_every=1, stress_every=0, stress_over=None, line_level=False, glue=False):
    """oracle(k, w) -> None | failure text.  Returns (fails, mismatching metas)."""
    rng = random.Random(ck.seed * 7919 + sum(map(ord, ck.pid)))
    fails, coq_cases, meta = [], [], []
    line_cases, line_meta = [], []
    glue_cases, glue_meta = [], []
    stats = {'overflowing_waveforms': 0, 'waveforms': 0, 'finite_transitions': 0}
    for i in range(n):
        kw = dict(gen_kw or {})
        if stress_every and i % stress_every == stress_every - 1:
            kw.update(stress_kw(rng))
            kw.update(stress_over or {})
            ck.count(0, 'glitch-stress')
        k = gen_wave_case(rng, **kw)
        try:
            w = run_case(k)
        except Exception:
            fails.append((describe(k), 'raises ' + traceback.format_exc()[-400:]))
            continue
        ck.count(k.sims, f'delays={k.style}')
        ck.count(0, f'caps={"vec" if isinstance(k.caps, list) else k.caps}')
        ck.nontrivial((len(k.c.nodes), len(k.c.lines), k.style, str(k.caps)[:20], k.reuse))
        cm = np.asarray(w.c)
        stats['overflowing_waveforms'] += int((cm == wc.TMAX_OVL).sum())
        stats['finite_transitions'] += int(((cm > wc.TMIN) & (cm < wc.TMAX)).sum())
        try:
            what = oracle(k, w)
        except Exception:
            what = 'oracle raised ' + traceback.format_exc()[-400:]
        if what:
            fails.append((describe(k), what))
        if i % 3 == 1:
            # the same round on a simulator object that has already simulated another batch
            wr = warm_round(rng, k)
            # half of these rounds restricted to the first j lanes (c_prop(sims=j)): those lanes must still get their results
            j = rng.randint(1, k.sims) if (k.sims > 1 and rng.random() < 0.5) else None
            try:
                what = same_as_fresh(k, w, run_case(k, warm=wr, prop_sims=j), lanes=j)
            except Exception:
                what = 'raises on a used simulator ' + traceback.format_exc()[-400:]
            ck.count(k.sims, 'used-simulator rounds' + (' (first lanes only)' if j else ''))
            if what:
                d = describe(k)
                d['warm_round'] = {'s0': wr[0].tolist(), 's1': wr[1].tolist(), 's2': wr[2].tolist(), 'extra': [[p, l, wf] for (p, l), wf in wr[3].items()], 'first_lanes': j}
                fails.append((d, 'simulator reuse' + (f', c_prop(sims={j})' if j else '') + ': ' + what))
        if i % 5 == 2 and k.extra:
            # re-propagation after waveforms were rewritten directly in the simulator's memory (no s_to_c in between): the first propagation
            # uses the directly written waveforms shifted by +7 (same positions, same shapes), the second the waveforms proper
            pre = {key: [(t + 7 if not isinstance(t, str) else t) for t in wf] for key, wf in k.extra.items()}
            try:
                what = same_as_fresh(k, w, run_case(k, pre_extra=pre))
            except Exception:
                what = 'raises ' + traceback.format_exc()[-400:]
            ck.count(k.sims, 're-propagation after direct waveform writes')
            if what:
                fails.append((dict(describe(k), pre_extra=[[p, l, wf] for (p, l), wf in pre.items()]),
                              'second c_prop after rewriting input waveforms in memory (no s_to_c in between): ' + what))
        if i % 5 == 4:
            # the same round on simulators that went through a pickle round trip / a deep copy after assignment (CPU and GPU-kernel class):
            # the property's oracle must hold for them and their results must equal the original's
            for cuda, how in ((True, 'pickle'), (False, 'deepcopy'), (True, 'deepcopy')):
                try:
                    w2 = run_case(k, cuda=cuda, repickle=how)
                    what = oracle(k, w2)
                    if not what and not np.array_equal(np.asarray(w2.s)[3:11], np.asarray(w.s)[3:11], equal_nan=True):
                        what = 'capture results differ from those of the original simulator'
                except Exception:
                    what = 'raises ' + traceback.format_exc()[-400:]
                ck.count(k.sims, 'copied / unpickled simulators')
                if what:
                    fails.append((dict(describe(k), copied_simulator=[cuda, how]), f'{"WaveSimCuda" if cuda else "WaveSim"} after {how}: ' + what))
                    break
        if i % coq_every == 0:
            for lane in range(min(coq_lanes, k.sims)):
                coq_cases.append(wc.coq_case(k.c, k.caps, k.reuse, k.strip, k.delays, w, lane, k.s0, k.s1, k.s2, k.extra, k.tcap, a_ctrl=k.a_ctrl))
                meta.append(describe(k))
                if line_level and not k.strip:
                    line_cases.append(wc.coq_line_case(k.c, k.caps, k.reuse, k.strip, k.delays, w, lane, k.s0, k.s1, k.s2, k.extra))
                    line_meta.append(describe(k))
                if glue:
                    glue_cases.append(wc.coq_glue_case(k.c, k.caps, k.strip, k.delays, w, lane, k.s0, k.s1, k.s2, k.extra, k.tcap, a_ctrl=k.a_ctrl))
                    glue_meta.append(describe(k))
        if i < 2:
            ck.sample({'nodes': len(k.c.nodes), 'lines': len(k.c.lines), 'delay_style': k.style, 'c_caps': str(k.caps)[:40],
                       'sims': k.sims, 'c_reuse': k.reuse, 'capture_time': k.tcap,
                       'direct_waveforms': [wf for wf in list(k.extra.values())[:2]]})
    for kk, v in stats.items():
        ck.dist[kk] = ck.dist.get(kk, 0) + v
    chunks = [coq_cases[i:i + 12] for i in range(0, len(coq_cases), 12)]
    outs = ck.coq_eval_many('ws', [wc.cases_file(ch) for ch in chunks], jobs=12)
    mism, allok = [], True
    for ci, (ok, out) in enumerate(outs):
        idx = cg.parse_nat_list(out) if ok else None
        if idx is None:
            allok = False
            ck.obligation('model evaluation (WaveSim) ran', False, 'correspondence', out[-800:])
            continue
        mism += [ci * 12 + j for j in idx]
    ck.obligation(f'Coq model (SimOps.build + _wave_eval + capture, extended-integer time) = {label} on {len(coq_cases)} lanes: '
                  'whole waveform memory, abuf, s[3..10]', allok and not mism, 'correspondence', f'failing cases {mism[:10]}')
    ck.trust('modelled, not verified: wave_sim._wave_eval, wave_capture_cpu, WaveSim.s_to_c/c_prop/c_to_s (Model/WaveEval.v, '
             'Model/WaveSimModel.v; exact comparison of the whole waveform memory on generated circuits)',
             'IEEE float32/float64 arithmetic of the pure-Python kernels is exact on the integer grid |t| < 2^24 and the sentinels '
             '-2^127, 2^127, 1.1*2^127 absorb finite delays (extended-integer model of time); off-grid rounding is not modelled')
    line_mism = line_level_eval(ck, line_cases, line_meta) if line_level else []
    glue_mism = glue_level_eval(ck, glue_cases, glue_meta) if glue else []
    return fails, [meta[j] for j in mism] + line_mism + glue_mism


def glue_level_eval(ck, glue_cases, glue_meta, tag='wg'):
    """Evaluates wglue_case (Proofs/WaveSimGlue.v): the hypotheses of wavesim_model_correct per case, and inside the proved domain the
    theorem's prediction against what the implementation captured / accumulated.  Returns the metas of disagreeing cases."""
    chunks = [glue_cases[i:i + 12] for i in range(0, len(glue_cases), 12)]
    outs = ck.coq_eval_many(tag, [wc.glue_cases_file(ch) for ch in chunks], jobs=12)
    codes_of, allok = {}, True
    for ci, (ok, out) in enumerate(outs):
        codes = cg.parse_nat_list(out) if ok else None
        if codes is None:
            allok = False
            ck.obligation('evaluation of the end-to-end statement (wglue_case) ran', False, 'correspondence', out[-800:])
            continue
        for code in codes:
            codes_of[ci * 12 + code // 32] = code % 32
    outside = [i for i, code in codes_of.items() if code & 1]
    inside = [i for i in range(len(glue_cases)) if i not in outside]
    ck.count(len(inside), 'end-to-end-inside-proved-domain')
    ck.count(len(outside), 'end-to-end-outside-proved-domain')
    for i in inside:
        m = glue_meta[i]
        ck.count(1, f'end-to-end-domain c_reuse={m["c_reuse"]} strip_forks={m["strip_forks"]}')
    bad = {i: code for i, code in codes_of.items() if code & 30}
    ns = sum(1 for i in inside if glue_meta[i]['strip_forks'])
    nr = sum(1 for i in inside if glue_meta[i]['c_reuse'])
    for j in (1, 2, 3, 4):
        hit = [i for i, code in bad.items() if code >> j & 1]
        ck.obligation(f'{wc.GLUE_CHECKS[j]}: {len(inside)} lanes inside the proved domain ({nr} with c_reuse, {ns} with strip_forks; '
                      f'{len(outside)} outside)', allok and not hit, 'correspondence', f'failing cases {hit[:10]}')
    out = []
    for i in sorted(bad):
        m = dict(glue_meta[i])
        m['glue_failed'] = [wc.GLUE_CHECKS[j] for j in (1, 2, 3, 4) if bad[i] >> j & 1]
        out.append(m)
    return out


def line_level_eval(ck, line_cases, line_meta):
    """Evaluates the line-level semantics (wexec, wacc, regions_ok_b) on the rendered cases; returns the metas of disagreeing cases."""
    chunks = [line_cases[i:i + 12] for i in range(0, len(line_cases), 12)]
    outs = ck.coq_eval_many('wl', [wc.line_cases_file(ch) for ch in chunks], jobs=12)
    bad, allok = {}, True
    for ci, (ok, out) in enumerate(outs):
        codes = cg.parse_nat_list(out) if ok else None
        if codes is None:
            allok = False
            ck.obligation('line-level evaluation (wexec / wacc) ran', False, 'correspondence', out[-800:])
            continue
        for code in codes:
            bad[ci * 12 + code // 32] = code % 32
    nre = sum(1 for m in line_meta if not m['c_reuse'])
    for j, what in enumerate(wc.LINE_CHECKS):
        hit = [i for i, code in bad.items() if code >> j & 1]
        ck.obligation(f'{what}: {nre if j in (2, 3) else len(line_cases)} lanes', allok and not hit, 'correspondence', f'failing cases {hit[:10]}')
    ck.trust('line-level semantics (Model/WaveOps.v wexec, Model/WaveAcc.v wacc / ovf_reach) is tied to the code by evaluation on the '
             'memory the implementation produced (every tracked region, abuf) and by C03_flat_refines + regions_ok_b per case')
    out = []
    for i in sorted(bad):
        m = dict(line_meta[i])
        m['line_level_failed'] = [wc.LINE_CHECKS[j] for j in range(len(wc.LINE_CHECKS)) if bad[i] >> j & 1]
        out.append(m)
    return out


def report(ck, fails, mism, prefix, component):
    for desc, what in fails[:5]:
        ck.fail(f'{prefix}', f'{component}: ' + what, {'component': component, 'input': desc, 'actual': what})
    if not fails:
        for m in mism[:3]:
            if 'glue_failed' in m:
                ck.fail('end-to-end-disagrees', 'the proved end-to-end statement (wavesim_model_correct) and the implementation disagree: ' + '; '.join(m['glue_failed']),
                        {'component': 'wave_sim.WaveSim / sim.SimOps (memory map, capture)', 'input': m, 'broken': ['correspondence end to end (wglue_case)']},
                        found_input=False)
                continue
            if 'line_level_failed' in m:
                ck.fail('line-level-disagrees', 'line-level semantics and implementation disagree: ' + '; '.join(m['line_level_failed']),
                        {'component': 'Model/WaveOps.v, Model/WaveAcc.v', 'input': m, 'broken': ['correspondence line level (wexec / wacc)']},
                        found_input=False)
                continue
            ck.fail('model-disagrees', 'Coq model and implementation disagree', {'component': 'Model/WaveSimModel.v', 'input': m,
                                                                                 'broken': ['correspondence WaveSim']}, found_input=False)


def regen_kernel(ck):
    """Tie T for the timing kernels: regenerates Gen/WaveEvalSrc.v from the CURRENT text of wave_sim.py (translate/gen_wave_eval.py,
    a fail-closed `ast` translator).  The theorems *_kernel_source_is_model / *_source_* are proved about the generated file, so a
    change of the kernel's text either still proves or breaks the obligation."""
    from vcheck import gen_all
    res = gen_all.generate(['WaveEvalSrc'])
    ck.obligation('translate wave_sim._wave_eval / wave_capture_cpu / wave_capture_gpu -> Gen/WaveEvalSrc.v', res['WaveEvalSrc'] is None,
                  'translation', res['WaveEvalSrc'] or '')
    ck.trust('translator translate/gen_wave_eval.py (syntax-directed, whitelisted statement / expression forms, definite-assignment and '
             'type check; every cbuf / c access must be in the column of the kernel\'s own lane variable) and the meaning of its primitives '
             '(Model/WaveSrcPrelude.v: region-wise memory, extended-integer time); the hand-written model stays tied by correspondence as well')
    return res['WaveEvalSrc'] is None


def regen_drivers(ck):
    """Tie T for the DRIVER code of the timing simulator: regenerates Gen/WaveDriversSrc.v from the CURRENT text of wave_sim.py / sim.py
    (translate/gen_wave_drivers.py): GPU kernels and the CPU loop nest statement by statement, the vectorised numpy statements of the
    CPU methods as pinned syntax trees.  The theorems *_driver_* / C06_assign_* / C06_accumulate_* / C06_capture_writeback_* /
    C06_state_transfer_* are proved about the generated file."""
    from vcheck import gen_all
    res = gen_all.generate(['WaveDriversSrc'])
    ck.obligation('translate wave_assign_gpu / ppo_to_ppi_gpu / wave_eval_gpu / level_eval_cpu / wave_capture_gpu write-back + pinned CPU '
                  'driver statements -> Gen/WaveDriversSrc.v', res['WaveDriversSrc'] is None, 'translation', res['WaveDriversSrc'] or '')
    ck.trust('translator translate/gen_wave_drivers.py (per-instance semantics on one lane; every c / s / abuf / simctl_int access must be in '
             'the column of the kernel\'s own lane variable) and the meaning of its primitives and of the pinned numpy statements '
             '(Model/WaveDrvPrelude.v: numpy indexing, fancy-index stores, the call of the merge kernel on the regions of one op)')
    return res['WaveDriversSrc'] is None
