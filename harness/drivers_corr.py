"""Correspondence for the DRIVER semantics of the timing simulator (Model/WaveDrvPrelude.v + Gen/WaveDriversSrc.v): the real methods
WaveSim.s_to_c / s_ppo_to_ppi / c_to_s (called unbound on a stub object that holds exactly the attributes they read) and the real GPU
kernels wave_assign_gpu / ppo_to_ppi_gpu / wave_capture_gpu (run through the real MockCuda launcher) are executed on small generated
arrays; per lane, the Coq functions (pinned per-element meaning of the CPU statements; translated kernel instances folded over the
positions) must produce exactly the columns the implementation produced.  This validates the TRUSTED vocabulary (numpy indexing,
fancy-index stores, float <-> extended-integer time) on every run; the generated cases include positions without slots, primary
positions with both slots (finding D37: the twins differ there, each side is still compared with its own Coq function), negative
locations."""
import numpy as np

from harness import circgen as cg


def coq_time(x):
    from kyupy.wave_sim import TMIN, TMAX, TMAX_OVL
    x = np.float32(x)
    if x == TMIN: return 'MinInf'
    if x == TMAX: return 'MaxInf'
    if x == TMAX_OVL: return 'MaxOvl'
    assert float(x) == int(x), x
    v = int(x)
    return f'(Fin ({v}))' if v < 0 else f'(Fin {v})'


def lane_lit(c, s, lane):
    cc = cg.coq_list(c[:, lane], coq_time)
    ss = cg.coq_list(range(s.shape[0]), lambda k: cg.coq_list(s[k, :, lane], coq_time))
    return f'(mk_lane {cc} {ss} [0%Z] 0%Z 0%Z)'


class Stub:
    pass


def gen_case(rng):
    from kyupy.wave_sim import TMIN, TMAX, TMAX_OVL
    from translate import gen_wave_drivers as gd
    s_len = rng.randint(1, 4)
    n_io = rng.randint(0, s_len)
    sims = rng.randint(1, 3)
    ppi = [(-1 if rng.random() < 0.3 else 12 + 4 * i) for i in range(s_len)]
    ppo = [(-1 if rng.random() < 0.3 else rng.choice([0, 4, 8])) for i in range(s_len)]
    c_locs = np.array([0, 4, 8] + ppi + ppo, dtype=np.int32)
    c_caps = np.array([4, 4, 4] + [4 if p >= 0 else 0 for p in ppi] + [4 if p >= 0 else 0 for p in ppo], dtype=np.int32)
    c_len = 12 + 4 * s_len
    c = np.zeros((c_len, sims), dtype=np.float32) + TMAX
    for loc in (0, 4, 8):
        for l in range(sims):
            w = sorted(rng.sample(range(1, 12), rng.randint(0, 3)))
            w = ([TMIN] if rng.random() < 0.4 else []) + w
            w = (w + [TMAX_OVL if rng.random() < 0.2 else TMAX] + [TMAX] * 4)[:4]
            c[loc:loc + 4, l] = w
    s = np.zeros((11, s_len, sims), dtype=np.float32)
    for y in range(s_len):
        for l in range(sims):
            s[0, y, l] = rng.choice([0, 1, 1, 2])
            s[2, y, l] = rng.choice([0, 1])
            s[1, y, l] = rng.randint(0, 9)
            for k in range(3, 11):
                s[k, y, l] = rng.randint(0, 3)
    st = Stub()
    st.circuit = Stub()
    st.circuit.io_nodes = [None] * n_io
    st.s_len, st.sims, st.c_locs, st.c_caps = s_len, sims, c_locs, c_caps
    st.ppi_offset, st.ppo_offset = 3, 3 + s_len
    exec(gd.PIN_SIMOPS, {'np': np, 'self': st})    # the index lists exactly as the pinned statements of SimOps.__init__ compute them
    return st, c, s, rng.randint(0, 12), rng.randint(0, 9)


def run_case(st, c, s, tcap, ttime):
    """-> dict of (c, s) after each driver, CPU and GPU"""
    from kyupy import wave_sim as ws
    import kyupy
    out = {}
    blk = (32, 16)
    grid = (kyupy.cdiv(st.sims, blk[0]), kyupy.cdiv(st.s_len, blk[1]))

    def fresh():
        st.c, st.s = c.copy(), s.copy()
    fresh(); ws.WaveSim.s_to_c(st); out['assign_cpu'] = (st.c, st.s)
    fresh(); ws.wave_assign_gpu[grid, blk](st.c, st.s, st.c_locs, st.ppi_offset); out['assign_gpu'] = (st.c, st.s)
    fresh(); ws.WaveSim.s_ppo_to_ppi(st, time=np.float32(ttime)); out['ppo_cpu'] = (st.c, st.s)
    fresh(); ws.ppo_to_ppi_gpu[grid, blk](st.s, st.c_locs, np.float32(ttime), st.ppi_offset, st.ppo_offset); out['ppo_gpu'] = (st.c, st.s)
    fresh(); ws.WaveSim.c_to_s(st, time=np.float32(tcap)); out['capt_cpu'] = (st.c, st.s)
    fresh(); ws.wave_capture_gpu[grid, blk](st.c, st.s, st.c_locs, st.c_caps, st.ppo_offset, np.float32(tcap), 0.0, 1); out['capt_gpu'] = (st.c, st.s)
    return out


HEADER = '''From Coq Require Import List ZArith NArith Bool Arith.
From KV Require Import Model.Time Model.WaveEval Model.WaveSrcPrelude Model.WaveDrvPrelude Gen.WaveEvalSrc Gen.WaveDriversSrc.
Import ListNotations.
Local Open Scope list_scope.
Fixpoint tl_eqb (a b : list time) : bool := match a, b with [], [] => true | x :: a', y :: b' => teqb x y && tl_eqb a' b' | _, _ => false end.
Fixpoint tll_eqb (a b : list (list time)) : bool := match a, b with [], [] => true | x :: a', y :: b' => tl_eqb x y && tll_eqb a' b' | _, _ => false end.
Definition lane_eqb (a b : lane) : bool := tl_eqb (l_c a) (l_c b) && tll_eqb (l_s a) (l_s b).
Definition poppo (locs : list Z) (ppo : Z) (n_io s_len : nat) := slot_s_locs locs ppo n_io s_len.
'''


def run(ck, rng, n=40):
    cases, descs, fails = [], [], []
    ndiff = 0
    for i in range(n):
        st, c, s, tcap, ttime = gen_case(rng)
        try:
            out = run_case(st, c, s, tcap, ttime)
        except Exception as e:   # an implementation that raises on these arrays is a failure of the case
            fails.append(('drivers:raises', f'driver code raises on generated arrays: {e!r}', {'component': 'wave_sim driver methods / kernels'}))
            continue
        locs = cg.coq_list(st.c_locs, cg.coq_Z)
        caps = cg.coq_list(st.c_caps, cg.coq_Z)
        n_io, s_len, sims = len(st.circuit.io_nodes), st.s_len, st.sims
        ppi, ppo = cg.coq_Z(st.ppi_offset), cg.coq_Z(st.ppo_offset)
        zs, zn = cg.coq_Z(st.s_len), cg.coq_Z(st.sims)
        if not all(np.array_equal(out[a + '_cpu'][k], out[a + '_gpu'][k]) for a in ('assign', 'ppo', 'capt') for k in (0, 1)):
            ndiff += 1
        for lane in range(sims):
            L = lane_lit(c, s, lane)
            after = {k: lane_lit(v[0], v[1], lane) for k, v in out.items()}
            ys = f'(seq 0 {s_len})'
            zl = cg.coq_Z(lane)
            cases += [
                f'lane_eqb (s_to_c_cpu {locs} {ppi} {n_io} {s_len} {L}) {after["assign_cpu"]}',
                f'lane_eqb (fold_left (fun L y => WaveAssignGpuSrc.inst_src {locs} {ppi} {zs} {zn} {zl} (Z.of_nat y) L) {ys} {L}) {after["assign_gpu"]}',
                f'lane_eqb (s_ppo_to_ppi_cpu {locs} {ppi} {ppo} {n_io} {s_len} (Fin {ttime}) {L}) {after["ppo_cpu"]}',
                f'lane_eqb (fold_left (fun L y => PpoToPpiGpuSrc.inst_src {locs} (Fin {ttime}) {ppi} {ppo} {zs} {zn} {zl} (Z.of_nat y) L) {ys} {L}) {after["ppo_gpu"]}',
                f'lane_eqb (fold_left (fun L y => c_to_s_cpu_inst WaveCaptureCpuSrc.capture_src {locs} {caps} {ppo} (Fin {tcap}) y L) (poppo {locs} {ppo} {n_io} {s_len}) {L}) {after["capt_cpu"]}',
                f'lane_eqb (fold_left (fun L y => WaveCaptureGpuDrvSrc.inst_src {locs} {caps} (Fin {tcap}) {ppo} {zn} {zl} (Z.of_nat y) L) {ys} {L}) {after["capt_gpu"]}',
            ]
            descs += [{'driver': d, 'lane': lane, 'c_locs': st.c_locs.tolist(), 'n_io': n_io, 's_len': s_len, 'sims': sims}
                      for d in ('WaveSim.s_to_c', 'wave_assign_gpu', 'WaveSim.s_ppo_to_ppi', 'ppo_to_ppi_gpu', 'WaveSim.c_to_s', 'wave_capture_gpu')]
            ck.count(6, 'driver semantics: (driver, lane) pairs')
        ck.nontrivial(('drv', i))
    ck.dist['driver cases where CPU and GPU twins differ (primary position with both slots, D37)'] = ndiff
    text = HEADER + 'Definition cases : list bool := [\n  ' + ';\n  '.join(cases) + '].\n' \
        'Eval vm_compute in (map fst (filter (fun p => negb (snd p)) (combine (seq 0 (List.length cases)) cases))).\n'
    ok, outp = ck.coq_eval('drivers', text)
    bad = cg.parse_nat_list(outp) if ok else None
    ck.obligation('Model/WaveDrvPrelude.v + Gen/WaveDriversSrc.v (per-lane meaning of WaveSim.s_to_c / s_ppo_to_ppi / c_to_s and of the kernels '
                  'wave_assign_gpu / ppo_to_ppi_gpu / wave_capture_gpu) = the implementation on generated arrays',
                  ok and bad == [], 'correspondence', '' if ok and bad == [] else (outp[-600:] if not ok else f'cases {bad[:10]} differ: {descs[bad[0]]}'))
    if ok and bad:
        fails.append(('drivers:semantics', f'driver semantics and implementation disagree: {descs[bad[0]]}',
                      {'component': 'Model/WaveDrvPrelude.v vs wave_sim driver code', 'input': descs[bad[0]]}))
    return fails
