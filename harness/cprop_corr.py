"""Correspondence for the WHOLE propagation of the timing simulator (Proofs/WaveCProp.v [cpu_c_prop] / [gpu_c_prop] / [level_ranges]): the real
WaveSim.c_prop and WaveSimCuda.c_prop (through the real MockCuda launcher) are run on small generated circuits -- several lanes,
restricted to the first k lanes, one or two delay datasets with per-lane selection modes 0 / 1, accumulation tables, strip_forks /
c_reuse drawn at random -- and the Coq compositions of the TRANSLATED kernel instances (Gen/WaveDriversSrc.v) over the translated
launcher's thread sequence (Gen/LaunchSrc.v) resp. over the loop nest of level_eval_cpu, level by level over the simulator's own
(level_starts, level_stops), must leave every lane's waveform memory and accumulators exactly as the implementation did.  This ties the
definitions that C06_c_prop_cpu_gpu_same_source_model / C06_c_prop_build_is_model speak about to the two c_prop methods."""
import contextlib
import io
import numpy as np

from harness import circgen as cg, wavesim_corr as wc, wavecheck as wk

HEADER = '''From Coq Require Import List ZArith NArith Bool Arith.
From KV Require Import Model.Time Model.WaveEval Model.WaveSrcPrelude Model.WaveDrvPrelude Model.LaunchSrcLib Gen.WaveEvalSrc Gen.WaveDriversSrc Proofs.WaveCProp.
Import ListNotations.
Local Open Scope list_scope.
Fixpoint tl_eqb (a b : list time) : bool := match a, b with [], [] => true | x :: a', y :: b' => teqb x y && tl_eqb a' b' | _, _ => false end.
Fixpoint zl_eqb (a b : list Z) : bool := match a, b with [], [] => true | x :: a', y :: b' => Z.eqb x y && zl_eqb a' b' | _, _ => false end.
Definition olane_eqb (a : option lane) (b : lane) : bool :=
  match a with Some L => tl_eqb (l_c L) (l_c b) && zl_eqb (l_abuf L) (l_abuf b) | None => false end.
Fixpoint lanes_eqb (a : list (option lane)) (b : list lane) : bool :=
  match a, b with [], [] => true | x :: a', y :: b' => olane_eqb x y && lanes_eqb a' b' | _, _ => false end.
Fixpoint pairs_eqb (a b : list (nat * nat)) : bool :=
  match a, b with [], [] => true | (x1, x2) :: a', (y1, y2) :: b' => Nat.eqb x1 y1 && Nat.eqb x2 y2 && pairs_eqb a' b' | _, _ => false end.
Definition cprop_case (T : list (list Z)) (locs caps : list Z) (D : list (list dtab)) (seed : Z) (k : nat) (starts : list nat)
           (lv : list (nat * nat)) (st : list lane) (exp_cpu exp_gpu : list lane) : bool :=
  pairs_eqb (level_ranges starts (List.length T)) lv &&
  lanes_eqb (cpu_c_prop T locs caps D seed k lv (map Some st)) exp_cpu &&
  lanes_eqb (gpu_c_prop T locs caps D seed k lv (map Some st) (0, 0)) exp_gpu.
'''


def lane_lit(c, abuf, ctl, lane):
    cc = cg.coq_list([wc.tval(x) for x in c[:, lane]], wc.coq_time)
    ab = cg.coq_list([int(x) for x in abuf[:, lane]] if abuf.shape[1] > lane else [0], cg.coq_Z)
    return f'(mk_lane {cc} [] {ab} {cg.coq_Z(int(ctl[0, lane]))} {cg.coq_Z(int(ctl[1, lane]))})'


def prepare(cls, k, dsets, ctl):
    with contextlib.redirect_stdout(io.StringIO()):
        w = cls(k.c, dsets, sims=k.sims, c_caps=k.caps, a_ctrl=k.a_ctrl, c_reuse=k.reuse, strip_forks=k.strip)
        w.simctl_int[...] = ctl
        w.s[0], w.s[1], w.s[2] = k.s0, k.s1, k.s2
        w.s_to_c()
        for (p, lane), wf in k.extra.items():
            loc = w.c_locs[w.ppi_offset + p]
            if loc >= 0:
                for j, t in enumerate(wf):
                    w.c[loc + j, lane] = wc.to_f32(t)
    return w


def snapshot(w):
    ab = np.array(w.abuf).copy()
    if w.abuf_len <= 0:
        ab = np.zeros((1, w.sims), dtype=np.int32)
    return np.array(w.c).copy(), ab


def run(ck, rng, n=10):
    from kyupy import wave_sim
    cases, descs, fails = [], [], []
    for i in range(n):
        k = wk.gen_wave_case(rng, n_gates=rng.choice([2, 3, 4, 6]), seq=rng.random() < 0.3, allow_unconnected=False, allow_dangling=rng.random() < 0.3,
                             strip_prob=0.4, with_actrl=True, sims=rng.choice([1, 2, 3]), capmode=rng.choice(['4', '8', 'vec']), tmax=12)
        nds = rng.choice([1, 1, 2])
        dsets = np.stack([k.delays] + [wc.gen_delays(rng, len(k.c.lines), 'full')[0] for _ in range(nds - 1)])
        ctl = np.array([[rng.randrange(nds) for _ in range(k.sims)], [rng.randint(0, 1) for _ in range(k.sims)]], dtype=np.int32)
        seed = rng.randrange(nds)
        kk = rng.randint(1, k.sims)
        d = dict(wk.describe(k), datasets=dsets.tolist(), simctl=ctl.tolist(), seed=seed, first_lanes=kk)
        try:
            wcpu, wgpu = prepare(wave_sim.WaveSim, k, dsets, ctl), prepare(wave_sim.WaveSimCuda, k, dsets, ctl)
            c0, ab0 = snapshot(wcpu)
            with contextlib.redirect_stdout(io.StringIO()):
                wcpu.c_prop(sims=kk, seed=seed)
                wgpu.c_prop(sims=kk, seed=seed)
            (c1, ab1), (c2, ab2) = snapshot(wcpu), snapshot(wgpu)
        except Exception as e:   # an implementation that raises on a generated configuration is a failure of the case
            fails.append(('cprop:raises', f'c_prop raises on a generated configuration: {e!r}', {'component': 'wave_sim.WaveSim / WaveSimCuda c_prop', 'input': d}))
            continue
        ops = np.asarray(wcpu.ops)
        T = cg.coq_list(ops.tolist(), lambda r: cg.coq_list(r, cg.coq_Z))
        locs, caps = cg.coq_list(np.asarray(wcpu.c_locs).tolist(), cg.coq_Z), cg.coq_list(np.asarray(wcpu.c_caps).tolist(), cg.coq_Z)
        D = cg.coq_list(list(np.asarray(wcpu.delays)), lambda ds: cg.coq_list(list(ds), wc.coq_dtab))
        starts = cg.coq_list([int(x) for x in wcpu.level_starts], str)
        lv = cg.coq_list(list(zip(wcpu.level_starts, wcpu.level_stops)), lambda p: f'({int(p[0])}, {int(p[1])})')
        ctl_now = np.asarray(wcpu.simctl_int)
        st = cg.coq_list(range(k.sims), lambda l: lane_lit(c0, ab0, ctl_now, l))
        e1 = cg.coq_list(range(k.sims), lambda l: lane_lit(c1, ab1, ctl_now, l))
        e2 = cg.coq_list(range(k.sims), lambda l: lane_lit(c2, ab2, ctl_now, l))
        cases.append(f'cprop_case {T} {locs} {caps} {D} {cg.coq_Z(seed)} {kk} {starts} {lv} {st} {e1} {e2}')
        descs.append(d)
        ck.count(k.sims, 'whole c_prop, CPU and GPU path: lanes compared (memory and accumulators)')
        ck.count(1, f'whole c_prop: datasets={nds} strip_forks={k.strip} c_reuse={k.reuse} first_lanes<{k.sims}={kk < k.sims}')
        ck.nontrivial(('cprop', i))
    text = HEADER + 'Definition cases : list bool := [\n  ' + ';\n  '.join(cases) + '].\n' \
        'Eval vm_compute in (map fst (filter (fun p => negb (snd p)) (combine (seq 0 (List.length cases)) cases))).\n'
    ok, outp = ck.coq_eval('cprop', text)
    bad = cg.parse_nat_list(outp) if ok else None
    ck.obligation('Proofs/WaveCProp.v cpu_c_prop / gpu_c_prop (translated level_eval_cpu loop nest resp. wave_eval_gpu over the translated launcher, level by '
                  'level over level_ranges) = WaveSim.c_prop / WaveSimCuda.c_prop on generated circuits (every lane: waveform memory and accumulators; '
                  'propagation restricted to the first k lanes; 1..2 delay datasets, modes 0 / 1)',
                  ok and bad == [], 'correspondence', '' if ok and bad == [] else (outp[-600:] if not ok else f'cases {bad[:10]} differ'))
    if ok and bad:
        fails.append(('cprop:semantics', 'whole-propagation semantics (cpu_c_prop / gpu_c_prop) and implementation disagree',
                      {'component': 'Proofs/WaveCProp.v vs wave_sim.WaveSim.c_prop / WaveSimCuda.c_prop', 'input': descs[bad[0]]}))
    return fails
