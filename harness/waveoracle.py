"""Independent oracles for the timing simulator (C03, C04, C05, C13): they look only at the waveforms and
capture results the implementation produced and at the circuit / delay annotation -- not at the model."""
import numpy as np
from harness import oracle_net as on
from harness.wavesim_corr import TMIN, TMAX, TMAX_OVL


def waveform(w, idx, lane):
    """entries of signal idx up to (excluding) the terminator, and the terminator"""
    loc, cap = int(np.asarray(w.c_locs)[idx]), int(np.asarray(w.c_caps)[idx])
    if loc < 0:
        return None, None
    col = np.asarray(w.c)[loc:loc + cap, lane]
    body = []
    for t in col:
        if t >= TMAX:
            return body, t
        body.append(float(t))
    return body, None


def stim_values(s0, s2, extra, slen, lane):
    """initial / final 0-1 value of every s_node position for one lane, honouring directly written waveforms"""
    ini = [int(s0[p, lane] != 0) for p in range(slen)]
    fin = [int(s2[p, lane] != 0) for p in range(slen)]
    for (p, l), wf in extra.items():
        if l == lane:
            body = [t for t in wf if t not in ('MaxInf', 'MaxOvl')]
            ini[p] = int(len(body) > 0 and body[0] == 'MinInf')
            fin[p] = len(body) & 1
    return ini, fin


def stim_times(s0, s1, s2, extra, slen, lane):
    """finite transition times at every s_node position"""
    res = []
    for p in range(slen):
        if (p, lane) in extra:
            res.append([float(t) for t in extra[(p, lane)] if not isinstance(t, str)])
        else:
            res.append([float(s1[p, lane])] if (s0[p, lane] != 0) != (s2[p, lane] != 0) else [])
    return res


def check_settles(w, c, s0, s2, extra, lane, all_lines):
    """C03: every waveform starts at f(initial values) and ends (by parity) at f(final values); capture agrees."""
    slen = len(c.s_nodes)
    ini, fin = stim_values(s0, s2, extra, slen, lane)
    memo_i, cap_i = on.evaluate(c, ini, on.Alg2)
    memo_f, cap_f = on.evaluate(c, fin, on.Alg2)
    s = np.asarray(w.s)
    ppo = np.asarray(w.c_locs)[w.ppo_offset:w.ppo_offset + slen]
    mask = np.zeros(slen, dtype=bool)
    mask[np.asarray(w.poppo_s_locs)] = True
    for p in range(slen):
        if cap_i[p] is None or not mask[p] or ppo[p] < 0:
            continue
        body, term = waveform(w, w.ppo_offset + p, lane)
        if term is None:
            return f'position {p}: waveform has no terminator inside its capacity'
        wi, wf = int(len(body) > 0 and body[0] == TMIN), len(body) & 1
        if wi != cap_i[p]:
            return f'position {p}: waveform starts at {wi}, Boolean function of the initial input values is {cap_i[p]}'
        if wf != cap_f[p]:
            return f'position {p}: waveform ends (parity) at {wf}, Boolean function of the final input values is {cap_f[p]} (overflow={term == TMAX_OVL})'
        if int(s[3, p, lane]) != cap_i[p] or int(s[6, p, lane]) != cap_f[p]:
            return f'position {p}: captured initial/final {int(s[3, p, lane])}/{int(s[6, p, lane])}, expected {cap_i[p]}/{cap_f[p]}'
    if all_lines:
        for l in c.lines:
            if memo_i.get(l.index) is None:
                continue
            body, term = waveform(w, l.index, lane)
            if body is None:
                continue
            if term is None:
                return f'line {l.index}: no terminator inside its capacity'
            if int(len(body) > 0 and body[0] == TMIN) != memo_i[l.index] or (len(body) & 1) != memo_f[l.index]:
                return f'line {l.index}: waveform init/final {int(len(body) > 0 and body[0] == TMIN)}/{len(body) & 1}, expected {memo_i[l.index]}/{memo_f[l.index]}'
    return None


def sta_windows(c, delays, times, strip=False):
    """earliest/latest possible arrival per line by static timing analysis over the annotated netlist.
    delays: (nlines,2,2).  times: finite stimulus transition times per s_node position.  Returns {line: (lo, hi) or None}."""
    spos = {n.index: i for i, n in enumerate(c.s_nodes)}
    io_idx = set(n.index for n in c.io_nodes)
    memo = {}

    def win(l):
        if l.index in memo:
            return memo[l.index]
        n = l.driver
        memo[l.index] = None
        port_wire = n.index in io_idx and len(n.ins) > 0 and n.ins[0] is not None and not on.is_seq(n)
        if n.index in spos and not port_wire:
            ts = times[spos[n.index]]
            r = (min(ts), max(ts)) if ts else None
        else:
            lo, hi = None, None
            for il in n.ins:
                if il is None:
                    continue
                wv = win(il)
                if wv is None:
                    continue
                d = delays[il.index]
                if strip and n.kind == '__fork__':
                    d = np.zeros((2, 2))
                a, b = wv[0] + d.min(), wv[1] + d.max()
                lo = a if lo is None else min(lo, a)
                hi = b if hi is None else max(hi, b)
            r = None if lo is None else (lo, hi)
        memo[l.index] = r
        return r
    for l in c.lines:
        win(l)
    return memo


def check_sta(w, c, delays, times, lane, strip, all_lines, polfree):
    """C04: every finite transition lies inside the STA window; strictly increasing for polarity-free delays."""
    wins = sta_windows(c, delays, times, strip)
    idxs = [l.index for l in c.lines] if all_lines else []
    slen = len(c.s_nodes)
    s = np.asarray(w.s)
    checks = [(i, wins.get(i)) for i in idxs]
    for p, n in enumerate(c.s_nodes):
        if len(n.ins) > 0 and n.ins[0] is not None and np.asarray(w.c_locs)[w.ppo_offset + p] >= 0:
            checks.append((w.ppo_offset + p, wins.get(n.ins[0].index)))
    for idx, wn in checks:
        body, term = waveform(w, idx, lane)
        if body is None:
            continue
        fin = [t for t in body if t > TMIN]
        if fin and wn is None:
            return f'signal {idx}: transitions {fin[:4]} although no input transition can reach it'
        if fin and (min(fin) < wn[0] or max(fin) > wn[1]):
            return f'signal {idx}: transitions {fin[:6]} outside the static-timing window [{wn[0]}, {wn[1]}]'
        if polfree and any(body[i] >= body[i + 1] for i in range(len(body) - 1)):
            return f'signal {idx}: timestamps not strictly increasing with polarity-independent delays: {body[:8]}'
    for p, n in enumerate(c.s_nodes):
        if len(n.ins) > 0 and n.ins[0] is not None and np.asarray(w.c_locs)[w.ppo_offset + p] >= 0:
            wn = wins.get(n.ins[0].index)
            eat, lst = float(s[4, p, lane]), float(s[5, p, lane])
            if eat < TMAX and (wn is None or eat < wn[0]):
                return f'position {p}: earliest arrival {eat} before the earliest STA arrival {wn}'
            if lst > TMIN and (wn is None or lst > wn[1]):
                return f'position {p}: latest stabilisation {lst} after the latest STA arrival {wn}'
    return None


def check_capture(w, lane, tcap):
    """C13: s[3..10] summarise the waveform at every captured position."""
    s = np.asarray(w.s)
    mask = np.zeros(w.s_len, dtype=bool)
    mask[np.asarray(w.poppo_s_locs)] = True
    T = float(TMAX) if tcap is None else float(tcap)
    for p in range(w.s_len):
        if not mask[p] or np.asarray(w.c_locs)[w.ppo_offset + p] < 0:
            continue
        # the waveform a port / state element observes is the one of the LINE on its input pin; the output slot must be an exact alias
        # of it (location and capacity) -- the oracle reads the waveform through the line, not through the slot
        n = w.circuit.s_nodes[p]
        line = n.ins[0] if len(n.ins) > 0 else None
        idx = w.ppo_offset + p
        if line is not None and int(np.asarray(w.c_locs)[line.index]) >= 0:
            lo, ca = np.asarray(w.c_locs), np.asarray(w.c_caps)
            if int(lo[idx]) != int(lo[line.index]) or int(ca[idx]) != int(ca[line.index]):
                return (f'position {p}: output slot (location {int(lo[idx])}, capacity {int(ca[idx])}) is not an exact alias of the observed line '
                        f'{line.index} (location {int(lo[line.index])}, capacity {int(ca[line.index])})')
            idx = line.index
        body, term = waveform(w, idx, lane)
        if term is None:
            continue
        fin = [t for t in body if t > TMIN]
        exp = {3: int(len(body) > 0 and body[0] == TMIN), 4: min(fin) if fin else float(TMAX), 5: max(fin) if fin else float(TMIN),
               6: len(body) & 1, 8: len([t for t in body if t < T]) & 1, 10: int(term == TMAX_OVL)}
        exp[7] = exp[8]
        for k, v in exp.items():
            if float(s[k, p, lane]) != float(v):
                return f'position {p}: s[{k}] = {float(s[k, p, lane])}, the waveform {body[:8]} (terminator {"OVL" if term == TMAX_OVL else "MAX"}) encodes {v}'
    return None


def count_edges(body):
    v, r, f = 0, 0, 0
    for i, t in enumerate(body):
        if i == 0 and t == TMIN:
            v = 1
            continue
        if v: f += 1
        else: r += 1
        v ^= 1
    return r, f


def check_emit_sum(w, c, delays, lane, strip):
    """C04 (per gate): every finite time on an op's output is a finite time of one of ITS operands plus one of that operand
    line's four delays.  Needs intact intermediate waveforms (c_reuse off)."""
    ops = np.asarray(w.ops)
    nl = len(c.lines)
    for o in ops:
        out = int(o[1])
        if out >= nl:
            continue
        body, term = waveform(w, out, lane)
        if body is None:
            continue
        cands = set()
        for x in o[2:6]:
            x = int(x)
            ob, _ = waveform(w, x, lane)
            if ob is None:
                continue
            d = delays[x].flatten() if x < nl else np.zeros(4)
            for u in ob:
                if u > TMIN:
                    for dd in d:
                        cands.add(float(u + dd))
        for t in body:
            if t > TMIN and float(t) not in cands:
                return (f'line {out}: transition at {t} is not an operand transition plus one of that operand\'s delays '
                        f'(operands {[int(x) for x in o[2:6]]}, candidates {sorted(cands)[:8]})')
    return None
