"""TEXT-level correspondence for bench.py's grammar (C11) and TechLib.__init__ (C19).

The real lark parser (Lark(bench.GRAMMAR, parser='lalr', transformer=...)) is run with a recording subclass of
BenchTransformer: the sequence of interface / assignment callbacks with their NAME tokens is what the model's parse_bench
(Model/BenchText.v) must return; a lark exception is `None`.  bench.parse itself is run as well and its circuit compared with
bench_of_text.  TechLib(text) is run on generated library texts and its cells dictionary compared with tcells_of_text
(Model/TechLibText.v).  Everything is drawn from the random.Random passed in.

Domain of the models: code points < 256 (one Coq ascii per code point); the generators stay inside it."""
from harness.vlog_corr import quiet, clist, copt, BENCH_KINDS, bench_view

HEADER = '''From Coq Require Import List NArith Bool Arith String Ascii.
From KV Require Import Model.VerilogElab Model.Corr Model.BenchText Model.TechCell Model.TechLibText Gen.TechLibTexts.
Import ListNotations.
Local Open Scope list_scope.
Local Open Scope string_scope.
'''
KW = ('INPUT', 'input', 'OUTPUT', 'output')


def cases_file(cases):
    return HEADER + 'Definition results : list bool := [\n ' + ';\n '.join(cases) + '].\nEval vm_compute in (failing results).\n'


def cstr(s):
    """Coq term for an arbitrary string of code points < 256: printable ASCII, newline and tab inside literals, everything else
    (\\r, \\f, \\v, DEL, Latin-1 ..) as String (ascii_of_N k)"""
    segs, cur = [], ''
    for ch in s:
        o = ord(ch)
        assert o < 256, repr(s)
        if 32 <= o < 127 or ch in '\n\t':
            cur += ch
        else:
            if cur:
                segs.append('"' + cur.replace('"', '""') + '"'); cur = ''
            segs.append(f'(String (ascii_of_N {o}) "")')
    if cur or not segs:
        segs.append('"' + cur.replace('"', '""') + '"')
    return segs[0] if len(segs) == 1 else '(String.concat "" [' + '; '.join(segs) + '])'


def coq_stmts(stmts):
    def one(s):
        if s[0] == 'io':
            return f'BInterface {clist(s[-1], cstr)}'
        return f'BAssign {cstr(s[1])} {cstr(s[2])} {clist(s[3], cstr)}'
    return clist(stmts, one)


# ---- the real parser -----------------------------------------------------------------------------------------
def real_stmts(text):
    """-> (statement sequence the real transformer is called with | None, exception name)"""
    from kyupy import bench
    from lark import Lark
    from lark.exceptions import LarkError
    seen = []

    class Recorder(bench.BenchTransformer):
        def parameters(self, args): return [str(a) for a in args]
        def interface(self, args): seen.append(('io', list(args[0])))
        def assignment(self, args): seen.append(('as', str(args[0]), str(args[1]), list(args[2])))
    try:
        with quiet():
            Lark(bench.GRAMMAR, parser='lalr', transformer=Recorder('rec')).parse(text)
    except LarkError as e:
        return None, type(e).__name__
    return seen, None


def real_circuit(text):
    from kyupy import bench
    from lark.exceptions import LarkError
    try:
        with quiet():
            return bench_view(bench.parse(text)), None
    except (LarkError, AssertionError) as e:
        return None, type(e).__name__


# ---- generators --------------------------------------------------------------------------------------------------
POOL = ['a', 'b', 'c', 'd', 'z', 'y', 'w', 'n-1', '_t', '9', 'G10', 'g10', 'input', 'OUTPUT', 'Input', 'INPUTa', 'output1', '-',
        'x_y-z', 'AND', 'output', 'INPUT', '0-', 'Q']
COMMENTS = ['comment', 'z = and(a,b)', 'INPUT(q)', '', '#', ' \r', '\x0b;', 'caf\xe9 (', '\t=,)', '\x00\x7f']


def gen_stmts(rng, kw_lhs=False):
    pool = rng.sample(POOL, rng.randint(2, 9))
    stmts = []
    assigned = set()
    for _ in range(rng.randint(0, 8)):
        if rng.random() < 0.3:
            stmts.append(('io', rng.choice(KW), [rng.choice(pool) for _ in range(rng.randint(0, 3))]))
        else:
            z = rng.choice(pool)
            while (z in KW and not kw_lhs) or (z in assigned and rng.random() < 0.9):       # a second assignment to z: Node() asserts
                z = rng.choice(POOL)
            assigned.add(z)
            kind = rng.choice(BENCH_KINDS[:-1]) if rng.random() < 0.8 else rng.choice(pool)
            stmts.append(('as', z, kind, [rng.choice(pool) for _ in range(rng.randint(0 if rng.random() < 0.15 else 1, 4))]))
    return stmts


def tokens_of(stmts):
    toks = []
    for s in stmts:
        if s[0] == 'io':
            toks += [s[1], '(']
        else:
            toks += [s[1], '=', s[2], '(']
        for i, n in enumerate(s[-1]):
            toks += ([','] if i else []) + [n]
        toks.append(')')
    return toks


def is_word(t):
    return t not in ('(', ')', ',', '=')


def gen_sep(rng, need=False, rich=True):
    """ignored text (possibly empty unless need)"""
    st = rng.random()
    if st < (0.0 if need else 0.55):
        return ''
    out = ''
    for _ in range(1 if st < 0.85 else rng.randint(2, 4)):
        k = rng.random()
        if not rich or k < 0.45:
            out += ' '
        elif k < 0.55:
            out += '\t'
        elif k < 0.6:
            out += '\x0c'
        elif k < 0.75:
            out += '\n'
        elif k < 0.85:
            out += '\r\n'
        else:
            out += '#' + rng.choice(COMMENTS) + rng.choice(['\n', '\n', '\r\n'])
    return out


def render(toks, rng, rich=True):
    out = gen_sep(rng, rich=rich)
    for i, t in enumerate(toks):
        out += t
        nxt = toks[i + 1] if i + 1 < len(toks) else None
        out += gen_sep(rng, need=(nxt is not None and is_word(t) and is_word(nxt)), rich=rich)
    if rich and rng.random() < 0.15:
        out += '#' + rng.choice(COMMENTS)
    return out


MUT_CHARS = '(),=;#\r\x0b.\xe9 aZ-_0\n\x0c"\'[]{}:$\\\x85\xa0'


def mutate(text, toks, rng):
    """one small change that usually leaves the language"""
    st = rng.random()
    if st < 0.2 and text:
        i = rng.randrange(len(text))
        return text[:i] + text[i + 1:]
    if st < 0.45:
        i = rng.randint(0, len(text))
        return text[:i] + rng.choice(MUT_CHARS) + text[i:]
    if st < 0.6 and text:
        i = rng.randrange(len(text))
        return text[:i] + rng.choice(MUT_CHARS) + text[i + 1:]
    t2 = list(toks)
    if st < 0.7 and t2:
        i = rng.randrange(len(t2))
        t2.insert(i, t2[i])
    elif st < 0.8 and len(t2) > 1:
        i = rng.randrange(len(t2) - 1)
        t2[i], t2[i + 1] = t2[i + 1], t2[i]
    elif st < 0.9 and t2:
        del t2[rng.randrange(len(t2))]
    else:
        kws = [i for i, t in enumerate(t2) if t in KW]
        if kws:
            i = rng.choice(kws)
            t2[i] = rng.choice([t2[i].capitalize(), t2[i].swapcase(), t2[i] + 's', t2[i][:-1], t2[i].lower(), t2[i].upper()])
        else:
            t2 = ['input', '=', 'AND', '(', 'a', ')'] + t2
    return render(t2, rng)


def gen_text(rng):
    """-> (text, stream, ground truth statements or None if unknown)"""
    st = rng.random()
    if st < 0.5:
        stmts = gen_stmts(rng)
        return render(tokens_of(stmts), rng), 'rendered', stmts
    if st < 0.8:
        stmts = gen_stmts(rng, kw_lhs=rng.random() < 0.2)
        toks = tokens_of(stmts)
        return mutate(render(toks, rng), toks, rng), 'malformed', None
    toks = [rng.choice(['INPUT', 'input', 'OUTPUT', 'output', 'a', 'b', 'a', '(', ')', '(', ')', ',', '=', '=']) for _ in range(rng.randint(0, 9))]
    return render(toks, rng, rich=rng.random() < 0.5), 'soup', None


def norm(stmts):
    return [('io', s[-1]) if s[0] == 'io' else tuple(s) for s in stmts]


def text_case(rng):
    """-> (coq cases [parse, circuit], description, oracle failure or None)"""
    text, stream, truth = gen_text(rng)
    got, exc = real_stmts(text)
    view, exc2 = real_circuit(text)
    desc = {'kind': 'bench-text', 'stream': stream, 'text': text, 'raises': exc, 'raises_parse': exc2}
    fail = None
    if truth is not None and (got is None or norm(got) != norm(truth)):
        fail = (f'bench text rendered from {norm(truth)} (white space / comments between tokens) is read as {got if got is not None else exc}')
    if got is None and view is not None:
        fail = 'bench.parse accepts a text the recording transformer run rejects'
    cgot = copt(got, coq_stmts)
    cview = copt(view, lambda v: '(' + clist(v[0], lambda p: f'({cstr(p[0])}, {cstr(p[1])})') + ', ' +
                 clist(v[1], lambda q: f'({q[0]}, {q[1]}, {q[2]}, {q[3]})') + ', ' + clist(v[2]) + ')')
    t = cstr(text)
    return [f'btext_case {t} {cgot}', f'btext_circ_case {t} {cview}'], desc, fail


# the probes that determined the model (keyword vs NAME priority, empty parameter lists, '-' in names, comments at the end of the
# text, "\r\n", lone "\r", texts without statements, characters outside the grammar); checked on every run
CORNER_TEXTS = ['', ' ', '#c', '#c\n', 'INPUT(a)', 'input(a)', 'Input(a)', 'INput(a)', 'input=AND(a,b)', 'input = AND(a,b)', 'output=AND(a,b)',
                'a=input(b)', 'a=INPUT(b)', 'input(input)', 'INPUT(INPUT)', 'INPUT(OUTPUT,a)', 'a=AND(input)', 'a=AND(b,output)', 'INPUT()', 'a=b()',
                'a-b=c-(d-)', '-=-(-)', 'INPUT(a,)', 'INPUT(,a)', 'INPUT(a b)', 'INPUT(a)\r\nOUTPUT(b)', 'INPUT(a)\rOUTPUT(b)', 'INPUT(a)\r',
                'INPUT(a) # foo', 'INPUT(a) # foo\r\n', 'IN PUT(a)', 'INPUTa(b)', 'INPUTa=x(b)', 'inputx=and(a)', 'input1(a)', 'INPUT\n(a\n)',
                'a\n=\nb\n(\n)', 'INPUT(a)INPUT(b)a=b(c)d=e()', 'input input(a)', 'input (a)', 'inputinput(a)', 'a=input', 'a=b', 'a=(b)', '=a(b)',
                'a==b(c)', 'a=b(c', 'a=b c)', 'a=b((c))', 'INPUT(a)\x0cOUTPUT(b)', 'INPUT(a)\x0bOUTPUT(b)', 'INPUT(A.b)', '\xe9=a(b)', 'INPUT(a);',
                'a = b (c , d)#x\n#y', '\n\n', '\r', '\r\n', 'x#=\n=y()', 'INPUT#(\n(a)', 'inPUT=a(b)', 'OUTPUT = a(b)', 'a=OUTPUT(output)',
                'Output(a)', 'OUTput=a()', 'outputs=a()', 'output(a)output(b)', 'inputoutput(a)', 'input(a)input=b(c)', 'K=input(a)input(b)',
                'a=b()#', '#\r', 'a=b()\x00', 'a=b() #\x00\n', 'z=AND(a,b)z=OR(a,b)', 'INPUT(a)a=b(a)']


def corner_cases():
    cases, descs = [], []
    for text in CORNER_TEXTS:
        got, exc = real_stmts(text)
        view, exc2 = real_circuit(text)
        cview = copt(view, lambda v: '(' + clist(v[0], lambda p: f'({cstr(p[0])}, {cstr(p[1])})') + ', ' +
                     clist(v[1], lambda q: f'({q[0]}, {q[1]}, {q[2]}, {q[3]})') + ', ' + clist(v[2]) + ')')
        cases += [f'btext_case {cstr(text)} {copt(got, coq_stmts)}', f'btext_circ_case {cstr(text)} {cview}']
        descs += [{'kind': 'bench-text', 'stream': 'corner', 'text': text, 'raises': exc, 'raises_parse': exc2}] * 2
    return cases, descs


def py_print(stmts):
    """python twin of print_bench"""
    return ''.join((f'INPUT({",".join(s[-1])})\n' if s[0] == 'io' else f'{s[1]} = {s[2]}({",".join(s[3])})\n') for s in stmts)


def print_case(rng):
    stmts = gen_stmts(rng)
    text = py_print(stmts)
    got, exc = real_stmts(text)
    fail = None
    if got is None or norm(got) != norm(stmts):
        fail = f'print_bench of {norm(stmts)} is read back by the real parser as {got if got is not None else exc}'
    return [f'bprint_case {coq_stmts(stmts)} {cstr(text)}'], {'kind': 'bench-print', 'text': text}, fail


# ---- TechLib(text) -------------------------------------------------------------------------------------------------
def real_techlib(text):
    """-> (entries in dict order [(key, circuit name, inputs, outputs, gates)] | None, exception name, oracle failure)"""
    from kyupy import techlib
    from lark.exceptions import LarkError
    try:
        with quiet():
            tl = techlib.TechLib(text)
    except (LarkError, AssertionError, IndexError) as e:
        return None, type(e).__name__, None
    out = []
    bad = None
    for key, (c, pins) in tl.cells.items():
        ins = [n.name for n in c.io_nodes if len(n.ins) == 0]
        outs = [n.name for n in c.io_nodes if len(n.ins) > 0]
        gates = [(n.name, n.kind, [l.driver.name for l in n.ins]) for n in c.nodes if n.kind != '__fork__']
        exp = {n: (i, False) for i, n in enumerate(ins)}
        exp.update({n: (i, True) for i, n in enumerate(outs)})
        if pins != exp and not (set(ins) & set(outs)):
            bad = f'pin table of {key!r} is {pins}, io_nodes give {exp}'
        out.append((key, c.name, ins, outs, gates))
    return out, None, bad


def centries(es):
    def one(e):
        g = clist(e[4], lambda x: f'({cstr(x[0])}, {cstr(x[1])}, {clist(x[2], cstr)})')
        return f'({cstr(e[0])}, {cstr(e[1])}, {clist(e[2], cstr)}, {clist(e[3], cstr)}, {g})'
    return clist(es, one)


NAME_PIECES = ['A', 'BUFX', '_X', 'N2', 'x', '{1,2}', '{1,2,4}', '{,AO}', '{a,ab}', '{bc,c}', '{}', '{x', '}', '{a{b}', '{,}', '{1,,2}', '$', '{q}', ',', '-',
               '{1,1}', 'DFF', '{_LVT,_HVT}']
LIB_WS = [' ', ' ', ' ', '  ', '\n', '\n', '\n\n', '\t', '\r\n', '\x0b', '\x0c', '\x1c', '\x1f', '\x85', '\xa0']


def gen_cell_body(rng, dirty=True):
    q = (lambda p: rng.random() < p) if dirty else (lambda p: False)
    pins = rng.sample(['A', 'B', 'C', 'S', 'CK', 'D'], rng.randint(0, 4))
    outs = rng.sample(['Y', 'Z', 'Q', 'QN', 'CO'], rng.randint(0, 2))
    sigs = list(pins)
    parts = []
    if pins or rng.random() < 0.2:
        parts.append(('io', rng.choice(['input', 'INPUT']), pins + ([rng.choice(pins)] if pins and rng.random() < 0.05 else [])))
    if outs or rng.random() < 0.2:
        parts.append(('io', rng.choice(['output', 'OUTPUT']), list(outs)))
    inner = [f't{i}' for i in range(rng.randint(0, 3))]
    for z in inner + outs:
        if rng.random() < 0.06:
            continue                                 # undefined output / internal signal (IndexError if read by one gate before the fix of D38)
        kind = rng.choice(['AND2', 'OR2', 'INV1', 'BUF1', 'XOR2', 'MUX21', 'DFF', 'LATCH', 'NAND3', '__const0__', 'AOI21'])
        ar = 0 if kind.startswith('__') else rng.randint(1, 3)
        src = sigs + ([rng.choice(['u', 'v'])] if q(0.1) else [])          # sometimes an undriven signal
        args = [rng.choice(src) for _ in range(ar)] if src else []
        parts.append(('as', z, kind, args))
        sigs.append(z)
        if q(0.06):
            parts.append(('as', z, kind, args))      # duplicate cell name -> assertion
    if rng.random() < 0.3:
        rng.shuffle(parts)
    toks = tokens_of(parts)
    sp = lambda: rng.choice(['', '', ' ', '  ', '\n   '])
    txt = ''
    for i, t in enumerate(toks):
        txt += t
        nxt = toks[i + 1] if i + 1 < len(toks) else None
        txt += ' ' if (nxt is not None and (t == ')' or (is_word(t) and is_word(nxt)))) else sp()
    if q(0.06):
        txt += rng.choice([' garbage', ' x=', ' ;;', ' #c', '\x0b'])
    return txt


def gen_lib_text(rng):
    out = rng.choice(['', '\n', '\n\n', ' ', '\xa0\n'])
    dirty = rng.random() < 0.45          # otherwise: only texts TechLib accepts unless an internal signal happens to stay undriven
    for _ in range(rng.randint(0, 5)):
        name = ''.join(rng.choice(NAME_PIECES) for _ in range(rng.randint(1, 4)))
        st = rng.random()
        if st < 0.12:
            cell = name + rng.choice([' ', '', '  '])                                   # filler cell without body
        else:
            cell = name + (rng.choice([' ', '   ', '\t', '\n']) if dirty and rng.random() < 0.3 else ' ') + gen_cell_body(rng, dirty) + rng.choice([' ', ' ', '', '\n'])
        out += cell + (rng.choice([';', ';;', '']) if dirty and rng.random() < 0.3 else ';')
        out += ''.join(rng.choice(LIB_WS) for _ in range(rng.randint(0 if dirty and rng.random() < 0.2 else 1, 3)))
    if rng.random() < 0.1:
        out = out.replace('$', rng.choice(['_RVT', '']))
    return out


def techlib_case(rng):
    text = gen_lib_text(rng)
    got, exc, bad = real_techlib(text)
    desc = {'kind': 'techlib-text', 'text': text, 'raises': exc, 'cells': None if got is None else [e[0] for e in got]}
    return [f'techlib_case {cstr(text)} {copt(got, centries)}'], desc, bad


def builtin_lib_cases():
    """the five built-in libraries: tcells_of_text on the translated TEXT against the real TechLib.cells"""
    from kyupy import techlib
    from translate import gen_techlibs
    cases, descs = [], []
    for lib in gen_techlibs.LIBS:
        tl = getattr(techlib, lib)
        es = []
        for key, (c, pins) in tl.cells.items():
            ins = [n.name for n in c.io_nodes if len(n.ins) == 0]
            outs = [n.name for n in c.io_nodes if len(n.ins) > 0]
            gates = [(n.name, n.kind, [l.driver.name for l in n.ins]) for n in c.nodes if n.kind != '__fork__']
            es.append((key, c.name, ins, outs, gates))
        cases.append(f'techlib_case text_{lib} (Some {centries(es)})')
        descs.append({'kind': 'techlib-builtin', 'library': lib})
    return cases, descs
