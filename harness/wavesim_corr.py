"""Runs kyupy.wave_sim.WaveSim / WaveSimCuda on generated circuits with integer-grid delays and renders
per-lane cases for the Coq model (KV.Model.WaveSimModel)."""
import io
import contextlib
import numpy as np
from harness import circgen as cg

HEADER = '''From Coq Require Import List NArith ZArith Bool Arith String.
From KV Require Import Model.Netlist Model.SimOps Model.Time Model.WaveEval Model.WaveSimModel Model.Corr.
Import ListNotations.
Local Open Scope list_scope.
Local Open Scope string_scope.
'''
TMIN = np.float32(-2 ** 127)
TMAX = np.float32(2 ** 127)
TMAX_OVL = np.float32(1.1 * 2 ** 127)


def tval(x):
    """float -> model time (as a python object: 'MinInf' | int | 'MaxInf' | 'MaxOvl')"""
    x = np.float32(x)
    if x == TMIN: return 'MinInf'
    if x == TMAX: return 'MaxInf'
    if x == TMAX_OVL: return 'MaxOvl'
    if not np.isfinite(x) or abs(float(x)) > 2 ** 30 or float(x) != int(x):
        return ('bad', float(x))
    return int(x)


def coq_time(t):
    if isinstance(t, str): return t
    if isinstance(t, tuple): return 'MaxOvl (* bad %r *)' % (t,)
    return f'(Fin ({t}))' if t < 0 else f'(Fin {t})'


def b(x):
    return 'true' if x else 'false'


def gen_delays(rng, nlines, style=None):
    """integer delays (nlines, 2, 2)"""
    style = style or rng.choice(['zero', 'uniform', 'polfree', 'full', 'spread'])
    d = np.zeros((nlines, 2, 2))
    for i in range(nlines):
        if style == 'zero': v = [0, 0, 0, 0]
        elif style == 'uniform': v = [3] * 4
        elif style == 'polfree':
            x = rng.randint(0, 6); v = [x] * 4
        elif style == 'full': v = [rng.randint(0, 6) for _ in range(4)]
        else: v = [rng.choice([0, 1, 2, 5, 17, 40]) for _ in range(4)]
        d[i] = np.array(v).reshape(2, 2)
    return d, style


def gen_stimulus(rng, c, sims, tmax=12, extra_prob=0.4, max_trans=3, busy=False):
    """s[0..2] per s_node and lane; plus multi-transition waveforms for some PI/PPI slots."""
    slen = len(c.s_nodes)
    s0 = np.array([[rng.randint(0, 1) for _ in range(sims)] for _ in range(slen)], dtype=np.float32)
    s2 = np.array([[rng.randint(0, 1) for _ in range(sims)] for _ in range(slen)], dtype=np.float32)
    s1 = np.array([[rng.randint(0, tmax) for _ in range(sims)] for _ in range(slen)], dtype=np.float32)
    extra = {}
    for p in range(slen):
        for lane in range(sims):
            if rng.random() < extra_prob:
                ini = rng.randint(0, 1)
                n = max_trans - ini if (busy and rng.random() < 0.8) else rng.randint(0, max_trans - ini)
                ts = sorted(rng.sample(range(0, tmax + 4), n))
                w = (['MinInf'] if ini else []) + ts + ['MaxInf']
                extra[(p, lane)] = w
    return s0, s1, s2, extra


def to_f32(t):
    return {'MinInf': TMIN, 'MaxInf': TMAX, 'MaxOvl': TMAX_OVL}.get(t, t) if isinstance(t, str) else np.float32(t)


def run_wavesim(c, delays, sims, caps, reuse, strip, s0, s1, s2, extra, tcap=None, a_ctrl=None, cuda=False, prop_sims=None,
                simctl=None, seed=1, warm=None, repickle=None, pre_extra=None):
    """warm = (s0, s1, s2, extra) of an EARLIER round simulated on the same simulator object (assign, direct waveform writes,
    propagate, capture) before the round proper: a simulator is allocated once and used for many batches, so nothing of an earlier
    round may survive into the next one.  w.abuf_warm is the accumulator content after the earlier round."""
    from kyupy import wave_sim
    cls = wave_sim.WaveSimCuda if cuda else wave_sim.WaveSim
    with contextlib.redirect_stdout(io.StringIO()):
        w = cls(c, delays, sims=sims, c_caps=caps, a_ctrl=a_ctrl, c_reuse=reuse, strip_forks=strip)
        if simctl is not None:
            w.simctl_int[...] = simctl
        else:
            w.simctl_int[1] = 0 if delays.ndim == 4 and len(delays) > 1 else w.simctl_int[1]
        w.abuf_warm = None
        if warm is not None:
            w.s[0], w.s[1], w.s[2] = warm[0], warm[1], warm[2]
            w.s_to_c()
            for (p, lane), wf in warm[3].items():
                loc = w.c_locs[w.ppi_offset + p]
                if loc >= 0:
                    for j, t in enumerate(wf):
                        w.c[loc + j, lane] = to_f32(t)
            w.c_prop(seed=seed)
            w.c_to_s(time=wave_sim.TMAX)
            w.abuf_warm = np.array(w.abuf).copy() if w.abuf_len > 0 else None
        w.s[0], w.s[1], w.s[2] = s0, s1, s2
        w.s_to_c()
        for (p, lane), wf in extra.items():
            loc = w.c_locs[w.ppi_offset + p]
            if loc >= 0:
                for j, t in enumerate(wf):
                    w.c[loc + j, lane] = to_f32(t)
        if pre_extra is not None:
            # the simulator first propagates OTHER directly written waveforms at the same positions (assignment done once), is captured,
            # then gets the waveforms proper written into its memory -- no second s_to_c -- and propagates again
            for (p, lane), wf in pre_extra.items():
                loc = w.c_locs[w.ppi_offset + p]
                if loc >= 0:
                    for j, t in enumerate(wf):
                        w.c[loc + j, lane] = to_f32(t)
            w.c_prop(seed=seed)
            w.c_to_s(time=wave_sim.TMAX)
            w.abuf_warm = np.array(w.abuf).copy() if w.abuf_len > 0 else None
            for (p, lane), wf in extra.items():
                loc = w.c_locs[w.ppi_offset + p]
                if loc >= 0:
                    for j, t in enumerate(wf):
                        w.c[loc + j, lane] = to_f32(t)
        if repickle is not None:
            # a simulator is sent to a worker process / copied before it propagates: pickle round trip or deepcopy of the assigned simulator
            import pickle, copy
            w = pickle.loads(pickle.dumps(w)) if repickle == 'pickle' else copy.deepcopy(w)
        w.c_prop(sims=prop_sims, seed=seed) if prop_sims is not None else w.c_prop(seed=seed)
        w.c_to_s(time=(wave_sim.TMAX if tcap is None else tcap))
    return w


def lane_expected(w, lane):
    mem = [tval(x) for x in np.asarray(w.c)[:, lane]]
    ab = [int(x) for x in np.asarray(w.abuf)[:, lane]] if w.abuf_len > 0 else []
    s = np.asarray(w.s)
    mask = np.zeros(w.s_len, dtype=bool)
    mask[np.asarray(w.poppo_s_locs)] = True
    capt = []
    for p in range(w.s_len):
        if not mask[p] or np.asarray(w.c_locs)[w.ppo_offset + p] < 0:
            capt.append(None)
        else:
            capt.append((bool(s[3, p, lane]), tval(s[4, p, lane]), tval(s[5, p, lane]), bool(s[6, p, lane]),
                         bool(s[8, p, lane]), bool(s[10, p, lane])))
    return mem, ab, capt


def coq_dtab(d):
    return '{| d00 := %d; d01 := %d; d10 := %d; d11 := %d |}' % (int(d[0, 0]), int(d[0, 1]), int(d[1, 0]), int(d[1, 1]))


def coq_case(c, caps, reuse, strip, delays, w, lane, s0, s1, s2, extra, tcap, a_ctrl=None):
    n = len(c.lines) + 3
    capl = [caps] * n if isinstance(caps, int) else list(caps)
    ops = np.asarray(w.ops)
    if a_ctrl is None:
        rows = ops[:, 6:9].tolist()
    else:
        # generator-owned table (one row per LINE): the op writing line l accumulates with row l; scratch outputs never accumulate
        rows = [[int(v) for v in a_ctrl[o[1]]] if o[1] < len(a_ctrl) else [-1, 0, 0] for o in ops]
    actrl = cg.coq_list(rows, lambda r: f'({cg.coq_Z(r[0])}, {cg.coq_Z(r[1])}, {cg.coq_Z(r[2])})')
    svals = cg.coq_list(range(len(s0)), lambda p: f'({b(s0[p, lane] != 0)}, {coq_time(tval(s1[p, lane]))}, {b(s2[p, lane] != 0)})')
    ex = cg.coq_list([(p, wf) for (p, l), wf in sorted(extra.items()) if l == lane],
                     lambda e: f'({e[0]}, {cg.coq_list(e[1], coq_time)})')
    mem, ab, capt = lane_expected(w, lane)
    cp = cg.coq_list(capt, lambda x: 'None' if x is None else
                     f'Some ({b(x[0])}, {coq_time(x[1])}, {coq_time(x[2])}, {b(x[3])}, {b(x[4])}, {b(x[5])})')
    exp = f'Some ({cg.coq_list(mem, coq_time)}, {cg.coq_list(ab, cg.coq_Z)}, {cp})'
    tc = 'MaxInf' if tcap is None else coq_time(int(tcap))
    return (f'wsim_ok (wsim_case {cg.coq_netlist(c)} {cg.coq_list(capl, cg.coq_N)} {b(reuse)} {b(strip)} '
            f'{cg.coq_list(list(delays), coq_dtab)} {actrl} {max(w.abuf_len, 0)} {svals} {ex} {tc}) ({exp})')


def cases_file(cases):
    body = ';\n '.join(cases)
    return HEADER + f'Definition results : list bool := [\n {body}].\nEval vm_compute in (failing results).\n'


# ---- line-level semantics (Model/WaveOps.v wexec, Model/WaveAcc.v wacc) against the implementation's memory and abuf -----------
LINE_HEADER = HEADER.replace('Model.WaveSimModel Model.Corr', 'Model.WaveSimModel Model.Corr Model.WaveOps Model.WaveAcc')
LINE_CHECKS = ['line-level wacc = abuf of the implementation', 'line-level wacc = abuf of the flat-memory model (w_c_prop)',
               'line-level wexec = every tracked region of the implementation\'s memory up to its terminator (c_reuse off)',
               'regions_ok_b holds for the memory map (c_reuse off)',
               'acc_once_b: an op whose output index is written again later carries a_loc = -1']


def coq_line_case(c, caps, reuse, strip, delays, w, lane, s0, s1, s2, extra):
    """wline_case: wexec / wacc started from the memory s_to_c (+ direct waveforms) produces, compared with what c_prop left."""
    n = len(c.lines) + 3
    capl = [caps] * n if isinstance(caps, int) else list(caps)
    ops = np.asarray(w.ops)
    actrl = cg.coq_list(ops[:, 6:9].tolist(), lambda r: f'({cg.coq_Z(r[0])}, {cg.coq_Z(r[1])}, {cg.coq_Z(r[2])})')
    svals = cg.coq_list(range(len(s0)), lambda p: f'({b(s0[p, lane] != 0)}, {coq_time(tval(s1[p, lane]))}, {b(s2[p, lane] != 0)})')
    ex = cg.coq_list([(p, wf) for (p, l), wf in sorted(extra.items()) if l == lane],
                     lambda e: f'({e[0]}, {cg.coq_list(e[1], coq_time)})')
    mem, ab, _ = lane_expected(w, lane)
    return (f'wline_case {cg.coq_netlist(c)} {cg.coq_list(capl, cg.coq_N)} {b(reuse)} {b(strip)} '
            f'{cg.coq_list(list(delays), coq_dtab)} {actrl} {max(w.abuf_len, 0)} {svals} {ex} '
            f'{cg.coq_list(mem, coq_time)} {cg.coq_list(ab, cg.coq_Z)}')


def line_cases_file(cases):
    body = ';\n '.join(cases)
    return LINE_HEADER + f'Definition results : list (list bool) := [\n {body}].\nEval vm_compute in (wline_failing results).\n'


# ---- C06: fork stripping (Model/WaveStripModel.v wexec_alias) and delay-dataset selection (wexec_sel) at line level --------------
STRIP_HEADER = HEADER.replace('Model.WaveSimModel Model.Corr', 'Model.WaveSimModel Model.Corr Model.WaveOps Model.WaveAcc Model.WaveStripModel')
STRIP_CHECKS = ['SimOps.build succeeds in the model', 'line-level result = every tracked region of the implementation\'s memory up to its terminator',
                'op list / stems are the ones the theorems speak about (build_ops c true, build_stems)']


def _stim_literals(c, caps, lane, s0, s1, s2, extra):
    n = len(c.lines) + 3
    capl = [caps] * n if isinstance(caps, int) else list(caps)
    svals = cg.coq_list(range(len(s0)), lambda p: f'({b(s0[p, lane] != 0)}, {coq_time(tval(s1[p, lane]))}, {b(s2[p, lane] != 0)})')
    ex = cg.coq_list([(p, wf) for (p, l), wf in sorted(extra.items()) if l == lane],
                     lambda e: f'({e[0]}, {cg.coq_list(e[1], coq_time)})')
    return cg.coq_list(capl, cg.coq_N), svals, ex


def coq_strip_case(c, caps, delays, w, lane, s0, s1, s2, extra):
    """wstrip_case: wexec_alias through the stems, compared with the memory WaveSim(strip_forks=True, c_reuse=False) left."""
    capl, svals, ex = _stim_literals(c, caps, lane, s0, s1, s2, extra)
    mem = [tval(x) for x in np.asarray(w.c)[:, lane]]
    return (f'wstrip_case {cg.coq_netlist(c)} {capl} {cg.coq_list(list(delays), coq_dtab)} {svals} {ex} {cg.coq_list(mem, coq_time)}')


def coq_sel_case(c, caps, dsets, mode, seed, ctl0, w, lane, s0, s1, s2, extra):
    """wsel_case: wexec_sel with the dataset table, compared with the memory WaveSim (options off) left in that lane."""
    capl, svals, ex = _stim_literals(c, caps, lane, s0, s1, s2, extra)
    mem = [tval(x) for x in np.asarray(w.c)[:, lane]]
    D = cg.coq_list([list(d) for d in dsets], lambda d: cg.coq_list(d, coq_dtab))
    return (f'wsel_case {cg.coq_netlist(c)} {capl} {D} {int(mode)} {int(seed)} {int(ctl0)} {svals} {ex} {cg.coq_list(mem, coq_time)}')


def strip_cases_file(cases):
    body = ';\n '.join(cases)
    return STRIP_HEADER + f'Definition results : list (list bool) := [\n {body}].\nEval vm_compute in (wline_failing results).\n'


# ---- end-to-end statement at memory level (Proofs/WaveSimGlue.v wavesim_model_correct): hypotheses evaluated per case, the theorem's
# ---- prediction (capture of the UNSTRIPPED line-level waveforms, line-level wacc) compared with what the implementation delivered ------
GLUE_HEADER = HEADER.replace('Model.WaveSimModel Model.Corr', 'Model.WaveSimModel Model.Corr Model.WaveOps Model.WaveAcc Model.WaveGlue Proofs.WaveSimGlue Proofs.WaveStripAcc')
GLUE_CHECKS = ['hypotheses of wavesim_model_correct hold (wglue_hyps_b; false = outside the proved domain, not a failure)',
               'prediction of wavesim_model_correct (capture of the unstripped line-level waveform of the line feeding each s_node) = s[3..10] of the implementation',
               'line-level wacc over build_ops c false = abuf of the implementation (strip_forks off)']
# C13_wavesim_model_activity_strip (Proofs/WaveStripAcc.v wglue_case_strip): abuf under strip_forks against the UNSTRIPPED line-level waveforms
GLUE_CHECKS += ['prediction of wavesim_model_activity_strip (counts of the KEPT ops evaluated on the unstripped line waveforms, accumulated) = abuf of the implementation (strip_forks on)',
                'weighted edges of the unstripped waveforms of the kept ops\' output lines = abuf of the implementation (strip_forks on, scratch slot not accumulating)']


def coq_glue_case(c, caps, strip, delays, w, lane, s0, s1, s2, extra, tcap, a_ctrl=None):
    """wglue_case: independent of c_reuse by construction (the prediction does not mention it); w is the implementation's run."""
    capl, svals, ex = _stim_literals(c, caps, lane, s0, s1, s2, extra)
    ops = np.asarray(w.ops)
    if a_ctrl is None:
        rows = ops[:, 6:9].tolist()
    else:
        rows = [[int(v) for v in a_ctrl[o[1]]] if o[1] < len(a_ctrl) else [-1, 0, 0] for o in ops]
    actrl = cg.coq_list(rows, lambda r: f'({cg.coq_Z(r[0])}, {cg.coq_Z(r[1])}, {cg.coq_Z(r[2])})')
    _, ab, capt = lane_expected(w, lane)
    cp = cg.coq_list(capt, lambda x: 'None' if x is None else
                     f'Some ({b(x[0])}, {coq_time(x[1])}, {coq_time(x[2])}, {b(x[3])}, {b(x[4])}, {b(x[5])})')
    tc = 'MaxInf' if tcap is None else coq_time(int(tcap))
    return (f'wglue_case_strip {cg.coq_netlist(c)} {capl} {b(strip)} {cg.coq_list(list(delays), coq_dtab)} {actrl} {max(w.abuf_len, 0)} '
            f'{svals} {ex} {tc} {cp} {cg.coq_list(ab, cg.coq_Z)}')


def glue_cases_file(cases):
    body = ';\n '.join(cases)
    return GLUE_HEADER + f'Definition results : list (list bool) := [\n {body}].\nEval vm_compute in (wline_failing results).\n'
