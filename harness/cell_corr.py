"""C10, library clause: the tie between Model/CellCircuit.v and the code, and the independent oracle.

run_lib(ck) is the only entry point (called from vcheck/props/C10.py):
 * translate  Gen/TechLibs.v and Gen/SimTables.v are regenerated from the working tree (the theorems quantify over them);
 * prove      Properties/C10Lib.vo: for each of the five libraries, every cell definition x {all pins connected (every name),
              every single pin unconnected (first name), no output connected (every name)} -- exhaustive Boolean sweeps lifted to
              quantified theorems, the exceptions being exactly the known findings D15 / D21 / D22 (each with a *_refuted theorem
              over every name);
 * correspond for EVERY definition of every library: canon(impl_of_tcell cell) = the structure of TechLib.cells[name][0] and
              its pin dict; for every connection pattern of the theorems: canon(host_of ...) = instance_circuit(...),
              canon(resolved ...) = copy + resolve_tlib_cells(tlib) with the WHOLE library, s_names, and the model's evaluator
              (SimOps.build_ops schedule on the view) = LogicSim captures on sampled stimulus rows;
 * oracle     on the real objects, the same connection patterns: names/order unchanged, no library kind left, and the
              LogicSim truth table of the resolved instance = independent gate-by-gate evaluation (harness/oracle_net) of the
              implementation circuit with unconnected inputs at 0, ALL input x state rows.  Failures carry the keys of
              vcheck/props/C10.py (resolve:<lib>:<cell>:<class>), so the known findings match and anything else is a VIOLATION
              with a concrete failing input.
"""
import itertools
import os
import random
import traceback

import numpy as np

from harness import circgen as cg, oracle_net as on

LIBS = ['GSC180', 'NANGATE', 'NANGATE_ZN', 'SAED32', 'SAED90']

THEOREMS_LIB = ['C10_lib_check_meaning', 'C10_lib_function_meaning'] + [f'C10_lib_{lib}_{t}' for lib in LIBS for t in (
    'all_connected', 'one_unconnected', 'no_output',
    'all_connected_refuted', 'one_unconnected_refuted', 'no_output_refuted', 'nonvacuous',
    'all_connected_cell')]
# the complete library tables satisfy the hypotheses of the loop theorem C10_resolve_function (Proofs/CircuitResolveLibs.v)
THEOREMS_LIB += ['C10_lib_tables_ok', 'C10_lib_tables_sizes']

HEADER = '''From Coq Require Import List Arith Bool String.
From KV Require Import Model.TechCell Model.Circuit Model.CellCircuit Model.CellCorr Gen.TechLibs.
Import ListNotations.
Local Open Scope string_scope.
Local Open Scope list_scope.
'''


# ---- rendering ------------------------------------------------------------------------------------------
def cs(s):
    return cg.coq_string(s)


def cl(xs, f=str):
    return '[' + '; '.join(f(x) for x in xs) + ']'


def cb(b):
    return 'true' if b else 'false'


def canon(c):
    """names/kinds by index, lines as (driver index, pin, reader index, pin) by index, io indices"""
    assert [n.index for n in c.nodes] == list(range(len(c.nodes))) and [l.index for l in c.lines] == list(range(len(c.lines)))
    return ([(n.name, n.kind) for n in c.nodes],
            [(l.driver.index, l.driver_pin, l.reader.index, l.reader_pin) for l in c.lines],
            [n.index for n in c.io_nodes])


def coq_pst(cn):
    if cn is None:
        return 'PNone'
    ns, ls, ios = cn
    return '(PS %s %s %s)' % (cl(ns, lambda x: f'NK {cs(x[0])} {cs(x[1])}'), cl(ls, lambda x: 'LN %d %d %d %d' % x), cl(ios))


# ---- connection patterns of the theorems ------------------------------------------------------------------
def patterns(n_in, n_out):
    """(tag, connected inputs, connected outputs): all connected; every single pin unconnected; no output connected"""
    pats = [('all', [True] * n_in, [True] * n_out)]
    for k in range(n_in + n_out):
        pats.append((f'but{k}', [i != k for i in range(n_in)], [i != k - n_in for i in range(n_out)]))
    if n_out > 0:
        pats.append(('noout', [True] * n_in, [False] * n_out))
    return pats


# ---- the oracle on the real objects -------------------------------------------------------------------------
def stimuli(c10, r, rng, max_rows=256):
    """all (or max_rows random) rows over (input ports ++ state elements) of r as stimuli over its s_nodes, and what LogicSim captures"""
    pis = [n for n in r.io_nodes if n.kind == 'input']
    n_state = len(r.s_nodes) - len(r.io_nodes)
    nvar = len(pis) + n_state
    if 2 ** nvar <= max_rows:
        rows = [list(p) for p in itertools.product((0, 1), repeat=nvar)]
    else:
        rows = [[rng.randint(0, 1) for _ in range(nvar)] for _ in range(max_rows)]
    stims = []
    for bits in rows:
        pv = dict(zip([p.name for p in pis], bits[:len(pis)]))
        sv = bits[len(pis):]
        stims.append([pv.get(n.name, 0) if i < len(r.io_nodes) else sv[i - len(r.io_nodes)] for i, n in enumerate(r.s_nodes)])
    if len(r.s_nodes) == 0:
        return pis, rows, [], np.zeros((0, 0), dtype=int)
    return pis, rows, stims, c10.capture_table(r, stims)


def oracle_instance(c10, lib, tl, kind, in_names, ci_set, co_set, host, r, pis, rows, table):
    """None, or (class, message) if resolving this instance changes names / order / function.  The statement of
    vcheck/props/C10.py:resolve_cell for ONE fixed connection pattern, on all rows."""
    impl, pins = tl.cells[kind]
    if any(n.kind in tl.cells for n in r.nodes):
        return 'function', 'library cells remain after resolving'
    before, after = c10.s_names(host), c10.s_names(r)
    if before != after:
        cls = 'names'
        if len(after) > len(before) and after[:len(before)] == before:
            cls = 'adds-state'
        elif not co_set and len(after) < len(before) and before[:len(after)] == after:
            cls = 'drops-state-without-outputs'
        return cls, f'resolving changes the names/order of ports and state elements: {before} -> {after}'
    impl_state = impl.s_nodes[len(impl.io_nodes):]
    res_state = r.s_nodes[len(r.io_nodes):]
    if len(impl_state) != len(res_state):
        # D21 on a cell whose kind name does not mark it as a state element (the host lists no state element to lose)
        cls = 'drops-state-without-outputs' if (not co_set and len(res_state) < len(impl_state)) else 'function'
        return cls, f'implementation has {len(impl_state)} state elements, the resolved instance {len(res_state)}'
    for col, bits in enumerate(rows):
        pv = dict(zip([p.name[3:] for p in pis], bits[:len(pis)]))
        sv = bits[len(pis):]
        stim_impl = [pv.get(n.name, 0) if i < len(impl.io_nodes) else sv[i - len(impl.io_nodes)] for i, n in enumerate(impl.s_nodes)]
        _, cap_i = on.evaluate(impl, stim_impl, on.Alg2)
        exp = {n.name: cap_i[i] for i, n in enumerate(impl.s_nodes) if cap_i[i] is not None and i < len(impl.io_nodes)}
        for i, n in enumerate(r.s_nodes):
            t = table[i, col]
            if i < len(r.io_nodes):
                if n.kind == 'output' and exp.get(n.name[3:]) is not None and t != exp[n.name[3:]]:
                    cls = 'function'
                    fam = on.family(kind) if not kind.startswith(('AO', 'OA')) else None
                    top = in_names[-1] if in_names else None
                    if fam in ('and', 'nand') and top not in ci_set and len(impl.nodes) - len(impl.io_nodes) == 1:
                        cls = 'variadic-high-pin-unconnected'
                    return cls, f'output {n.name[3:]} for inputs {pv} state {sv}: resolved instance gives {t}, implementation {exp[n.name[3:]]}'
            else:
                j = len(impl.io_nodes) + (i - len(r.io_nodes))
                if cap_i[j] is not None and t >= 0 and t != cap_i[j]:
                    return 'function', f'next state for inputs {pv} state {sv}: resolved instance gives {t}, implementation {cap_i[j]}'
    return None


def check_instance(c10, lib, tl, kind, in_names, out_names, ci, co, rng):
    """(failure or None, host, resolved or None (raised), stimuli, capture table)"""
    ci_set = set(n for n, b in zip(in_names, ci) if b)
    co_set = set(n for n, b in zip(out_names, co) if b)
    host = c10.instance_circuit(tl, kind, ci_set, co_set)
    r = host.copy()
    try:
        r.resolve_tlib_cells(tl)
    except Exception as e:
        return ('raises', f'resolve_tlib_cells raises {type(e).__name__}: {e}'), host, None, [], None
    pis, rows, stims, table = stimuli(c10, r, rng)
    return oracle_instance(c10, lib, tl, kind, in_names, ci_set, co_set, host, r, pis, rows, table), host, r, stims, table


def replay(inp):
    """True if the recorded library instance still fails"""
    from vcheck.props import C10 as c10
    from kyupy import techlib
    tl = getattr(techlib, inp['library'])
    impl, pins = tl.cells[inp['cell']]
    in_names = [n for n, (i, o) in sorted(pins.items(), key=lambda kv: kv[1][0]) if not o]
    out_names = [n for n, (i, o) in sorted(pins.items(), key=lambda kv: kv[1][0]) if o]
    ci = [n in inp['connected_inputs'] for n in in_names]
    co = [n in inp['connected_outputs'] for n in out_names]
    return check_instance(c10, inp['library'], tl, inp['cell'], in_names, out_names, ci, co, random.Random(0))[0] is not None


# ---- the sweep ---------------------------------------------------------------------------------------------
def definitions(techlib, parsed):
    """(lib index, definition index, lib name, names of the definition) for every definition; None if the translator's
    expansion disagrees with TechLib.cells (reported by C19 as well)"""
    out = []
    for li, lib in enumerate(LIBS):
        tl = getattr(techlib, lib)
        for j, (pattern, names, ins, outs, gates) in enumerate(parsed[lib]):
            if not names or any(n not in tl.cells for n in names) or len(set(id(tl.cells[n][0]) for n in names)) != 1:
                return None
            out.append((li, j, lib, names))
        if sum(len(p[1]) for p in parsed[lib]) != len(tl.cells):
            return None
    return out


def shard(items, n):
    n = max(1, min(n, len(items)))
    return [items[i::n] for i in range(n)]


def run_lib(ck):
    from translate import gen_techlibs
    from vcheck import gen_all, core
    from vcheck.props import C10 as c10
    from kyupy import techlib
    res = gen_all.generate(['SimTables', 'TechLibs'])
    ck.obligation('translate techlib.py library strings (statements in text order) -> Gen/TechLibs.v', res['TechLibs'] is None, 'translation', res['TechLibs'] or '')
    ck.obligation('translate sim.py LUTs / kind prefixes -> Gen/SimTables.v', res['SimTables'] is None, 'translation', res['SimTables'] or '')
    ck.prove('C10Lib', THEOREMS_LIB)
    try:
        parsed = gen_techlibs.generate(os.path.join(core.REPO, 'src', 'kyupy', 'techlib.py'))[1]
        defs = definitions(techlib, parsed)
    except Exception:
        defs = None
    if defs is None:
        ck.obligation('library correspondence: translator output agrees with TechLib.cells (names per definition)', False, 'correspondence')
        return
    rng = random.Random(ck.seed * 7919 + 1010)
    icases, ccases, fails = [], [], []
    n_inst = 0
    for li, j, lib, names in defs:
        tl = getattr(techlib, lib)
        impl, pins = tl.cells[names[0]]
        in_names = [n for n, (i, o) in sorted(pins.items(), key=lambda kv: kv[1][0]) if not o]
        out_names = [n for n, (i, o) in sorted(pins.items(), key=lambda kv: kv[1][0]) if o]
        icases.append(((lib, names[0]), 'IC %d %d %s %s %s' % (li, j, coq_pst(canon(impl)), cl(in_names, cs), cl(out_names, cs))))
        # quick: the first name carries every pattern, the other names the all-connected and no-output ones (the scope of the
        # theorems); thorough: every name, every pattern
        for ni, kind in enumerate(names):
            for tag, ci, co in patterns(len(in_names), len(out_names)):
                if ni > 0 and tag not in ('all', 'noout') and not ck.thorough:
                    continue
                desc = {'kind': 'resolve-lib', 'library': lib, 'cell': kind, 'connected_inputs': sorted(n for n, b in zip(in_names, ci) if b),
                        'connected_outputs': sorted(n for n, b in zip(out_names, co) if b)}
                try:
                    what, host, r, stims, table = check_instance(c10, lib, tl, kind, in_names, out_names, ci, co, rng)
                except Exception:
                    what, host, r, stims, table = ('raises', 'raises ' + traceback.format_exc()[-400:]), None, None, [], None
                n_inst += 1
                ck.count(1, 'lib-instance:' + lib)
                ck.nontrivial(('li', lib, names[0], tag))
                if what:
                    fails.append((f'resolve:{lib}:{kind}:{what[0]}', desc, what[1]))
                if host is None:
                    continue
                cols = list(range(len(stims)))
                if len(cols) > 12:
                    cols = sorted(rng.sample(cols, 12))
                trs = ['TR %s %s' % (cl(stims[k], cb), cl([2 if table[i, k] < 0 else int(table[i, k]) for i in range(table.shape[0])])) for k in cols]
                ccases.append(((lib, kind, tag), 'CC %d %d %s %s %s %s %s %s %s' % (
                    li, j, cs(kind), cl(ci, cb), cl(co, cb), coq_pst(canon(host)), coq_pst(None if r is None else canon(r)),
                    cl([] if r is None else [n.name for n in r.s_nodes], cs), cl(trs))))
    # --- model = implementation ---------------------------------------------------------------------------------
    texts, index = [], []
    for part in shard(icases, 2):
        texts.append(HEADER + 'Definition cases : list icase := [\n ' + ';\n '.join(t for _, t in part) + '].\n'
                     'Eval vm_compute in (failing icase_ok cases 0).\n')
        index.append([k for k, _ in part])
    for part in shard(ccases, ck.scale(12, 24)):
        texts.append(HEADER + 'Definition cases : list ccase := [\n ' + ';\n '.join(t for _, t in part) + '].\n'
                     'Eval vm_compute in (failing ccase_ok cases 0).\n')
        index.append([k for k, _ in part])
    outs = ck.coq_eval_many('lib', texts, jobs=12, timeout=900)
    bad, ran = [], True
    for keys, (ok, out) in zip(index, outs):
        idx = cg.parse_nat_list(out) if ok else None
        if idx is None:
            ran = False
            bad.append(('coq', out[-300:]))
            continue
        bad += [keys[i] for i in idx]
    ck.obligation(f'Coq model of TechLib.__init__ / bench elaboration / eliminate_1to1_forks / instance host / resolve_tlib_cells = implementation: '
                  f'canonical structure of all {len(icases)} implementation circuits and pin dicts, and of {len(ccases)} (cell, connection pattern) '
                  f'hosts before and after resolving with the whole library; s_nodes names; evaluator = LogicSim captures on sampled rows',
                  ran and not bad, 'correspondence', f'disagreeing cases: {bad[:6]}')
    unknown = [f for f in fails if ck.known_entry(f[0]) is None]
    ck.obligation(f'oracle: all {n_inst} library instances (every definition x all pins / each single pin unconnected / no output connected) keep '
                  f'names, order and the Boolean function of the implementation on all input x state rows (listed known findings excepted)',
                  not unknown, 'oracle', unknown[0][2] if unknown else '')
    ck.rule('library clause: every cell definition of the five libraries x {all pins connected, each single pin unconnected, no output connected} '
            '(first name: every pattern; other names: all-connected and no-output; thorough: every name x every pattern) x all input-state rows')
    ck.trust('Model/CellCircuit.v is a hand transcription of TechLib.__init__ + BenchTransformer + vcheck instance_circuit on top of the C09 circuit '
             'model; it is compared structurally with the real objects for every definition and connection pattern on every run',
             'the function part of the library theorems is stated over the simulator model (SimOps.build_ops on the netlist view, 2-valued LUT '
             'semantics: the subject of C01) and over TechCell.eval_out (the subject of C19)')
    seen = set()
    for key, desc, what in fails:
        if key in seen:
            continue
        seen.add(key)
        if len(seen) > 40:
            break
        ck.fail(key, what, {'component': 'circuit.Circuit.resolve_tlib_cells / techlib', 'input': desc, 'actual': what})
