"""Tie T for the traversal generators of circuit.py: regeneration of Gen/TraversalsSrc.v and evaluation of the TRANSLATED functions
(not the hand models) against the implementation's exact sequences."""
from harness import circgen as cg

HEADER_SRC = '''From Coq Require Import List NArith ZArith Bool Arith String.
From KV Require Import Model.Netlist Model.Corr Model.TraversalsSrcLib Gen.TraversalsSrc.
Import ListNotations.
Local Open Scope list_scope.
Local Open Scope string_scope.
Definition opt_eqb {A} (eqb : A -> A -> bool) (o : option (list A)) (l : list A) : bool :=
  match o with Some x => list_eqb eqb x l | None => false end.
Definition onat_eqb (a b : option nat) : bool :=
  match a, b with Some x, Some y => Nat.eqb x y | None, None => true | _, _ => false end.
(* fuel = number of nodes + 1: what C17_traversals_source_is_model needs, and one more than it would take to miss a non-terminating loop *)
Definition trav_src_case (c : netlist) (origins : list nat)
    (exp : list nat * list (nat * Z) * list nat * list nat * list nat * list nat) : bool :=
  let fuel := S (List.length (c_nodes c)) in
  let '(t, lv, lo, rt, fi, sn) := exp in
  opt_eqb Nat.eqb (topological_order_src c fuel) t &&
  opt_eqb (pair_eqb Nat.eqb Z.eqb) (topological_order_with_level_src c fuel) lv &&
  opt_eqb onat_eqb (topological_line_order_src c fuel) (map Some lo) &&
  opt_eqb Nat.eqb (reversed_topological_order_src c fuel) rt &&
  opt_eqb Nat.eqb (fanin_src c fuel origins) fi &&
  opt_eqb Nat.eqb (s_nodes_src c) sn.
'''


def translate_traversals(ck):
    """regenerate Gen/TraversalsSrc.v from the current text of circuit.py (obligation: it translates)"""
    from vcheck import gen_all
    res = gen_all.generate(['TraversalsSrc'])
    ck.obligation('translate circuit.Circuit traversal generators -> Gen/TraversalsSrc.v', res['TraversalsSrc'] is None, 'translation',
                  res['TraversalsSrc'] or '')
    ck.trust('translator translate/gen_traversals.py (fail-closed Python-ast translation of Circuit.s_nodes, topological_order, '
             'topological_order_with_level, topological_line_order, reversed_topological_order, fanin into option-valued Gallina over the '
             'netlist type; vocabulary Model/TraversalsSrcLib.v: Node / Line objects = their indices, a generator = the list of its yields, '
             'a for loop over a generator runs over that list (no shared mutable state: every store into self / an attribute is rejected), '
             'deque / Python lists / numpy arrays = lists, numpy scalars wrap at the width the source declares, while loops on explicit '
             'fuel); its output is additionally run against the real methods on every generated circuit')
    return res['TraversalsSrc'] is None


def coq_src_case(c, origins, exp, snodes):
    """exp = (topological order, [(node, level)], line order, reversed order, fan-in) as the implementation yields them"""
    lv = cg.coq_list(exp[1], lambda p: f'({p[0]}, ({p[1]})%Z)')
    return (f'trav_src_case {cg.coq_netlist(c)} {cg.coq_list(origins)} ({cg.coq_list(exp[0])}, {lv}, {cg.coq_list(exp[2])}, '
            f'{cg.coq_list(exp[3])}, {cg.coq_list(exp[4])}, {cg.coq_list(snodes)})')


def cases_file(cases):
    return HEADER_SRC + 'Definition results : list bool := [\n ' + ';\n '.join(cases) + '].\nEval vm_compute in (failing results).\n'
