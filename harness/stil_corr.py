"""Runs kyupy.stil on generated (circuit, STIL text) pairs: observes what the implementation produced,
checks it against the generator's ground truth (oracle) and renders case + observation as Coq terms for
KV.Model.Stil.stil_case (correspondence)."""
import io
import contextlib
import numpy as np
from harness import stil_gen as sg, circgen as cg

HEADER = '''From Coq Require Import List Arith Bool String Ascii.
From KV Require Import Model.Stil Model.Corr.
Import ListNotations.
Local Open Scope list_scope.
Local Open Scope string_scope.
'''


# ---- running the implementation ------------------------------------------------------------------------
def _t(a):
    """(interface, patterns) array -> list of columns of ints"""
    a = np.asarray(a)
    return [[int(v) for v in a[:, i]] for i in range(a.shape[1])]


def _try(f):
    try:
        with contextlib.redirect_stdout(io.StringIO()):
            return f(), None
    except Exception as e:   # noqa
        return None, f'{type(e).__name__}: {e}'


def observe(text, c, s=None):
    """Parses text and calls everything on circuit c.  Returns a dict; entries are None where the call raised
    (the message is kept in obs['errors'])."""
    from kyupy import stil, logic
    from kyupy.logic_sim import LogicSim
    obs = {'errors': {}}
    if s is None:       # else: an already parsed (and already queried) StilFile is applied to ANOTHER circuit
        s, err = _try(lambda: stil.parse(text))
        if s is None:
            obs['errors']['parse'] = err
            return None, obs
    # the call dictionaries hold the strings of the file; anything else is reported (and rendered as a string so that the case still runs)
    def as_str(v):
        if isinstance(v, str):
            return v
        obs['errors']['patterns'] = f'a pattern entry is a {type(v).__name__}, not the string of the file'
        try:
            return mv_chars(np.asarray(v).reshape(-1))
        except Exception:   # noqa
            return str(v)
    obs['patterns'] = [tuple({k: as_str(v) for k, v in dict(x).items()} for x in p) for p in s.patterns]

    def maps():
        interface, pi_map, po_map, scan_maps, scan_inv = s._maps(c)
        inv = {k: (('s', int(v)) if np.ndim(v) == 0 else ('a', [int(x) for x in v])) for k, v in scan_inv.items()}
        return ([n.name for n in interface], [int(x) for x in pi_map], [int(x) for x in po_map],
                {k: [int(x) for x in v] for k, v in scan_maps.items()}, inv)
    for key, f in (('maps', maps), ('tests', lambda: _t(s.tests(c))), ('resp', lambda: _t(s.responses(c)))):
        obs[key], err = _try(f)
        if err:
            obs['errors'][key] = err
    grabbed = {}

    def grab(init):
        grabbed['init'] = np.array(init)
        return init
    obs['loc'], err = _try(lambda: _t(s.tests_loc(c, init_filter=grab)))
    if err:
        obs['errors']['loc'] = err
    obs['init'] = _t(grabbed['init']) if 'init' in grabbed else None
    # a StilFile is queried many times: the same query must give the same arrays again (after all the other queries)
    for key, f in (('tests', lambda: _t(s.tests(c))), ('resp', lambda: _t(s.responses(c))), ('loc', lambda: _t(s.tests_loc(c)))):
        again, err = _try(f)
        if obs.get(key) is not None and again != obs[key]:
            obs['errors']['repeat'] = f'{key}: a second query of the same StilFile returned different values ({err or "no exception"})'
            break
    obs['sims'] = []
    if obs['init'] is not None:
        def sim():
            init = grabbed['init']
            sim8v = LogicSim(c, init.shape[-1], m=8)
            sim8v.s[0] = logic.mv_to_bp(init)
            sim8v.s_to_c()
            sim8v.c_prop()
            sim8v.c_to_s()
            return _t(logic.bp_to_mv(sim8v.s[1])[..., :init.shape[-1]])
        sims, err = _try(sim)
        obs['sims'] = sims if sims is not None else [[] for _ in obs['init']]
    return s, obs


# ---- oracle ------------------------------------------------------------------------------------------------
def grammar_oracle(s, d, calls, chains=None):
    """text -> (signal groups, chains, call list): the parser must hand back what was rendered"""
    chains = chains if chains is not None else d.chains
    exp_chains = {ch['name']: [ch['si']] + list(ch['items']) + [ch['so']] for ch in chains}
    if dict(s.scan_chains) != exp_chains or list(s.scan_chains) != list(exp_chains):
        return f'scan_chains parsed as {dict(s.scan_chains)}, file says {exp_chains}'
    if s.signal_groups.get('_pi') != d.groups_pi or s.signal_groups.get('_po') != d.groups_po:
        return f'signal groups _pi/_po parsed as {s.signal_groups.get("_pi")}/{s.signal_groups.get("_po")}, file says {d.groups_pi}/{d.groups_po}'
    for g, m in (('_si', d.si), ('_so', d.so), ('_clk', d.clocks), ('_in', d.inputs), ('all_ports', ['all_inputs', 'all_outputs'])):
        if s.signal_groups.get(g) != m:
            return f'signal group {g} parsed as {s.signal_groups.get(g)}, file says {m}'
    got = [(cl.name, list(cl.parameters.items())) for cl in s.calls]
    exp = [(n, [(k, v) for k, v in ps]) for n, ps in calls]
    if [(n, [(k, v.replace('\n', '')) for k, v in ps]) for n, ps in got] != exp:
        for i, (a, b) in enumerate(zip(got, exp)):
            if (a[0], [(k, v.replace('\n', '')) for k, v in a[1]]) != b:
                return f'call {i} parsed as {a}, file says {b}'
        return f'{len(got)} calls parsed, file has {len(exp)}'
    return None


def mv_chars(col):
    return ''.join('0X-1PRFN'[v] for v in col)


def array_oracle(obs, d, pats):
    """tests / responses / tests_loc against the intended values, position by position"""
    names = sg.interface_names(d)
    t, r, l = sg.expected(d, pats)
    for key, exp, what in (('tests', t, 'tests()'), ('resp', r, 'responses()'), ('loc', l, 'tests_loc()')):
        got = obs.get(key)
        if got is None:
            return f'{what} raises {obs["errors"].get(key)}', {'fn': key, 'raises': obs['errors'].get(key)}
        if len(got) != len(exp):
            return f'{what} has {len(got)} patterns, the file has {len(exp)}', {'fn': key}
        for i, (g, e) in enumerate(zip(got, exp)):
            if len(g) != len(names):
                return (f'{what} has {len(g)} rows, the circuit has {len(names)} ports + flip-flops + latches (s_nodes order: {names})',
                        {'fn': key, 'rows': len(g)})
            gs = mv_chars(g)
            es = ''.join(e)
            if gs != es:
                j = next(k for k in range(len(names)) if gs[k] != es[k])
                return (f'{what} pattern {i}: value at {names[j]!r} (position {j}) is {gs[j]!r}, expected {es[j]!r}; '
                        f'column {gs} expected {es} over {names}', {'fn': key, 'name': names[j]})
    return None, None


# ---- the TetraMAX files shipped with the repository: independent (regex) reading + the same expectations ----------
def read_stil_plain(text):
    """Independent of the lark grammar: chains, _pi/_po groups and the intended patterns of a TetraMAX STIL file."""
    import re
    text = re.sub(r'//[^\n]*', '', text)
    groups = {}
    blk = re.search(r'SignalGroups\s*\{(.*?)\n\}', text, flags=re.S).group(1)
    for m in re.finditer(r'"([^"]+)"\s*=\s*\'([^\']*)\'', blk):
        groups[m.group(1)] = re.findall(r'"([^"]+)"', m.group(2))
    chains = []
    for m in re.finditer(r'ScanChain\s+"([^"]+)"\s*\{(.*?)\}', text, flags=re.S):
        body = m.group(2)
        items = []
        for tok in re.findall(r'"[^"]*"|!', re.search(r'ScanCells(.*?);', body, flags=re.S).group(1)):
            items.append('!' if tok == '!' else tok.strip('"').replace('.SI', '').split('.')[-1])
        chains.append({'name': m.group(1), 'si': re.search(r'ScanIn\s+"([^"]+)"', body).group(1),
                       'so': re.search(r'ScanOut\s+"([^"]+)"', body).group(1), 'items': items})
    pat = text[re.search(r'\nPattern\s+"', text).start():]
    calls = [(m.group(1), {k: v.replace('\n', '').strip() for k, v in re.findall(r'"([^"]+)"\s*=\s*([^;]+);', m.group(2))})
             for m in re.finditer(r'Call\s+"([^"]+)"\s*\{([^}]*)\}', pat)]
    dec = {'0': '0', '1': '1', 'N': '-', 'X': 'X', 'L': '0', 'H': '1', 'P': 'P'}
    flip = {'0': '1', '1': '0'}

    def unshift(ch, s, side):
        cells = [i for i, x in enumerate(ch['items']) if x != '!']
        out = {}
        for j, idx in enumerate(reversed(cells)):
            v = dec[s[j]]
            passed = ch['items'][:idx] if side == 'in' else ch['items'][idx + 1:]
            out[ch['items'][idx]] = flip.get(v, v) if passed.count('!') % 2 else v
        return out
    pats, cur = [], None
    for name, ps in calls:
        if name == 'load_unload':
            if cur is not None and 'capture_pi' in cur:
                cur['unload'] = {}
                for ch in chains:
                    cur['unload'].update(unshift(ch, ps[ch['so']], 'out'))
                pats.append(cur)
            cur = {'state': {}, 'launch_pi': None}
            for ch in chains:
                if ch['si'] in ps:
                    cur['state'].update(unshift(ch, ps[ch['si']], 'in'))
        elif name.endswith('_launch'):
            cur['launch_pi'] = {n: dec[c] for n, c in zip(groups['_pi'], ps['_pi'])}
        elif name.endswith('_capture'):
            cur['capture_pi'] = {n: dec[c] for n, c in zip(groups['_pi'], ps['_pi'])}
            cur['capture_po'] = {n: dec[c] for n, c in zip(groups['_po'], ps.get('_po', ''))}   # the last capture call counts
    return groups, chains, pats


def real_file_oracle(stil_path, netlist_path, loc):
    """tests()/responses() (and tests_loc() if loc) of a shipped file against the independent reading; the next state
    comes from LogicSim (this anchors the mapping, not the simulator)."""
    import gzip
    from kyupy import stil, verilog, logic
    from kyupy.techlib import SAED32
    from kyupy.logic_sim import LogicSim
    with contextlib.redirect_stdout(io.StringIO()):
        c = verilog.load(netlist_path, tlib=SAED32)
        s = stil.load(stil_path)
    groups, chains, pats = read_stil_plain(gzip.open(stil_path, 'rt').read())
    names = [n.name for n in c.io_nodes] + [n.name for n in c.nodes if 'dff' in n.kind.lower()] + \
            [n.name for n in c.nodes if 'latch' in n.kind.lower()]
    state_elems = names[len(c.io_nodes):]
    scan = [x for ch in chains for x in ch['items'] if x != '!']

    def next_states(inits):
        if not loc:
            return [{e: 'X' for e in state_elems} for _ in inits]
        arr = np.array([[sg.CODE[i[n]] for i in inits] for n in names], dtype=np.uint8)
        with contextlib.redirect_stdout(io.StringIO()):
            sim = LogicSim(c, arr.shape[-1], m=8)
            sim.s[0] = logic.mv_to_bp(arr)
            sim.s_to_c(); sim.c_prop(); sim.c_to_s()
            res = logic.bp_to_mv(sim.s[1])[..., :arr.shape[-1]]
        return [{e: '0X-1PRFN'[res[len(c.io_nodes) + k, i]] for k, e in enumerate(state_elems)} for i in range(len(inits))]
    t, r, l = sg.expected_arrays(names, scan, state_elems, pats, next_states)
    checks = [('tests()', lambda: s.tests(c), t), ('responses()', lambda: s.responses(c), r)]
    if loc:
        checks.append(('tests_loc()', lambda: s.tests_loc(c), l))
    n = 0
    for what, f, exp in checks:
        got, err = _try(lambda: _t(f()))
        if got is None:
            return f'{what} raises {err}', 0
        if len(got) != len(exp):
            return f'{what} has {len(got)} patterns, the file has {len(exp)}', 0
        for i, (g, e) in enumerate(zip(got, exp)):
            if mv_chars(g) != ''.join(e):
                j = next(k for k in range(len(names)) if k >= len(g) or mv_chars(g)[k] != e[k])
                return f'{what} pattern {i}: value at {names[j]!r} differs from the file: got {mv_chars(g)[j:j + 1]!r}, expected {e[j]!r}', 0
        n += len(exp)
    return None, n


# ---- Coq rendering ----------------------------------------------------------------------------------------------
def cs(s):
    return '"' + s.replace('"', '""') + '"'


def cl(xs, f=str):
    return '[' + '; '.join(f(x) for x in xs) + ']'


def cdict(d, f):
    return cl(list(d.items()), lambda kv: f'({cs(kv[0])}, {f(kv[1])})')


def cpat(p):
    return '{| p_load := %s; p_launch := %s; p_capture := %s; p_unload := %s |}' % tuple(cdict(x, cs) for x in p)


def cmat(m):
    return 'None' if m is None else 'Some ' + cl(m, lambda col: cl(col))


def cinv(v):
    return f'Scal {v[1]}' if v[0] == 's' else f'Arr {cl(v[1])}'


def cmaps(m):
    if m is None:
        return 'None'
    names, pi, po, sm, inv = m
    return f'Some ({cl(names, cs)}, {cl(pi)}, {cl(po)}, {cdict(sm, cl)}, {cdict(inv, cinv)})'


def ccircuit(c):
    nodes = cl(c.nodes, lambda n: '{| sn_name := %s; sn_kind := %s |}' % (cs(n.name), cs(n.kind)))
    return '{| sc_nodes := %s; sc_io := %s |}' % (nodes, cl([n.index for n in c.io_nodes]))


def coq_case(s, c, obs):
    """one stil_input record: what the parser handed to StilFile.__init__, the circuit, the observations"""
    groups = cdict(dict(s.signal_groups), lambda v: cl(v, cs))
    chains = cdict(dict(s.scan_chains), lambda v: cl(v, cs))
    calls = cl(s.calls, lambda x: '{| call_name := %s; call_params := %s |}' % (cs(x.name), cdict(dict(x.parameters), cs)))
    o = ('{| o_patterns := %s; o_maps := %s; o_tests := %s; o_resp := %s; o_init := %s; o_sims := %s; o_loc := %s |}' % (
        cl(obs['patterns'], cpat), cmaps(obs['maps']), cmat(obs['tests']), cmat(obs['resp']), cmat(obs['init']),
        cl(obs['sims'], cl), cmat(obs['loc'])))
    return '{| i_groups := %s; i_chains := %s; i_calls := %s; i_circuit := %s; i_obs := %s |}' % (groups, chains, calls, ccircuit(c), o)


def cases_file(cases):
    """prints two lists: cases where the repaired-code model disagrees, cases where the pinned-tree model disagrees"""
    return (HEADER + 'Definition cases : list stil_input := [\n ' + ';\n '.join(cases) + '].\n'
            'Eval vm_compute in (failing (map (stil_run true) cases)).\n'
            'Eval vm_compute in (failing (map (stil_run false) cases)).\n')


def parse_two_lists(out):
    import re
    ms = re.findall(r'=\s*\[(.*?)\]\s*:\s*list nat', out, flags=re.S)
    if len(ms) != 2:
        return None
    return tuple([int(x) for x in re.findall(r'\d+', m)] for m in ms)
