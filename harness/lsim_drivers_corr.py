"""Tie T + validation for the DRIVER code of the logic simulator (translate/gen_logicsim_drivers.py -> Gen/LogicSimDriversSrc.v, meaning:
Model/LogicSimDrvPrelude.v).  The real methods LogicSim.s_to_c / c_prop (all four loop copies, with and without a callback) / c_to_s /
s_ppo_to_ppi / cycle are called unbound on a stub object that holds exactly the attributes they read, on small generated arrays; per lane
(bit position) the Coq functions -- the TRANSLATED loops run by run_loop / c_prop_src, the pinned per-lane meaning of the vectorised
methods -- must produce exactly the bit planes (and the callback's call sequence with the values it was shown) the implementation
produced.  Generated cases include: no state element at all, state elements without data line (no PPO slot) / without output line (no PPI
slot), primary positions with both slots, sims not a multiple of 8, op rows whose output is not a circuit line, unknown opcodes, every
opcode of sim.py, callbacks that overwrite the view."""
import io
import contextlib
import numpy as np

from harness import circgen as cg


def translate_drivers(ck):
    from vcheck import gen_all
    res = gen_all.generate(['LogicSimDriversSrc'])
    ck.obligation('translate the evaluation loops of LogicSim.c_prop / _prop_cpu (if / elif chains, c_locs re-mapping, callback statement) and pin '
                  'LogicSim.s_to_c / c_to_s / s_ppo_to_ppi / cycle -> Gen/LogicSimDriversSrc.v', res['LogicSimDriversSrc'] is None, 'translation',
                  res['LogicSimDriversSrc'] or '')
    ck.trust('translator translate/gen_logicsim_drivers.py (fail-closed Python-ast translation of the four copies of the evaluation loop into the '
             'decision lists of Model/LogicSimDrvPrelude.v; LogicSim.s_to_c / c_to_s / s_ppo_to_ppi / cycle, the skeleton of c_prop and the array '
             'shapes pinned as exact syntax trees, their per-lane meaning written by hand in the prelude); validated against the real methods '
             'on generated arrays below')
    return res['LogicSimDriversSrc'] is None


class Stub:
    pass


def b(x):
    return 'true' if x else 'false'


def planes_lit(arr, lane):
    """arr[..., nbytes] uint8 -> list of planes (one bool per plane) for bit `lane`"""
    byte, bit = divmod(lane, 8)
    return cg.coq_list([(int(v) >> (7 - bit)) & 1 for v in arr[:, byte]], b)


def mem_lit(c, lane):
    return cg.coq_list(range(c.shape[0]), lambda i: planes_lit(c[i], lane))


def gen_case(rng, sim, i):
    m = [2, 4, 8][i % 3]
    mdim = {2: 1, 4: 2, 8: 3}[m]
    sims = rng.choice([1, 3, 8, 9, 13])
    nbytes = (sims - 1) // 8 + 1
    s_len = rng.randint(0, 4) if i % 7 else rng.randint(0, 1)
    n_io = rng.randint(0, s_len) if i % 5 else s_len          # i % 5 == 0: no state element at all
    nlines = rng.randint(1, 4)
    zero, tmp, tmp2 = nlines, nlines + 1, nlines + 2
    ppi_off, ppo_off = nlines + 3, nlines + 3 + s_len
    nloc = nlines + 3 + s_len + rng.randint(0, 2)
    # lines, zero, tmp, tmp2: distinct locations (tmp / tmp2 never shared); PPI slots own locations or none; PPO slots alias lines or none
    perm = list(range(nloc))
    rng.shuffle(perm)
    locs = perm[:nlines + 3]
    free = perm[nlines + 3:]
    ppi = [(-1 if rng.random() < 0.3 or not free else free.pop()) for _ in range(s_len)]
    ppo = [(-1 if rng.random() < 0.3 else rng.choice(locs[:nlines])) for _ in range(s_len)]
    c_locs = np.array(locs + ppi + ppo, dtype=np.int32)
    from translate.gen_sim_tables import luts as lut_names
    luts = [int(v) for _, v in lut_names(sim)]
    ops = []
    readable = [zero] + [ppi_off + k for k in range(s_len) if ppi[k] >= 0]
    for _ in range(rng.randint(0, 6)):
        lut = rng.choice(luts) if rng.random() < 0.93 else 12345       # 12345: no such opcode (the chain's else branch)
        out = rng.randrange(nlines) if rng.random() < 0.85 else tmp      # tmp: a gate without output line (index >= number of lines)
        pool = [x for x in readable if x != out or m == 2]     # m = 4 / 8: the output view never overlaps an operand (the memory map's guarantee)
        ins = [rng.choice(pool) for _ in range(4)]
        if out == tmp and m != 2:
            lut = rng.choice([int(sim.BUF1), int(sim.AND2), int(sim.OR3), int(sim.XOR4)])   # branches that do not use the scratch slot
        ops.append([lut, out] + ins + [-1, 0, 0])
        if out != tmp and out not in readable:
            readable.append(out)
    ops = np.array(ops, dtype=np.int32).reshape(len(ops), 9)
    c = np.array([[[rng.randrange(256) for _ in range(nbytes)] for _ in range(mdim)] for _ in range(nloc)], dtype=np.uint8).reshape(nloc, mdim, nbytes)
    s = np.array([[[[rng.randrange(256) for _ in range(nbytes)] for _ in range(3)] for _ in range(s_len)] for _ in range(2)], dtype=np.uint8).reshape(2, s_len, 3, nbytes)
    st = Stub()
    st.circuit = Stub()
    st.circuit.io_nodes = [None] * n_io
    st.circuit.lines = [('line', k) for k in range(nlines)]
    st.m, st.mdim, st.sims, st.s_len, st.c_locs, st.ops = m, mdim, sims, s_len, c_locs, ops
    st.tmp_idx, st.tmp2_idx, st.ppi_offset, st.ppo_offset = tmp, tmp2, ppi_off, ppo_off
    from translate import gen_wave_drivers as gd
    exec(gd.PIN_SIMOPS, {'np': np, 'self': st})    # the index lists exactly as the pinned statements of SimOps.__init__ compute them
    return st, c, s


def run_case(st, c, s, rng):
    """-> dict name -> (c, s[, calls]) after each driver"""
    from kyupy import logic_sim as ls
    out = {}
    flip = [rng.randrange(256) for _ in range(len(st.circuit.lines))]

    def fresh():
        st.c, st.s = c.copy(), s.copy()

    def cb_for(calls):
        def cb(line, view):
            calls.append((line[1], view.copy()))
            view ^= np.uint8(flip[line[1]])
        return cb
    with contextlib.redirect_stdout(io.StringIO()):
        fresh(); ls.LogicSim.s_to_c(st); out['s_to_c'] = (st.c, st.s)
        fresh(); ls.LogicSim.c_prop(st); out['c_prop'] = (st.c, st.s)
        calls = []
        fresh(); ls.LogicSim.c_prop(st, cb_for(calls)); out['c_prop_cb'] = (st.c, st.s, calls)
        fresh(); ls.LogicSim.c_to_s(st); out['c_to_s'] = (st.c, st.s)
        fresh(); ls.LogicSim.s_ppo_to_ppi(st); out['ppo'] = (st.c, st.s)
        st.s_to_c = lambda: ls.LogicSim.s_to_c(st)
        st.c_prop = lambda cb=None: ls.LogicSim.c_prop(st, cb)
        st.c_to_s = lambda: ls.LogicSim.c_to_s(st)
        st.s_ppo_to_ppi = lambda: ls.LogicSim.s_ppo_to_ppi(st)
        fresh(); ls.LogicSim.cycle(st, 2); out['cycle'] = (st.c, st.s)
        del st.s_to_c, st.c_prop, st.c_to_s, st.s_ppo_to_ppi
    return out, flip


HEADER = '''From Coq Require Import List ZArith NArith Bool Arith String.
From KV Require Import Model.WaveDrvPrelude Model.LogicSimDrvPrelude Gen.LogicSimDriversSrc.
Import ListNotations.
Local Open Scope list_scope.
Fixpoint bl_eqb (a b : list bool) : bool := match a, b with [], [] => true | x :: a', y :: b' => Bool.eqb x y && bl_eqb a' b' | _, _ => false end.
Fixpoint bll_eqb (a b : list (list bool)) : bool := match a, b with [], [] => true | x :: a', y :: b' => bl_eqb x y && bll_eqb a' b' | _, _ => false end.
Fixpoint calls_eqb (a b : list (nat * list bool)) : bool :=
  match a, b with [], [] => true | (k, x) :: a', (k', y) :: b' => Nat.eqb k k' && bl_eqb x y && calls_eqb a' b' | _, _ => false end.
Definition ls_eqb (a b : lsim) : bool := bll_eqb (ls_c a) (ls_c b) && bll_eqb (ls_s0 a) (ls_s0 b) && bll_eqb (ls_s1 a) (ls_s1 b).
Definition cprop := c_prop_src loop_prop_cpu loop_cprop2_cb loop_cprop4 loop_cprop8.
(* the test callback: view ^= flip[line] on the lane's bit *)
Definition flipcb (fl : list bool) : callback := fun k v => map (xorb (nth k fl false)) v.
'''


def run(ck, rng, n=36):
    from kyupy import sim
    cases, descs, fails = [], [], []
    for i in range(n):
        st, c, s = gen_case(rng, sim, i)
        try:
            out, flip = run_case(st, c, s, rng)
        except Exception as e:   # an implementation that raises on these arrays is a failure of the case
            fails.append(('lsim-drivers:raises', f'LogicSim driver code raises on generated arrays: {e!r}',
                          {'component': 'logic_sim driver methods', 'input': {'m': st.m, 'ops': st.ops.tolist(), 'c_locs': st.c_locs.tolist()}}))
            continue
        locs = cg.coq_list(st.c_locs, cg.coq_Z)
        n_io, s_len, nl = len(st.circuit.io_nodes), st.s_len, len(st.circuit.lines)
        rows = cg.coq_list(st.ops[:, :6].tolist(), lambda r: cg.coq_list(r, cg.coq_Z))
        ppi, ppo = cg.coq_Z(st.ppi_offset), cg.coq_Z(st.ppo_offset)
        tmp, tmp2 = cg.coq_Z(st.tmp_idx), cg.coq_Z(st.tmp2_idx)
        for lane in sorted(set([0, st.sims - 1, (st.sims - 1) // 2])):
            def L(cs):
                return f'(mk_lsim {mem_lit(cs[0], lane)} {mem_lit(cs[1][0], lane)} {mem_lit(cs[1][1], lane)})'
            L0 = L((c, s))
            byte, bit = divmod(lane, 8)
            fl = cg.coq_list([(f >> (7 - bit)) & 1 for f in flip], b)
            calls = cg.coq_list(out['c_prop_cb'][2], lambda kv: f'({kv[0]}, {planes_lit(kv[1], lane)})')
            stc = f's_to_c_src {st.mdim} {locs} {ppi} {n_io} {s_len}'
            cts = f'c_to_s_src {st.mdim} {locs} {ppo} {n_io} {s_len}'
            p2p = f's_ppo_to_ppi_src {st.mdim} {n_io} {s_len}'
            prop = f'(fun M => fst (cprop {st.m} {locs} {nl} {tmp} {tmp2} None {rows} M))'
            cases += [
                f'ls_eqb ({stc} {L0}) {L(out["s_to_c"])}',
                f'bll_eqb (fst (cprop {st.m} {locs} {nl} {tmp} {tmp2} None {rows} (ls_c {L0}))) {mem_lit(out["c_prop"][0], lane)}',
                f'(let r := cprop {st.m} {locs} {nl} {tmp} {tmp2} (Some (flipcb {fl})) {rows} (ls_c {L0}) in '
                f'bll_eqb (fst r) {mem_lit(out["c_prop_cb"][0], lane)} && calls_eqb (snd r) {calls})',
                f'ls_eqb ({cts} {L0}) {L(out["c_to_s"])}',
                f'ls_eqb ({p2p} {L0}) {L(out["ppo"])}',
                f'ls_eqb (cycle_src 2 ({stc}) ({cts}) ({p2p}) {prop} {L0}) {L(out["cycle"])}',
            ]
            descs += [{'driver': d, 'lane': lane, 'm': st.m, 'c_locs': st.c_locs.tolist(), 'ops': st.ops[:, :6].tolist(), 'n_io': n_io, 's_len': s_len,
                       'sims': st.sims, 'lines': nl}
                      for d in ('LogicSim.s_to_c', 'LogicSim.c_prop', 'LogicSim.c_prop(inject_cb)', 'LogicSim.c_to_s', 'LogicSim.s_ppo_to_ppi', 'LogicSim.cycle(2)')]
            ck.count(6, 'logic simulator driver semantics: (driver, lane) pairs')
        ck.count(int(n_io == s_len), 'driver cases without any state element')
        ck.count(int(any(st.c_locs[st.ppi_offset + k] < 0 or st.c_locs[st.ppo_offset + k] < 0 for k in range(n_io, s_len))),
                 'driver cases with a state element lacking a PPI or PPO slot')
        ck.count(int(st.sims % 8 != 0), 'driver cases with sims not a multiple of 8')
        ck.nontrivial(('lsdrv', i))
    text = HEADER + 'Definition cases : list bool := [\n  ' + ';\n  '.join(cases) + '].\n' \
        'Eval vm_compute in (map fst (filter (fun p => negb (snd p)) (combine (seq 0 (List.length cases)) cases))).\n'
    ok, outp = ck.coq_eval('lsdrv', text)
    bad = cg.parse_nat_list(outp) if ok else None
    ck.obligation('Model/LogicSimDrvPrelude.v + Gen/LogicSimDriversSrc.v (translated evaluation loops incl. callback protocol; pinned per-lane meaning of '
                  'LogicSim.s_to_c / c_to_s / s_ppo_to_ppi / cycle) = the implementation on generated arrays',
                  ok and bad == [], 'correspondence', '' if ok and bad == [] else (outp[-600:] if not ok else f'cases {bad[:10]} differ: {descs[bad[0]]}'))
    if ok and bad:
        fails.append(('lsim-drivers:semantics', f'driver semantics and implementation disagree: {descs[bad[0]]}',
                      {'component': 'Model/LogicSimDrvPrelude.v vs logic_sim driver code', 'input': descs[bad[0]]}))
    return fails
