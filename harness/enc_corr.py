"""C15: generators, runners on the real kyupy.logic functions, Coq rendering and an independent oracle for the
logic-value encodings (interpret / mvarray / mv_str / mv_to_bp / bparray / bp_to_mv / unpackbits / packbits / popcount).

Every input is built from generator-owned ground truth: the generator first draws the *logical* content (codes per
(pattern, signal), Python ints, bit lists) and only then chooses a representation (alias character, scalar, dtype,
memory layout).  The oracle states the property on that ground truth with plain Python loops (no numpy arithmetic)."""
import numpy as np

HEADER = '''From Coq Require Import List ZArith NArith Bool Arith.
From KV Require Import Model.Encodings Model.EncodingsCorr.
Import ListNotations.
Local Open Scope list_scope.
'''

CANON = '0X-1PRFN'
NOTES = set()
# the documented alias table (docstrings of ZERO..NPULSE) -- the specification the oracle uses
DOC_CHARS = {0: ['0', 'L', 'l'], 1: ['X'], 2: ['-', 'Z', 'z'], 3: ['1', 'H', 'h'],
             4: ['P', 'p', '^'], 5: ['R', 'r', '/'], 6: ['F', 'f', '\\'], 7: ['N', 'n', 'v']}
DOC_SCALARS = {0: [0, False], 2: [None], 3: [1, True]}
ALIAS = {c: v for v, cs in DOC_CHARS.items() for c in cs}
JUNK_CHARS = ['x', 'U', '?', ' ', '2', '9', 'a', 'Q', '_', '.', '\t', '\x00', '\x7f', '\xff', 'Ā', 'Ω', '中', '\U0001F600', 'o', 'O', 'I', '|']
JUNK_SCALARS = [2, -1, 7, 255]
DTYPES = ['int8', 'int16', 'int32', 'int64', 'uint8', 'uint16', 'uint32', 'uint64']


def spec_code(x):
    """documented meaning of one scalar / character"""
    if isinstance(x, str):
        return ALIAS.get(x, 1)
    if x is None:
        return 2
    if x is True or (isinstance(x, int) and not isinstance(x, bool) and x == 1):
        return 3
    if x is False or (isinstance(x, int) and not isinstance(x, bool) and x == 0):
        return 0
    return 1


# ------------------------------------------------------------------------------------------------ generators
def pick_char(rng, code, canonical=False):
    if canonical:
        return CANON[code]
    if code == 1 and rng.random() < 0.6:
        return rng.choice(JUNK_CHARS)
    return rng.choice(DOC_CHARS[code])


def pick_scalar(rng, code):
    opts = list(DOC_CHARS[code]) + DOC_SCALARS.get(code, [])
    if code == 1:
        opts += JUNK_CHARS[:6] + JUNK_SCALARS
    return rng.choice(opts)


def gen_codes(rng, p, s, style):
    if style == 'all-values':
        return [[(j * s + i) % 8 for i in range(s)] for j in range(p)]
    if style == 'binary':
        return [[rng.choice((0, 3)) for _ in range(s)] for _ in range(p)]
    return [[rng.randrange(8) for _ in range(s)] for _ in range(p)]


def gen_args(rng):
    """-> dict(kind, args (Python values for mvarray), truth (codes per pattern) or None, p, s, form)"""
    r = rng.random()
    p = rng.choice([1, 1, 2, 2, 3, 5, 8, 9, 17])
    s = rng.choice([0, 1, 1, 2, 3, 5, 8, 13])
    style = rng.choice(['random', 'random', 'all-values', 'binary'])
    if r < 0.45:
        form = rng.choice(['canonical', 'alias'])
        G = gen_codes(rng, p, s, style)
        args = [''.join(pick_char(rng, c, form == 'canonical') for c in row) for row in G]
        return dict(kind='strings', args=args, truth=G, p=p, s=s, form=form)
    if r < 0.60:
        G = gen_codes(rng, p, s, style)
        args = [[pick_scalar(rng, c) for c in row] for row in G]
        if rng.random() < 0.3:
            args = [tuple(a) for a in args]
        return dict(kind='lists', args=args, truth=G, p=p, s=s, form='scalars')
    if r < 0.70:
        G = gen_codes(rng, 1, max(s, 1), style)
        args = [pick_scalar(rng, c) for c in G[0]]
        return dict(kind='scalars', args=args, truth=G, p=1, s=len(args), form='scalars')
    if r < 0.80:
        G = gen_codes(rng, p, s, style)
        args = []
        for row in G:
            if rng.random() < 0.5 and s != 1:
                args.append(''.join(pick_char(rng, c) for c in row))
            else:
                args.append([pick_scalar(rng, c) for c in row])
        if s == 1:
            pass
        return dict(kind='mixed', args=args, truth=G, p=p, s=s, form='mixed')
    if r < 0.92:
        # nested: b groups of p patterns -> 3-D (or 4-D) arrays
        b = rng.choice([1, 2, 3])
        s2 = rng.choice([2, 3, 5])
        GG = [gen_codes(rng, p, s2, style) for _ in range(b)]
        args = [[''.join(pick_char(rng, c) for c in row) for row in G] for G in GG]
        wrapped = rng.random() < 0.3
        if wrapped:
            args = [args]
        return dict(kind='nested', args=args, truth=GG, p=p, s=s2, form='nested', wrapped=wrapped, b=b)
    # ragged / irregular: np.array must raise
    G = gen_codes(rng, max(p, 2), max(s, 2), style)
    args = [''.join(pick_char(rng, c) for c in row) for row in G]
    k = rng.randrange(len(args))
    args[k] = args[k][:-1] if rng.random() < 0.5 else args[k] + '0'
    if rng.random() < 0.3:
        args[k] = 0
    return dict(kind='ragged', args=args, truth=None, p=len(args), s=max(s, 2), form='ragged')


def expected_mvarray(case):
    """ground truth of the axis convention: (shape, nested list) or None when not stated by the property"""
    G, p, s, kind = case['truth'], case['p'], case['s'], case['kind']
    if G is None:
        return None
    if kind == 'nested':
        if p < 2:
            return None                         # groups of a single pattern: axis meaning not stated
        b = case['b']
        res = [[[G[g][j][i] for j in range(p)] for i in range(s)] for g in range(b)]
        return ((1, b, s, p), [res]) if case['wrapped'] else ((b, s, p), res)
    if kind == 'scalars':
        return (s,), list(G[0])
    charlike = [isinstance(a, str) and len(a) == 1 for a in case['args']]
    if any(charlike):
        if all(charlike):                       # characters are scalars: together they form ONE vector
            return (p,), [row[0] for row in G]
        return None                             # characters mixed with one-element lists: ragged, not stated
    if p == 1:
        return (s,), list(G[0])
    return (s, p), [[G[j][i] for j in range(p)] for i in range(s)]


def gen_shape(rng, last=None, edge=False):
    nd = rng.choice([1, 2, 2, 2, 3, 3, 4, 5])
    dims = [rng.choice([1, 2, 3]) for _ in range(max(nd - 2, 0))]
    if nd >= 2:
        dims.append(rng.choice([1, 2, 3, 4, 6]))
    dims.append(last if last is not None else rng.choice([1, 2, 3, 5, 7, 8, 9, 15, 16, 17, 23, 33]))
    if edge and rng.random() < 0.5:
        dims[rng.randrange(len(dims))] = 0
    return tuple(dims)


def nested(rng, shape, f):
    if len(shape) == 0:
        return f()
    return [nested(rng, shape[1:], f) for _ in range(shape[0])]


def relayout(rng, a):
    """same logical array, different memory layout (uint8 only: unpackbits' view() needs no contiguity then)"""
    r = rng.random()
    if r < 0.6 or a.ndim < 1:
        return a, 'C'
    if r < 0.8:
        return np.asfortranarray(a), 'F'
    big = np.zeros(tuple(2 * d for d in a.shape), dtype=a.dtype)
    sl = tuple(slice(None, None, 2) for _ in a.shape)
    big[sl] = a
    return big[sl], 'strided'


# ------------------------------------------------------------------------------------------------ rendering
def coq_z(x):
    return f'({int(x)})%Z'


def coq_pv(v):
    if isinstance(v, str):
        return 'S_ [' + ';'.join(f'{ord(c)}%N' for c in v) + ']'
    if v is None:
        return 'N_'
    if v is True:
        return 'T_'
    if v is False:
        return 'F_'
    if isinstance(v, int):
        return f'I_ {coq_z(v)}'
    if isinstance(v, (list, tuple)):
        return 'PSeq [' + ';'.join(coq_pv(x) for x in v) + ']'
    raise TypeError(v)


def coq_tr(x):
    if isinstance(x, list):
        return 'Nd [' + ';'.join(coq_tr(y) for y in x) + ']'
    return f'Lf {int(x)}'


def coq_nl(x, leaf=lambda v: str(int(v)), depth=None):
    """nested list; depth = number of list levels (needed for empty lists only by the caller's type annotation)"""
    if isinstance(x, list):
        return '[' + ';'.join(coq_nl(y, leaf) for y in x) + ']'
    return leaf(x)


def coq_shape(sh):
    return '[' + ';'.join(str(int(d)) for d in sh) + ']'


def coq_nstr(s):
    return '[' + ';'.join(f'{ord(c)}%N' for c in s) + ']'


def coq_opt(x, f):
    return 'None' if x is None else f'(Some {f(x)})'


def coq_dt(name):
    signed = name[0] == 'i'
    nbytes = int(name.lstrip('uint')) // 8
    return f'(DT {nbytes} {"true" if signed else "false"})'


def bits_leaf(depth_lists):
    """renders the innermost lists of a nested 0/1 list as B [...]"""
    def go(x, d):
        if d == 0:
            return 'B [' + ';'.join(str(int(b != 0)) for b in x) + ']'
        return '[' + ';'.join(go(y, d - 1) for y in x) + ']'
    return lambda x: go(x, depth_lists)


def cases_file(cases):
    body = ';\n '.join(cases)
    return HEADER + 'Definition cases : list enc_case := [\n ' + body + '].\nEval vm_compute in (enc_failing cases).\n'


# ------------------------------------------------------------------------------------------------ runners
def call(f, *a, **k):
    try:
        return f(*a, **k), None
    except Exception as e:  # noqa
        return None, f'{type(e).__name__}: {e}'


def arr_view(a):
    return (tuple(int(d) for d in a.shape), a.tolist())


# ---- mvarray / interpret / mv_str / bparray ---------------------------------------------------
def run_strings(case):
    """-> list of Coq cases, oracle message or None"""
    from kyupy import logic as lg
    args = case['args']
    coq = []
    msg = None
    pa = '[' + ';'.join(coq_pv(a) for a in args) + ']'
    itp, e0 = call(lg.interpret, list(args))
    if e0 is None:
        coq.append(f'CInterp (PSeq {pa}) ({coq_tr(itp)})')
    # "Iterables are traversed": ONE-SHOT iterables (iterators, generators, map / reversed objects, tuples) must give what the list gives
    if e0 is None:
        def gen(xs):
            for x in xs:
                yield x
        once = lambda a: iter(a) if isinstance(a, str) and len(a) != 1 else (gen(a) if isinstance(a, (list, tuple)) else a)
        for what, mk in (('an iterator over the arguments', lambda: iter(list(args))), ('a generator of the arguments', lambda: gen(args)),
                         ('a tuple', lambda: tuple(args)), ('a map object', lambda: map(lambda x: x, args)),
                         ('iterators over the characters of every pattern', lambda: [once(a) for a in args]),
                         ('a generator of character iterators', lambda: gen([once(a) for a in args]))):
            got, e1 = call(lg.interpret, mk())
            if e1 is not None or got != itp:
                return coq, f'interpret of {what} gives {e1 or got}, the list of the same items gives {itp}'
        strs = [a for a in args if isinstance(a, str) and len(a) > 1]
        if strs:
            got, e1 = call(lg.interpret, reversed(strs[0]))
            ref, _ = call(lg.interpret, strs[0][::-1])
            if e1 is not None or got != ref:
                return coq, f'interpret(reversed({strs[0]!r})) gives {e1 or got}, interpret({strs[0][::-1]!r}) gives {ref}'
    mva, err = call(lg.mvarray, *args)
    if err is None:
        def gen2(x):
            yield from x
        alt, e2 = call(lg.mvarray, *[(gen2(a) if isinstance(a, (str, list, tuple)) and len(a) != 1 else a) for a in args])
        if e2 is not None or not (isinstance(alt, np.ndarray) and alt.shape == np.asarray(mva).shape and np.array_equal(alt, mva)):
            return coq, f'mvarray of generators over the same patterns gives {e2 or np.asarray(alt).tolist()}, of the patterns themselves {np.asarray(mva).tolist()}'
    if err is None and not (isinstance(mva, np.ndarray) and mva.dtype == np.uint8):
        return coq, f'mvarray returns {type(mva).__name__} of dtype {getattr(mva, "dtype", None)}, not a uint8 array'
    coq.append('CMvarray %s %s' % (pa, coq_opt(None if err else arr_view(mva), lambda v: f'({coq_shape(v[0])}, {coq_tr(v[1])})')))
    exp = expected_mvarray(case)
    if exp is not None:
        if err is not None:
            return coq, f'mvarray raises {err}'
        if arr_view(mva) != (exp[0], exp[1]):
            return coq, (f'mvarray gives shape {mva.shape} {mva.tolist()}, the axis convention (signals on axis -2, patterns last) '
                         f'with the documented aliases gives shape {exp[0]} {exp[1]}')
    if err is not None:
        return coq, msg
    if exp is not None and len(exp[0]) > 2:
        exp = None                              # mv_str / bit planes are stated for at most two dimensions
    # rendering
    delim = case.get('delim', '\n')
    st, serr = call(lg.mv_str, mva, delim)
    ok_str = isinstance(st, str) or (serr is None and mva.ndim == 0)
    coq.append(f'CMvStr {coq_shape(mva.shape)} ({coq_tr(mva.tolist())}) {coq_nstr(delim)} '
               f'{coq_opt(None if serr or not ok_str else str(st), coq_nstr)}')
    if exp is not None:
        if serr is not None:
            return coq, f'mv_str raises {serr} on an array of shape {mva.shape}'
        G = case['truth']
        lines = [''.join(CANON[c] for c in exp[1])] if len(exp[0]) == 1 else \
            [''.join(CANON[exp[1][i][j]] for i in range(exp[0][0])) for j in range(exp[0][1])]
        want = delim.join(lines)
        if st != want:
            return coq, f'mv_str gives {st!r}, the documented characters give {want!r}'
        # strings -> mv -> strings -> mv is the identity on canonical strings
        if all(len(x) != 1 for x in lines):
            back, berr = call(lg.mvarray, *lines)
            if berr is not None or arr_view(back) != arr_view(mva):
                return coq, f'mvarray(*mv_str(a).split()) does not give back a ({berr or back.tolist()})'
        if case['form'] == 'canonical' and case['kind'] == 'strings' and st != delim.join(args) and len(exp[0]) == 2:
            return coq, f'mv_str(mvarray(*patterns)) = {st!r} is not the canonical input'
    # bparray
    bpa, berr = call(lg.bparray, *args)
    if mva.ndim <= 2:
        coq.append('CBparray %s %s' % (pa, coq_opt(None if berr else arr_view(bpa), lambda v: f'({coq_shape(v[0])}, {coq_nl(v[1])})')))
    if exp is not None:
        if berr is not None:
            return coq, f'bparray raises {berr}'
        m2 = [[c] for c in exp[1]] if len(exp[0]) == 1 else exp[1]
        m = plane_oracle(m2, bpa.tolist() if bpa.size else None, bpa.shape, 'bparray')
        if m:
            return coq, m
    return coq, msg


def plane_oracle(m2, bp, shape, who):
    """m2: signals x patterns codes; bp nested list [signal][plane][byte]: little-endian lanes, plane k = bit k, padding 0"""
    s = len(m2)
    p = len(m2[0]) if s else 0
    nb = -(-p // 8)
    if s and tuple(shape) != (s, 3, nb):
        return f'{who}: shape {tuple(shape)} instead of (signals={s}, 3, ceil(patterns/8)={nb})'
    if bp is None:
        return None
    for i in range(s):
        for k in range(3):
            for byte in range(nb):
                for lane in range(8):
                    j = 8 * byte + lane
                    want = (m2[i][j] >> k) & 1 if j < p else 0
                    got = (bp[i][k][byte] >> lane) & 1
                    if got != want:
                        return (f'{who}: signal {i} pattern {j} (byte {byte}, lane {lane}) plane {k} holds {got}, '
                                f'bit {k} of value {m2[i][j] if j < p else "padding"} is {want}')
    return None


# ---- mv <-> bp on arrays -------------------------------------------------------------------------
def flat_mats(x, nd):
    """list of the trailing-2-D matrices of an nd-deep nested list"""
    if nd == 2:
        return [x]
    return [m for y in x for m in flat_mats(y, nd - 1)]


def run_mv_bp(rng, shape, data, layout_rng=None):
    """data: nested list of codes of the given shape (ground truth).  -> coq cases, oracle message"""
    from kyupy import logic as lg
    a = np.array(data, dtype=np.uint8).reshape(shape)
    lay = 'C'
    if layout_rng is not None:
        a, lay = relayout(layout_rng, a)
    coq = []
    nd = len(shape)
    bp, err = call(lg.mv_to_bp, a)
    if err is not None:
        return coq, f'mv_to_bp raises {err} on shape {shape} ({lay} layout)'
    if bp.dtype != np.uint8:
        return coq, f'mv_to_bp returns dtype {bp.dtype}'
    back, err = call(lg.bp_to_mv, bp)
    if err is not None:
        return coq, f'bp_to_mv raises {err} on shape {bp.shape}'
    coq.append(f'CShapes {coq_shape(shape)} {coq_shape(bp.shape)} {coq_shape(back.shape)}')
    nonempty = a.size > 0 or all(d > 0 for d in shape[:-1])
    if nd == 1:
        coq.append(f'CMvToBp1 {coq_nl(data)} {coq_nl(bp.tolist())}')
        coq.append(f'CBpToMv 0 {coq_nl(bp.tolist())} {coq_nl(back.tolist())}')
    elif all(d > 0 for d in shape[:-2]):
        n = nd - 2
        coq.append(f'CMvToBp {n} ({coq_nl(data)} : tens mat {n}) ({coq_nl(bp.tolist())} : tens bpmat {n})')
        coq.append(f'CBpToMv {n} ({coq_nl(bp.tolist())} : tens bpmat {n}) ({coq_nl(back.tolist())} : tens mat {n})')
    # oracle: lossless with ZERO padding, shapes, bit-plane layout
    s = shape[-2] if nd >= 2 else shape[0]
    p = shape[-1] if nd >= 2 else 1
    nb = -(-p // 8)
    want_bp_shape = (tuple(shape[:-2]) if nd >= 2 else ()) + (s, 3, nb)
    if tuple(bp.shape) != want_bp_shape:
        return coq, f'mv_to_bp: shape {tuple(bp.shape)} for input shape {shape}, expected {want_bp_shape}'
    want_back_shape = want_bp_shape[:-2] + (8 * nb,)
    if tuple(back.shape) != want_back_shape:
        return coq, f'bp_to_mv: shape {tuple(back.shape)}, expected {want_back_shape}'
    d2 = [[c] for c in data] if nd == 1 else data
    mats = flat_mats(d2, max(nd, 2)) if all(d > 0 for d in (shape[:-2] if nd >= 2 else ())) else []
    bps = flat_mats(bp.tolist(), bp.ndim - 1) if mats else []
    backs = flat_mats(back.tolist(), back.ndim) if mats else []
    for mi, m2 in enumerate(mats):
        if not m2:
            continue
        msg = plane_oracle(m2, bps[mi] if nb else None, (len(m2), 3, nb), 'mv_to_bp')
        if msg:
            return coq, msg + f' (input shape {shape}, {lay} layout)'
        want = [row + [0] * (8 * nb - len(row)) for row in m2]
        if backs[mi] != want:
            i = next(i for i in range(len(want)) if backs[mi][i] != want[i])
            j = next(j for j in range(len(want[i])) if backs[mi][i][j] != want[i][j])
            return coq, (f'bp_to_mv(mv_to_bp(a)) differs from a (padded with ZERO): signal {i} pattern {j} is {backs[mi][i][j]}, '
                         f'was {want[i][j]} (input shape {shape})')
    return coq, None


def run_bp_mv(shape, data):
    """random bit-parallel bytes (shape (..., s, planes, nb)): bp_to_mv against the lane/plane statement; and back"""
    from kyupy import logic as lg
    b = np.array(data, dtype=np.uint8).reshape(shape)
    coq = []
    mv, err = call(lg.bp_to_mv, b)
    if err is not None:
        return coq, f'bp_to_mv raises {err} on shape {shape}'
    n = len(shape) - 3
    if all(d > 0 for d in shape[:-1]):
        coq.append(f'CBpToMv {n} ({coq_nl(data)} : tens bpmat {n}) ({coq_nl(mv.tolist())} : tens mat {n})')
    s, K, nb = shape[-3], shape[-2], shape[-1]
    if tuple(mv.shape) != tuple(shape[:-3]) + (s, 8 * nb):
        return coq, f'bp_to_mv: shape {tuple(mv.shape)} for input {shape}'
    if b.size == 0:
        return coq, None
    bl = _flat(data, n)
    ml = _flat(mv.tolist(), n)
    for bm, mm in zip(bl, ml):
        for i in range(s):
            for j in range(8 * nb):
                want = sum(((bm[i][k][j // 8] >> (j % 8)) & 1) << k for k in range(min(K, 8)))
                if mm[i][j] != want:
                    return coq, f'bp_to_mv: signal {i} pattern {j} is {mm[i][j]}, the bit planes hold {want}'
    if K == 3:
        bb, err = call(lg.mv_to_bp, mv)
        if err is not None or bb.tolist() != b.tolist():
            return coq, f'mv_to_bp(bp_to_mv(b)) differs from b ({err})'
    return coq, None


def _flat(x, n):
    if n == 0:
        return [x]
    return [m for y in x for m in _flat(y, n - 1)]


# ---- generic unpackbits / packbits ----------------------------------------------------------------
def dt_range(name):
    bits = int(name.lstrip('uint'))
    return (-(1 << (bits - 1)), (1 << (bits - 1)) - 1, bits) if name[0] == 'i' else (0, (1 << bits) - 1, bits)


def gen_ints(rng, name, n):
    lo, hi, bits = dt_range(name)
    pool = [lo, hi, 0, 1, hi - 1, lo + 1, hi // 2, hi // 2 + 1]
    if lo < 0:
        pool += [-1, -2, lo // 2]
    out = []
    for _ in range(n):
        r = rng.random()
        if r < 0.35:
            out.append(rng.choice(pool))
        elif r < 0.55:
            k = rng.randrange(bits)
            v = (1 << k) - rng.choice([0, 1])
            out.append(min(max(v if rng.random() < 0.7 or lo == 0 else -v, lo), hi))
        else:
            out.append(rng.randint(lo, hi))
    return out


def py_bits(x, bits):
    return [(x >> i) & 1 for i in range(bits)]


def py_value(bl, name):
    """value of packbits on a bit list, stated with Python integers: truncate, zero-/sign-extend"""
    lo, hi, bits = dt_range(name)
    bl = bl[:bits]
    if len(bl) < bits:
        if name[0] == 'i':
            if not bl:
                return None
            bl = bl + [bl[-1]] * (bits - len(bl))
        else:
            bl = bl + [0] * (bits - len(bl))
    u = sum(int(bool(b)) << i for i, b in enumerate(bl))
    return u - (1 << bits) if name[0] == 'i' and u >> (bits - 1) else u


def run_pack(rng, name, shape, vals, width, dtype_form):
    """vals: nested list of Python ints of the given shape; width: length of the bit axis handed to packbits"""
    from kyupy import logic as lg
    lo, hi, bits = dt_range(name)
    coq = []
    a = np.array(vals, dtype=name).reshape(shape)
    n = len(shape)
    lay = 'C'
    if n >= 1 and rng.random() < 0.25:
        a, lay = relayout(rng, a)
        lay = 'C' if a.flags['C_CONTIGUOUS'] else lay
    ub, err = call(lg.unpackbits, a)
    if err is not None and a.itemsize > 1 and (n == 0 or lay != 'C'):
        # observed limitation of ndarray.view (0-d or non-contiguous last axis with a wider item): outside the stated domain
        NOTES.add(f'unpackbits raises on a {"0-d" if n == 0 else "non-contiguous"} array of a multi-byte dtype ({err.split(":")[0]})')
        return coq, None
    if err is not None:
        return coq, f'unpackbits raises {err} for dtype {name} shape {shape} ({lay} layout)'
    if tuple(ub.shape) != tuple(shape) + (bits,):
        return coq, f'unpackbits: shape {tuple(ub.shape)} for {name} input of shape {shape}'
    flat = _flat(vals, n)
    zero_batch = any(d == 0 for d in shape)
    if not zero_batch:
        coq.append(f'CUnpack {n} {coq_dt(name)} ({coq_nl(vals, coq_z)} : tens Z {n}) ({bits_leaf(n)(ub.tolist())} : tens (list bool) {n})')
    got = _flat(ub.tolist(), n)
    for x, g in zip(flat, got):
        if g != py_bits(x, bits):
            i = next(i for i in range(bits) if g[i] != py_bits(x, bits)[i])
            return coq, f'unpackbits({name}({x}))[{i}] = {g[i]}, bit {i} of the two\'s complement representation is {py_bits(x, bits)[i]}'
    # pack_unpack
    dt = {'name': name, 'type': getattr(np, name), 'dtype': np.dtype(name)}[dtype_form]
    pk, err = call(lg.packbits, ub, dt)
    if err is not None:
        return coq, f'packbits(unpackbits(a), {name}) raises {err}'
    if pk.dtype != np.dtype(name) or tuple(pk.shape) != tuple(shape) or pk.tolist() != a.tolist():
        return coq, f'packbits(unpackbits(a), {name}) = {pk.tolist()} (dtype {pk.dtype}, shape {pk.shape}) differs from a = {a.tolist()}'
    # "for every integer dtype": the same values in the dtype with the OTHER byte order (big-endian on this machine) -- the two helpers
    # must still invert each other (oracle only; the Coq model is about values, not byte layouts)
    if a.itemsize > 1 and n >= 1 and lay == 'C' and not any(d == 0 for d in shape):
        ab = a.astype(a.dtype.newbyteorder('S'))
        ubb, e1 = call(lg.unpackbits, ab)
        pkb, e2 = call(lg.packbits, ubb, ab.dtype) if e1 is None else (None, e1)
        if e2 is not None or pkb.tolist() != ab.tolist():
            return coq, (f'packbits(unpackbits(a), a.dtype) for the byte-swapped dtype {ab.dtype.str} gives '
                         f'{e2 or pkb.tolist()}, a = {ab.tolist()}')
    # truncation / padding: width != bits
    if width != bits:
        if width < bits:
            ba = ub[..., :width]
        else:
            extra = np.array(nested(rng, tuple(shape) + (width - bits,), lambda: rng.randrange(2)), dtype=np.uint8).reshape(tuple(shape) + (width - bits,))
            ba = np.concatenate([ub, extra], axis=-1)
        if rng.random() < 0.3:
            ba = ba.astype(bool)
        pk2, err = call(lg.packbits, ba, dt)
        want = [py_value(r, name) for r in _flat(ba.tolist(), n)]
        raises = (width == 0 and name[0] == 'i')
        if not zero_batch:
            res = nested(rng, shape, lambda: None) if err is not None else pk2.tolist()
            coq.append(f'CPack {n} {coq_dt(name)} ({bits_leaf(n)(ba.tolist())} : tens (list bool) {n}) '
                       f'({coq_nl(res, lambda v: coq_opt(v, coq_z))} : tens (option Z) {n})')
        if err is not None:
            if not raises:
                return coq, f'packbits raises {err} for {name}, bit axis of length {width}'
        else:
            if raises and not zero_batch:
                return coq, None   # documented behaviour undefined here; model correspondence decides
            if _flat(pk2.tolist(), n) != want:
                return coq, (f'packbits of a bit axis of length {width} into {name} gives {pk2.tolist()}, '
                             f'{"sign" if name[0] == "i" else "zero"}-extension / truncation gives {want}')
    elif not zero_batch:
        coq.append(f'CPack {n} {coq_dt(name)} ({bits_leaf(n)(ub.tolist())} : tens (list bool) {n}) '
                   f'({coq_nl(pk.tolist(), lambda v: coq_opt(v, coq_z))} : tens (option Z) {n})')
    return coq, None


def run_unpack_pack(rng, name, rows):
    """unpack_pack: bit lists of exactly the dtype's width -> value -> the same bits"""
    from kyupy import logic as lg
    lo, hi, bits = dt_range(name)
    ba = np.array(rows, dtype=np.uint8).reshape(len(rows), bits)
    pk, err = call(lg.packbits, ba, name)
    if err is not None:
        return [], f'packbits raises {err}'
    for r, v in zip(rows, pk.tolist()):
        if not lo <= v <= hi or v != py_value(r, name):
            return [], f'packbits({r}, {name}) = {v}, the bits denote {py_value(r, name)}'
    ub, err = call(lg.unpackbits, pk)
    if err is not None or ub.tolist() != [list(r) for r in rows]:
        return [], f'unpackbits(packbits(bits, {name})) differs from bits ({err})'
    coq = [f'CPack 1 {coq_dt(name)} ({bits_leaf(1)(rows)} : tens (list bool) 1) ({coq_nl(pk.tolist(), lambda v: coq_opt(v, coq_z))} : tens (option Z) 1)']
    return coq, None


# ---- popcount -------------------------------------------------------------------------------------
def run_popcount(shape, bitdata, signed=False):
    """bitdata: nested list shape+(8,) of 0/1 (ground truth); bytes are derived little-endian"""
    import kyupy
    n = len(shape)
    rows = _flat(bitdata, n)
    bytes_ = [sum(b << i for i, b in enumerate(r)) for r in rows]
    a = np.array(bytes_, dtype=np.uint8).reshape(shape)
    if signed:   # the same packed bytes seen as int8 (e.g. packbits(..., dtype=np.int8)): bytes with the top bit set are negative
        a = a.view(np.int8)
    got, err = call(kyupy.popcount, a)
    if err is not None:
        return [], f'popcount raises {err} on shape {shape}{" (int8 view)" if signed else ""}'
    coq = [f'CPop {coq_nl(bytes_)} {int(got)}']
    want = sum(sum(r) for r in rows)
    if int(got) != want:
        return coq, f'popcount = {int(got)} for {"int8" if signed else "uint8"} bytes {bytes_[:12]}..., number of one bits is {want}'
    return coq, None


def run_popcount_big(shape, seed, signed=False):
    """arrays far larger than the Coq literals the per-case stream writes (64 KiB and beyond, several batches of any internal
    chunking): bytes from a seeded generator, oracle = int.bit_count of the whole byte string"""
    import kyupy, random
    n = 1
    for d in shape:
        n *= d
    data = random.Random(seed).randbytes(n)
    a = np.frombuffer(data, dtype=np.uint8).reshape(shape)
    if signed:
        a = a.view(np.int8)
    got, err = call(kyupy.popcount, a)
    if err is not None:
        return [], f'popcount raises {err} on shape {shape}'
    want = int.from_bytes(data, 'little').bit_count()
    if int(got) != want:
        return [], f'popcount = {int(got)} for {n} {"int8" if signed else "uint8"} bytes of shape {shape} (seed {seed}), number of one bits is {want}'
    return [], None


def run_mv_bp_big(shape, seed):
    """mv_to_bp / bp_to_mv on arrays of a million values and more (all eight values present): plane i of the result holds bit i of every
    value, little-endian along the last axis, padding lanes 0; the round trip returns the array"""
    import random
    from kyupy import logic
    rng = np.random.default_rng(seed)
    a = rng.integers(0, 8, size=shape, dtype=np.uint8)
    bp, err = call(logic.mv_to_bp, a)
    if err is not None:
        return [], f'mv_to_bp raises {err} on shape {shape}'
    if a.ndim == 1:      # documented: a vector is one pattern over many signals (a column)
        a = a[:, np.newaxis]
        shape = tuple(a.shape)
    n = shape[-1]
    want_shape = tuple(shape[:-1]) + (3, (n + 7) // 8)
    if tuple(bp.shape) != want_shape or bp.dtype != np.uint8:
        return [], f'mv_to_bp of shape {shape} returns shape {tuple(bp.shape)} dtype {bp.dtype}, expected {want_shape} uint8'
    bits = np.unpackbits(bp, axis=-1, bitorder='little')
    for i in range(3):
        got = bits[..., i, :n]
        exp = (a >> i) & 1
        if not np.array_equal(got, exp):
            k = tuple(int(v) for v in np.argwhere(got != exp)[0])
            return [], f'mv_to_bp of shape {shape} (seed {seed}): plane {i} of element {k} (value {int(a[k])}) is {int(got[k])}'
        if bits[..., i, n:].any():
            return [], f'mv_to_bp of shape {shape}: padding lanes of plane {i} are not 0'
    back, err = call(logic.bp_to_mv, bp)
    if err is not None:
        return [], f'bp_to_mv raises {err} on shape {tuple(bp.shape)}'
    if not np.array_equal(np.asarray(back)[..., :n], a):
        k = tuple(int(v) for v in np.argwhere(np.asarray(back)[..., :n] != a)[0])
        return [], f'bp_to_mv(mv_to_bp(a)) differs from a at {k}: {int(np.asarray(back)[k])} for {int(a[k])} (shape {shape}, seed {seed})'
    return [], None


# ---- the eight values and the whole 1-character domain (finite part, run completely every time) ----------------
def table_oracle():
    from kyupy import logic as lg
    names = ['ZERO', 'UNKNOWN', 'UNASSIGNED', 'ONE', 'PPULSE', 'RISE', 'FALL', 'NPULSE']
    for v, n in enumerate(names):
        if getattr(lg, n) != v:
            return ('consts', {'name': n}, f'logic.{n} = {getattr(lg, n)}, documented bit pattern (activity, initial, final) is {v}')
    for v in range(8):
        s, err = call(lg.mv_str, np.array([v], dtype=np.uint8))
        if err is not None:
            return ('mv_str', {'array': [v]}, f'mv_str(np.array([{v}])) raises {err}')
        if s != CANON[v]:
            return ('mv_str', {'array': [v]}, f'mv_str renders value {v} as {s!r}, documented character is {CANON[v]!r}')
        back, err = call(lg.mvarray, s + s)
        if err is not None or back.tolist() != [v, v]:
            return ('mv_str', {'array': [v]}, f'value {v} renders to {s!r} which parses back to {err or back.tolist()}')
    for c in list(range(256)) + [0x100, 0x3a9, 0x4e2d, 0x1F600]:
        got, err = call(lg.interpret, chr(c))
        if err is not None or got != ALIAS.get(chr(c), 1):
            return ('interpret', {'char': chr(c)}, f'interpret({chr(c)!r}) = {err or got}, documented: {ALIAS.get(chr(c), 1)}')
    for x in [0, 1, True, False, None, 2, -1]:
        got, err = call(lg.interpret, x)
        if err is not None or got != spec_code(x):
            return ('interpret', {'scalar': repr(x)}, f'interpret({x!r}) = {err or got}, documented: {spec_code(x)}')
    return None
