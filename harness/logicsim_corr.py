"""Runs kyupy.logic_sim.LogicSim on generated circuits/stimuli and renders per-lane cases for the
Coq model (KV.Model.LogicSimModel)."""
import io
import contextlib
import numpy as np
from harness import circgen as cg

HEADER = '''From Coq Require Import List NArith ZArith Bool Arith String.
From KV Require Import Model.Logic Model.Netlist Model.SimOps Model.LogicSimModel Model.Corr.
Import ListNotations.
Local Open Scope list_scope.
Local Open Scope string_scope.
'''
CODE = ['Zero', 'Unk', 'Una', 'One', 'PP', 'Rise', 'Fall', 'NP']


WARM = {'on': False, 'count': 0}     # set by a check for a share of its cases: every LogicSim below first simulates another batch


def warm_stimulus(stim_mv, m):
    """the batch a USED simulator has simulated before: the complement-ish of the real stimulus (every 0/1 flipped, so that every
    signal that is 0 in the real round was very likely 1 before), unknowns kept"""
    w = stim_mv.copy()
    if m == 8:
        # static values of the real round were TRANSITIONS before (and vice versa): activity left behind anywhere would show
        w[stim_mv == 0] = 5
        w[stim_mv == 3] = 6
        w[stim_mv == 5] = 0
        w[stim_mv == 6] = 3
    else:
        w[stim_mv == 0] = 3
        w[stim_mv == 3] = 0
    return w


def run_logicsim(c, m, stim_mv, reuse=False, strip=False, cycles=None, inject_cb=None, warm=None):
    """stim_mv: (s_len, sims) codes.  Returns (sim object, s[1] as mv (s_len, sims), s[0] as mv).
    warm (or WARM['on']): the simulator object first simulates ANOTHER batch (assign, propagate, capture; two clock cycles when the
    round proper is cycle()) -- a simulator is built once and used for many batches, nothing may survive from one to the next."""
    from kyupy import logic, logic_sim
    sims = stim_mv.shape[1]
    if warm is None and WARM['on']:
        warm = warm_stimulus(stim_mv, m)
    with contextlib.redirect_stdout(io.StringIO()):
        s = logic_sim.LogicSim(c, sims=sims, m=m, c_reuse=reuse, strip_forks=strip)
        if warm is not None:
            WARM['count'] += 1
            s.s[0] = logic.mv_to_bp(warm)
            if cycles is None:
                s.s_to_c(); s.c_prop(); s.c_to_s()
            else:
                s.cycle(2)
        s.s[0] = logic.mv_to_bp(stim_mv)
        if cycles is None:
            s.s_to_c()
            s.c_prop(inject_cb) if inject_cb is not None else s.c_prop()
            s.c_to_s()
        else:
            s.cycle(cycles, inject_cb) if inject_cb is not None else s.cycle(cycles)
    return s, logic.bp_to_mv(s.s[1])[:, :sims], logic.bp_to_mv(s.s[0])[:, :sims]


def ppo_mask(sim):
    """positions of s that c_to_s writes"""
    m = np.zeros(sim.s_len, dtype=bool)
    m[sim.poppo_s_locs] = True
    return m


def b(x):
    return 'true' if x else 'false'


def case2(c, reuse, strip, k, s0_bits, exp_s0, exp_s1):
    """2-valued single lane case: expects Some (s0', s1')."""
    return (f'opt_eqb (pair_eqb (list_eqb Bool.eqb) (list_eqb Bool.eqb)) '
            f'(sim_case2 {cg.coq_netlist(c)} {b(reuse)} {b(strip)} {k} {cg.coq_list(s0_bits, b)} '
            f'(repeat false {len(s0_bits)})) (Some ({cg.coq_list(exp_s0, b)}, {cg.coq_list(exp_s1, b)}))')


def case_line(c, strip, k, s0_bits, exp_s0, exp_s1):
    """line-level k-cycle iteration (Model/CycleSem.v line_cycles / line_cycles_strip, the object of C01_cycles_are_iter_sem)
    against s[0], s[1] after LogicSim.cycle(k); independent of c_reuse."""
    return (f'line_case2 {cg.coq_netlist(c)} {b(strip)} {k} {cg.coq_list(s0_bits, b)} (repeat false {len(s0_bits)}) '
            f'({cg.coq_list(exp_s0, b)}, {cg.coq_list(exp_s1, b)})')


def line_cases_file(cases):
    body = ';\n '.join(cases)
    return (HEADER.replace('Model.LogicSimModel Model.Corr.', 'Model.LogicSimModel Model.Corr Model.CycleSem.') +
            f'Definition results : list bool := [\n {body}].\nEval vm_compute in (failing results).\n')


def case8(c, reuse, strip, s0_codes, exp_s1):
    return (f'opt_eqb (list_eqb code_eqb) (sim_case8 {cg.coq_netlist(c)} {b(reuse)} {b(strip)} '
            f'{cg.coq_list(s0_codes, lambda x: CODE[x])} (repeat Una {len(s0_codes)})) '
            f'(Some {cg.coq_list(exp_s1, lambda x: CODE[x])})')


def cases_file(cases):
    body = ';\n '.join(cases)
    return HEADER + f'Definition results : list bool := [\n {body}].\nEval vm_compute in (failing results).\n'
