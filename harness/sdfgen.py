"""C14: random gate-level circuits (rendered as Verilog over NANGATE / SAED32 / SAED90 cells) with SDF files
annotating them; generator-owned ground truth of the delay arrays; runner of the implementation; rendering of
(tree handed to the transformer, circuit, what the implementation produced) as Coq terms of KV.Model.Sdf.

Everything random is drawn from the random.Random passed in.  Delay values are decimal strings denoting k/8, so
float() is exact and the Coq side uses the integer 8*value."""
import io
import contextlib
import numpy as np

from harness import circgen as cg

# owned pin tables: kind -> (input pins in position order, output pins in position order)
CELLS = {
    'NANGATE': {
        'BUF_X1': (['A'], ['Z']), 'INV_X1': (['I'], ['ZN']), 'NAND2_X1': (['A1', 'A2'], ['ZN']),
        'NOR2_X2': (['A1', 'A2'], ['ZN']), 'AND4_X1': (['A1', 'A2', 'A3', 'A4'], ['Z']),
        'AOI21_X1': (['A', 'B1', 'B2'], ['ZN']), 'OAI22_X1': (['A1', 'A2', 'B1', 'B2'], ['ZN']),
        'MUX2_X1': (['A', 'B', 'S'], ['Z']), 'FA_X1': (['A', 'B', 'CI'], ['CO', 'S']), 'HA_X1': (['A', 'B'], ['CO', 'S']),
        'DFFR_X1': (['D', 'RN', 'CK'], ['Q', 'QN']), 'SDFFS_X1': (['D', 'SE', 'SI', 'SN', 'CK'], ['Q', 'QN']),
        'XOR2_X1': (['A1', 'A2'], ['Z']), 'DFF_X1': (['D', 'CK'], ['Q', 'QN']),
    },
    'SAED32': {
        'NBUFFX2_RVT': (['A'], ['Y']), 'INVX1_RVT': (['A'], ['Y']), 'NAND2X0_RVT': (['A1', 'A2'], ['Y']),
        'AND3X2_RVT': (['A1', 'A2', 'A3'], ['Y']), 'AOI21X2_RVT': (['A1', 'A2', 'A3'], ['Y']),
        'OAI22X1_RVT': (['A1', 'A2', 'A3', 'A4'], ['Y']), 'HADDX1_RVT': (['A0', 'B0'], ['SO', 'C1']),
        'FADDX1_RVT': (['A', 'B', 'CI'], ['S', 'CO']), 'DFFSSRX1_RVT': (['CLK', 'D', 'RSTB', 'SETB'], ['Q', 'QN']),
        'XOR2X1_RVT': (['A1', 'A2'], ['Y']), 'MUX21X1_RVT': (['A1', 'A2', 'S0'], ['Y']), 'DFFX1_RVT': (['D', 'CLK'], ['Q', 'QN']),
        'SDFFARX1_RVT': (['D', 'CLK', 'RSTB', 'SE', 'SI'], ['Q', 'QN']),
    },
    'SAED90': {
        'INVX1': (['INP'], ['ZN']), 'NBUFFX2': (['INP'], ['Z']), 'NAND2X1': (['IN1', 'IN2'], ['QN']), 'AND2X1': (['IN1', 'IN2'], ['Q']),
        'NOR3X0': (['IN1', 'IN2', 'IN3'], ['QN']), 'AOI21X1': (['IN1', 'IN2', 'IN3'], ['QN']),
        'OAI22X1': (['IN1', 'IN2', 'IN3', 'IN4'], ['QN']), 'HADDX1': (['A0', 'B0'], ['SO', 'C1']),
        'FADDX1': (['A', 'B', 'CI'], ['S', 'CO']), 'DFFX1': (['D', 'CLK'], ['Q', 'QN']),
        'SDFFARX1': (['D', 'CLK', 'RSTB', 'SE', 'SI'], ['Q', 'QN']), 'XOR2X1': (['IN1', 'IN2'], ['Q']),
        'MUX21X1': (['IN1', 'IN2', 'S'], ['Q']), 'AO22X1': (['IN1', 'IN2', 'IN3', 'IN4'], ['Q']),
    },
}


# ---- abstract circuit -----------------------------------------------------------------------------------
class Abs:
    """insts: dicts name, kind, ins {pin: net|None}, outs {pin: net|None}; nets: name -> {'drv', 'readers'}"""

    def __init__(self, lib):
        self.lib = lib
        self.pis, self.pos, self.insts, self.nets = [], [], [], {}

    def ipos(self, inst, pin):
        return CELLS[self.lib][inst['kind']][0].index(pin)

    def n_ins(self, inst):
        """len(cell.ins) after parsing: highest connected input position + 1"""
        ps = [self.ipos(inst, p) for p, n in inst['ins'].items() if n is not None]
        return max(ps) + 1 if ps else 0


def inst_name(rng, i):
    style = rng.choice(['plain', 'plain', 'plain', 'U', 'bus', 'reg', 'dot', 'und', 'und'])
    return {'plain': f'u{i}', 'U': f'U{100 + i}', 'bus': f'u[{i}]', 'reg': f'q_reg[{i}]', 'dot': f'blk.g{i}', 'und': f'r_{i}_'}[style]


def near_miss_names(name):
    """instance names that are NOT `name` but one normalisation step away from it (bus brackets vs underscores, letter case, a hierarchy
    prefix more or less, one character more or less): an SDF block under such a name addresses no cell of the circuit"""
    import re
    c = [name.replace('[', '_').replace(']', '_'), re.sub(r'_(\d+)_', r'[\1]', name), re.sub(r'_(\d+)_$', r'[\1]', name), name.swapcase(),
         name + '_', name[:-1], name.split('.')[-1], 'top.' + name, name.replace('.', '/'), name.replace('[', '(').replace(']', ')')]
    return [x for x in c if x and x != name and '(' not in x and '/' not in x]


def gen_abs(rng, n_inst=None, lib=None):
    lib = lib or rng.choice(['NANGATE', 'NANGATE', 'SAED32', 'SAED90'])
    a = Abs(lib)
    kinds = list(CELLS[lib])
    n_pi = rng.randint(1, 4)
    pstyle = rng.choice(['plain', 'plain', 'bus'])        # port names: plain identifiers, or bus bits written as escaped identifiers
    a.pis = [(f'd[{i}]' if pstyle == 'bus' else f'a{i}') for i in range(n_pi)]
    for p in a.pis:
        a.nets[p] = {'drv': ('pi', p), 'readers': []}
    n_inst = n_inst if n_inst is not None else rng.choice([1, 2, 2, 3, 4, 5, 7])
    for i in range(n_inst):
        kind = rng.choice(kinds)
        ins, outs = CELLS[lib][kind]
        inst = {'name': inst_name(rng, i), 'kind': kind, 'ins': {p: None for p in ins}, 'outs': {p: None for p in outs}}
        for p in outs:
            if rng.random() < 0.85 or p == outs[0]:
                net = f'n{i}_{p}'
                inst['outs'][p] = net
                a.nets[net] = {'drv': (i, p), 'readers': []}
        a.insts.append(inst)
    # some instance outputs become output ports (net renamed to the port name)
    cand = [(i, p) for i, inst in enumerate(a.insts) for p, n in inst['outs'].items() if n is not None]
    for j, (i, p) in enumerate(rng.sample(cand, min(len(cand), rng.randint(1, 3)))):
        old = a.insts[i]['outs'][p]
        new = f'q[{j}]' if pstyle == 'bus' else f'z{j}'
        a.nets[new] = a.nets.pop(old)
        a.insts[i]['outs'][p] = new
        a.nets[new]['readers'].append(('po', new))
        a.pos.append(new)
    names = list(a.nets)
    for i, inst in enumerate(a.insts):
        for p in inst['ins']:
            if rng.random() < 0.9:
                net = rng.choice(names)
                inst['ins'][p] = net
                a.nets[net]['readers'].append((i, p))
    return a


def vname(n):
    """Verilog spelling of an identifier (escaped when it is not a simple identifier)"""
    return n if n.replace('_', 'a').isalnum() else '\\' + n + ' '


def render_verilog(rng, a):
    ports = a.pis + a.pos
    wires = [n for n in a.nets if n not in ports]
    t = [f'module top ({", ".join(vname(p) for p in ports)});']
    t.append(f'  input {", ".join(vname(p) for p in a.pis)};')
    t.append(f'  output {", ".join(vname(p) for p in a.pos)};')
    if wires:
        t.append(f'  wire {", ".join(vname(w) for w in wires)};')
    for inst in a.insts:
        pins = []
        for p, n in list(inst['ins'].items()) + list(inst['outs'].items()):
            if n is not None:
                pins.append(f'.{p}({vname(n)})')
            elif rng.random() < 0.5:
                pins.append(f'.{p}()')
        rng.shuffle(pins)
        t.append(f'  {inst["kind"]} {vname(inst["name"])} ({", ".join(pins)});')
    t.append('endmodule')
    return '\n'.join(t) + '\n'


def parse_circuit(a, vtext, branchforks):
    from kyupy import verilog, techlib
    return verilog.parse(vtext, tlib=getattr(techlib, a.lib), branchforks=branchforks)


# ---- ground truth lines (by signal / fork names, independent of the pin table of the implementation) ----
def line_into(c, a, i, pin, bf):
    """index of the line feeding input pin `pin` of instance i; None if unconnected"""
    inst = a.insts[i]
    net = inst['ins'][pin]
    if net is None:
        return None
    if bf:
        fk = c.forks[f'{net}~{inst["name"]}/{pin}']
        assert len(fk.outs) == 1 and fk.outs[0].reader.name == inst['name'] and fk.outs[0].reader.kind == inst['kind']
        return fk.outs[0].index
    ls = [l for l in c.forks[net].outs if l is not None and l.reader.kind == inst['kind'] and l.reader.name == inst['name']
          and l.reader_pin == a.ipos(inst, pin)]
    assert len(ls) == 1, (net, inst['name'], pin)
    return ls[0].index


def line_between(c, a, net, reader, bf):
    """index of the line that carries the interconnect delay from the driver of `net` to `reader`
    (the branch-fork input, or the only line of a fan-out-free net); None if the circuit model has no such line"""
    readers = a.nets[net]['readers']
    if reader[0] == 'po':
        return c.forks[net].ins[0].index if len(readers) == 1 else None
    i, pin = reader
    if bf:
        return c.forks[f'{net}~{a.insts[i]["name"]}/{pin}'].ins[0].index
    return c.forks[net].ins[0].index if len(readers) == 1 else None


# ---- SDF files ------------------------------------------------------------------------------------------
VALS = ['0', '1', '3', '0.125', '0.25', '0.5', '0.375', '1.5', '2.75', '12.625', '0.000', '7.000', '.5', '5.', '100', '0.875', '4.250']


def gen_triple(rng, allow_neg=False, zero=False):
    """None for '()', else three strings ('' = empty component)"""
    if zero:
        return rng.choice([None, ['0', '0', '0'], ['0.000', '0.000', '0.000'], ['', '', '']])
    if rng.random() < 0.12:
        return None
    t = [rng.choice(VALS) for _ in range(3)]
    if rng.random() < 0.12:
        t[rng.randrange(3)] = ''
    if allow_neg and rng.random() < 0.5:
        k = rng.randrange(3)
        if t[k] not in ('', '0', '0.000'):
            t[k] = '-' + t[k]
    return t


def tvals(t):
    return [0.0, 0.0, 0.0] if t is None else [float(x) if x else 0.0 for x in t]


def is_zero(ts):
    return all(v == 0 for t in ts for v in tvals(t))


def sdf_name(rng, name, style=None):
    """SDF spelling of an instance name: special characters escaped (style 'esc') or not"""
    style = style or 'esc'
    if style == 'esc':
        return ''.join('\\' + ch if ch in '[].' else ch for ch in name)
    return name


def gen_sdf(rng, a, edge=False):
    """Returns abstract SDF: dict with 'blocks': list of (instance spelling | None | '', [entries]) in file order;
    entry = ('IOPATH', inst index|None, ipin, edge, opin, triples) | ('INTERCONNECT', net, reader, triples, src, dst)."""
    per_inst = []
    for i, inst in enumerate(a.insts):
        es = []
        ins, outs = CELLS[a.lib][inst['kind']]
        if rng.random() < 0.85:
            nin = a.n_ins(inst)
            for p in ins:
                connected = inst['ins'][p] is not None
                if not connected and a.ipos(inst, p) >= nin:
                    continue          # IndexError in the implementation: edge stream only
                if rng.random() < 0.8:
                    for o in (outs if rng.random() < 0.5 else [rng.choice(outs)]):
                        mode = rng.choice(['plain', 'plain', 'pos', 'neg', 'both', 'plain+pos'])
                        for e in {'plain': [None], 'pos': ['pos'], 'neg': ['neg'], 'both': ['pos', 'neg'], 'plain+pos': [None, 'pos']}[mode]:
                            ts = [gen_triple(rng) for _ in range(rng.choice([1, 2, 2, 2]))]
                            es.append(('IOPATH', i, p, e, o, ts))
            if es and rng.random() < 0.3:
                # the same path annotated again later (other, overlapping entries in between): entries apply in file order, the last wins
                for _ in range(rng.randint(1, 2)):
                    e = rng.choice(es)
                    es.append(e[:5] + ([gen_triple(rng) for _ in range(rng.choice([1, 2]))],))
            if rng.random() < 0.3:
                rng.shuffle(es)
        per_inst.append(es)
    ics = []
    for net, nd in a.nets.items():
        src = nd['drv'][1] if nd['drv'][0] == 'pi' else (nd['drv'][0], nd['drv'][1])
        for rd in nd['readers']:
            if rng.random() < 0.75:
                n = 2 if rng.random() < 0.12 else 1
                for k in range(n):
                    ts = [gen_triple(rng, zero=(k == 0 and rng.random() < 0.15)) for _ in range(rng.choice([1, 2, 2]))]
                    ics.append(('INTERCONNECT', net, rd, ts, src))
    rng.shuffle(ics)
    seen = set()
    for k, e in enumerate(ics):        # a later duplicate is never all-zero in this stream (the code skips all-zero entries)
        if (e[1], e[2]) in seen and is_zero(e[3]):
            ics[k] = e[:3] + ([['0.5', '1', '1.5']],) + e[4:]
        seen.add((e[1], e[2]))
    # grouping into CELL blocks
    style = {i: rng.choice(['esc', 'esc', 'raw']) for i in range(len(a.insts))}
    inst_blocks = []
    repeated = False
    rep = rng.random() < 0.5            # whether this file splits instances over several CELL blocks at all
    for i, es in enumerate(per_inst):
        if not es and rng.random() < 0.5:
            continue
        k = 1 if not rep or rng.random() < 0.5 or len(es) < 2 else min(len(es), rng.choice([2, 2, 3]))
        cuts = sorted(rng.sample(range(1, len(es)), k - 1)) if k > 1 else []
        parts = [es[x:y] for x, y in zip([0] + cuts, cuts + [len(es)])]
        repeated |= len(parts) > 1
        inst_blocks.append([(sdf_name(rng, a.insts[i]['name'], style[i]), p) for p in parts])
    cand = [i for i, es in enumerate(per_inst) if es]
    if cand and rng.random() < 0.4:
        # a block for an instance the circuit does not have, one normalisation step away from one it has, with entries that WOULD fit that
        # cell: nothing of it may reach the arrays (slots keep the value of the real instance's entries or 0)
        special = [i for i in cand if any(ch in a.insts[i]['name'] for ch in '[_.')]      # prefer names with something to normalise
        i = rng.choice(special if special and rng.random() < 0.7 else cand)
        real = {x['name'] for x in a.insts}
        names = [x for x in near_miss_names(a.insts[i]['name']) if x not in real]
        if names and rng.random() < 0.6:
            names = names[:1]           # the bracket / underscore twin (or the first applicable step)
        if names:
            ghost = [('IOPATH', None) + e[2:5] + ([['7', '7.5', '8'], ['9', '9.5', '10']][:len(e[5])],) for e in per_inst[i]]
            inst_blocks.insert(rng.randint(0, len(inst_blocks)), [(sdf_name(rng, rng.choice(names), rng.choice(['esc', 'raw'])), ghost)])
    if rng.random() < 0.2:
        inst_blocks.append([('ghost_42', [('IOPATH', None, 'A', None, 'Z', [['1', '1', '1']])])])
    k = 1 if not rep or rng.random() < 0.5 or len(ics) < 2 else min(len(ics), rng.choice([2, 2, 3]))
    cuts = sorted(rng.sample(range(1, len(ics)), k - 1)) if k > 1 else []
    ic_blocks = [(rng.choice([None, '']), ics[x:y]) for x, y in zip([0] + cuts, cuts + [len(ics)])]   # None: no INSTANCE line, '': (INSTANCE)
    repeated |= len(ic_blocks) > 1
    # interleave keeping the relative order of the blocks of one instance
    queues = [q for q in inst_blocks if q] + [ic_blocks]
    if rng.random() < 0.5:
        queues = [ic_blocks] + queues[:-1]
    blocks = []
    if rng.random() < 0.5:
        for q in queues:
            blocks += q
    else:
        queues = [list(q) for q in queues]
        while any(queues):
            q = rng.choice([q for q in queues if q])
            blocks.append(q.pop(0))
    return {'blocks': blocks, 'repeated': repeated}


def fmt_triple(t):
    return '()' if t is None else '(' + ':'.join(t) + ')'


def pin_ref(a, x, style='esc', rng=None):
    if isinstance(x, str):      # a port: its special characters are escaped in SDF (or not) like those of instance names
        return sdf_name(rng, x, rng.choice(['esc', 'esc', 'raw']) if rng is not None else style)
    return sdf_name(rng, a.insts[x[0]]['name'], style) + '/' + x[1]


def render_entry(rng, a, e):
    if e[0] == 'IOPATH':
        _, i, p, edge, o, ts = e
        spec = p if edge is None else f'({edge}edge {p})'
        return f'(IOPATH {spec} {o} {" ".join(fmt_triple(t) for t in ts)})'
    if e[0] == 'RAW':
        return e[1]
    _, net, rd, ts, src = e
    dst = rd[1] if rd[0] == 'po' else rd
    return f'(INTERCONNECT {pin_ref(a, src, rng=rng)} {pin_ref(a, dst, rng=rng)} {" ".join(fmt_triple(t) for t in ts)})'


def render_sdf(rng, a, s):
    sp = lambda: rng.choice([' ', '\n', '\n  ', '\t', '  '])
    t = ['(DELAYFILE']
    hdr = ['(SDFVERSION "OVI 2.1")', '(DESIGN "top")', '(DATE "Mon Jan  1 00:00:00 2024")', '(VENDOR "v")', '(PROGRAM "p")', '(VERSION "1")',
           '(DIVIDER /)', '(VOLTAGE 1.20:1.20:1.20)', '(PROCESS "TYPICAL")', '(TEMPERATURE 25.00:25.00:25.00)', '(TIMESCALE 1ns)']
    t += [h for h in hdr if rng.random() < 0.6]
    for name, es in s['blocks']:
        b = ['(CELL']
        if rng.random() < 0.7:
            b.append('(CELLTYPE "x")')
        if name is not None:
            b.append(f'(INSTANCE {name})' if name else '(INSTANCE)')
        k = 1 if len(es) < 2 or rng.random() < 0.7 else 2       # several DELAY sections in one CELL
        cut = rng.randint(1, len(es) - 1) if k == 2 else len(es)
        for part in ([es[:cut], es[cut:]] if k == 2 else [es]):
            b.append('(DELAY' + sp() + '(ABSOLUTE')
            for e in part:
                b.append('\n  ' + render_entry(rng, a, e))
                if rng.random() < 0.1:
                    b.append('// comment (IOPATH A Z (9:9:9))\n')
            b.append(')' + sp() + ')')
        if rng.random() < 0.2:
            b.append('(TIMINGCHECK (WIDTH (posedge CK) (0.284:0.284:0.284)) (SETUP (posedge D) (posedge CK) (0.5:0.5:0.5)))')
        b.append(')')
        t.append(sp().join(b))
    t.append(')')
    return '\n'.join(t) + '\n'


def expected(a, s, c, bf):
    """ground truth: (iopath array, interconnect array) of shape (3, lines, 2, 2), and per-slot provenance"""
    L = len(c.lines)
    io = np.zeros((3, L, 2, 2))
    ic = np.zeros((3, L, 2, 2))
    prov_io, prov_ic = {}, {}
    for name, es in s['blocks']:
        for e in es:
            if e[0] == 'IOPATH':
                _, i, p, edge, o, ts = e
                if i is None:
                    continue
                line = line_into(c, a, i, p, bf)
                if line is None:
                    continue
                r, f = tvals(ts[0]), tvals(ts[-1])
                for ip in ([0, 1] if edge is None else [0] if edge == 'pos' else [1]):
                    io[:, line, ip, 0] = r
                    io[:, line, ip, 1] = f
                    prov_io[(line, ip)] = (name, render_entry(None, a, e))
            elif e[0] == 'INTERCONNECT':
                _, net, rd, ts, src = e
                line = line_between(c, a, net, rd, bf)
                if line is None:
                    continue
                r, f = tvals(ts[0]), tvals(ts[-1])
                ic[:, line, :, 0] = np.array(r)[:, None]
                ic[:, line, :, 1] = np.array(f)[:, None]
                prov_ic[line] = e
    return io, ic, prov_io, prov_ic


# ---- running the implementation --------------------------------------------------------------------------
@contextlib.contextmanager
def quiet():
    import kyupy
    old = kyupy.log.logfile
    kyupy.log.logfile = io.StringIO()
    try:
        yield
    finally:
        kyupy.log.logfile = old


def run_impl(sdf_text, c, lib):
    """Returns (df | exception, iopaths array | exception, interconnects array | exception)"""
    from kyupy import sdf, techlib
    tl = getattr(techlib, lib)
    with quiet():
        try:
            df = sdf.parse(sdf_text)
        except Exception as e:
            return e, e, e
        try:
            io_ = df.iopaths(c, tl)
        except Exception as e:
            io_ = e
        try:
            ic_ = df.interconnects(c, tl)
        except Exception as e:
            ic_ = e
        # a DelayFile is a reusable object (one file, several circuits / branchforks settings): printing it and asking again must give the same
        try:
            str(df)
            for what, first, again in (('iopaths', io_, lambda: df.iopaths(c, tl)), ('interconnects', ic_, lambda: df.interconnects(c, tl))):
                if isinstance(first, Exception):
                    continue
                second = again()
                if not (isinstance(second, np.ndarray) and second.shape == first.shape and np.array_equal(second, first)):
                    err = RuntimeError(f'the second {what}() call on the same DelayFile (after str(df)) does not return what the first call returned')
                    if what == 'iopaths':
                        io_ = err
                    else:
                        ic_ = err
        except Exception as e:
            ic_ = RuntimeError(f'repeated query of the same DelayFile raises {type(e).__name__}: {e}')
    return df, io_, ic_


def first_diff(got, exp):
    d = np.argwhere(got != exp)
    return tuple(int(x) for x in d[0]) if len(d) else None


def oracle(a, s, c, bf, df, io_, ic_, do_ic=True):
    """None or a description of the first entry that is lost / misplaced"""
    eio, eic, pio, pic = expected(a, s, c, bf)
    if isinstance(df, Exception):
        return f'sdf.parse raises {type(df).__name__}: {df}'
    if isinstance(io_, Exception):
        return f'DelayFile.iopaths raises {type(io_).__name__}: {io_}'
    if io_.shape != eio.shape:
        return f'iopaths returns shape {io_.shape}, expected {eio.shape}'
    d = first_diff(io_, eio)
    if d is not None:
        ds, line, ip, op = d
        src = pio.get((line, ip))
        why = (f'last entry for this slot: {src[1]} in a CELL block of instance {src[0]}' if src else 'no entry of the file addresses this slot')
        return (f'iopaths()[dataset {ds}, line {line}, input polarity {ip}, output polarity {op}] = {io_[d]}, the file says {eio[d]} ({why})')
    if not do_ic:
        return None
    if isinstance(ic_, Exception):
        return f'DelayFile.interconnects raises {type(ic_).__name__}: {ic_}'
    d = first_diff(ic_, eic)
    if d is not None:
        ds, line, ip, op = d
        src = pic.get(line)
        why = (f'last entry for this line: {render_entry(None, a, src)}' if src else 'no entry of the file addresses this line')
        return (f'interconnects()[dataset {ds}, line {line}, {ip}, output polarity {op}] = {ic_[d]}, the file says {eic[d]} ({why})')
    return None


# ---- rendering for Coq -------------------------------------------------------------------------------------
_PARSER = {}


def raw_tree(sdf_text):
    """the tree the implementation's own grammar produces (no transformer)"""
    from kyupy import sdf
    from lark import Lark
    if sdf.GRAMMAR not in _PARSER:
        _PARSER[sdf.GRAMMAR] = Lark(sdf.GRAMMAR, parser='lalr')
    return _PARSER[sdf.GRAMMAR].parse(sdf_text)


def z8(x):
    v = float(x) * 8
    assert v == int(v), x
    return cg.coq_Z(int(v))


def coq_tree(tree):
    def triple(t):
        return '[' + '; '.join(('Some ' + z8(tok[:-1])) if len(tok) > 1 else 'None' for tok in (str(x) for x in t.children)) + ']'

    def entry(t):
        a, b = str(t.children[0]), str(t.children[1])
        return (f'TEntry {"true" if t.data == "iopath" else "false"} {cg.coq_string(a)} {cg.coq_string(b)} '
                f'[{"; ".join(triple(x) for x in t.children[2:])}]')

    def carg(x):
        if hasattr(x, 'children'):
            return 'CDelay [' + '; '.join(entry(e) for e in x.children) + ']'
        return 'CName ' + cg.coq_string(str(x))

    def sarg(x):
        if hasattr(x, 'children'):
            return 'SCell [' + '; '.join(carg(y) for y in x.children) + ']'
        return 'SName ' + cg.coq_string(str(x))
    return '[' + ';\n   '.join(sarg(x) for x in tree.children) + ']'


def coq_entry(e):
    from kyupy import sdf
    zl = lambda l: '[' + '; '.join(z8(x) for x in l) + ']'
    return (f'{{| e_io := {"true" if isinstance(e, sdf.IOPath) else "false"}; e_a := {cg.coq_string(e[0])}; e_b := {cg.coq_string(e[1])}; '
            f'e_r := {zl(e[2])}; e_f := {zl(e[3])} |}}')


def coq_df(df):
    if isinstance(df, Exception):
        return 'None'
    name = 'None' if df.name is None else f'(Some {cg.coq_string(str(df.name))})'
    ic = 'None' if df._interconnects is None else '(Some [' + '; '.join(coq_entry(e) for e in df._interconnects) + '])'
    cells = '[' + '; '.join(f'({cg.coq_string(str(n))}, [{"; ".join(coq_entry(e) for e in l)}])' for n, l in df.cells.items()) + ']'
    return f'(Some {{| df_name := {name}; df_ic := {ic}; df_cells := {cells} |}})'


def coq_arr(x):
    if isinstance(x, Exception):
        return 'None'
    def rec(v):
        return z8(v) if np.ndim(v) == 0 else '[' + '; '.join(rec(y) for y in v) + ']'
    return '(Some ' + rec(x) + ')'


def coq_circ(c):
    cells = '; '.join(f'({cg.coq_string(n)}, {nd.index})' for n, nd in c.cells.items())
    return f'{{| cc_net := {cg.coq_netlist(c)}; cc_cells := [{cells}] |}}'


def coq_case(sdf_text, c, lib, df, io_, ic_):
    return f'sdf_case\n  {coq_tree(raw_tree(sdf_text))}\n  {coq_circ(c)}\n  lib_{lib}\n  {coq_df(df)}\n  {coq_arr(io_)}\n  {coq_arr(ic_)}'


HEADER = '''From Coq Require Import List NArith ZArith Bool Arith String.
From KV Require Import Model.Netlist Model.TechCell Model.Sdf Model.Corr Gen.TechLibs.
Import ListNotations.
Local Open Scope list_scope.
Local Open Scope string_scope.
'''


def cases_file(cases):
    return HEADER + 'Definition results : list bool := [\n ' + ';\n '.join(cases) + '].\nEval vm_compute in (failing results).\n'


# ---- directed cases and the edge stream ------------------------------------------------------------------
def directed():
    """small hand-written files (verilog, sdf, lib, description, do_ic)"""
    v = ('module top (a0, a1, z0);\n  input a0, a1;\n  output z0;\n  wire n0;\n'
         '  NAND2_X1 u1 (.A1(a0), .A2(a1), .ZN(n0));\n  INV_X1 u2 (.I(n0), .ZN(z0));\nendmodule\n')
    return [
        (v, '(DELAYFILE\n(CELL (INSTANCE u1) (DELAY (ABSOLUTE (IOPATH A1 ZN (1:2:3) (4:5:6)))))\n'
            '(CELL (INSTANCE u2) (DELAY (ABSOLUTE (IOPATH I ZN (0.5:0.5:0.5)))))\n'
            '(CELL (INSTANCE u1) (DELAY (ABSOLUTE (IOPATH A2 ZN (7:8:9) (10:11:12)))))\n'
            '(CELL (INSTANCE) (DELAY (ABSOLUTE (INTERCONNECT u1/ZN u2/I (0.25:0.25:0.25)))))\n)\n', 'NANGATE',
         'two CELL blocks for instance u1'),
        (v, '(DELAYFILE\n(CELL (INSTANCE) (DELAY (ABSOLUTE (INTERCONNECT a0 u1/A1 (1:1:1) (2:2:2)))))\n'
            '(CELL (INSTANCE u2) (DELAY (ABSOLUTE (IOPATH (posedge I) ZN () (3:3:3)))))\n'
            '(CELL (INSTANCE) (DELAY (ABSOLUTE (INTERCONNECT u1/ZN u2/I (0.25:0.5:0.75)))))\n)\n', 'NANGATE',
         'two instance-less CELL blocks with INTERCONNECTs'),
    ]


def directed_expected(k, c, bf):
    """owned arrays for the directed cases (lines found by fork names)"""
    L = len(c.lines)
    io_, ic_ = np.zeros((3, L, 2, 2)), np.zeros((3, L, 2, 2))
    def into(net, inst, pin):
        return (c.forks[f'{net}~{inst}/{pin}'].outs[0] if bf else [l for l in c.forks[net].outs if l.reader.name == inst][0]).index
    def between(net, inst, pin):
        return (c.forks[f'{net}~{inst}/{pin}'].ins[0] if bf else c.forks[net].ins[0]).index
    if k == 0:
        io_[:, into('a0', 'u1', 'A1'), :, 0] = np.array([1, 2, 3])[:, None]
        io_[:, into('a0', 'u1', 'A1'), :, 1] = np.array([4, 5, 6])[:, None]
        io_[:, into('a1', 'u1', 'A2'), :, 0] = np.array([7, 8, 9])[:, None]
        io_[:, into('a1', 'u1', 'A2'), :, 1] = np.array([10, 11, 12])[:, None]
        io_[:, into('n0', 'u2', 'I'), :, :] = 0.5
        ic_[:, between('n0', 'u2', 'I'), :, :] = 0.25
    else:
        io_[:, into('n0', 'u2', 'I'), 0, 1] = 3
        ic_[:, between('a0', 'u1', 'A1'), :, 0] = np.array([1, 1, 1])[:, None]
        ic_[:, between('a0', 'u1', 'A1'), :, 1] = np.array([2, 2, 2])[:, None]
        ic_[:, between('n0', 'u2', 'I'), :, :] = np.array([0.25, 0.5, 0.75])[:, None, None]
    return io_, ic_


def gen_edge_sdf(rng, a):
    """files outside the claimed subset (the implementation may raise or skip): model correspondence only"""
    s = gen_sdf(rng, a)
    kind = rng.choice(['neg', 'trailing', 'badpin', 'badcell', 'hier', 'ic_in_inst', 'io_in_top', 'no_top', 'triples', 'spelling',
                       'zero_dup', 'space', 'quoted', 'empty'])
    blocks = s['blocks']
    raw = lambda txt: ('RAW', txt)
    some_inst = rng.randrange(len(a.insts))
    nm = sdf_name(rng, a.insts[some_inst]['name'])
    ins, outs = CELLS[a.lib][a.insts[some_inst]['kind']]
    if kind == 'neg':
        blocks.append((None, [raw(f'(INTERCONNECT {a.pis[0]} {nm}/{ins[0]} {fmt_triple(gen_triple(rng, True))} {fmt_triple(gen_triple(rng, True))})')
                              for _ in range(3)] + [raw(f'(INTERCONNECT {a.pis[0]} {nm}/{ins[0]} (0:0:0) (-1:0:0))')]))
        blocks.append((nm, [raw(f'(IOPATH {ins[0]} {outs[0]} {fmt_triple(gen_triple(rng, True))})')]))
    elif kind == 'trailing':
        blocks.append((nm, [raw(f'(IOPATH {p} {outs[0]} (1:1:1))') for p in ins]))
    elif kind == 'badpin':
        blocks.append((nm, [raw(f'(IOPATH {rng.choice(["XX", outs[0], "(posedge XX)", "(bothedge " + ins[0] + ")"])} {outs[0]} (1:1:1))')]))
    elif kind == 'badcell':
        blocks.append((None, [raw(f'(INTERCONNECT nosuch/Z {nm}/{ins[0]} {rng.choice(["(1:1:1)", "(0:0:0)", "()"])})')]))
    elif kind == 'hier':
        blocks.append((None, [raw(f'(INTERCONNECT top/{nm}/{outs[0]} {nm}/{ins[0]} (1:1:1))')]))
    elif kind == 'ic_in_inst':
        blocks.append((nm, [raw(f'(INTERCONNECT {a.pis[0]} {nm}/{ins[0]} (1:1:1))')]))
    elif kind == 'io_in_top':
        blocks.append((None, [raw(f'(IOPATH {ins[0]} {outs[0]} {rng.choice(["(1:1:1)", "(0:0:0)"])})')]))
    elif kind == 'no_top':
        s['blocks'] = blocks = [b for b in blocks if b[0]]
    elif kind == 'triples':
        blocks.append((nm, [raw(f'(IOPATH {ins[0]} {outs[0]}{rng.choice(["", " (1:1:1) (2:2:2) (3:3:3)"])})')]))
    elif kind == 'spelling':
        raw_nm = a.insts[some_inst]['name']
        blocks.insert(rng.randrange(len(blocks) + 1), (raw_nm, [raw(f'(IOPATH {ins[0]} {outs[0]} (2:2:2))')]))
        blocks.append(('\\' + nm, [raw(f'(IOPATH {ins[0]} {outs[0]} (3:3:3))')]))
    elif kind == 'zero_dup':
        for net, nd in a.nets.items():
            for rd in nd['readers']:
                src = nd['drv'][1] if nd['drv'][0] == 'pi' else nd['drv']
                blocks.append((None, [('INTERCONNECT', net, rd, [['1', '2', '3']], src), ('INTERCONNECT', net, rd, [rng.choice([None, ['0', '0', '0']])], src)]))
                break
    elif kind == 'space':
        blocks.append((nm, [raw(f'(IOPATH (posedge  {ins[0]}) {outs[0]} (1:1:1))'), raw(f'(IOPATH (negedge {ins[0]} ) {outs[0]} (1:1:1))')]))
    elif kind == 'quoted':
        blocks.append((None, [raw(f'(INTERCONNECT "{a.pis[0]}" "{nm}/{ins[0]}" (1:1:1))')]))
    elif kind == 'empty':
        s['blocks'] = blocks = []
    return s, kind
