"""TEXT-level correspondence for verilog.GRAMMAR (C11): Model/VerilogText.v against the real lark parser.

* lark's tables: the accept set of every LALR state that is entered by shifting a terminal (and of the start state) is
  classified (top level / statement start / digits / names and punctuation) and compared with Model/VerilogText.v
  [mode_after]; the scanner the contextual lexer builds for each such state is inspected: order of the alternatives,
  which keyword strings are embedded in the plain-name pattern, and the SOURCE of every regular expression (the model
  transcribes these patterns character class by character class).
* texts: netlists rendered by harness/vlog_gen.py, random raw trees written with arbitrary ignored text between the
  tokens (ground truth: the tree), character- and token-level mutations that usually leave the language, token soup, and
  the probes that determined the model (incl. texts that end in a "//" comment without line break: accepted since the repair of the
  COMMENT terminal, `"//" /[^\n]*/`).  For every text the RAW tree of Lark(GRAMMAR, parser='lalr') without transformer
  (None when it raises) is compared with parse_verilog, and verilog.parse as a whole (every node, line and io entry of
  every circuit) with circuits_of_text.
* print_tree output is read back by lark; VerilogTransformer.name against name_cb.

Domain of the models: code points < 256; sized constants inside ESCAPED identifiers whose width / digits use the liberal
forms of Python's int() (sign, underscores, surrounding white space) are outside Model/VerilogElab.v sized_const and are
counted as such.  Everything is drawn from the random.Random passed in."""
import re

from harness import vlog_corr as vc
from harness.bench_text import cstr

clist, copt = vc.clist, vc.copt

HEADER = '''From Coq Require Import List NArith ZArith Bool Arith String Ascii.
From KV Require Import Model.Corr Model.VerilogText.
Import ListNotations.
Local Open Scope list_scope.
Local Open Scope string_scope.
'''


def cases_file(cases):
    return HEADER + 'Definition results : list bool := [\n ' + ';\n '.join(cases) + '].\nEval vm_compute in (failing results).\n'


_PLAIN = []


def plain_parser():
    if not _PLAIN:
        from lark import Lark
        from kyupy import verilog
        _PLAIN.append(Lark(verilog.GRAMMAR, parser='lalr'))
    return _PLAIN[0]


def in_domain(text):
    return all(ord(c) < 256 for c in text)


# ---- lark's raw tree ---------------------------------------------------------------------------------------------------
DECLS = ('input', 'output', 'inout', 'tri', 'wire')


def _name(t):
    assert t.data == 'name' and len(t.children) == 1
    return str(t.children[0].value)


def _range(t):
    assert t.data == 'range' and 1 <= len(t.children) <= 2
    return (str(t.children[0].value), str(t.children[1].value) if len(t.children) > 1 else None)


def _sig(t):
    assert t.data == 'sigsel'
    c = t.children
    if c[0].data == 'concat':
        assert len(c) == 1
        return ('concat', [_sig(x) for x in c[0].children])
    assert len(c) <= 2
    return ('sel', _name(c[0]), _range(c[1]) if len(c) > 1 else None)


def _pin(t):
    assert t.data == 'pin' and len(t.children) == 1
    p = t.children[0]
    if p.data == 'namedpin':
        assert 1 <= len(p.children) <= 2
        return ('named', _name(p.children[0]), _sig(p.children[1]) if len(p.children) > 1 else None)
    return ('pos', _sig(p))


def _stmt(t):
    if t.data in DECLS:
        c = list(t.children)
        g = None
        if c and c[0].data == 'range':
            g = _range(c[0])
            c = c[1:]
        return ('decl', str(t.data), g, [_name(x) for x in c])
    if t.data == 'assign':
        assert len(t.children) == 2
        return ('assign', _sig(t.children[0]), _sig(t.children[1]))
    assert t.data == 'instantiation', t.data
    return ('inst', _name(t.children[0]), _name(t.children[1]), [_pin(x) for x in t.children[2:]])


def conv_tree(t):
    assert t.data == 'start'
    out = []
    for m in t.children:
        assert m.data == 'module' and m.children[1].data == 'parameters'
        out.append((_name(m.children[0]), [_name(x) for x in m.children[1].children], [_stmt(x) for x in m.children[2:]]))
    return out


def raw_tree(text):
    """-> (tree | None, exception name)"""
    from lark.exceptions import LarkError
    try:
        return conv_tree(plain_parser().parse(text)), None
    except LarkError as e:
        return None, type(e).__name__


# ---- Coq terms ----------------------------------------------------------------------------------------------------------
DK = {'input': 'DInput', 'output': 'DOutput', 'inout': 'DInout', 'tri': 'DTri', 'wire': 'DWire'}


def c_range(g):
    return f'(TRange {cstr(g[0])} {copt(g[1], cstr)})'


def c_sig(s):
    if s[0] == 'sel':
        return f'(TSel {cstr(s[1])} {copt(s[2], c_range)})'
    return f'(TConcat {clist(s[1], c_sig)})'


def c_pin(p):
    if p[0] == 'named':
        return f'(TNamed {cstr(p[1])} {copt(p[2], c_sig)})'
    return f'(TPos {c_sig(p[1])})'


def c_stmt(s):
    if s[0] == 'decl':
        return f'(TDecl {DK[s[1]]} {copt(s[2], c_range)} {clist(s[3], cstr)})'
    if s[0] == 'assign':
        return f'(TAssign {c_sig(s[1])} {c_sig(s[2])})'
    return f'(TInst {cstr(s[1])} {cstr(s[2])} {clist(s[3], c_pin)})'


def c_tree(t):
    return clist(t, lambda m: f'(mkT {cstr(m[0])} {clist(m[1], cstr)} {clist(m[2], c_stmt)})')


# ---- lark's tables -------------------------------------------------------------------------------------------------------
KW_TERMS = {'INPUT': 'TKw (KDecl DInput)', 'OUTPUT': 'TKw (KDecl DOutput)', 'INOUT': 'TKw (KDecl DInout)', 'TRI': 'TKw (KDecl DTri)',
            'WIRE': 'TKw (KDecl DWire)', 'ASSIGN': 'TKw KAssign', 'MODULE': 'TModule', 'ENDMODULE': 'TEndmodule'}
PUNCT_TERMS = {'SEMICOLON': 'TSemi', 'LPAR': 'TLpar', 'RPAR': 'TRpar', 'EQUAL': 'TEq', 'COMMA': 'TComma', 'DOT': 'TDot', 'COLON': 'TColon',
               'LSQB': 'TLsqb', 'RSQB': 'TRsqb', 'LBRACE': 'TLbrace', 'RBRACE': 'TRbrace'}
# the patterns Model/VerilogText.v transcribes (lark's to_regexp() of the terminals of the pinned grammar)
PATTERNS = {
    '__IGNORE_0': '(?:(?:(?:\\/\\*(\\*(?!\\/)|[^*])*\\*\\/|\\(\\*(\\*(?!\\))|[^*])*\\*\\)|//[^\n]*)|\r?\n))+',
    '__IGNORE_1': '[\t \x0c]+',
    '__ANON_0': '[0-9]+',
    '__ANON_1': '(?i:[a-z_][a-z0-9_]*)',
    '__ANON_2': '(?i:\\\\[^\t \r\n]+[\t \r\n])',
    '__ANON_3': "(?i:[0-9]+'[bdh][0-9a-f]+)",
}
PUNCT_TEXT = {'SEMICOLON': ';', 'LPAR': '(', 'RPAR': ')', 'EQUAL': '=', 'COMMA': ',', 'DOT': '.', 'COLON': ':', 'LSQB': '[', 'RSQB': ']',
              'LBRACE': '{', 'RBRACE': '}'}
NAMES3 = {'__ANON_1', '__ANON_2', '__ANON_3'}
STMT_SET = {'INPUT', 'OUTPUT', 'INOUT', 'TRI', 'WIRE', 'ASSIGN', 'ENDMODULE'} | NAMES3


def table_cases():
    """-> (coq cases, descriptions, python-side failures)"""
    from lark.lexer import PatternStr
    L = plain_parser()
    fails = []
    tn = {t.name: t for t in L.terminals}
    for name, src in PATTERNS.items():
        got = tn[name].pattern.to_regexp() if name in tn else None
        if got != src:
            fails.append(f'terminal {name}: pattern {got!r}, the model transcribes {src!r}')
    for name, txt in list(PUNCT_TEXT.items()) + [(k, k.lower()) for k in KW_TERMS]:
        if name not in tn or not isinstance(tn[name].pattern, PatternStr) or tn[name].pattern.value != txt or tn[name].pattern.flags:
            fails.append(f'terminal {name} is not the plain string {txt!r}')
    extra = set(tn) - set(PATTERNS) - set(PUNCT_TEXT) - set(KW_TERMS)
    if extra:
        fails.append(f'terminals the model does not know: {sorted(extra)}')
    if list(L.ignore_tokens) != ['__IGNORE_0', '__IGNORE_1']:
        fails.append(f'ignore terminals {L.ignore_tokens}')
    table = L.parser.parser.parser.parse_table
    start = table.start_states['start']
    entered = {}                      # terminal name (None: start state) -> set of states
    entered[None] = {start}
    for st, acts in table.states.items():
        for tok, (action, arg) in acts.items():
            if tok in tn and str(action) == 'Shift':
                entered.setdefault(tok, set()).add(arg)

    def code_of(st):
        acc = {k for k in table.states[st] if k in tn or k == '$END'}
        if acc == {'MODULE', '$END'}:
            return 0, acc
        if acc == STMT_SET:
            return 1, acc
        if acc == {'__ANON_0'}:
            return 2, acc
        if acc and acc <= (NAMES3 | set(PUNCT_TERMS)) and (not (acc & NAMES3) or NAMES3 <= acc):
            return 3, acc
        return None, acc
    cases, descs = [], []
    for tok, sts in sorted(entered.items(), key=lambda kv: kv[0] or ''):
        codes = set()
        for st in sts:
            code, acc = code_of(st)
            if code is None:
                fails.append(f'state {st} (entered by {tok}): accept set {sorted(acc)} is none of the four scanner classes of the model')
                continue
            codes.add(code)
            # the scanner of that state
            lexer = L.parser.lexer.lexers[st]
            order = [t.name for t in lexer.scanner.terminals]
            want_emb = set()
            if code == 1:
                want_emb = {'input', 'output', 'inout', 'tri', 'wire', 'assign', 'endmodule'}
            emb = set()
            for rname, cb in lexer.callback.items():
                if rname != '__ANON_1':
                    fails.append(f'scanner of state {st}: strings embedded in {rname}')
                emb |= {t.pattern.value for t in cb.scanner.terminals}
            if emb != want_emb:
                fails.append(f'scanner of state {st} (accepts {sorted(acc)}): keywords re-typed from the plain-name pattern {sorted(emb)}, model {sorted(want_emb)}')
            if order[:1] != ['__IGNORE_0']:
                fails.append(f'scanner of state {st}: first alternative {order[:1]} (the model reads a complete attribute before "(")')
            want = {'__IGNORE_0', '__IGNORE_1'} | (acc - {'$END'} - (set(KW_TERMS) if code == 1 else set()))
            if set(order) != want:
                fails.append(f'scanner of state {st}: alternatives {order}, expected {sorted(want)}')
        if tok is None:
            if codes != {0}:
                fails.append(f'start state: scanner class {codes}')
            continue
        if len(codes) != 1:
            fails.append(f'states entered by {tok} have scanner classes {codes}')
            continue
        term = KW_TERMS.get(tok) or PUNCT_TERMS.get(tok) or ('TNum "0"' if tok == '__ANON_0' else 'TName "x"')
        cases.append(f'mode_case ({term}) {codes.pop()}')
        descs.append({'kind': 'vlog-mode', 'after': tok})
    return cases, descs, fails


# ---- generators -----------------------------------------------------------------------------------------------------------
PLAIN = ['a', 'b', 'clk', 'Q', 'n_12', '_x', 'A1', 'zz9', 'w', 'z', 'u1', 'g2', 'AND2_X1', 'INV_X1', 'BUF_X1', 'module', 'endmodule', 'input', 'output',
         'inout', 'tri', 'wire', 'assign', 'INPUT', 'Wire', 'inputx', 'module1', 'endmodules', 'x', 'f', 'b0', 'hA', 'e', '_', 'ZN', 'Z', 'A', 'A2']
ESC_BODY = ['a', 'a[3]', 'k[0]', 'a~u2/A', 'x.y', '$w', '3x', 'p[1][0]', 'q*)', '/*c', '//', 'a\\b', 'input', "it's", "1'b0", '(*', '\x0c', 'a\x0bb', '\xe9', '{a,b}',
            'module', 'u1', 'w', 'z', ';', "2'b11"]
SIZED = ["1'b0", "1'b1", "4'hF", "3'D5", "2'b0b1", "8'haB", "1'H0", "12'd4095", "2'b1010", "04'b1", "1'd1", "2'B0B11", "1'b0f", "0'b0", "2'b12", "1'h0"]
STMT_KW = ('input', 'output', 'inout', 'tri', 'wire', 'assign', 'endmodule')


def gen_name(rng, first=False, rich=True):
    """the text of a name token; first = type name of an instantiation (not a statement keyword)"""
    r = rng.random()
    if r < 0.62 or not rich:
        n = rng.choice(PLAIN)
        while first and n in STMT_KW:
            n = rng.choice(PLAIN)
        return n
    if r < 0.85:
        return '\\' + rng.choice(ESC_BODY) + rng.choice([' ', ' ', '\t', '\n', '\r'])
    return rng.choice(SIZED)


def gen_num(rng):
    return rng.choice(['0', '1', '3', '7', '15', '007', '31', '2'])


def gen_range(rng):
    return (gen_num(rng), gen_num(rng) if rng.random() < 0.7 else None)


def gen_sig(rng, depth=0, rich=True):
    if depth < 3 and rng.random() < (0.25 if depth == 0 else 0.15):
        return ('concat', [gen_sig(rng, depth + 1, rich) for _ in range(rng.randint(1, 3))])
    return ('sel', gen_name(rng, rich=rich), gen_range(rng) if rng.random() < 0.3 else None)


def gen_stmt(rng, rich=True):
    r = rng.random()
    if r < 0.35:
        return ('decl', rng.choice(DECLS), gen_range(rng) if rng.random() < 0.4 else None, [gen_name(rng, rich=rich) for _ in range(rng.randint(1, 3))])
    if r < 0.5:
        return ('assign', gen_sig(rng, rich=rich), gen_sig(rng, rich=rich))
    pins = []
    style = rng.random()
    for _ in range(rng.choice([0, 1, 2, 2, 3, 4])):
        if style < 0.75 or (style > 0.9 and rng.random() < 0.5):
            pins.append(('named', gen_name(rng, rich=rich), gen_sig(rng, rich=rich) if rng.random() < 0.85 else None))
        else:
            pins.append(('pos', gen_sig(rng, rich=rich)))
    return ('inst', gen_name(rng, first=True, rich=rich), gen_name(rng, rich=rich), pins)


def gen_tree(rng, rich=True):
    out = []
    for _ in range(rng.choice([0, 1, 1, 1, 1, 2, 3])):
        out.append((gen_name(rng, rich=rich), [gen_name(rng, rich=rich) for _ in range(rng.choice([0, 1, 2, 3]))],
                    [gen_stmt(rng, rich) for _ in range(rng.choice([0, 1, 2, 3, 5]))]))
    return out


def toks_range(g):
    return ['[', g[0]] + ([':', g[1]] if g[1] is not None else []) + [']']


def toks_sig(s):
    if s[0] == 'sel':
        return [s[1]] + (toks_range(s[2]) if s[2] else [])
    out = ['{']
    for i, x in enumerate(s[1]):
        out += ([','] if i else []) + toks_sig(x)
    return out + ['}']


def toks_pin(p):
    if p[0] == 'named':
        return ['.', p[1], '('] + (toks_sig(p[2]) if p[2] else []) + [')']
    return toks_sig(p[1])


def toks_stmt(s):
    if s[0] == 'decl':
        out = [s[1]] + (toks_range(s[2]) if s[2] else [])
        for i, n in enumerate(s[3]):
            out += ([','] if i else []) + [n]
        return out + [';']
    if s[0] == 'assign':
        return ['assign'] + toks_sig(s[1]) + ['='] + toks_sig(s[2]) + [';']
    out = [s[1], s[2], '(']
    for i, p in enumerate(s[3]):
        out += ([','] if i else []) + toks_pin(p)
    return out + [')', ';']


def toks_tree(t):
    out = []
    for name, params, stmts in t:
        out += ['module', name, '(']
        for i, n in enumerate(params):
            out += ([','] if i else []) + [n]
        out += [')', ';']
        for s in stmts:
            out += toks_stmt(s)
        out.append('endmodule')
    return out


WORDC = set('abcdefghijklmnopqrstuvwxyzABCDEFGHIJKLMNOPQRSTUVWXYZ0123456789_')
HEXC = set('0123456789abcdefABCDEF')
COMMENT_BODIES = ['c', 'synopsys translate_off', 'wire [3:0] fake;', '', '*', '**', ' x * y ', 'a ( b )', 'endmodule', '/', '/*', '(*', ')', '*(', '\r', 'caf\xe9',
                  '\x0b;', '// x', ' * / ', '\\a']


def needs_gap(prev, nxt, top):
    """python twin of follows_ok: the text nxt directly after token prev would prolong it (top: prev is the literal module at top level)"""
    if not nxt or top:
        return False
    c = nxt[0]
    if prev[0] == '\\':
        return False
    if prev == '(':
        return c == '*'
    if prev[0].isdigit() and prev[0] in '0123456789':
        return (c in HEXC) if "'" in prev else c in '0123456789'
    if prev[0] in WORDC:
        return c in WORDC
    return False


def gen_sep(rng, rich=True):
    st = rng.random()
    if st < 0.5:
        return ''
    out = ''
    for _ in range(1 if st < 0.85 else rng.randint(2, 4)):
        k = rng.random()
        if not rich or k < 0.4:
            out += ' '
        elif k < 0.5:
            out += '\t'
        elif k < 0.55:
            out += '\x0c'
        elif k < 0.68:
            out += '\n'
        elif k < 0.75:
            out += '\r\n'
        else:
            b = rng.choice(COMMENT_BODIES)
            kind = rng.random()
            if kind < 0.35:
                out += '/*' + b.replace('*/', '* /') + '*/'
            elif kind < 0.65:
                out += '(*' + b.replace('*)', '* )') + '*)'
            else:
                out += '//' + b.replace('\n', ' ') + rng.choice(['\n', '\n', '\r\n'])
    return out


def render(toks, rng, rich=True):
    """the token texts with arbitrary ignored text in front of every token and at the end; a separator is forced where the next
    character would prolong the previous token (python twin of follows_ok / mode_after)"""
    out = ''
    mode, prev, prev_top = 'top', None, False
    for t in toks + [None]:
        sp = gen_sep(rng, rich)
        if prev is not None and needs_gap(prev, sp + (t or ''), prev_top):
            sp = rng.choice([' ', '\n', '\t', '/**/', '\r\n', ' // c\n', '(**)']) + sp
        out += sp + (t or '')
        if t is None:
            break
        prev_top = mode == 'top' and t == 'module'
        mode = 'top' if (mode == 'stmt' and t == 'endmodule') else 'stmt' if t == ';' else 'gen'
        prev = t
    if rich and rng.random() < 0.15:           # a last line comment without line break (read since the repair of the COMMENT terminal)
        out += '//' + rng.choice(COMMENT_BODIES).replace('\n', ' ')
    return out


def mutate_chars(text, rng):
    st = rng.random()
    if st < 0.3 and text:
        i = rng.randrange(len(text))
        return text[:i] + text[i + 1:]
    if st < 0.65:
        i = rng.randint(0, len(text))
        return text[:i] + rng.choice(MUT_CHARS) + text[i:]
    if st < 0.9 and text:
        i = rng.randrange(len(text))
        return text[:i] + rng.choice(MUT_CHARS) + text[i + 1:]
    return text.rstrip() + rng.choice(['// end', ' //', '/* open', '\r', ' // x\r'])


MUT_CHARS = '(),=;#\r\x0b.\xe9 aZ-_0\n\x0c"\'[]{}:$\\*/\x85\xa0'


def mutate(text, toks, rng):
    """one small change that usually leaves the language"""
    st = rng.random()
    if st < 0.2 and text:
        i = rng.randrange(len(text))
        return text[:i] + text[i + 1:]
    if st < 0.45:
        i = rng.randint(0, len(text))
        return text[:i] + rng.choice(MUT_CHARS) + text[i:]
    if st < 0.6 and text:
        i = rng.randrange(len(text))
        return text[:i] + rng.choice(MUT_CHARS) + text[i + 1:]
    if st < 0.66:
        return text + rng.choice(['// end', '//', '/* open', '(* open', '\r', '\\tail', ' // x\r', '/', '(', '*'])
    t2 = list(toks)
    if st < 0.75 and t2:
        i = rng.randrange(len(t2))
        t2.insert(i, t2[i])
    elif st < 0.84 and len(t2) > 1:
        i = rng.randrange(len(t2) - 1)
        t2[i], t2[i + 1] = t2[i + 1], t2[i]
    elif st < 0.93 and t2:
        del t2[rng.randrange(len(t2))]
    else:
        kws = [i for i, t in enumerate(t2) if t in STMT_KW or t == 'module']
        if kws:
            i = rng.choice(kws)
            t2[i] = rng.choice([t2[i].capitalize(), t2[i].upper(), t2[i] + 's', t2[i][:-1], t2[i] + '1'])
        else:
            t2 = ['module'] + t2
    return render(t2, rng)


SOUP = ['module', 'endmodule', 'input', 'output', 'wire', 'assign', 'a', 'b', 'a', '(', ')', '(', ')', ',', ';', ';', '=', '[', ']', ':', '3', '0', '{', '}', '.',
        "1'b0", '\\e ', 'tri', 'inout']


def gen_text(rng):
    """-> (text, stream, ground-truth tree or None if unknown)"""
    st = rng.random()
    if st < 0.5:
        tree = gen_tree(rng)
        return render(toks_tree(tree), rng), 'rendered', tree
    if st < 0.85:
        tree = gen_tree(rng, rich=rng.random() < 0.5)
        toks = toks_tree(tree)
        return mutate(render(toks, rng), toks, rng), 'malformed', None
    toks = [rng.choice(SOUP) for _ in range(rng.randint(0, 12))]
    if rng.random() < 0.6:
        toks = ['module', 'm', '(', ')', ';'] + toks
    return render(toks, rng, rich=rng.random() < 0.5), 'soup', None


def text_case(rng, text=None, stream=None, truth=None):
    """-> (coq case, description, oracle failure or None)"""
    if text is None:
        text, stream, truth = gen_text(rng)
    assert in_domain(text)
    got, exc = raw_tree(text)
    desc = {'kind': 'vlog-text', 'stream': stream, 'text': text, 'raises': exc}
    fail = None
    if truth is not None and got != truth:
        fail = f'a Verilog text written from the tree {truth} (ignored text between tokens) is read as {got if got is not None else exc}'
    return f'vtext_case {cstr(text)} {copt(got, c_tree)}', desc, fail


# the probes that determined the model; checked on every run
CORNER_TEXTS = [
    '', ' ', '\n', '\r\n', '\r', '\x0c', '\x0b', 'module m(); endmodule', 'modulem();endmodule', "module1'b0();endmodule", 'module\\m (); endmodule', 'module(); endmodule',
    'Module m(); endmodule', 'MODULE m(); endmodule', 'module m(); endmodule // x', 'module m(); endmodule // x\n', 'module m(); endmodule // x\r', 'module m(); endmodule // x\r\n',
    'module m(); endmodule //', 'module m(); endmodule //\n', '// c\n', '//\n', '//', '/**/', '/***/', '/****/', '/*/', '/* * / */', '/*/*/', '(**)', '(***)', '(*)', '(*) *)', '(* ( *)',
    '(* x *)module m(); endmodule', 'module m(); endmodulemodule m2(); endmodule', 'module m(); endmodule module m2(); endmodule', 'module m(); endmodule/**/module m2(); endmodule',
    'module m(); module b(); endmodule', 'module m(); endmodule endmodule', 'module m(a); inputx a; endmodule', 'module m(a); inputx a(); endmodule', 'module m(a); input1 a(); endmodule',
    'module m(a); input input; endmodule', 'module m(a); input module, endmodule; endmodule', 'module m(a); INPUT a; endmodule', 'module m(a); INPUT a(); endmodule', 'module m(a); Input a(); endmodule',
    'module input(wire); input wire; endmodule', 'module m(); a input(); endmodule', 'module m(); input a(); endmodule', 'module m(); endmodule a(); endmodule', 'module m(); assign assign = assign; endmodule',
    'module m(); a b(*); endmodule', 'module m(); a b(* *)(); endmodule', 'module m(); a b(*)*)(); endmodule', 'module m(); a b (*c*) (*d*) (); endmodule', 'module m(); a b(/**/); endmodule',
    'module m(); /***/ endmodule', 'module m(); /*/ endmodule', 'module m(); /*/ endmodule */ endmodule', 'module m();\r\nendmodule', 'module m();\rendmodule', 'module m();\x0cendmodule',
    'module m();\x0bendmodule', 'module m();\tendmodule', "module m(); 1'b0 u(); endmodule", "module m(); 1'b0x(); endmodule", "module m(); 1'bx(); endmodule", "module m(); 1'b0f g(); endmodule",
    "module m(); a b(1'b0); endmodule", "module m(); a b(1'B0, 2'hfF, 3'D7, 10'd1023); endmodule", "module m(); a b(1 'b0); endmodule", "module m(); a b(1' b0); endmodule", "module m(); a b(1'b 0); endmodule",
    "module m(); a b(1'o7); endmodule", "module m(); a b('b0); endmodule", "module m(); a b(12); endmodule", "module m(); a b(2'b0b1); endmodule", 'module m(); a \\b (\\c[3] ); endmodule',
    'module m(); a \\b\n(\\c[3]\t); endmodule', 'module m(); a \\b\r\n(); endmodule', 'module m(); a \\b\r(); endmodule', 'module m(); a \\b\x0c(); endmodule', 'module m(); a \\b', 'module m(); a \\b ',
    'module m(); a \\ b(); endmodule', 'module m(); a \\\\ (); endmodule', 'module m(); a \\b;c (); endmodule', 'module m(); a b(.A()); endmodule', 'module m(); a b(.A(),.B(c)); endmodule',
    'module m(); a b(.A(),); endmodule', 'module m(); a b(,.A()); endmodule', 'module m(); a b(.A); endmodule', 'module m(); a b(.A(c)(d)); endmodule', 'module m(); a b(. A ( c ) ); endmodule',
    'module m(); a b(c,d[3],{e,f[1:0]}); endmodule', 'module m(); a b({}); endmodule', 'module m(); a b({a,}); endmodule', 'module m(); a b({{{a}}}); endmodule', 'module m(); a b({a}{b}); endmodule',
    'module m(); wire [3] a; endmodule', 'module m(); wire [3:0] a,b; endmodule', 'module m(); wire [ 3 : 0 ] a; endmodule', 'module m(); wire [a] a; endmodule', "module m(); wire [1'b0] a; endmodule",
    'module m(); wire [3:] a; endmodule', 'module m(); wire [:3] a; endmodule', 'module m(); wire [] a; endmodule', 'module m(); wire [3:0:1] a; endmodule', 'module m(); wire [-1:0] a; endmodule',
    'module m(); wire [3a] a; endmodule', 'module m(); wire [03:000] a; endmodule', 'module m(); wire a[3]; endmodule', 'module m(); wire [3:0] [1:0] a; endmodule', 'module m(); assign a = b; endmodule',
    'module m(); assign {a,b} = {c,{d,e}}; endmodule', "module m(); assign a[3:0] = 4'hf; endmodule", 'module m(); assign a = b, c = d; endmodule', 'module m(); assign a == b; endmodule',
    'module m(); wire; endmodule', 'module m(); wire a,; endmodule', 'module m(); wire a b; endmodule', 'module m(a,); endmodule', 'module m(,a); endmodule', 'module m(a b); endmodule', 'module m; endmodule',
    'module m() endmodule', 'module m(); endmodule;', 'module m(); ; endmodule', 'module 3m(); endmodule', 'module m(); a 3b(); endmodule', 'module m(); a.b c(); endmodule', 'module m(); a b(.3(c)); endmodule',
    "module m(); a b(.1'b0(c)); endmodule", 'module m(); assign a=b endmodule', 'module m(); inputa; endmodule', 'module m(); input[3:0]a; endmodule', 'module m(); input\\a ; endmodule',
    'module m(); assign\\a =b; endmodule', 'module m(); endmodule\x0c', 'module m(); a b(c[3:2][1]); endmodule', 'module m(); a b({a}[1]); endmodule', "module m(); a b(4'HFx); endmodule", 'module m();',
    'module m(); a b();', 'module', 'module m', 'endmodule', 'module m(); a b(); endmodule garbage', 'module m(); a b() ; endmodule\n\n// end\n', 'module m(\xe9); endmodule', 'module m(); a \\\xe9 (); endmodule',
    'module m(); a b(c$d); endmodule', 'module m(); a b("s"); endmodule', 'module m(); a #(1) b(); endmodule', 'module m(); a b(c) , d(e); endmodule', 'module m(); (* keep *) a (* x *) b (* y *) ( (* z *) ) ; endmodule',
    'module m(); a b((* z *)); endmodule', 'module m(); a b ((*z*)c); endmodule', 'module m(input a); endmodule', 'module m(); input a; output z; AND2_X1 u1 (.A1(a), .A2(a), .ZN(z)); endmodule\n',
    'module m(); wire [1:0] x; assign x = {a,\n// c\n b}; endmodule', 'module m(); a b(c)/* */;/**/endmodule/**/', 'module m(); a b(c) // (* \n ; endmodule', 'module m();  a b(c) /* // */ ; endmodule',
    'module m(); a b(c) // /* \n ; endmodule // */\n', 'module m();\n\x0c\n a b(c);\n endmodule', 'module m(); a b (c\x0c)\x0c; endmodule',
]


def corner_cases(rng):
    cases, descs, fails = [], [], []
    for text in CORNER_TEXTS:
        c, d, f = text_case(rng, text, 'corner')
        cases.append(c)
        descs.append(d)
    return cases, descs


# ---- printer ------------------------------------------------------------------------------------------------------------------
def py_print(tree):
    """python twin of print_tree: every token preceded by one blank, a line break at the end"""
    return ''.join(' ' + t for t in toks_tree(tree)) + '\n'


def print_case(rng):
    tree = gen_tree(rng)
    text = py_print(tree)
    got, exc = raw_tree(text)
    fail = None
    if got != tree:
        fail = f'print_tree of {tree} is read back by the real parser as {got if got is not None else exc}'
    return f'vprint_case {c_tree(tree)} {cstr(text)}', {'kind': 'vlog-print', 'text': text}, fail


# ---- VerilogTransformer.name ------------------------------------------------------------------------------------------------------
def name_cases(rng, n):
    from kyupy.verilog import VerilogTransformer
    from lark import Token
    cases, descs = [], []
    sweep = PLAIN + SIZED + ['\\' + b + t for b in ESC_BODY for t in ' \t\n\r']
    for tok in sweep + [gen_name(rng) for _ in range(n)]:
        got = VerilogTransformer.name([Token('__ANON', tok)])
        cases.append(f'vname_case {cstr(tok)} {cstr(got)}')
        descs.append({'kind': 'vlog-name', 'token': tok, 'got': got})
    return cases, descs


# ---- verilog.parse as a whole --------------------------------------------------------------------------------------------------------
CIRC_HEADER = '''From Coq Require Import List NArith ZArith Bool Arith String Ascii.
From KV Require Import Model.Corr Model.Circuit Model.VerilogText.
Import ListNotations.
Local Open Scope list_scope.
Local Open Scope string_scope.
'''


def circ_cases_file(cases):
    return CIRC_HEADER + 'Definition results : list bool := [\n ' + ';\n '.join(cases) + '].\nEval vm_compute in (failing results).\n'


_INT_PLAIN = re.compile(r'[0-9]+\Z')


def _int_agrees(s, base):
    """does Model/VerilogElab.v py_int / parse_digits agree with Python's int(s, base) on whether s is a number?"""
    try:
        int(s, base)
        py = True
    except ValueError:
        py = False
    digs = {2: '01', 10: '0123456789', 16: '0123456789abcdefABCDEF'}[base]
    body = s
    if base == 2 and s[:2].lower() == '0b' or base == 16 and s[:2].lower() == '0x':
        if not (s and all(ch in digs for ch in s)):
            body = s[2:]
    model = bool(body) and all(ch in digs for ch in body)
    return py == model


def name_in_domain(tok):
    """sized constants: the model of sigsel covers the digit strings the lexer admits (and the base prefix); Python's int() also
    accepts signs, underscores and surrounding white space, which only an escaped identifier can carry"""
    s = tok[1:-1] if tok[0] == '\\' else tok
    if "'" not in s:
        return True
    parts = s.split("'")
    if len(parts) != 2:
        return True
    w, rest = parts
    if not _int_agrees(w, 10):
        return False
    if not rest or rest[0].lower() not in 'bdh':
        return True
    try:
        int(w)
    except ValueError:
        return True
    return _int_agrees(rest[1:], {'b': 2, 'd': 10, 'h': 16}[rest[0].lower()])


def tree_names(tree):
    def sig(s):
        if s[0] == 'sel':
            yield s[1]
        else:
            for x in s[1]:
                yield from sig(x)
    for name, params, stmts in tree:
        yield name
        yield from params
        for st in stmts:
            if st[0] == 'decl':
                yield from st[3]
            elif st[0] == 'assign':
                yield from sig(st[1])
                yield from sig(st[2])
            else:
                yield st[1]
                yield st[2]
                for p in st[3]:
                    if p[0] == 'named':
                        yield p[1]
                        if p[2]:
                            yield from sig(p[2])
                    else:
                        yield from sig(p[1])


_FULL = {}


def full_parser(tlib, branchforks):
    """the parser verilog.parse builds on every call (same constructor arguments), built once per (library, branchforks)"""
    from lark import Lark
    from kyupy import verilog
    key = (id(tlib), branchforks)
    if key not in _FULL:
        _FULL[key] = Lark(verilog.GRAMMAR, parser='lalr', transformer=verilog.VerilogTransformer(branchforks, tlib))
    return _FULL[key]


def circ_case(text, tlib, branchforks, desc, through_parse=True):
    """-> (coq case | None when outside the model's domain, description, failure); through_parse: call verilog.parse itself (it
    constructs a new Lark object per call), else the same parser object built once"""
    from kyupy import verilog
    tree, exc = raw_tree(text)
    d = dict(desc, kind='vlog-circuit', text=text, branchforks=branchforks)
    if tree is not None and not all(name_in_domain(n) for n in tree_names(tree)):
        return None, d, None
    views = None
    try:
        with vc.quiet():
            r = verilog.parse(text, tlib=tlib, branchforks=branchforks) if through_parse else full_parser(tlib, branchforks).parse(text)
        views = [vc.circuit_view(c) for c in (r if isinstance(r, list) else [r])]
    except Exception as e:            # the model's None
        d['raises'] = type(e).__name__
    fail = None
    if tree is None and views is not None:
        fail = 'verilog.parse accepts a text the parser without transformer rejects'
    kinds = []
    for _, _, stmts in (tree or []):
        for st in stmts:
            if st[0] == 'inst':
                k = st[1][1:-1] if st[1][0] == '\\' else st[1]
                if k not in kinds:
                    kinds.append(k)
    rows = []
    for k in kinds:
        if k in tlib.cells:
            tab = tlib.cells[k][1]
            rows.append(f'({cstr(k)}, ' + clist(tab.items(), lambda kv: f'({cstr(kv[0])}, ({kv[1][0]}, {"true" if kv[1][1] else "false"}))') + ')')
    cview = lambda v: ('(' + clist(v[0], lambda p: f'({cstr(p[0])}, {cstr(p[1])})') + ', ' +
                       clist(v[1], lambda q: f'({q[0]}, {q[1]}, {q[2]}, {q[3]})') + ', ' + clist(v[2], lambda x: copt(x, str)) + ')')
    cgot = copt(views, lambda vs: clist(vs, cview))
    return (f'vtext_circ_case {cstr(text)} {clist(rows)} {"true" if branchforks else "false"} {cgot}', d, fail)
