"""C10, semantic theorem for Circuit.substitute on arbitrary implementations: per-case tie (Model/CircuitSubstSem.v).

A case = (host circuit before the call as tables, index of the instance, implementation as tables, the canonical view of the real
host after Circuit.substitute, and three flags computed HERE from the live objects: all instance input pins connected, all output
pins connected, the D22 condition).  The Coq side (subst_case) rebuilds both circuits with circ_of_tables, runs the model's
substitute_pre / cleanup / substitute, compares the result with the real one, evaluates every hypothesis checker (subst_case2) of the
theorems C10_substitute_* and the glue relation subst_glue_b, and compares the flags with its own checkers.
"""
import re
from harness import circuit_edit as ce

HEADER = '''From Coq Require Import List Arith Bool String.
From KV Require Import Model.Circuit Model.CircuitInv Model.CircuitCorr Model.CircuitSubstSem Model.CircuitSubstSem2.
Import ListNotations.
Local Open Scope string_scope.
Local Open Scope list_scope.
'''

CODES = {1: 'the model of substitute raises or substitute_pre + cleanup is not substitute',
         2: 'the model result differs from the real Circuit after substitute',
         3: 'a hypothesis checker of the theorem fails (cinv_b / io_ok_b of host, implementation or result, subst_shape_b, instance is a cell)',
         4: 'the glue relation subst_glue_b fails on the state before the clean-up',
         5: 'the connectivity / D22 flags computed from the live objects differ from the Coq checkers',
         6: 'pure_ports_b fails for the implementation, or a node collected for the clean-up is not listed'}


def tables(c):
    """a circuit as (node rows, line rows, io) with line / node INDICES (ids of circ_of_tables)"""
    return ce.impl_tables(c)


def flags(u, impl):
    """computed on the live objects, before the call"""
    ins = [n for n in impl.io_nodes if len(n.ins) == 0]
    outs = [n for n in impl.io_nodes if len(n.ins) > 0]
    u_in = list(u.ins) + [None] * (len(ins) - len(u.ins))
    u_out = list(u.outs) + [None] * (len(outs) - len(u.outs))
    all_in = all(u_in[k] is not None for k in range(len(ins)))
    all_out = all(u_out[k] is not None for k in range(len(outs)))
    d22 = True
    for k, n in enumerate(ins):
        if u_in[k] is None and len(n.outs) == 1 and n.outs[0] is not None and n.outs[0].reader_pin >= 2:
            d22 = False
    return all_in, all_out, d22


def snapshot(host, u, impl):
    """to be called BEFORE host.substitute(u, impl)"""
    return {'host': tables(host), 'u': u.index, 'impl': tables(impl), 'flags': flags(u, impl)}


def finish(snap, host_after):
    snap['after'] = ce.view(host_after)
    return snap


def coq_tables(q, t):
    ns, ls, ios = t
    return ('(circ_of_tables ' + ce.nest('NRC', 'NRN', [f'(NR {q(a)} {q(b)} {j} {ce.onats(i)} {ce.onats(o)})' for j, (a, b, i, o) in enumerate(ns)]) + ' ' +
            ce.nest('LRC', 'LRN', [f'(LR {j} (So {a}) {b} (So {c}) {d})' for j, (a, b, c, d) in enumerate(ls)]) + ' ' + ce.onats(ios) + ')')


def coq_case(q, s):
    b = lambda x: 'true' if x else 'false'
    a, o, d = s['flags']
    return f'(subst_case2 {coq_tables(q, s["host"])} {s["u"]} {coq_tables(q, s["impl"])} {ce.coq_view(q, s["after"])} {b(a)} {b(o)} {b(d)})'


def cases_file(snaps):
    q = ce.Strings()
    cases = [coq_case(q, s) for s in snaps]
    body = ''.join(f'\n(SC {x}' for x in cases) + ' SN' + ')' * len(cases)
    return HEADER + q.defs() + f'Definition results : scases := {body}.\nEval vm_compute in (failing_scases 0 (of_scases results)).\n'


def parse_pairs(out):
    m = re.search(r'=\s*(\[.*?\])\s*:\s*list \(nat \* nat\)', out, flags=re.S)
    if not m:
        return None
    return [(int(a), int(b)) for a, b in re.findall(r'\((\d+),\s*(\d+)\)', m.group(1))]


# ----------------------------------------------------------------------------------------------------
# a second stream for the tie only (no truth-table oracle): implementations with state elements, with and without the 1:1 forks
# of the bench parser, outputs read internally, hosts that feed an instance output back into an instance input
def sem_case(rng):
    from kyupy.circuit import Circuit, Node, Line
    for _ in range(50):
        text = ce.gen_impl_text(rng)
        elim = rng.random() < 0.6
        try:
            impl = ce.make_impl(text, elim)
        except Exception:
            continue
        ins = [n for n in impl.io_nodes if len(n.ins) == 0]
        outs = [n for n in impl.io_nodes if len(n.ins) > 0]
        if not outs or len(set(map(id, impl.io_nodes))) != len(impl.io_nodes) or any(n.kind != ce.FORK for n in impl.io_nodes):
            continue
        if ce.invariant(impl) is not None or not ce.impl_shape_ok(impl):
            continue
        host = Circuit('host')
        u = Node(host, 'u1', rng.choice(['MYCELL', 'DFFX9', 'cell_a']))
        p_in = 1.0 if rng.random() < 0.5 else 0.8
        p_out = 1.0 if rng.random() < 0.6 else 0.7
        conn_in = [rng.random() < p_in for _ in ins]
        conn_out = [rng.random() < p_out for _ in outs]
        wires_out = []
        for k, n in enumerate(outs):
            if conn_out[k]:
                f = Node(host, f'wo{k}')
                Line(host, (u, k), f)
                o = Node(host, f'po{k}', 'output'); host.io_nodes.append(o)
                Line(host, f, o)
                wires_out.append(f)
        for k, n in enumerate(ins):
            if conn_in[k]:
                if wires_out and rng.random() < 0.2:          # feedback through the host
                    Line(host, rng.choice(wires_out), (u, k))
                    continue
                p = Node(host, f'pi{k}', 'input'); host.io_nodes.append(p)
                if rng.random() < 0.5:
                    f = Node(host, f'wi{k}')
                    Line(host, p, f); Line(host, f, (u, k))
                    if rng.random() < 0.3:
                        d = Node(host, f'hs{k}', rng.choice(['DFF', 'LATCH'])); Line(host, f, d)
                        q = Node(host, f'hq{k}', 'output'); host.io_nodes.append(q); Line(host, d, q)
                else:
                    Line(host, p, (u, k))
        desc = {'kind': 'substitute-sem', 'impl': text, 'elim': elim, 'connected': [conn_in, conn_out]}
        snap = snapshot(host, u, impl)
        try:
            host.substitute(u, impl)
        except Exception as e:
            desc['raises'] = f'{type(e).__name__}: {e}'
            continue
        if ce.invariant(host) is not None:
            continue
        snap['desc'] = desc
        return finish(snap, host)
    return None


# ----------------------------------------------------------------------------------------------------
# replay: rebuild host and implementation from the stored tables, run the real substitute, evaluate the case in Coq
def rebuild(t, name='c'):
    from kyupy.circuit import Circuit, Node, Line
    ns, ls, ios = t
    c = Circuit(name)
    nodes = [Node(c, nm, kd) for nm, kd, _, _ in ns]
    for d, dp, r, rp in ls:
        Line(c, (nodes[d], dp), (nodes[r], rp))
    for i in ios:
        c.io_nodes.append(nodes[i])
    return c


def replay_case(inp):
    """True if the case still fails"""
    import os
    from vcheck import core
    host, impl = rebuild(inp['host'], 'host'), rebuild(inp['impl'], 'impl')
    u = host.nodes[inp['u']]
    snap = snapshot(host, u, impl)
    try:
        host.substitute(u, impl)
    except Exception:
        return True
    finish(snap, host)
    os.makedirs(core.CASES, exist_ok=True)
    path = os.path.join(core.CASES, f'C10_replay_sem_{os.getpid()}.v')
    with open(path, 'w') as f:
        f.write(cases_file([snap]))
    ok, out = core.coqc_file(path, timeout=600)
    core.Check._cleanup_case(path)
    pairs = parse_pairs(out) if ok else None
    return pairs is None or bool(pairs)
