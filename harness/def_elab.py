"""Callback level of the DEF front end (C20): the parse tree lark hands to DefTransformer, what every callback receives
and returns, and the DefFile that results -- rendered for Model/DefElab.v.

lark_tree(text)      -> the parse tree of Lark(def_file.GRAMMAR, parser='lalr') without transformer (None: lark raises)
coq_tree(tree)       -> Coq term of type DefElab.tree (the tree as lark shapes it: filtered tokens gone, ?rules inlined)
real_run(text)       -> (DefFile | None, callback log, exception name): the real DefTransformer, every callback wrapped by a
                        recorder that renders (arguments, result / effect) the moment it is called
coq_deffile(d)       -> Coq term of type DefElab.deffile (everything vars(DefFile) holds)
"""
from lark import Lark, Tree, Token

HEADER = '''From Coq Require Import List ZArith NArith Bool Arith String Ascii.
From KV Require Import Model.Corr Model.DefRoute Model.DefElab Model.DefText Model.DefTextSpec.
Import ListNotations.
Local Open Scope list_scope.
Local Open Scope string_scope.
'''
MAX_COUNT = 10000          # DO n BY m counts above this are outside what the cases evaluate (unary nat in Model/DefRoute.v)


class OutOfDomain(Exception):
    pass


def cstr(s):
    """Coq term for a string of code points < 256"""
    s = str(s)
    segs, cur = [], ''
    for ch in s:
        o = ord(ch)
        if o >= 256:
            raise OutOfDomain(repr(s))
        if 32 <= o < 127 or ch in '\n\t':
            cur += ch
        else:
            if cur:
                segs.append('"' + cur.replace('"', '""') + '"'); cur = ''
            segs.append(f'(String (ascii_of_N {o}) "")')
    if cur or not segs:
        segs.append('"' + cur.replace('"', '""') + '"')
    return segs[0] if len(segs) == 1 else '(String.concat "" [' + '; '.join(segs) + '])'


def cl(xs, f=str):
    return '[' + '; '.join(f(x) for x in xs) + ']'


def copt(x, f):
    return 'None' if x is None else f'(Some {f(x)})'


def cz(x):
    assert isinstance(x, int) and not isinstance(x, bool), x
    return f'({x})%Z'


def coz(x):
    return 'None' if x is None else f'(Some {cz(x)})'


def cnat(x):
    if not (0 <= x <= MAX_COUNT):
        raise OutOfDomain(f'count {x}')
    return str(x)


# ---- the tree ---------------------------------------------------------------------------------------------------------
_plain = None


def plain_parser():
    global _plain
    if _plain is None:
        from kyupy import def_file
        _plain = Lark(def_file.GRAMMAR, parser='lalr')
    return _plain


def lark_tree(text):
    from lark.exceptions import LarkError
    try:
        return plain_parser().parse(text), None
    except LarkError as e:
        return None, type(e).__name__


def orient_text(tok):
    """ORIENTATION = /F?[NWES]/ WS: the model stores the text without the white-space character .strip() removes"""
    v = str(tok)
    assert len(v) in (2, 3) and v[-1] in ' \t\f\r\n' and v[:-1] == v.strip(), repr(v)
    return v[:-1]


def c_point(t):
    assert t.data == 'point' and len(t.children) in (2, 3)
    c = [('CStar' if str(a) == '*' else f'(CNum {cstr(a)})') for a in t.children[:2]]
    assert str(t.children[0]) == '*' or t.children[0].type == 'NUMBER'
    return f'(mkTP {c[0]} {c[1]} {copt(t.children[2] if len(t.children) == 3 else None, cstr)})'


def c_do_step(t):
    assert t.data == 'do_step' and len(t.children) == 4
    return '(mkDS ' + ' '.join(cstr(a) for a in t.children) + ')'


def kw(tok):
    assert isinstance(tok, Token) and tok.type.startswith('__ANON'), tok
    return str(tok)


def c_via_opt(t):
    k = kw(t.children[0])
    name = {'VIARULE': 'VOViarule', 'CUTSIZE': 'VOCutsize', 'LAYERS': 'VOLayers', 'CUTSPACING': 'VOCutspacing', 'ENCLOSURE': 'VOEnclosure',
            'ROWCOL': 'VORowcol', 'PATTERN': 'VOPattern'}[k]
    return f'({name} ' + ' '.join(cstr(a) for a in t.children[1:]) + ')'


def c_pin_opt(t):
    k = kw(t.children[0])
    a = t.children[1:]
    if k in ('NET', 'DIRECTION', 'USE'):
        return f'({dict(NET="PONet", DIRECTION="PODirection", USE="POUse")[k]} {cstr(a[0])})'
    if k == 'SPECIAL': return 'POSpecial'
    if k == 'PORT': return 'POPort'
    if k == 'LAYER': return f'(POLayer {cstr(a[0])} {c_point(a[1])} {c_point(a[2])})'
    assert k == 'PLACED'
    return f'(POPlaced {c_point(a[0])} {cstr(a[1])})'


WKW = {'COVER': 'KCover', 'FIXED': 'KFixed', 'ROUTED': 'KRouted', 'NOSHIELD': 'KNoshield'}
OKW = {'USE': 'KUse', 'NONDEFAULTRULE': 'KNondefaultrule'}


def c_spwire(t):
    assert t.data == 'spwire'
    ch = t.children
    opts = [c for c in ch[2:-1]]
    pts = ch[-1]
    assert pts.data == 'sppoints' and all(o.data == 'spwire_opt' for o in opts)

    def el(e):
        if e.data == 'point':
            return f'SPPoint {c_point(e)}'
        assert e.data == 'sppoints_via'
        return f'SPVia {cstr(e.children[0])} {copt(e.children[1] if len(e.children) > 1 else None, c_do_step)}'
    co = cl(opts, lambda o: f'{dict(SHAPE="SWShape", STYLE="SWStyle")[kw(o.children[0])]} {cstr(o.children[1])}')
    return f'(mkSW {cstr(ch[0])} {cstr(ch[1])} {co} {c_point(pts.children[0])} {cl(pts.children[1:], el)})'


def c_rwire(t):
    assert t.data == 'wire' and len(t.children) == 3
    lay, wo, pts = t.children
    assert wo.data == 'wire_opt' and pts.data == 'points'

    def el(e):
        if e.data == 'point':
            return f'RPoint {c_point(e)}'
        assert e.data == 'points_via'
        return f'RVia {cstr(e.children[0])} {copt(orient_text(e.children[1]) if len(e.children) > 1 else None, cstr)}'
    return f'(mkRW {cstr(lay)} {cl(wo.children, cstr)} {c_point(pts.children[0])} {cl(pts.children[1:], el)})'


def c_net_stmt(t, special):
    def item(it):
        if it.data == 'net_pin':
            return f'NIPin {cstr(it.children[0])} {cstr(it.children[1])}'
        if it.data == 'net_opt':
            return f'NIOpt {OKW[kw(it.children[0])]} {cstr(it.children[1])}'
        assert it.data == ('spnet_wires' if special else 'net_wires')
        ws = [(c_spwire if special else c_rwire)(w) for w in it.children[1:]]
        return f'NIWires {WKW[kw(it.children[0])]} {ws[0]} {cl(ws[1:])}'
    return f'({"mkSN" if special else "mkNN"} {cstr(t.children[0])} {cl(t.children[1:], item)})'


def c_nondef_stmt(t):
    ch = t.children
    opts, i = [], 1
    while i < len(ch):
        k = kw(ch[i])
        if k == 'HARDSPACING':
            opts.append('NOHardspacing'); i += 1
        elif k == 'LAYER':
            opts.append(f'NOLayer {cstr(ch[i + 1])} {cstr(ch[i + 2])} {cstr(ch[i + 3])}'); i += 4
        else:
            assert k == 'VIA'
            opts.append(f'NOVia {cstr(ch[i + 1])}'); i += 2
    return f'(mkNDS {cstr(ch[0])} {cl(opts)})'


def c_design_stmt(t):
    if t.data == 'design_stmt':
        k = kw(t.children[0])
        a = t.children[1:]
        if k == 'UNITS': return f'SUnits {cstr(a[0])} {cstr(a[1])} {cstr(a[2])}'
        if k == 'DIEAREA': return f'SDiearea {c_point(a[0])} {cl(a[1:], c_point)}'
        if k == 'ROW': return 'SRow ' + ' '.join(cstr(x) for x in a[:5]) + ' ' + c_do_step(a[5])
        assert k == 'TRACKS' and len(a) == 5
        return 'STracks ' + ' '.join(cstr(x) for x in a)
    ch = t.children
    if t.data == 'propdef':
        return 'SPropdef ' + cl(ch, lambda s: f'({cstr(s.children[1])}, {cstr(s.children[2])})')
    if t.data == 'vias':
        return f'SVias {cstr(ch[0])} ' + cl(ch[1:], lambda s: f'(mkVS {cstr(s.children[0])} {cl(s.children[1:], c_via_opt)})')
    if t.data == 'nondef':
        return f'SNondef {cstr(ch[0])} {c_nondef_stmt(ch[1])} {cl(ch[2:], c_nondef_stmt)}'
    if t.data == 'comp':
        return f'SComp {cstr(ch[0])} ' + cl(ch[1:], lambda s: f'(mkCS {cstr(s.children[0])} {cstr(s.children[1])} {c_point(s.children[2])} {cstr(s.children[3])})')
    if t.data == 'pins':
        return f'SPins {cstr(ch[0])} ' + cl(ch[1:], lambda s: f'(mkPS {cstr(s.children[0])} {cl(s.children[1:], c_pin_opt)})')
    if t.data == 'pinprop':
        return f'SPinprop {cstr(ch[0])} ' + cl(ch[1:], lambda s: f'({cstr(s.children[0])}, {cstr(s.children[1])}, {cstr(s.children[2])})')
    if t.data == 'spnets':
        return f'SSpnets {cstr(ch[0])} ' + cl(ch[1:], lambda s: c_net_stmt(s, True))
    assert t.data == 'nets', t.data
    return f'SNets {cstr(ch[0])} ' + cl(ch[1:], lambda s: c_net_stmt(s, False))


def coq_tree(t):
    assert t.data == 'start'
    ch = list(t.children)
    comment = None
    if ch and isinstance(ch[0], Token):
        assert ch[0].type == '__ANON_0'
        comment = str(ch.pop(0))

    def fs(f):
        if f.data == 'design':
            return f'FDesign {cstr(f.children[0])} {cl(f.children[1:], c_design_stmt)}'
        assert f.data == 'file_stmt' and len(f.children) == 2
        k = kw(f.children[0])
        return f'{dict(VERSION="FVersion", DIVIDERCHAR="FDividerchar", BUSBITCHARS="FBusbitchars")[k]} {cstr(f.children[1])}'
    return f'(mkTree {copt(comment, cstr)} {cl(ch, fs)})'


# ---- what the callbacks build -----------------------------------------------------------------------------------------
def c_rpoint(p):
    assert isinstance(p, tuple) and len(p) in (2, 3), p
    return f'(mkRP {coz(p[0])} {coz(p[1])} {coz(p[2] if len(p) == 3 else None)})'


def c_z4(t):
    assert isinstance(t, tuple) and len(t) == 4
    return '(' + ', '.join(cz(x) for x in t) + ')'


def c_dpoint(p):
    if isinstance(p[0], str):
        nm, prm = p
        if prm is None:
            return f'DVia {cstr(nm)} VNone'
        if isinstance(prm, tuple):
            return f'DVia {cstr(nm)} (VArray {cnat(prm[0])} {cnat(prm[1])} {cz(prm[2])} {cz(prm[3])})'
        return f'DVia {cstr(nm)} (VOrient {cstr(prm)})'
    return f'DPt {c_rpoint(p)}'


def c_dwire(w):
    return f'(mkDW {cstr(w.layer)} {copt(w.width, cstr)} {cl(w.points, c_dpoint)})'


def c_nval(v):
    return f'NStr {cstr(v)}' if isinstance(v, str) else f'NWires {cl(v, c_dwire)}'


def c_dnet(n):
    d = dict(vars(n))
    name, pins = d.pop('name'), d.pop('pins')
    return f'(mkDN {cstr(name)} {cl(pins, lambda p: f"({cstr(p[0])}, {cstr(p[1])})")} {cl(d.items(), lambda kv: f"({cstr(kv[0])}, {c_nval(kv[1])})")})'


def c_vval(v):
    if isinstance(v, str): return f'VStr {cstr(v)}'
    if all(isinstance(x, str) for x in v) and v: return f'VStrs {cl(v, cstr)}'
    return f'VInts {cl(v, cz)}'


def c_dvia(v):
    d = dict(vars(v))
    name = d.pop('name')
    return f'(mkDV {cstr(name)} {cl(d.items(), lambda kv: f"({cstr(kv[0])}, {c_vval(kv[1])})")})'


def c_pinval(v):
    if isinstance(v, str): return f'PVStr {cstr(v)}'
    if v == []: return 'PVEmpty'
    assert len(v) == 3, v
    return f'PVLayer {cstr(v[0])} {c_rpoint(v[1])} {c_rpoint(v[2])}'


def c_pplace(p):
    return f'({coz(p[0])}, {coz(p[1])}, {cstr(p[2])})'


def c_dpin(p):
    d = dict(vars(p))
    name, pts = d.pop('name'), d.pop('points')
    return f'(mkDP {cstr(name)} {cl(pts, c_pplace)} {cl(d.items(), lambda kv: f"({cstr(kv[0])}, {c_pinval(kv[1])})")})'


def c_dcomp(c):
    return f'({cstr(c[0])}, {c_rpoint(c[1])}, {cstr(c[2])})'


def c_row(r):
    return f'({cstr(r[0])}, {cstr(r[1])}, ({cz(r[2][0])}, {cz(r[2][1])}), {cstr(r[3])}, {cz(r[4])}, {cz(r[5])})'


def c_track(t):
    return f'({cstr(t[0])}, {cz(t[1])}, {cz(t[2])}, {cz(t[3])}, {cstr(t[4])})'


def c_unit(u):
    return f'({cstr(u[0])}, {cstr(u[1])}, {cz(u[2])})'


DF_KEYS = {'rows', 'tracks', 'units', 'vias', 'components', 'pins', 'specialnets', 'nets', 'version', 'dividerchar', 'busbitchars', 'design', 'diearea'}


def coq_deffile(d):
    v = vars(d)
    assert set(v) <= DF_KEYS, set(v) - DF_KEYS
    g = v.get

    def pd(x, f):
        return cl(x.items(), lambda kv: f'({cstr(kv[0])}, {f(kv[1])})')
    return ('(mkDF ' + ' '.join([copt(g('version'), cstr), copt(g('dividerchar'), cstr), copt(g('busbitchars'), cstr), copt(g('design'), cstr),
                                 cl(v['units'], c_unit), copt(g('diearea'), lambda a: cl(a, c_rpoint)), cl(v['rows'], c_row), cl(v['tracks'], c_track),
                                 pd(v['vias'], c_dvia), pd(v['components'], c_dcomp), pd(v['pins'], c_dpin), pd(v['specialnets'], c_dnet),
                                 pd(v['nets'], c_dnet)]) + ')')


def dump(d):
    """plain data of a DefFile (to compare two runs in Python)"""
    def plain(x):
        if isinstance(x, dict): return {k: plain(v) for k, v in x.items()}
        if isinstance(x, (list, tuple)): return [plain(v) for v in x]
        if hasattr(x, '__dict__'): return {'__' + type(x).__name__: plain(vars(x))}
        return str(x) if isinstance(x, str) else x
    return plain(vars(d))


# ---- the recorder -----------------------------------------------------------------------------------------------------
def c_nitem(a):
    if a[0] == '__pin__':
        return f'NPin {cstr(a[1][0])} {cstr(a[1][1])}'
    if isinstance(a[1], list):
        return f'NWiring {cstr(a[0])} {cl(a[1], c_dwire)}'
    return f'NAttr {cstr(a[0])} {cstr(a[1])}'


def c_pinopt_val(ov):
    opt, val = ov
    return f'PPlaced {c_pplace(val)}' if opt == 'placed' else f'PAttr {cstr(opt)} ({c_pinval(val)})'


def c_viaopt_val(ov):
    return f'({cstr(ov[0])}, {c_vval(ov[1])})'


def pyvia(p):
    return 'PyNone' if p is None else f'(PyTuple {c_z4(p)})' if isinstance(p, tuple) else f'(PyStr {cstr(p)})'


class Pre:
    """what is rendered from the arguments BEFORE the real callback runs (it may raise, and statement callbacks mutate)"""
    def __init__(self, name, args):
        self.name, self.args = name, list(args)


def render_call(name, args, result, raised, tr):
    """-> list of Coq cases for one callback invocation (python-side identities are asserted and yield no case)"""
    A = args
    if name == 'point':
        p = f'(mkTP {" ".join("CStar" if str(a) == "*" else f"(CNum {cstr(a)})" for a in A[:2])} {copt(A[2] if len(A) == 3 else None, cstr)})'
        return [f'cb_point_case {p} {copt(None if raised else result, c_rpoint)}']
    if name == 'do_step':
        return [f'cb_do_step_case (mkDS {" ".join(cstr(a) for a in A)}) {copt(None if raised else result, c_z4)}']
    assert not raised, (name, raised)                         # only int() raises, and only in the callbacks handled with copt
    if name == 'sppoints_via':
        return [f'cb_sppoints_via_case {cstr(A[0])} {copt(A[1] if len(A) > 1 else None, c_z4)} {cstr(result[0])} {pyvia(result[1])}']
    if name == 'points_via':
        return [f'cb_points_via_case {cstr(A[0])} {copt(orient_text(A[1]) if len(A) > 1 else None, cstr)} {cstr(result[0])} {pyvia(result[1])}']
    if name in ('sppoints', 'points'):
        assert result is args
        return []
    if name == 'spwire':
        return [f'cb_spwire_case {cstr(A[0])} {cstr(A[1])} {cl(A[-1], c_dpoint)} {c_dwire(result)}']
    if name == 'wire':
        return [f'cb_wire_case {cstr(A[0])} {cl(A[-1], c_dpoint)} {c_dwire(result)}']
    if name in ('spnet_wires', 'net_wires'):
        return [f'cb_net_wires_case {WKW[str(A[0])]} {cl(A[1:], c_dwire)} ({c_nitem(result)})']
    if name == 'net_pin':
        return [f'cb_net_pin_case {cstr(A[0])} {cstr(A[1])} ({c_nitem(result)})']
    if name == 'net_opt':
        return [f'cb_net_opt_case {OKW[str(A[0])]} {cstr(A[1])} ({c_nitem(result)})']
    if name in ('spnets_stmt', 'nets_stmt'):
        assert result is None
        store = tr.def_file.specialnets if name == 'spnets_stmt' else tr.def_file.nets
        return [f'cb_net_stmt_case {cstr(A[0])} {cl(A[1:], lambda a: "(" + c_nitem(a) + ")")} {c_dnet(store[str(A[0])])}']
    if name == 'vias_stmt':
        return [f'cb_vias_stmt_case {cstr(A[0])} {cl(A[1:], c_viaopt_val)} {c_dvia(tr.def_file.vias[str(A[0])])}']
    if name == 'pins_opt':
        k = str(A[0])
        a = A[1:]
        arg = ({'NET': 'PANet', 'DIRECTION': 'PADirection', 'USE': 'PAUse'}[k] + ' ' + cstr(a[0]) if k in ('NET', 'DIRECTION', 'USE') else
               'PASpecial' if k == 'SPECIAL' else 'PAPort' if k == 'PORT' else
               f'PALayer {cstr(a[0])} {c_rpoint(a[1])} {c_rpoint(a[2])}' if k == 'LAYER' else f'PAPlaced {c_rpoint(a[0])} {cstr(a[1])}')
        return [f'cb_pins_opt_case ({arg}) ({c_pinopt_val(result)})']
    if name == 'pins_stmt':
        return [f'cb_pins_stmt_case {cstr(A[0])} {cl(A[1:], lambda a: "(" + c_pinopt_val(a) + ")")} {c_dpin(tr.def_file.pins[str(A[0])])}']
    if name == 'comp_stmt':
        nm = str(A[0])
        return [f'cb_comp_stmt_case {cstr(nm)} {cstr(A[1])} {c_rpoint(A[2])} {cstr(A[3])} ({cstr(nm)}, {c_dcomp(tr.def_file.components[nm])})']
    if name == 'file_stmt':
        return [f'unquote_case {cstr(A[1])} {cstr(getattr(tr.def_file, str(A[0]).lower()))}']
    if name == 'design':
        assert tr.def_file.design == str(A[0])
        return []
    if name == 'start':
        assert result is tr.def_file
        return []
    raise AssertionError('callback without a model: ' + name)


def render_raising(name, args):
    """vias_opt and the four branches of design_stmt call int() themselves"""
    A = list(args)
    if name == 'vias_opt':
        k = str(A[0])
        o = {'VIARULE': 'VOViarule', 'CUTSIZE': 'VOCutsize', 'LAYERS': 'VOLayers', 'CUTSPACING': 'VOCutspacing', 'ENCLOSURE': 'VOEnclosure',
             'ROWCOL': 'VORowcol', 'PATTERN': 'VOPattern'}[k]
        return lambda res: [f'cb_vias_opt_case ({o} {" ".join(cstr(a) for a in A[1:])}) {copt(res, c_viaopt_val)}']
    if name == 'design_stmt':
        k = str(A[0])
        if k == 'UNITS':
            return lambda res, tr: [f'cb_units_case {" ".join(cstr(a) for a in A[1:4])} {copt(None if res is None else tr.def_file.units[-1], c_unit)}']
        if k == 'ROW':
            return lambda res, tr: [f'cb_row_case {" ".join(cstr(a) for a in A[1:6])} {c_z4(A[6])} {copt(None if res is None else tr.def_file.rows[-1], c_row)}']
        if k == 'TRACKS':
            return lambda res, tr: [f'cb_track_case {" ".join(cstr(a) for a in A[1:6])} {copt(None if res is None else tr.def_file.tracks[-1], c_track)}']
        assert k == 'DIEAREA'
        return lambda res, tr: []
    return None


def make_recorder(log):
    from kyupy import def_file

    class Rec(def_file.DefTransformer):
        pass

    def wrap(name, f):
        def w(self, args):
            special = render_raising(name, args)
            try:
                r = f(self, args)
            except ValueError:
                if special is not None:
                    log.append((name, special(None) if name == 'vias_opt' else special(None, self)))
                else:
                    log.append((name, render_call(name, args, None, True, self)))
                raise
            if special is not None:
                if name == 'design_stmt' and str(args[0]) == 'DIEAREA':
                    assert self.def_file.diearea == list(args[1:])
                log.append((name, special(r) if name == 'vias_opt' else special(True, self)))
            else:
                log.append((name, render_call(name, args, r, False, self)))
            return r
        return w
    for name, f in vars(def_file.DefTransformer).items():
        if not name.startswith('__') and callable(f):
            setattr(Rec, name, wrap(name, f))
    return Rec


_rec = None


def real_run(text):
    """-> (DefFile | None, [(callback name, [cases])], exception name | None).
    ONE Lark(GRAMMAR, parser='lalr', transformer=<recording DefTransformer>) is built (55 ms) and reused: the callbacks read
    self.def_file at call time, so a fresh DefFile per text is what DefTransformer() per text gives."""
    global _rec
    from kyupy import def_file
    if _rec is None:
        log = []
        tr = make_recorder(log)()
        _rec = (Lark(def_file.GRAMMAR, parser='lalr', transformer=tr), tr, log)
    lark, tr, log = _rec
    tr.def_file = def_file.DefFile()
    del log[:]
    try:
        d = lark.parse(text)
    except OutOfDomain:
        raise
    except Exception as e:                                   # noqa
        return None, list(log), type(e).__name__
    assert d is tr.def_file
    return d, list(log), None


def cases_file(cases, defs=()):
    return (HEADER + ''.join(f'Definition {n} := {v}.\n' for n, v in defs) +
            'Definition results : list bool := [\n ' + ';\n '.join(cases) + '].\nEval vm_compute in (failing results).\n')
