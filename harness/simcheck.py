"""Shared pieces of the logic-simulation checks (C01, C02, C06, C16): translator validation of the
dispatch programs, generated circuits/stimuli, oracle comparisons, Coq case files."""
import io
import contextlib
import traceback
import numpy as np

from harness import circgen as cg, logicsim_corr as lc, oracle_net as on, simops_corr as sc
from translate import pysym


def regen_tables(ck):
    from vcheck import gen_all
    res = gen_all.generate(['SimTables', 'LogicSimDispatch'])
    ck.obligation('translate sim.py LUT constants / kind_prefixes -> Gen/SimTables.v', res['SimTables'] is None, 'translation', res['SimTables'] or '')
    ck.obligation('translate LogicSim.c_prop / _prop_cpu dispatch -> Gen/LogicSimDispatch.v', res['LogicSimDispatch'] is None,
                  'translation', res['LogicSimDispatch'] or '')
    ck.trust('translators translate/gen_sim_tables.py (reads the loaded module) and translate/gen_dispatch.py (tracing symbolic '
             'execution of the real c_prop/_prop_cpu on a one-row op table); validated against the real functions below')
    return res['SimTables'] is None and res['LogicSimDispatch'] is None


def validate_dispatch(ck, paths):
    """Runs the real dispatch code for every opcode on random byte vectors (all lanes independent) and
    compares with the traced program evaluated bitwise.  paths: subset of gen_dispatch.PATHS names."""
    from kyupy import sim, logic_sim
    from translate import gen_dispatch
    rng = np.random.default_rng(ck.seed + 77)
    tb = gen_dispatch.tables(sim, logic_sim)
    bad = []
    for pname, m, cb in gen_dispatch.PATHS:
        if pname not in paths:
            continue
        mdim = {2: 1, 4: 2, 8: 3}[m]
        for name, (code, outs) in tb[pname]:
            lut = int(getattr(sim, name))
            nb = 16
            c = rng.integers(0, 256, size=(7, mdim, nb), dtype=np.uint8)
            c0 = c.copy()
            ops = np.array([[lut, 0, 1, 2, 3, 4, -1, 0, 0]], dtype='int32')
            locs = np.arange(7, dtype='int32')
            with contextlib.redirect_stdout(io.StringIO()):
                if m == 2 and not cb:
                    logic_sim._prop_cpu(ops, locs, c)
                else:
                    fs = gen_dispatch._FakeSim()
                    fs.m, fs.ops, fs.c_locs, fs.c = m, ops, locs, c
                    fs.tmp_idx, fs.tmp2_idx, fs.circuit, fs.s = 5, 6, gen_dispatch._FakeCircuit(), None
                    if cb:
                        logic_sim.LogicSim.c_prop(fs, lambda l, v: None)
                    else:
                        logic_sim.LogicSim.c_prop(fs)
            ins = [int.from_bytes(c0[1 + j, p].tobytes(), 'little') for j in range(4) for p in range(mdim)]
            mask = (1 << (8 * nb)) - 1
            env = list(ins)
            for cd in code:
                if cd[0] == 'IConst': env.append(mask if cd[1] == 'true' else 0)
                elif cd[0] == 'INot': env.append(env[cd[1]] ^ mask)
                elif cd[0] == 'IAnd': env.append(env[cd[1]] & env[cd[2]])
                elif cd[0] == 'IOr': env.append(env[cd[1]] | env[cd[2]])
                else: env.append(env[cd[1]] ^ env[cd[2]])
            got = [int.from_bytes(c[0, p].tobytes(), 'little') for p in range(mdim)]
            if got != [env[o] for o in outs]:
                bad.append(f'{pname}:{name}')
            ck.count(8 * nb, 'dispatch_validation_lanes')
    ck.obligation('traced dispatch programs agree with the real c_prop/_prop_cpu on random byte vectors (all 33 opcodes)',
                  not bad, 'correspondence', ', '.join(bad))
    return not bad


def gen_case(rng, nrng, values, **kw):
    """A random circuit with options and a stimulus matrix over `values`."""
    c, a = cg.gen_circuit(rng, **kw)
    sims = rng.choice([1, 3, 7, 8, 9, 17] * 4 + [63, 65, 130, 257])      # mostly small; some batches beyond 64 and 256 patterns (byte / word / block boundaries)
    slen = len(c.s_nodes)
    stim = np.array(values, dtype=np.uint8)[nrng.integers(0, len(values), size=(slen, sims))]
    return c, a, sims, stim


def circuit_fingerprint(c):
    return (len(c.nodes), len(c.lines), tuple(sorted(set(n.kind for n in c.nodes))))


def oracle_compare(c, m, stim, s1, mask, overrides=None):
    """Compares the implementation's captured values with the independent evaluator, per lane.
    Returns a list of (lane, position, expected, got)."""
    A = on.Alg2 if m == 2 else on.Alg8
    diffs = []
    for lane in range(stim.shape[1]):
        sv = stim[:, lane].tolist() if m != 2 else (stim[:, lane] == 3).astype(int).tolist()
        _, cap = on.evaluate(c, sv, A, overrides=overrides)
        for p, v in enumerate(cap):
            if v is None or not mask[p]:
                continue
            got = int(s1[p, lane]) if m != 2 else int(s1[p, lane] == 3)
            if m == 4:
                v = v & 3 if v < 4 else v
            if v != got:
                diffs.append((lane, p, int(v), got))
    return diffs


def safe(f, *a, **k):
    try:
        return f(*a, **k), None
    except Exception:
        return None, traceback.format_exc()


def single_gate_sweep(ck, m, rng, per_kind=None, inject_cb=None):
    """Directed stream: every gate kind of the generator as a one-gate circuit (inputs -> gate -> output), ALL value combinations of
    its operands in one bit-parallel simulation (sampled down to per_kind lanes if given), compared with the independent composition
    of the documented operators.  Finds the concrete operand tuple when a dispatch branch is wrong.  Returns [(desc, what)]."""
    import itertools
    from kyupy.circuit import Circuit, Node, Line
    from harness import logicsim_corr as lc
    values = {2: [0, 3], 4: [0, 1, 2, 3], 8: list(range(8))}[m]
    fails = []
    for kind, ar in cg.GATE_KINDS:
        c = Circuit('one')
        pis = [Node(c, f'i{k}', 'input') for k in range(ar)]
        g = Node(c, 'g', kind)
        o = Node(c, 'o', 'output')
        for n in pis + [o]:
            c.io_nodes.append(n)
        for k, pi in enumerate(pis):
            Line(c, pi, (g, k))
        Line(c, g, o)
        combos = list(itertools.product(values, repeat=ar))
        if per_kind is not None and len(combos) > per_kind:
            combos = rng.sample(combos, per_kind)
        stim = np.zeros((len(c.s_nodes), len(combos)), dtype=np.uint8)
        stim[:ar, :] = np.array(combos, dtype=np.uint8).T
        res, err = safe(lc.run_logicsim, c, m, stim, False, False, None, inject_cb)
        desc = {'circuit': cg.describe(c), 'm': m, 'c_reuse': False, 'strip_forks': False, 'kind': kind, 'cycles': 1, 'observer_callback': inject_cb is not None}
        ck.count(len(combos), f'single-gate sweep m={m}' + (' (callback path)' if inject_cb is not None else ''))
        if err is not None:
            fails.append((dict(desc, stimulus=stim[:, :1].tolist()), 'raises ' + err[-300:]))
            continue
        sim, s1, s0 = res
        diffs = oracle_compare(c, m, stim, s1, lc.ppo_mask(sim))
        if diffs:
            lane, p, exp, got = diffs[0]
            fails.append((dict(desc, stimulus=stim[:, lane:lane + 1].tolist()),
                          f'{kind} with operands {stim[:ar, lane].tolist()}: composition of the documented operators gives {exp}, simulator captured {got} '
                          f'({len(diffs)} of {len(combos)} operand tuples differ)'))
    return fails
