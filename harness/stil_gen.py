"""Scan designs + STIL pattern files with generator-owned ground truth (property C18).

The generator owns: the circuit (ports, flip-flops, latches, next-state logic), the scan chains (cell order
from scan-in to scan-out with '!' inversion markers), the signal groups and, per pattern, the *intended*
values: the state every scan cell shall hold after the load, the primary-input values of the launch and
capture cycles, the expected primary-output values and the state observed by the unload.  From that it
renders STIL text the way an ATPG tool writes it (load strings in shift order: first character = cell nearest
scan-out; every character inverted by the markers it passes) and computes what tests()/responses()/tests_loc()
have to return.  Everything is drawn from the random.Random passed in.
"""
from kyupy.circuit import Circuit, Node, Line

FF_UP = ['SDFFX1', 'SDFFARX1', 'SDFFX2_RVT', 'SDFFASX1']
FF_LOW = ['sdffx1', 'sdffarx1', 'Sdffx1']
FF_NOSCAN_UP = ['DFFX1', 'DFFARX1']
LATCH_KINDS = ['LATCHX1', 'latch', 'Latchx1']
GATES = [('AND2', 2), ('NAND2', 2), ('OR2', 2), ('NOR2', 2), ('XOR2', 2), ('XNOR2', 2), ('INVX1', 1), ('NBUFFX2', 1),
         ('and3', 3), ('NOR3', 3), ('MUX21X1', 3), ('AO21X1', 3)]


# ---- Kleene evaluation (generator's own).  Values '0' '1' 'X' and '-' (unassigned): a gate reads an
# unassigned operand as unknown; only wires and buffers hand it on unchanged. -----------------------------
def _x(a): return a if a in '01' else 'X'


def k_not(a): return {'0': '1', '1': '0'}.get(a, 'X')


def k_and(*a):
    a = [_x(v) for v in a]
    return '0' if '0' in a else ('X' if 'X' in a else '1')


def k_or(*a):
    a = [_x(v) for v in a]
    return '1' if '1' in a else ('X' if 'X' in a else '0')


def k_xor(a, b):
    a, b = _x(a), _x(b)
    return 'X' if 'X' in (a, b) else ('1' if a != b else '0')


def gate_fn(kind, v):
    k = kind.lower()
    if k.startswith('nand'): return k_not(k_and(*v))
    if k.startswith('nor'): return k_not(k_or(*v))
    if k.startswith('and'): return k_and(*v)
    if k.startswith('or'): return k_or(*v)
    if k.startswith('xnor'): return k_not(k_xor(*v))
    if k.startswith('xor'): return k_xor(*v)
    if k.startswith('inv'): return k_not(v[0])
    if k.startswith('nbuf'): return v[0]
    if k.startswith('mux21'): return k_or(k_and(v[0], k_not(v[2])), k_and(v[1], v[2]))
    if k.startswith('ao21'): return k_or(k_and(v[0], v[1]), v[2])
    raise ValueError(kind)


class Design:
    pass


def _names(rng, style, base, n):
    if style == 'bus':
        return [f'{base}[{i}]' for i in range(n)]
    if style == 'us':
        return [f'{base}_{i}' for i in range(n)]
    return [f'{base}{i}' for i in range(n)]


def gen_design(rng, profile='plain'):
    """profile: 'plain' (upper-case DFF kinds, no latch: also maps correctly on the pinned tree apart from the
    inversion defect) | 'mixed' (lower-case kinds and/or a latch: exercises the s_nodes interface order)."""
    d = Design()
    d.profile = profile
    d.name = rng.choice(['top', 'b15', 'core'])
    d.builder = 'bench' if rng.random() < 0.2 else 'api'    # bench: ports are forks, a cell is named after its output signal
    style = rng.choice(['us', 'plain']) if d.builder == 'bench' else rng.choice(['bus', 'us', 'plain'])
    n_pi = rng.randint(1, 5)
    n_po = rng.randint(1, 4)
    n_chain = rng.choice([1, 1, 2, 2, 3])
    n_scan = max(n_chain, rng.choice([1, 2, 3, 4, 5, 6, 8, 11]))
    d.data_pis = _names(rng, style, rng.choice(['a', 'Datai', 'din']), n_pi)
    d.clocks = ['CLOCK'] + (['RESET'] if rng.random() < 0.4 else [])
    d.ctrl = ['test_se'] if rng.random() < 0.7 else []
    d.si = [f'test_si{i}' for i in range(n_chain)]
    d.so = [f'test_so{i}' for i in range(n_chain)]
    d.data_pos = _names(rng, style, rng.choice(['z', 'Datao', 'dout']), n_po)
    d.inputs = d.data_pis + d.clocks + d.ctrl + d.si
    d.outputs = d.data_pos + d.so
    # state elements
    d.ffs = []
    # a third of the designs: hand-instantiated cells whose names END in the letters of the scan-in pin suffix '.SI' (S, I, SI, _SI) next to a
    # twin without that ending (synchroniser stages sync0 / sync0S): stripping the pin suffix must not touch the instance name
    hand = rng.random() < 0.33
    for i in range(n_scan):
        kind = rng.choice(FF_UP) if profile == 'plain' or rng.random() < 0.5 else rng.choice(FF_LOW)
        nm = f'state_reg_{i}_' if style != 'plain' else f'ff{i}'
        if hand:
            nm = [f'sync{i // 2}', f'sync{i // 2}S'][i % 2] if i < 4 else rng.choice([f'busy{i}_I', f'st{i}_STATUS', f'x{i}_SI', f'd{i}BUS', f'ff{i}'])
        d.ffs.append({'name': nm, 'kind': kind, 'scan': True})
    for i in range(rng.choice([0, 0, 1, 2])):
        kind = rng.choice(FF_NOSCAN_UP) if profile == 'plain' or rng.random() < 0.5 else 'dffx1'
        d.ffs.append({'name': f'ns_reg_{i}', 'kind': kind, 'scan': False})
    rng.shuffle(d.ffs)
    d.latches = []
    if profile == 'mixed' and rng.random() < 0.7:
        for i in range(rng.randint(1, 2)):
            d.latches.append({'name': f'lat{i}', 'kind': rng.choice(LATCH_KINDS)})
    # logic
    sigs = [('pi', n) for n in d.data_pis]
    for f in d.ffs:
        sigs.append(('q', f['name']))
        if rng.random() < 0.3 and d.builder == 'api':
            sigs.append(('qn', f['name']))
    for l in d.latches:
        sigs.append(('lq', l['name']))
    d.gates = []
    for g in range(rng.choice([1, 2, 4, 6, 10])):
        kind, ar = rng.choice(GATES)
        ins = [rng.choice(sigs) for _ in range(ar)]
        d.gates.append({'name': f'U{g}', 'kind': kind, 'ins': ins})
        sigs.append(('g', f'U{g}'))
    for f in d.ffs:
        f['d'] = rng.choice(sigs)
    for l in d.latches:
        l['d'] = rng.choice(sigs)
    gsigs = [s for s in sigs if s[0] == 'g']
    d.po_src = {n: rng.choice(gsigs if rng.random() < 0.8 else sigs) for n in d.data_pos}
    # chains: a random distribution of the scan cells, random order, random marker placement
    cells = [f['name'] for f in d.ffs if f['scan']]
    rng.shuffle(cells)
    cuts = sorted(rng.sample(range(1, len(cells)), n_chain - 1))   # every chain has at least one cell
    parts = [cells[a:b] for a, b in zip([0] + cuts, cuts + [len(cells)])]
    d.chains = []
    mstyle = rng.choice(['none', 'some', 'some', 'many'])
    for ci, part in enumerate(parts):
        items = []
        p = {'none': 0.0, 'some': 0.25, 'many': 0.6}[mstyle]
        for cname in part:
            while rng.random() < p:
                items.append('!')
            items.append(cname)
        while rng.random() < p:
            items.append('!')
        d.chains.append({'name': str(ci + 1), 'si': d.si[ci], 'so': d.so[ci], 'items': items})
    d.po_src.update({d.so[ci]: (('q', parts[ci][-1]) if parts[ci] else ('pi', d.data_pis[0])) for ci in range(n_chain)})
    # orders the code has to respect
    d.io_order = d.inputs + d.outputs
    if rng.random() < 0.6:
        rng.shuffle(d.io_order)
    d.node_order = [('ff', f['name']) for f in d.ffs] + [('latch', l['name']) for l in d.latches] + \
                   [('gate', g['name']) for g in d.gates] + [('port', n) for n in d.io_order]
    if rng.random() < 0.8:
        rng.shuffle(d.node_order)
    d.groups_pi = list(d.inputs)
    d.groups_po = list(d.outputs)
    rng.shuffle(d.groups_pi)   # TetraMAX sorts alphabetically; any order is legal
    rng.shuffle(d.groups_po)
    return d


def interface_names(d):
    """documented ordering (Circuit.s_nodes): ports in port-list order, flip-flops in node order, then latches"""
    return list(d.io_order) + [n for k, n in d.node_order if k == 'ff'] + [n for k, n in d.node_order if k == 'latch']


def bench_text(d):
    """the design in ISCAS89 bench syntax (statement order = node_order, port statements in io_order)"""
    lines = [('INPUT' if n in d.inputs else 'OUTPUT') + f'({n})' for n in d.io_order]
    kinds = {f['name']: (f['kind'], [f['d']]) for f in d.ffs}
    kinds.update({l['name']: (l['kind'], [l['d']]) for l in d.latches})
    kinds.update({g['name']: (g['kind'], g['ins']) for g in d.gates})
    for k, n in d.node_order:
        if k == 'port':
            if n in d.outputs:
                lines.append(f'{n} = BUFF({d.po_src[n][1]})')
        else:
            kind, ins = kinds[n]
            lines.append(f'{n} = {kind}(' + ', '.join(s[1] for s in ins) + ')')
    return '\n'.join(lines) + '\n'


def build_circuit(d):
    if d.builder == 'bench':
        from kyupy import bench
        return bench.parse(bench_text(d), name=d.name)
    c = Circuit(d.name)
    kinds = {f['name']: f['kind'] for f in d.ffs}
    kinds.update({l['name']: l['kind'] for l in d.latches})
    kinds.update({g['name']: g['kind'] for g in d.gates})
    nodes = {}
    for k, n in d.node_order:
        nodes[n] = Node(c, n, ('input' if n in d.inputs else 'output') if k == 'port' else kinds[n])
    for n in d.io_order:
        c.io_nodes.append(nodes[n])
    readers = {}
    for g in d.gates:
        for p, s in enumerate(g['ins']):
            readers.setdefault(s, []).append((nodes[g['name']], p))
    for f in d.ffs:
        readers.setdefault(f['d'], []).append((nodes[f['name']], 0))
        readers.setdefault(('pi', 'CLOCK'), []).append((nodes[f['name']], 1))
    for l in d.latches:
        readers.setdefault(l['d'], []).append((nodes[l['name']], 0))
        readers.setdefault(('pi', 'CLOCK'), []).append((nodes[l['name']], 1))
    for n, s in d.po_src.items():
        readers.setdefault(s, []).append((nodes[n], 0))
    nf = 0
    for s, rds in readers.items():
        drv = (nodes[s[1]], 1 if s[0] == 'qn' else 0)
        if len(rds) == 1:
            Line(c, drv, rds[0])
        else:
            fk = Node(c, f'net{nf}'); nf += 1
            Line(c, drv, fk)
            for r in rds:
                Line(c, fk, r)
    return c


def next_state(d, init):
    """init: {interface name: '0'|'1'|'X'|'-'|'P'} -> value at the data input of every state element (Kleene)"""
    x = lambda v: v if v in '01-' else 'X'
    val = {}
    for n in d.data_pis:
        val[('pi', n)] = x(init[n])
    for f in d.ffs:
        val[('q', f['name'])] = x(init[f['name']])
        val[('qn', f['name'])] = k_not(x(init[f['name']]))
    for l in d.latches:
        val[('lq', l['name'])] = x(init[l['name']])
    for g in d.gates:
        val[('g', g['name'])] = gate_fn(g['kind'], [val[s] for s in g['ins']])
    return {e['name']: val[e['d']] for e in d.ffs + d.latches}


# ---- pattern sets -----------------------------------------------------------------------------------
def gen_patterns(rng, d, style):
    """style 'sa': load_unload + capture; 'loc': launch/capture calls with and without clock pulses, mixed
    with capture-only patterns."""
    pats = []
    scan = [f['name'] for f in d.ffs if f['scan']]
    dens = rng.choice([0.1, 0.5, 0.9])
    for i in range(rng.choice([1, 2, 3, 5, 8])):
        p = {}
        p['state'] = {n: (rng.choice('01') if rng.random() < dens else rng.choice('--X' if rng.random() < 0.2 else '--')) for n in scan}
        def pi_vals(pulse):
            v = {}
            for n in d.inputs:
                if n in d.clocks:
                    v[n] = 'P' if (pulse and n == 'CLOCK') else '0'
                elif n in d.ctrl:
                    v[n] = '0'
                elif n in d.si:
                    v[n] = rng.choice('-0')
                else:
                    v[n] = rng.choice('01') if rng.random() < 0.7 else rng.choice('--X' if rng.random() < 0.15 else '-')
            return v
        if style == 'loc' and rng.random() < 0.75:
            p['call'] = rng.choice(['allclock', 'allclock', 'multiclock'])
            p['launch_pi'] = pi_vals(rng.random() < 0.8)
            p['capture_pi'] = pi_vals(rng.random() < 0.8)
        else:
            p['call'] = rng.choice(['multiclock', 'allclock', 'allclock_launch']) if rng.random() < 0.5 else 'multiclock'
            p['launch_pi'] = None
            p['capture_pi'] = pi_vals(rng.random() < 0.8)
        p['capture_po'] = {n: rng.choice('01X') if rng.random() < 0.6 else 'X' for n in d.outputs}
        p['unload'] = {n: rng.choice('01X') if rng.random() < 0.6 else 'X' for n in scan}
        pats.append(p)
    return pats


def _inv(ch, odd, table):
    if odd:
        ch = {'0': '1', '1': '0'}.get(ch, ch)
    return table[ch]


def shift_string(chain, values, table, side):
    """The string an ATPG tool writes for one chain.  Character j belongs to the (j+1)-th cell counted from
    scan-out; it is inverted by every '!' between scan-in and the cell (side='in': load data) or between the
    cell and scan-out (side='out': unload data)."""
    items = chain['items']
    out = []
    for idx in range(len(items) - 1, -1, -1):
        if items[idx] == '!':
            continue
        passed = items[:idx] if side == 'in' else items[idx + 1:]
        out.append(_inv(values[items[idx]], passed.count('!') % 2 == 1, table))
    return ''.join(out)


LOAD_TAB = {'0': '0', '1': '1', '-': 'N', 'X': 'X'}
UNLOAD_TAB = {'0': 'L', '1': 'H', 'X': 'X', '-': 'N'}
PI_TAB = {'0': '0', '1': '1', '-': 'N', 'X': 'X', 'P': 'P'}


def calls_of(d, pats):
    """the call sequence of the Pattern block as (name, [(parameter, value)])"""
    calls = []
    prev = None
    for p in pats:
        params = []
        if prev is not None:
            params += [(ch['so'], shift_string(ch, prev['unload'], UNLOAD_TAB, 'out')) for ch in d.chains]
        params += [(ch['si'], shift_string(ch, p['state'], LOAD_TAB, 'in')) for ch in d.chains]
        calls.append(('load_unload', params))
        cap = [('_pi', ''.join(PI_TAB[p['capture_pi'][n]] for n in d.groups_pi)),
               ('_po', ''.join(UNLOAD_TAB[p['capture_po'][n]] for n in d.groups_po))]
        if p['launch_pi'] is not None:
            calls.append((p['call'] + '_launch', [('_pi', ''.join(PI_TAB[p['launch_pi'][n]] for n in d.groups_pi))]))
            calls.append((p['call'] + '_capture', cap))
        else:
            calls.append((p['call'] + '_capture', cap))
        prev = p
    if prev is not None:
        calls.append(('load_unload', [(ch['so'], shift_string(ch, prev['unload'], UNLOAD_TAB, 'out')) for ch in d.chains]))
    return calls


def _wrap(rng, s, wrap):
    if not wrap or len(s) < 4:
        return s
    k = rng.randint(1, len(s) - 1)
    return s[:k] + '\n' + s[k:]


def default_groups(rng, d):
    groups = [('_pi', d.groups_pi, ''), ('_po', d.groups_po, ''), ('_in', d.inputs, ''), ('all_inputs', sorted(d.inputs), ''),
              ('_si', d.si, ' { ScanIn; }'), ('_so', d.so, ' { ScanOut; }'), ('_clk', d.clocks, ''), ('all_outputs', sorted(d.outputs), ''),
              ('all_ports', ['all_inputs', 'all_outputs'], '')]
    rng.shuffle(groups)
    return groups


def render_stil(rng, d, calls, chains=None, groups=None):
    """STIL text in the dialect of the TetraMAX files under /repo/tests."""
    q = lambda s: '"' + s + '"'
    wrap = rng.random() < 0.3
    chains = chains if chains is not None else d.chains
    out = ['STIL 1.0 { Design 2005; }', 'Header {', '   Title "  generated STIL output";', '   Date "Tue Sep 29 2026";',
           '   History {', '      Ann {*  Uncollapsed Stuck Fault Summary Report *}', '      Ann {* top_module_name = %s *}' % d.name, '   }', '}',
           'Signals {']
    for n in d.inputs:
        out.append(f'   {q(n)} In' + (' { ScanIn; }' if n in d.si else ';'))
    for n in d.outputs:
        out.append(f'   {q(n)} Out' + (' { ScanOut; }' if n in d.so else ';'))
    out.append('}')
    if groups is None:
        groups = default_groups(rng, d)
    out.append('SignalGroups {')
    for name, members, suffix in groups:
        body = ' + '.join(q(m) for m in members)
        if rng.random() < 0.3:
            body = body.replace(' + ', ' +\n   ', 1)
        out.append(f"   {q(name)} = '{body}'{suffix}" + (';' if not suffix else '') + f' // #signals={len(members)}')
    out.append('}')
    out += ['Timing {', '   WaveformTable "_default_WFT_" {', "      Period '100ns';", '      Waveforms {',
            '         "all_inputs" { 0 { \'0ns\' D; } }', '      }', '   }', '}']
    out.append('ScanStructures {')
    for ch in chains:
        n = sum(1 for x in ch['items'] if x != '!')
        stm = [f'      ScanLength {n};', f'      ScanIn {q(ch["si"])};', f'      ScanOut {q(ch["so"])};',
               f'      ScanInversion {ch["items"].count("!") % 2};', '      ScanMasterClock "CLOCK" ;']
        hier = rng.choice(['full', 'plain', 'mixed'])
        cells = ' '.join('!' if x == '!' else (q(f'{d.name}.{x}.SI') if hier == 'full' or (hier == 'mixed' and rng.random() < 0.5) else q(x))
                         for x in ch['items'])
        stm.insert(rng.randint(0, len(stm)), f'      ScanCells {cells} ;')
        out.append(f'   ScanChain {q(ch["name"])} {{')
        out += stm
        out.append('   }')
    out.append('}')
    out += ['PatternBurst "_burst_" {', '   PatList { "_pattern_" {', '   }', '}}', 'PatternExec {', '   PatternBurst "_burst_";', '}',
            'Procedures {', '   "multiclock_capture" {', '      W "_default_WFT_";', '      C { "all_inputs"=0N; "all_outputs"=X; }',
            '      V { "_pi"=# ; "_po"=# ; }', '   }', '   "load_unload" {', '      W "_default_WFT_";',
            '      Shift {          V { "_clk"=P0; "_si"=#; "_so"=#; }', '      }', '   }', '}',
            'MacroDefs {', '   "test_setup" {', '      W "_default_WFT_";', '      V { "CLOCK"=0; }', '   }', '}']
    out.append('Pattern "_pattern_" {')
    out.append('   W "_default_WFT_";')
    out.append('   "precondition all Signals": C { "_pi"=\\r%d 0 ; "_po"=\\r%d X ; }' % (len(d.inputs), len(d.outputs)))
    out.append('   Macro "test_setup";')
    out.append('   Ann {* chain_test *}')
    k = 0
    for name, params in calls:
        label = ''
        if name == 'load_unload':
            label = f'"pattern {k}": ' if rng.random() < 0.9 else ''
            k += 1
        elif rng.random() < 0.2:
            out.append('   Ann {* fast_sequential *}')
        out.append(f'   {label}Call {q(name)} {{ ')
        line = '      ' + ' '.join(f'{q(pn)}={_wrap(rng, pv, wrap)};' for pn, pv in params) + ' }'
        if rng.random() < 0.3 and len(params) > 1:
            line = '\n'.join('      ' + f'{q(pn)}={_wrap(rng, pv, wrap)};' for pn, pv in params) + ' }'
        out.append(line)
    out.append('}')
    out.append('')
    out.append('// Patterns reference %d V statements' % len(calls))
    return '\n'.join(out) + '\n'


# ---- expected arrays (documented meaning, computed from the intent) --------------------------------------
CODE = {'0': 0, 'X': 1, '-': 2, '1': 3, 'P': 4, 'R': 5, 'F': 6, 'N': 7}


def transition(i, f):
    """mv_transition as documented: from the initial value of i to the final value of f (pulses and transitions
    count with that value), any unknown -> X, both unassigned -> '-'"""
    if i == '-' and f == '-':
        return '-'
    if i in '-X' or f in '-X':
        return 'X'
    iv = {'0': 0, '1': 1, 'P': 0, 'R': 0, 'F': 1, 'N': 1}[i]
    fv = {'0': 0, '1': 1, 'P': 0, 'R': 1, 'F': 0, 'N': 1}[f]
    return {(0, 0): '0', (1, 1): '1', (0, 1): 'R', (1, 0): 'F'}[(iv, fv)]


def expected_arrays(names, scan, state_elems, pats, next_states):
    """(tests, responses, tests_loc) as lists of columns of characters over the interface names.
    scan: names of the scan cells; state_elems: all flip-flops and latches; next_states(list of init dicts) ->
    list of {state element: value at its data input}"""
    t, r, inits = [], [], []
    for p in pats:
        col = {n: '-' for n in names}
        col.update(p['state'])
        col.update(p['capture_pi'])
        t.append([col[n] for n in names])
        col = {n: '-' for n in names}
        col.update(p['capture_po'])
        col.update(p['unload'])
        r.append([col[n] for n in names])
        init = {n: '-' for n in names}
        init.update(p['state'])
        init.update(p['launch_pi'] if p['launch_pi'] is not None else p['capture_pi'])
        inits.append(init)
    l = []
    for p, init, nxt in zip(pats, inits, next_states(inits)):
        clocked = p['launch_pi'] is not None and 'P' in p['launch_pi'].values() and 'P' in p['capture_pi'].values()
        fin = {n: '-' for n in names}
        for e in state_elems:
            fin[e] = nxt[e]
        if not clocked:
            for n in scan:   # no launch clock: the loaded state stays (an unassigned cell reads as unknown)
                fin[n] = p['state'][n] if p['state'][n] in '01' else 'X'
        if 'P' in p['capture_pi'].values():
            fin.update(p['capture_pi'])
        l.append([transition(init[n], fin[n]) for n in names])
    return t, r, l


def expected(d, pats):
    return expected_arrays(interface_names(d), [f['name'] for f in d.ffs if f['scan']], [e['name'] for e in d.ffs + d.latches],
                           pats, lambda inits: [next_state(d, i) for i in inits])


# ---- edge stream: legal text, unusual content (no ground truth; the Coq model has to agree with the code) ---------
EDGE_KINDS = ['no-final-unload', 'wrong-length', 'missing-port-data', 'shared-scan-in', 'cell-twice', 'unknown-cell',
              'unknown-group-member', 'odd-characters', 'launch-without-capture', 'capture-without-pi', 'empty-chain',
              'missing-po-group', 'so-equals-si', 'double-capture', 'no-patterns']


def gen_edge(rng, d, pats):
    """returns (kind, calls, chains, groups) for render_stil"""
    kind = rng.choice(EDGE_KINDS)
    chains = [dict(ch, items=list(ch['items'])) for ch in d.chains]
    groups = default_groups(rng, d)
    if kind == 'cell-twice':
        ch = rng.choice(chains)
        cells = [x for x in ch['items'] if x != '!']
        ch['items'].insert(rng.randint(0, len(ch['items'])), rng.choice(cells))
    if kind == 'empty-chain':
        ch = rng.choice(chains)
        ch['items'] = ['!'] * rng.randint(0, 2)
    dd = Design()
    dd.__dict__.update(d.__dict__)
    dd.chains = chains
    calls = [(n, list(ps)) for n, ps in calls_of(dd, pats)]
    if kind == 'empty-chain':
        calls = [(n, [(k, v) for k, v in ps if v != '']) for n, ps in calls]
    if kind == 'no-final-unload':
        calls = calls[:-1]
    elif kind == 'wrong-length':
        for _ in range(rng.randint(1, 2)):
            i = rng.randrange(len(calls))
            if calls[i][1]:
                j = rng.randrange(len(calls[i][1]))
                k, v = calls[i][1][j]
                v = rng.choice([v[:1], v[:-1] or v, v + rng.choice('01NX'), v + v])
                calls[i][1][j] = (k, v)
    elif kind == 'missing-port-data':
        i = rng.randrange(len(calls))
        if len(calls[i][1]) > 1:
            del calls[i][1][rng.randrange(len(calls[i][1]))]
    elif kind == 'shared-scan-in' and len(chains) > 1:
        chains[1]['si'] = chains[0]['si']
    elif kind == 'so-equals-si' and len(chains) > 1:
        chains[1]['so'] = chains[0]['si']
    elif kind == 'unknown-cell':
        ch = rng.choice(chains)
        ch['items'].insert(rng.randint(0, len(ch['items'])), 'ghost_reg')
    elif kind == 'unknown-group-member':
        g = rng.choice(['_pi', '_po'])
        groups = [(n, (m + ['ghost'] if n == g else m), sfx) for n, m, sfx in groups]
    elif kind == 'odd-characters':
        for i in range(len(calls)):
            calls[i] = (calls[i][0], [(k, ''.join(rng.choice('lhzZxrRfFpnv^/\\10LHX-?') if rng.random() < 0.3 else ch for ch in v))
                                      for k, v in calls[i][1]])
    elif kind == 'launch-without-capture':
        i = rng.randrange(len(calls) + 1)
        calls.insert(i, ('allclock_launch', [('_pi', ''.join(rng.choice('01NP') for _ in d.groups_pi))]))
    elif kind == 'capture-without-pi':
        idx = [i for i, (n, _) in enumerate(calls) if n.endswith('_capture')]
        if idx:
            i = rng.choice(idx)
            calls[i] = (calls[i][0], [(k, v) for k, v in calls[i][1] if k != rng.choice(['_pi', '_po'])])
            if not calls[i][1]:
                calls[i] = (calls[i][0], [('_po', 'X' * len(d.groups_po))])
    elif kind == 'missing-po-group':
        groups = [(n, m, sfx) for n, m, sfx in groups if n != rng.choice(['_po', '_po', '_pi'])]
    elif kind == 'double-capture':
        idx = [i for i, (n, _) in enumerate(calls) if n.endswith('_capture')]
        if idx:
            i = rng.choice(idx)
            calls.insert(i, ('multiclock_capture', [('_pi', ''.join(rng.choice('01NP') for _ in d.groups_pi)), ('_po', 'X' * len(d.groups_po))]))
    elif kind == 'no-patterns':
        calls = calls[:1] if rng.random() < 0.5 else [c for c in calls if not c[0].endswith('_capture')]
    return kind, calls, chains, groups
