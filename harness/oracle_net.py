"""Independent gate-by-gate netlist evaluators (2-valued and 8-valued), written from the gate
names' meaning -- they share nothing with sim.py's LUTs, prefix table, scheduler or memory map.
Used only as the *oracle* that searches for / confirms concrete failing inputs."""
import sys

Z, X, U, O, P, R, F, N = range(8)


# ---- 8-valued algebra (documented semantics, logic.py docstring) ------------------------------------
def s_not(c):
    return X if c in (X, U) else c ^ 3


def s_and(cs):
    if Z in cs: return Z
    if any(c in (X, U) for c in cs): return X
    return (all(c & 1 for c in cs)) | (all(c & 2 for c in cs) << 1) | (any(c & 4 for c in cs) << 2)


def s_or(cs):
    if O in cs: return O
    if any(c in (X, U) for c in cs): return X
    return (any(c & 1 for c in cs)) | (any(c & 2 for c in cs) << 1) | (any(c & 4 for c in cs) << 2)


def s_xor(cs):
    if any(c in (X, U) for c in cs): return X
    return (sum(c & 1 for c in cs) & 1) | ((sum((c >> 1) & 1 for c in cs) & 1) << 1) | (any(c & 4 for c in cs) << 2)


class Alg2:
    zero = 0
    @staticmethod
    def NOT(a): return 1 - a
    @staticmethod
    def AND(xs): return int(all(xs))
    @staticmethod
    def OR(xs): return int(any(xs))
    @staticmethod
    def XOR(xs): return sum(xs) & 1
    @staticmethod
    def BUF(a): return a


class Alg8:
    zero = Z
    NOT = staticmethod(s_not)
    AND = staticmethod(s_and)
    OR = staticmethod(s_or)
    XOR = staticmethod(s_xor)
    @staticmethod
    def BUF(a): return a       # a plain wire


def family(kind):
    """(family, fixed arity or None) from a gate kind name."""
    k = kind.lower()
    for pre, fam in (('nand', 'nand'), ('nor', 'nor'), ('and', 'and'), ('or', 'or'), ('isolor', 'or2'), ('xnor', 'xnor'), ('xor', 'xor'),
                     ('not', 'inv'), ('inv', 'inv'), ('ibuf', 'inv'), ('__const1__', 'inv'), ('tieh', 'inv'),
                     ('buf', 'buf'), ('nbuf', 'buf'), ('delln', 'buf'), ('__const0__', 'buf'), ('tiel', 'buf'),
                     ('aoi211', 'aoi211'), ('oai211', 'oai211'), ('ao211', 'ao211'), ('oa211', 'oa211'),
                     ('aoi22', 'aoi22'), ('oai22', 'oai22'), ('ao22', 'ao22'), ('oa22', 'oa22'),
                     ('aoi21', 'aoi21'), ('oai21', 'oai21'), ('ao21', 'ao21'), ('oa21', 'oa21'), ('mux21', 'mux21')):
        if k.startswith(pre):
            return fam
    return None


def gate_fn(A, fam, ins):
    """ins: list of 4 values-or-None (None = unconnected pin)."""
    v = [A.zero if x is None else x for x in ins]
    a, b, c, d = v
    if fam in ('and', 'nand', 'or', 'nor', 'xor', 'xnor'):
        # arity = position of the highest connected pin, at least 2; lower unconnected pins read 0
        ar = 4 if ins[3] is not None else (3 if ins[2] is not None else 2)
        base = {'and': A.AND, 'nand': A.AND, 'or': A.OR, 'nor': A.OR, 'xor': A.XOR, 'xnor': A.XOR}[fam](v[:ar])
        return A.NOT(base) if fam in ('nand', 'nor', 'xnor') else base
    if fam == 'or2': return A.OR([a, b])
    if fam == 'inv': return A.NOT(a)
    if fam == 'buf': return A.BUF(a)
    if fam == 'ao21': return A.OR([A.AND([a, b]), c])
    if fam == 'aoi21': return A.NOT(A.OR([A.AND([a, b]), c]))
    if fam == 'oa21': return A.AND([A.OR([a, b]), c])
    if fam == 'oai21': return A.NOT(A.AND([A.OR([a, b]), c]))
    if fam == 'ao22': return A.OR([A.AND([a, b]), A.AND([c, d])])
    if fam == 'aoi22': return A.NOT(A.OR([A.AND([a, b]), A.AND([c, d])]))
    if fam == 'oa22': return A.AND([A.OR([a, b]), A.OR([c, d])])
    if fam == 'oai22': return A.NOT(A.AND([A.OR([a, b]), A.OR([c, d])]))
    if fam == 'ao211': return A.OR([A.AND([a, b]), c, d])
    if fam == 'aoi211': return A.NOT(A.OR([A.AND([a, b]), c, d]))
    if fam == 'oa211': return A.AND([A.OR([a, b]), c, d])
    if fam == 'oai211': return A.NOT(A.AND([A.OR([a, b]), c, d]))
    if fam == 'mux21': return A.OR([A.AND([a, A.NOT(c)]), A.AND([b, c])])
    raise ValueError(fam)


def is_seq(n):
    k = n.kind.lower()
    return 'dff' in k or 'latch' in k


def evaluate(c, stim, A=Alg2, overrides=None):
    """stim: value per s_node position (for ports that are pure outputs the entry is ignored).
    overrides: {line index: value} -- the line is *driven* with that value (fault injection semantics).
    Returns {line index: value} for every line reachable by evaluation and the captured value per
    s_node position (None where the s_node has no input line)."""
    sys.setrecursionlimit(max(10000, 50 * len(c.nodes)))
    s_nodes = c.s_nodes
    spos = {}
    for i, n in enumerate(s_nodes):
        spos[n.index] = i
    memo = {}
    io_idx = set(n.index for n in c.io_nodes if n is not None)
    overrides = overrides or {}

    def line_val(l):
        if l.index in memo:
            return memo[l.index]
        if l.index in overrides:
            memo[l.index] = overrides[l.index]
            return memo[l.index]
        n = l.driver
        port_wire = n.index in io_idx and len(n.ins) > 0 and n.ins[0] is not None and not is_seq(n)
        if port_wire:
            v = line_val(n.ins[0])        # a port that is driven from inside is a wire (bench-style outputs)
        elif n.index in spos:
            v = stim[spos[n.index]]
            if 'dff' in n.kind.lower() and l.driver_pin == 1:
                v = A.NOT(v)
            elif 'dff' in n.kind.lower() and l.driver_pin > 1:
                v = None   # no such output is driven by the simulator
        elif n.kind == '__fork__':
            v = line_val(n.ins[0]) if len(n.ins) > 0 and n.ins[0] is not None else A.zero
        else:
            fam = family(n.kind)
            ins = [(line_val(n.ins[k]) if k < len(n.ins) and n.ins[k] is not None else None) for k in range(4)]
            v = gate_fn(A, fam, ins) if (fam is not None and l.driver_pin == 0) else None
        memo[l.index] = v
        return v

    captured = []
    for n in s_nodes:
        if len(n.ins) > 0 and n.ins[0] is not None:
            captured.append(line_val(n.ins[0]))
        else:
            captured.append(None)
    for l in c.lines:
        line_val(l)
    return memo, captured


def has_loop_or_unknown(c):
    """True if the combinational part is cyclic or contains a kind the simulator does not know."""
    for n in c.nodes:
        if n.kind != '__fork__' and not is_seq(n) and n not in c.io_nodes and family(n.kind) is None:
            return True
    return len(list(c.topological_order())) != len(c.nodes)
