"""C18, source tie: Gen/StilMapsSrc.v (StilFile._maps translated from the current stil.py) is regenerated, and run against the real
StilFile._maps on the real StilFile / Circuit objects of the generated STIL files.

The rendering is generic: a Python value is written as the [pyv] literal of its own structure (None / int / str / tuple / list; a
str subclass such as lark's Token counts as the string it is); signal_groups / scan_chains must be dicts and are written item by
item in their own order; a node is written as its .name.  Nothing is interpreted.  A value outside that universe makes the case fail.
What the implementation returned is written the same way: names of the interface nodes, pi_map, po_map, list(scan_maps.items()),
list(scan_inversions.items()) with every array as the list of its numeric codes (a 0-d array as its code)."""
import numpy as np

HEADER = '''From Coq Require Import List ZArith Bool Arith String.
From KV Require Import Model.Corr Model.DefRouteSrcLib Model.StilMapsSrcLib Gen.StilMapsSrc.
Import ListNotations.
Local Open Scope list_scope.
Local Open Scope string_scope.
Local Open Scope Z_scope.
Definition mcase (s : stil_s) (c : circ_s) (e : option (pyv * pyv * pyv * pyv * pyv)) : bool := maps_src_case (StilFile__maps_src s c) e.
'''


class OutOfUniverse(Exception):
    pass


def translate(ck):
    """regenerate Gen/StilMapsSrc.v from the current text of stil.py (obligation: it translates)"""
    from vcheck import gen_all
    res = gen_all.generate(['StilMapsSrc'])
    ck.obligation('translate stil.StilFile._maps -> Gen/StilMapsSrc.v', res['StilMapsSrc'] is None, 'translation', res['StilMapsSrc'] or '')
    ck.trust('translator translate/gen_stil_maps.py (fail-closed Python-ast translation of StilFile._maps onto Python values; vocabulary '
             'Model/DefRouteSrcLib.v + Model/StilMapsSrcLib.v: every raising operation option-valued and bound in evaluation order (KeyError of a '
             'dict lookup, IndexError of chain[0] / chain[-1]), a for loop / comprehension / dict(generator) = a structural scan of the list '
             'iterated, dicts = insertion-ordered association lists, a local only ever assigned False / True / `not b` is a bool, a list stored '
             'into a dict is never mutated afterwards (checked), no truthiness; logic.mvarray(list of bools) is an UNINTERPRETED constructor '
             'whose meaning is the hand model\'s mv_of_bools; c.s_nodes is an input (tied by C17 / C18_interface_is_s_nodes)); its output is '
             'additionally run against the real _maps on every generated STIL file x circuit')
    return res['StilMapsSrc'] is None


def pyv(x):
    if x is None:
        return 'PNone'
    if type(x) is int:
        return f'(PInt ({x}))'
    if isinstance(x, str):
        s = str(x)
        if not all(32 <= ord(c) < 127 and c != '"' for c in s):
            raise OutOfUniverse(repr(s))
        return f'(PStr "{s}")'
    if type(x) is tuple:
        return '(PTup [' + '; '.join(pyv(v) for v in x) + '])'
    if type(x) is list:
        return '(PList [' + '; '.join(pyv(v) for v in x) + '])'
    raise OutOfUniverse(f'{type(x).__name__}: {x!r}'[:80])


def pyd(d):
    if type(d) is not dict:
        raise OutOfUniverse(f'{type(d).__name__} where a dict is expected')
    return '[' + '; '.join(f'({pyv(k)}, {pyv(v)})' for k, v in d.items()) + ']'


def codes(a):
    a = np.asarray(a)
    if a.ndim == 0:
        return int(a)
    if a.ndim != 1:
        raise OutOfUniverse('array of rank > 1')
    return [int(x) for x in a]


def case(s, c):
    """one StilFile x Circuit: the translated source on the objects as they are vs. what s._maps(c) returns (None = it raises)"""
    try:
        self_s = f'(mkStilS {pyd(s.signal_groups)} {pyd(s.scan_chains)})'
        circ_s = '(mkCircS [' + '; '.join(f'mkNodeS {pyv(n.name)}' for n in c.s_nodes) + '])'
        try:
            r = s._maps(c)
        except Exception:                                      # noqa
            return f'mcase {self_s} {circ_s} None'
        if type(r) is not tuple or len(r) != 5:
            return 'false'
        interface, pi_map, po_map, scan_maps, scan_inv = r
        exp = ', '.join([pyv([n.name for n in interface]), pyv(pi_map), pyv(po_map), pyv([(k, v) for k, v in scan_maps.items()]),
                         pyv([(k, codes(v)) for k, v in scan_inv.items()])])
        return f'mcase {self_s} {circ_s} (Some ({exp}))'
    except (OutOfUniverse, AttributeError, TypeError, ValueError):
        return 'false'


def cases_file(cases):
    return HEADER + 'Definition results : list bool := [\n ' + ';\n '.join(cases) + '].\nEval vm_compute in (failing results).\n'
