"""C10: the netlist VIEW and the s_nodes of the edit model = what the real kyupy Circuit shows.

Edit histories (the op vocabulary, the id tracking and the well-formed-use oracle of harness/circuit_edit.py) are run on
real Circuit objects; after observed steps the live circuit is rendered with harness/circgen.coq_netlist -- exactly the
literal the simulation checks (C01/C07/C17) feed to their models -- together with [n.name for n in c.s_nodes] and
[n.index for n in c.s_nodes].  Model/CircuitViewCorr.v replays the same ops on Model/Circuit.v and compares
view / s_names / Netlist.s_nodes(view) (and re-checks cinv_b, io_ok_b and the closed form of s_node_ids).

Three families of histories:
  * 'edit'     random well-formed histories (circuit_edit.propose) with extra eliminate / copy / pickle steps, every step observed
  * 'netlist'  a random gate-level circuit of harness/circgen (optionally with permuted creation order: forks before cells,
               a state element last), replayed as Node / Line / io_nodes ops, followed by 1-4 eliminate / copy / pickle steps
  * 'witness'  the fixed histories of the Coq witness theorems (C10_eliminate_state_order_refuted, C10_copy_view_not_equal,
               C10_eliminate_driverless_fork_kept)
"""
import re

from harness import circgen as cg
from harness import circuit_edit as ce

FORK = ce.FORK

HEADER = '''From Coq Require Import List Arith Bool String.
From KV Require Import Model.Circuit Model.CircuitInv Model.CircuitCorr Model.CircuitView Model.CircuitViewCorr Model.Netlist.
Import ListNotations.
Local Open Scope string_scope.
Local Open Scope list_scope.
'''

# the histories of the witness theorems in Proofs/CircuitElimSem.v / Proofs/CircuitViewProofs.v (must stay in sync; the
# expected s_names below are the ones the theorems state)
ORDER_HISTORY = [['node', 'i', 'input'], ['node', 'f', FORK], ['node', 'd1', 'DFF'], ['node', 'o', 'output'], ['node', 'f2', FORK],
                 ['node', 'd2', 'DFF'], ['line', 0, None, 1, None], ['line', 1, None, 2, None], ['line', 2, None, 4, None],
                 ['line', 4, None, 5, None], ['line', 5, None, 3, None], ['io', 0, 0], ['io', 1, 3]]
ORDER_BEFORE, ORDER_AFTER = ['i', 'o', 'd1', 'd2'], ['i', 'o', 'd2', 'd1']
TRAILING_NONE_HISTORY = [['node', 'a', 'AND2'], ['node', 'b', 'OR2'], ['line', 0, 1, 1, 0], ['line', 0, 0, 1, 1], ['rmline', 0]]
STUB_HISTORY = ce.STUB_HISTORY          # C10_eliminate_driverless_fork_kept (Proofs/CircuitElimOrder.v stub_history)


def state_first(c):
    """every flip-flop / latch precedes, in Circuit.nodes, every fork eliminate_1to1_forks would remove (hypothesis of
    C10_eliminate_order_kept; `n in set(io_nodes)` compares by (name, kind) exactly as the loop does)"""
    ios = set(c.io_nodes)
    last_state = max([n.index for n in c.nodes if 'dff' in n.kind.lower() or 'latch' in n.kind.lower()], default=-1)
    first_rem = min([n.index for n in c.nodes if n.kind == FORK and n not in ios and len(n.outs) == 1], default=len(c.nodes))
    return last_state < first_rem


def observe(c):
    """(netlist literal, s_node names, s_node indices, state_first) of the live circuit, or None if it cannot be rendered
    (gap in io_nodes)"""
    try:
        s = c.s_nodes
        return cg.coq_netlist(c), [n.name for n in s], [n.index for n in s], state_first(c)
    except AttributeError:
        return None


def ops_of_circuit(c):
    """the circuit as a list of edit ops: nodes and lines in list order with explicit pins, io_nodes in order"""
    ops = [['node', n.name, n.kind] for n in c.nodes]
    ops += [['line', l.driver.index, l.driver_pin, l.reader.index, l.reader_pin] for l in c.lines]
    ops += [['io', i, n.index] for i, n in enumerate(c.io_nodes)]
    return ops


def run_view_history(rng, n_ops, fixed_ops=None, observe_from=0, boost=0.22, n_force=0):
    """Runs a history on a real Circuit.  Returns dict(steps=[(op, observation|None)], failure=None|str).
    The first n_force fixed ops are construction steps applied as they are (the lines of a permuted netlist fill the pins
    of a fork out of order, which is outside C09's well-formed use until the last gap is filled); every other op is
    applied only if the well-formed-use oracle accepts it."""
    tr = ce.Tracker()
    steps, failure = [], None
    with ce.tracking(tr):
        S = ce.Session(tr)
        counter = [0]
        tries = 0
        fixed = list(fixed_ops) if fixed_ops is not None else None
        while (fixed if fixed is not None else (len(steps) < n_ops and tries < 8 * n_ops)):
            tries += 1
            if fixed is not None:
                op = fixed.pop(0)
            elif rng.random() < boost:
                op = [rng.choice(['elim', 'elim', 'copy', 'pickle'])]
            else:
                op = ce.propose(rng, S, 'valid', counter)
            if len(steps) >= n_force and not ce.pre_ok(S, op):
                continue
            try:
                ce.apply(S, op)
            except RecursionError:
                raise
            except Exception as e:
                failure = f'{ce.describe(op)} raised {type(e).__name__}: {e}'
                break
            steps.append((op, observe(S.c) if len(steps) >= observe_from else None))
        tr.on = False
    return {'steps': steps, 'failure': failure}


def netlist_history(rng):
    """random gate-level circuit -> ops, then 1..4 of eliminate / copy / pickle; observed from the last construction step on"""
    c, _ = cg.gen_circuit(rng, allow_dangling=False, permute=rng.random() < 0.6, n_gates=rng.choice([1, 2, 3, 5, 8, 12, 20]))
    ops = ops_of_circuit(c)
    tail = [[rng.choice(['elim', 'elim', 'copy', 'pickle'])] for _ in range(rng.randint(1, 4))]
    h = run_view_history(rng, 0, fixed_ops=ops + tail, observe_from=len(ops) - 1, n_force=len(ops))
    h['style'] = 'netlist'
    h['built'] = len(ops)
    return h


def order_kept_oracle(hs):
    """C10_eliminate_order_kept tested on the implementation: an eliminate step from a state in which every state element
    precedes every removable fork must leave [n.name for n in s_nodes] unchanged.  Returns (number of such steps that removed
    at least one node, total, failures)."""
    n, n_removed, bad = 0, 0, []
    for hi, h in enumerate(hs):
        st = h['steps']
        for k in range(1, len(st)):
            if st[k][0][0] == 'elim' and st[k][1] is not None and st[k - 1][1] is not None and st[k - 1][1][3]:
                n += 1
                n_removed += st[k][1][0] != st[k - 1][1][0]
                if st[k][1][1] != st[k - 1][1][1]:
                    bad.append((hi, k, st[k - 1][1][1], st[k][1][1]))
    return n_removed, n, bad


def witness_histories(rng):
    out = []
    for name, ops in (('order', ORDER_HISTORY + [['elim']]), ('trailing-none', TRAILING_NONE_HISTORY + [['copy']]),
                      ('stub', STUB_HISTORY + [['elim'], ['elim']])):
        h = run_view_history(rng, 0, fixed_ops=ops)
        h['style'] = 'witness:' + name
        out.append(h)
    return out


def witness_check(hs):
    """the implementation shows what the witness theorems state: (ok, detail)"""
    msgs = []
    for h in hs:
        st = h['steps']
        if h['failure']:
            msgs.append(f"{h['style']}: {h['failure']}")
            continue
        if h['style'] == 'witness:order':
            if len(st) != len(ORDER_HISTORY) + 1 or st[-2][1] is None or st[-1][1] is None:
                msgs.append('order witness: history did not run to the end')
            elif st[-2][1][1] != ORDER_BEFORE or st[-1][1][1] != ORDER_AFTER:
                msgs.append(f'order witness: s_nodes names {st[-2][1][1]} -> {st[-1][1][1]}, theorem states {ORDER_BEFORE} -> {ORDER_AFTER}')
        elif h['style'] == 'witness:stub':
            # the forks s (ins = []) and t (ins = [None]) have one reader and no driver: the call does not raise, removes f and w only
            if len(st) != len(STUB_HISTORY) + 2 or any(x[1] is None for x in st[-3:]):
                msgs.append('driverless-fork witness: history did not run to the end (eliminate_1to1_forks raised or was not well-formed use)')
            elif not (st[-3][1][1] == st[-2][1][1] == st[-1][1][1] == ['i', 'o']) or st[-2][1][0] != st[-1][1][0] \
                    or st[-3][1][0].count('"__fork__"') != 4 or st[-2][1][0].count('"__fork__"') != 2:
                msgs.append('driverless-fork witness: the theorem states that f and w are removed, s and t are kept and s_nodes is unchanged')
        else:
            if len(st) != len(TRAILING_NONE_HISTORY) + 1:
                msgs.append('trailing-none witness: history did not run to the end')
            elif 'n_outs := [Some 0; None]' not in st[-2][1][0] or 'n_outs := [Some 0; None]' in st[-1][1][0]:
                msgs.append('trailing-none witness: the pin lists are not [Some 0; None] before / [Some 0] after copy()')
    return not msgs, '; '.join(msgs)


# ---- rendering ---------------------------------------------------------------------------------------------------------
def coq_vstep(q, op, obs):
    if obs is None:
        return f'VS ({ce.coq_op(q, op)}) VSkip'
    nl, names, sidx, sf = obs
    return (f'VS ({ce.coq_op(q, op)}) (VE {nl} {cg.coq_list(names, cg.coq_string)} {cg.coq_list(sidx)} {"true" if sf else "false"})')


def cases_file(histories):
    """histories: list of step lists [(op, obs)]; prints [(case, step); ...] of disagreeing cases"""
    q = ce.Strings()
    cases = ['(vhist_case [' + ';\n  '.join(coq_vstep(q, op, obs) for op, obs in st) + '])' for st in histories]
    body = '[' + ';\n '.join(cases) + ']'
    return (HEADER + q.defs() + f'Definition results : list (option nat) := {body}.\n'
            'Eval vm_compute in (failing_cases 0 results).\n')


def debug_file(steps, k):
    q = ce.Strings()
    items = '; '.join(f'VS ({ce.coq_op(q, op)}) VSkip' for op, _ in steps[:k + 1])
    return HEADER + q.defs() + f'Eval vm_compute in (option_map vobserve (vstate_after empty [{items}] {k + 1})).\n'


parse_pairs = ce.parse_pairs


def chunks(histories, n_chunks):
    order = sorted(range(len(histories)), key=lambda i: -sum(len(s[1][0]) if s[1] else 40 for s in histories[i]['steps']))
    bins = [[] for _ in range(max(1, min(n_chunks, len(histories))))]
    load = [0] * len(bins)
    for i in order:
        b = load.index(min(load))
        bins[b].append(i)
        load[b] += sum(len(s[1][0]) if s[1] else 40 for s in histories[i]['steps']) + 100
    return [b for b in bins if b]
