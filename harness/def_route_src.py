"""C20, source tie: Gen/DefRouteSrc.v (DefWire.wire_points / vias, DefNet.wires / vias translated from the current def_file.py)
is regenerated, and run against the real properties on the real DefWire / DefNet objects.

The rendering is generic: a Python value is written as the [pyv] literal of its own structure (None / int / str / tuple / list);
nothing is interpreted.  A value outside that universe (bool, float, dict, Token ...) makes the case fail."""

HEADER = '''From Coq Require Import List ZArith Bool Arith String.
From KV Require Import Model.Corr Model.DefRouteSrcLib Gen.DefRouteSrc.
Import ListNotations.
Local Open Scope list_scope.
Local Open Scope string_scope.
Local Open Scope Z_scope.
Definition wcase := defwire_src_case DefWire_wire_points_src DefWire_vias_src.
Definition ncase := defnet_src_case DefNet_wires_src DefNet_vias_src.
Definition raises {A} (o : option A) : bool := match o with None => true | Some _ => false end.
'''


class OutOfUniverse(Exception):
    pass


def translate(ck):
    """regenerate Gen/DefRouteSrc.v from the current text of def_file.py (obligation: it translates)"""
    from vcheck import gen_all
    res = gen_all.generate(['DefRouteSrc'])
    ck.obligation('translate def_file.DefWire.wire_points / .vias, DefNet.wires / .vias -> Gen/DefRouteSrc.v', res['DefRouteSrc'] is None,
                  'translation', res['DefRouteSrc'] or '')
    ck.trust('translator translate/gen_def_route.py (fail-closed Python-ast translation of the four data-extraction properties of '
             'def_file.py onto Python values; vocabulary Model/DefRouteSrcLib.v: None / int / str / tuple / list, every raising operation '
             'option-valued and bound in evaluation order, conditional expressions lazy, a for loop / comprehension statement = a structural '
             'scan of the list iterated, defaultdict(list) = insertion-ordered association list, a local list / dict that is mutated has no '
             'second name (checked), truthiness only as `e or CONSTANT` with Python\'s rule for the value e); its output is additionally run '
             'against the real properties on every generated net')
    return res['DefRouteSrc'] is None


def cstr(s):
    if not all(32 <= ord(c) < 127 and c != '"' for c in s):
        raise OutOfUniverse(repr(s))
    return f'(PStr "{s}")'


def pyv(x):
    if x is None:
        return 'PNone'
    if type(x) is int:
        return f'(PInt ({x}))'
    if type(x) is str:
        return cstr(x)
    if type(x) is tuple:
        return '(PTup [' + '; '.join(pyv(v) for v in x) + '])'
    if type(x) is list:
        return '(PList [' + '; '.join(pyv(v) for v in x) + '])'
    raise OutOfUniverse(f'{type(x).__name__}: {x!r}'[:80])


def coq_dwire(w):
    return f'(mkDWs {pyv(w.layer)} {pyv(w.width)} {pyv(w.points)})'


def _call(f):
    """('ok', value) | ('raises', type name)"""
    try:
        return 'ok', f()
    except Exception as e:                                     # noqa
        return 'raises', type(e).__name__


def wire_case(w):
    """one DefWire object: .wire_points and list(.vias.items()) of the implementation vs. the translated source"""
    try:
        dw = coq_dwire(w)
        k1, pts = _call(lambda: w.wire_points)
        k2, vias = _call(lambda: list(w.vias.items()))
        if k1 == 'ok' and k2 == 'ok':
            return f'wcase {dw} {pyv(pts)} {pyv(vias)}'
        parts = [f'opt_pyv_eqb (DefWire_wire_points_src {dw}) {pyv(pts)}' if k1 == 'ok' else f'raises (DefWire_wire_points_src {dw})',
                 f'pydd_eqb (DefWire_vias_src {dw}) {pyv(vias)}' if k2 == 'ok' else f'raises (DefWire_vias_src {dw})']
        return '(' + ' && '.join(parts) + ')'
    except OutOfUniverse:
        return 'false'


def net_case(n):
    """one DefNet object (its routed list): list(.wires.items()) / list(.vias.items())"""
    try:
        routed = getattr(n, 'routed')
        if type(routed) is not list:
            return 'false'
        dn = '(mkDNs [' + '; '.join(coq_dwire(w) for w in routed) + '])'
        k1, ww = _call(lambda: list(n.wires.items()))
        k2, vv = _call(lambda: list(n.vias.items()))
        if k1 == 'ok' and k2 == 'ok':
            return f'ncase {dn} {pyv(ww)} {pyv(vv)}'
        parts = [f'pydd_eqb (DefNet_wires_src {dn}) {pyv(ww)}' if k1 == 'ok' else f'raises (DefNet_wires_src {dn})',
                 f'pydd_eqb (DefNet_vias_src {dn}) {pyv(vv)}' if k2 == 'ok' else f'raises (DefNet_vias_src {dn})']
        return '(' + ' && '.join(parts) + ')'
    except (OutOfUniverse, AttributeError):
        return 'false'


def cases_file(cases):
    return HEADER + 'Definition results : list bool := [\n ' + ';\n '.join(cases) + '].\nEval vm_compute in (failing results).\n'
