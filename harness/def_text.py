"""TEXT-level correspondence for def_file.GRAMMAR (C20): Model/DefText.v parse_def against the real lark parser.

* lark's tables: accept sets of the LALR states entered by a terminal and the scanners the contextual lexer builds for
  them (terminal order, keywords scanned for, strings embedded in ID) -- compared with what Model/DefText.v derives from
  an accept set, and with the accept sets its parser names.
* texts: rendered DEF files (harness/defgen.py), the same with blanks between tokens removed, character- and token-level
  mutations that usually leave the language, and the probes that determined the model; for every text the tree lark
  builds (or None when it raises) is compared with parse_def, and def_file.parse as a whole with def_of_text.

Domain of the model: code points < 256 (one Coq ascii per code point); evaluated on every generated text (in_domain)."""
import re
from lark.lexer import PatternStr, PatternRE
from harness import defgen as dg, def_elab as de

cstr, cl, copt = de.cstr, de.cl, de.copt


def in_domain(text):
    return all(ord(c) < 256 for c in text)


# ---- lark's tables ----------------------------------------------------------------------------------------------------
REGEX_TERMS = {'ID': 'TmId', 'NUMBER': 'TmNumber', 'SIGNED_NUMBER': 'TmSigned', 'STRING': 'TmString', 'ORIENTATION': 'TmOrient'}
ORDER_NAME = {'ID': 'ID', 'NUMBER': 'NUMBER', 'SIGNED_NUMBER': 'SIGNED_NUMBER', 'STRING': 'STRING', 'ORIENTATION': 'ORIENTATION'}


def term_model(t):
    """lark TerminalDef -> list of model terms (Coq) | [] for the ignore terminal"""
    if t.name in REGEX_TERMS:
        return [REGEX_TERMS[t.name]]
    if t.name.startswith('__IGNORE'):
        return []
    v = t.pattern.value
    if isinstance(t.pattern, PatternStr):
        return [f'TmS {cstr(v)}']
    assert isinstance(t.pattern, PatternRE)
    if v == '#[^\n]*': return ['TmComment']
    if v == '[XY]': return ['TmR "X"', 'TmR "Y"']
    if v == r'\*': return ['TmR "*"']
    assert re.fullmatch(r'[A-Z]+', v), v
    return [f'TmR {cstr(v)}']


def kw_texts(t):
    v = t.pattern.value
    if isinstance(t.pattern, PatternStr): return [v]
    if v == '[XY]': return ['X', 'Y']
    if v == r'\*': return ['*']
    return [v]


def table_cases():
    """-> (cases, descriptions, python-side failures)"""
    L = de.plain_parser()
    cl_ = L.parser.lexer
    table = L.parser.parser.parser.parse_table
    tn = {t.name: t for t in L.terminals}
    entered = {table.start_states['start']}
    for st, acts in table.states.items():
        for tok, (action, arg) in acts.items():
            if tok in tn and str(action) == 'Shift':
                entered.add(arg)
    cases, descs, fails = [], [], []
    accsets = {}
    for st in sorted(entered):
        names = tuple(sorted(k for k in table.states[st] if k in tn))
        accsets.setdefault(names, st)
    sets_coq = cl(accsets, lambda names: cl([m for n in names for m in term_model(tn[n])]))
    cases.append(f'accsets_case {sets_coq}')
    descs.append({'kind': 'accept sets', 'n': len(accsets)})
    for names, st in accsets.items():
        lexer = cl_.lexers[st]
        sc = lexer.scanner
        order, kws, seen_kw = [], [], False
        for t in sc.terminals:
            if t.name.startswith('__IGNORE'):
                continue
            if t.name in ORDER_NAME or t.pattern.value == '#[^\n]*':
                if seen_kw:
                    fails.append(f'scanner of state {st}: regular-expression terminal {t.name} after a keyword')
                order.append(ORDER_NAME.get(t.name, 'COMMENT'))
            else:
                seen_kw = True
                kws.append(t)
        lens = [len(k.pattern.value) if isinstance(k.pattern, PatternStr) else k.pattern.max_width for k in kws]
        if lens != sorted(lens, reverse=True):
            fails.append(f'scanner of state {st}: keywords not longest first: {[k.name for k in kws]}')
        emb = []
        for rname, cb in lexer.callback.items():
            if rname != 'ID':
                fails.append(f'scanner of state {st}: strings embedded in {rname}')
            emb += [t.pattern.value for t in cb.scanner.terminals]
        acc = cl([m for n in names for m in term_model(tn[n])])
        cases.append(f'scanner_case {acc} {cl(order, cstr)} {cl([x for k in kws for x in kw_texts(k)], cstr)} {cl(emb, cstr)}')
        descs.append({'kind': 'scanner', 'accepts': list(names)})
    return cases, descs, fails


# ---- texts ------------------------------------------------------------------------------------------------------------
def small_gt(rng):
    """a design with at most two statements per section, so that a mutation late in the text is still reached"""
    gt = dg.gen_def(rng, rng.choice(['typical', 'wildcards', 'arrays', 'via-only', 'multi-routed', 'shuffled', 'unrouted']))
    for k in ('rows', 'tracks', 'vias', 'components', 'pins', 'specialnets', 'nets'):
        if len(gt[k]) > 2:
            keep = sorted(rng.sample(range(len(gt[k])), rng.choice([1, 2])))
            gt[k] = [gt[k][i] for i in keep]
    for sec in ('specialnets', 'nets'):
        for n in gt[sec]:
            for it in n['items']:
                if it[0] == 'wiring':
                    it[2][:] = it[2][:2]
                    for w in it[2]:
                        w['elems'][:] = w['elems'][:4] or w['elems']
    return gt


NUM_MUT = ['007', '1.5', '1e3', '.5', '5.', '+3', '-3', '1e', '12abc', '0', '1E+2', '3.e1', '1.2.3', '--1', '+', '9' * 40]
ID_MUT = ['NEW', 'DO', '(', ';', 'N', 'FS', 'END', '+x', '#x', 'a;b', '"q"', '*', 'x(', ')', 'W', 'FE', 'F', 'NE', 'BY', 'STEP', 'caf\xe9', 'a#b',
          'TAPER', 'STYLE', 'ROUTED', '-', 'x+y', 'N;', 'E)']
KW_MUT = {'END': ['ENDX', 'EN', 'end', 'END;'], 'ROW': ['ROWS', 'RO'], 'TAPERRULE': ['TAPERRULEx', 'TAPERRUL'], 'TAPER': ['TAPERx', 'TAPE'],
          'NETS': ['NET', 'NETSS'], 'PINS': ['PIN', 'PINSS'], 'VIAS': ['VIA'], 'DESIGN': ['DESIGNS', 'DESIG'], 'NEW': ['NEWS', 'NE', 'new'],
          'DO': ['DOO', 'D'], 'STEP': ['STEPS'], 'LAYER': ['LAYERS'], 'ROUTED': ['ROUTE', 'ROUTEDX'], 'USE': ['USES', 'US'], 'PLACED': ['PLACE'],
          'COMPONENTS': ['COMPONENT'], 'SPECIALNETS': ['SPECIALNET', 'SPECIAL']}
SEPS = ['', '', ' #c\n', '\r\n', '\x0b', '\x00', '\n#x', '  ', '\t', '\f', ' # ;\n ', '#', ' #']
STR_MUT = ['"a\\"b"', '"a\\\\"', '"unterminated', '""', '"a\nb"', '"x" "y"', '"\\\\\\" ; "', 'noquote', '"a\\\\\\\\" ;"']
CHARS = '();+-*#"\\ \n\tNFSEW0.e;X\r\x0c'


def flat_tokens(gt):
    return [tk for st in dg.tokens(gt) for tk in st]


def join(toks, rng, p_glue=0.0, seps=None):
    out = []
    if gt_comment(rng):
        out.append('# leading comment\n')
    for i, tk in enumerate(toks):
        out.append(tk)
        if rng.random() < p_glue:
            continue
        if seps is not None and rng.random() < 0.06:
            out.append(rng.choice(seps))
        else:
            out.append(rng.choice([' ', ' ', ' ', '\n', '  ', '\t']))
    return ''.join(out)


def gt_comment(rng):
    return rng.random() < 0.1


def mutate_tokens(toks, rng):
    toks = list(toks)
    for _ in range(rng.choice([1, 1, 2])):
        if not toks:
            break
        i = rng.randrange(len(toks))
        tk = toks[i]
        r = rng.random()
        if re.fullmatch(r'[+-]?\d+', tk) and r < 0.8:
            toks[i] = rng.choice(NUM_MUT)
        elif tk in KW_MUT and r < 0.7:
            toks[i] = rng.choice(KW_MUT[tk])
        elif tk.startswith('"') and r < 0.8:
            toks[i] = rng.choice(STR_MUT)
        elif r < 0.35:
            toks[i] = rng.choice(ID_MUT)
        elif r < 0.5:
            del toks[i]
        elif r < 0.62:
            toks.insert(i, tk)
        elif r < 0.74 and i + 1 < len(toks):
            toks[i], toks[i + 1] = toks[i + 1], toks[i]
        elif r < 0.85:
            toks.insert(i, rng.choice(['+', ';', '(', ')', '-', 'NEW', 'END', '*', 'N', 'DO', '0', 'x', '( 1 2 )', '+ USE x', 'via1 N', '( u1 Z )']))
        else:
            toks[i] = tk + rng.choice([';', ')', '(', '+', '#', 'x', '1', '"'])
    return toks


def mutate_chars(text, rng):
    for _ in range(rng.choice([1, 1, 2, 3])):
        if not text:
            return rng.choice(CHARS)
        i = rng.randrange(len(text))
        r = rng.random()
        if r < 0.35: text = text[:i] + text[i + 1:]
        elif r < 0.7: text = text[:i] + rng.choice(CHARS) + text[i:]
        else: text = text[:i] + rng.choice(CHARS) + text[i + 1:]
    return text


MORE_KW = {'ROUTED', 'FIXED', 'COVER', 'NOSHIELD', 'USE', 'NET', 'DIRECTION', 'SPECIAL', 'PORT', 'SHAPE', 'VIARULE', 'CUTSIZE', 'LAYERS', 'CUTSPACING',
           'ENCLOSURE', 'ROWCOL', 'PATTERN', 'NONDEFAULTRULE', 'HARDSPACING', 'VIA', 'COMPONENTPIN', 'DIVIDERCHAR', 'BUSBITCHARS', 'X', 'Y'}
BENIGN_ID = ['Z;', 'u1;', 'END', 'BY', 'x(', 'N;', '*', '-', '"q"', 'a#b', 'caf\xe9', 'DESIGN', ')', 'x+y', ';x', 'NEWS', 'DOx', '(', 'N', 'S', 'FN', 'NEW', 'DO', ';', '0', '1.5', 'a"b']


def benign(toks, rng):
    """one replacement of a name / number by an unusual but often legal spelling"""
    toks = list(toks)
    names = [i for i, tk in enumerate(toks) if re.fullmatch(r'[A-Za-z_][A-Za-z0-9_\[\]/.$]*', tk) and tk not in dg.KEYWORDS and tk not in MORE_KW]
    nums = [i for i, tk in enumerate(toks) if re.fullmatch(r'\d+', tk)]
    if names and (rng.random() < 0.75 or not nums):
        toks[rng.choice(names)] = rng.choice(BENIGN_ID)
    elif nums:
        toks[rng.choice(nums)] = rng.choice(['007', '00', '0', '+3', '-3', '12345678901234567890'])
    return toks


def gen_text(rng):
    """-> (text, stream, must_parse)"""
    st = rng.random()
    if 0.3 <= st < 0.4:
        gt = small_gt(rng)
        return join(benign(flat_tokens(gt), rng), rng, p_glue=rng.choice([0, 0, 0.02])), 'benign-mutation', None
    if st < 0.18:
        gt = dg.gen_def(rng)
        return dg.render(gt, rng), 'rendered', True
    gt = small_gt(rng)
    toks = flat_tokens(gt)
    if st < 0.3:
        return join(toks, rng, seps=[' #c\n', '\r\n', '  ', ' # ;\n ', '\n#x\n', '\f', '\t\t']), 'separators', None
    if st < 0.5:
        return join(toks, rng, p_glue=rng.choice([0.01, 0.02, 0.05, 0.2])), 'glued', None
    if st < 0.75:
        return join(mutate_tokens(toks, rng), rng, p_glue=rng.choice([0, 0, 0.05]), seps=SEPS), 'token-mutation', None
    if st < 0.9:
        return mutate_chars(join(toks, rng), rng), 'char-mutation', None
    k = rng.randrange(len(toks) + 1)
    return join(toks[:k], rng), 'truncated', None


# the probes that determined the model (each was run through lark); checked on every run
D = 'DESIGN d ; '
E = ' END DESIGN'
CORNER_TEXTS = [
    '', ' ', '#c', '#c\n', ' #c', '\n#c\n#d', '# c\nVERSION 5.8 ;', 'VERSION 5.8 ;', 'VERSION 5.8;', 'VERSION "5.8" ;', 'VERSION " ;', 'VERSION ; ;', 'VERSION +5 ;',
    'VERSION 5.8 ;#x', 'VERSION 5.8 ; #x', 'VERSION 5.8 ;\n#x', 'VERSION#x 5 ;', 'VERSION #x\n 5 ;', 'VERSION5.8 ;', 'VERSION\t5.8\f;\r\n',
    'DIVIDERCHAR "/" ;', 'DIVIDERCHAR "/";', 'DIVIDERCHAR"/";', 'DIVIDERCHAR / ;', 'DIVIDERCHAR "a b" ;', 'DIVIDERCHAR "a\\"b" ;', 'DIVIDERCHAR "a\\\\" ;', 'DIVIDERCHAR "a\\"" ;', 'BUSBITCHARS "\\"\\"" ;', 'VERSION "" ;', 'VERSION "a ;',
    'DIVIDERCHAR "a\\\\\\" ;" ;', 'DIVIDERCHAR "" ;', 'DIVIDERCHAR "a\nb" ;', 'DIVIDERCHAR "abc ;', 'BUSBITCHARS "[]" ; BUSBITCHARS "<>" ;',
    D + E, D + 'END DESIGN', 'DESIGN d ;ENDDESIGN', 'DESIGN d;END DESIGN', 'DESIGN d ; END  DESIGN  ', D + 'END DESIGN x', D + 'END', D + E + ' ' + D + E, 'DESIGN ; ; END DESIGN',
    'DESIGN DESIGN ; END DESIGN', 'DESIGN END ; END DESIGN', 'design d ; END DESIGN', 'DESIGNd ; END DESIGN',
    D + 'UNITS DISTANCE MICRONS 1000 ;' + E, D + 'UNITS DISTANCE MICRONS 1000;' + E, D + 'UNITS DISTANCE MICRONS 1.5 ;' + E, D + 'UNITS D M 1e3 ;' + E,
    D + 'UNITS D M -5 ;' + E, D + 'UNITS D M 5x ;' + E, D + 'UNITS D M 007 ;' + E, D + 'UNITS D M .5 ;' + E, D + 'UNITS D M 5. ;' + E, D + 'UNITS D M 1e ;' + E,
    D + 'UNITSD M 5 ;' + E, D + 'UNITS D M 5 ; UNITS E F 6 ;' + E,
    D + 'DIEAREA ( 0 0 ) ( 10 10 ) ;' + E, D + 'DIEAREA (0 0) (10 10) ;' + E, D + 'DIEAREA ( 0 0 ) (10 10 ) ;' + E, D + 'DIEAREA ( 0 0 )( 10 10 ) ;' + E,
    D + 'DIEAREA ( 0 0 ) ( 10 10 );' + E, D + 'DIEAREA ( 0 0 ) ( 10 10 ) ;END DESIGN', D + 'DIEAREA ( * 0 ) ( 10 * 3 ) ;' + E, D + 'DIEAREA ( ** ) ;' + E,
    D + 'DIEAREA ( * * * ) ;' + E, D + 'DIEAREA ( 1 ) ;' + E, D + 'DIEAREA ( 1 2 3 4 ) ;' + E, D + 'DIEAREA ;' + E, D + 'DIEAREA ( 1 2 ) x ;' + E,
    D + 'DIEAREA ( 1 2 ) NEW ;' + E, D + 'DIEAREA ( 1 2 ) + ;' + E, D + 'DIEAREA(1 2)(3 4) ;' + E, D + 'DIEAREA ( 1 2) ;' + E, D + 'DIEAREA ( 1.5 2 ) ;' + E,
    D + 'DIEAREA ( -1 2 ) ;' + E, D + 'DIEAREA ( 1 2 ) ( 3 4 ) ( 5 6 ) ;' + E,
    D + 'ROW r core 0 0 N DO 1 BY 1 STEP 0 0 ;' + E, D + 'ROW r core 0 0 N DO 1 BY 1 STEP -5 +7 ;' + E, D + 'ROW r core 0 0 N DO 1 BY 1 STEP 0 0;' + E,
    D + 'ROWS core 0 0 N DO 1 BY 1 STEP 0 0 ;' + E, D + 'ROW r core 0 0 N DO 1 BY 1 STEP 0 ;' + E, D + 'ROW r core 0 0 FS DO 17 BY 1 STEP 380 0 ;' + E,
    D + 'ROW r core 0 0 N DO 1 BY 1 STEP 0 0 x ;' + E, D + 'ROW r core 0 0 N DO1BY1STEP0 0 ;' + E, D + 'ROW r core -1 0 N DO 1 BY 1 STEP 0 0 ;' + E,
    D + 'ROW r core 0 0 N DO 1 BY 1 STEP 1e2 0 ;' + E, D + 'ROW r core 0 0 N DO +1 BY 1 STEP 0 0 ;' + E,
    D + 'TRACKS X 0 DO 1 STEP 1 LAYER M1 ;' + E, D + 'TRACKS XY 0 DO 1 STEP 1 LAYER M1 ;' + E, D + 'TRACKS Z 0 DO 1 STEP 1 LAYER M1 ;' + E,
    D + 'TRACKS Y0 DO 1 STEP 1 LAYER M1;' + E, D + 'TRACKS X 0 DO 1 STEP 1 LAYERS ;' + E, D + 'TRACKS X 0 DO 1 STEP 1 LAYER LAYER ;' + E,
    D + 'PROPERTYDEFINITIONS END PROPERTYDEFINITIONS' + E, D + 'PROPERTYDEFINITIONS COMPONENTPIN a b ; COMPONENTPIN c d ; END PROPERTYDEFINITIONS' + E,
    D + 'PROPERTYDEFINITIONS COMPONENTPIN a b c ; END PROPERTYDEFINITIONS' + E, D + 'PROPERTYDEFINITIONS ; END PROPERTYDEFINITIONS' + E,
    D + 'VIAS 0 ; END VIAS' + E, D + 'VIAS 1 ; - v ; END VIAS' + E, D + 'VIAS 1 ; - v + VIARULE r + CUTSIZE 1 2 + LAYERS a b c + CUTSPACING 3 4 + ENCLOSURE 5 6 7 8 + ROWCOL 2 2 + PATTERN p ; END VIAS' + E,
    D + 'VIAS 1 ; - v + ROWCOL 2 2 + ROWCOL 3 3 ; - v + CUTSIZE 9 9 ; END VIAS' + E, D + 'VIAS 1 ; - v + CUTSIZE 1 ; END VIAS' + E, D + 'VIAS 1 ; - v + CUTSIZE 1.5 2 ; END VIAS' + E,
    D + 'VIAS ; END VIAS' + E, D + 'VIAS 1 ; -v ; END VIAS' + E, D + 'VIAS 1 ; - v +ROWCOL 2 2 ; END VIAS' + E, D + 'VIAS 1 ; - v + LAYERS a b ; END VIAS' + E,
    D + 'VIAS 1 ; - v + LAYER a b c ; END VIAS' + E, D + 'VIAS 1 ; - - ; END VIAS' + E, D + 'VIAS 1 ; - + ; END VIAS' + E, D + 'VIAS 1 ; - v ; END NETS' + E,
    D + 'NONDEFAULTRULES 1 ; - r + HARDSPACING + LAYER M1 WIDTH 1 SPACING 2 + VIA v ; END NONDEFAULTRULES' + E, D + 'NONDEFAULTRULES 0 ; END NONDEFAULTRULES' + E,
    D + 'NONDEFAULTRULES 1 ; - r ; - s + VIA v ; END NONDEFAULTRULES' + E,
    D + 'COMPONENTS 1 ; - u1 AND2 + PLACED ( 10 20 ) N ; END COMPONENTS' + E, D + 'COMPONENTS 1 ; - u1 AND2 + PLACED ( 10 20 ) N; END COMPONENTS' + E,
    D + 'COMPONENTS 1 ; - u1 AND2 + PLACED ( 10 20 ) NEW ; END COMPONENTS' + E, D + 'COMPONENTS 1 ; - u1 AND2 + PLACED ( * 20 5 ) FS ; END COMPONENTS' + E,
    D + 'COMPONENTS 1 ; - u1 AND2 + PLACED (10 20) N ; END COMPONENTS' + E, D + 'COMPONENTS 1 ; - u1 AND2 + FIXED ( 10 20 ) N ; END COMPONENTS' + E,
    D + 'COMPONENTS 1 ; - u1 AND2 +PLACED( 10 20 ) N ; END COMPONENTS' + E, D + 'COMPONENTS 2 ; - a K + PLACED ( 1 1 ) N ; - a L + PLACED ( 2 2 ) S ; END COMPONENTS' + E,
    D + 'COMPONENTS 1 ; - END END + PLACED ( 1 1 ) END ; END COMPONENTS' + E, D + 'COMPONENTS 1 ; - u1 AND2 + PLACED ( 10 20 ) ( ; END COMPONENTS' + E,
    D + 'PINS 1 ; - p + NET n + SPECIAL + DIRECTION INPUT + USE SIGNAL + PORT + LAYER M1 ( 0 0 ) ( 1 1 ) + PLACED ( 5 5 ) N ; END PINS' + E,
    D + 'PINS 1 ; - p + LAYER M1 ( 0 0 ) ( 1 1 ) ; END PINS' + E, D + 'PINS 1 ; - p + LAYER M1 ( 0 0 ) (1 1 ) ; END PINS' + E, D + 'PINS 1 ; - p + LAYER M1 ( 0 0 ) ; END PINS' + E,
    D + 'PINS 1 ; - p + PLACED ( 5 5 ) N + PLACED ( 6 6 ) S + NET a + NET b ; END PINS' + E, D + 'PINS 1 ; - p + PLACED ( 5 5 ) ; END PINS' + E,
    D + 'PINS 1 ; - p + LAYER M1 ( 0 0 ) ( 1 1 ) x ; END PINS' + E, D + 'PINS 1 ; - p + NETS n ; END PINS' + E, D + 'PINS 1 ; - p + PLACED ( * 5 ) N ; END PINS' + E,
    D + 'PINPROPERTIES 1 ; - PIN p + PROPERTY w "a ( 1 2 ) ; b" ; END PINPROPERTIES' + E, D + 'PINPROPERTIES 1 ; - PIN p + PROPERTY w 5 ; END PINPROPERTIES' + E,
    D + 'PINPROPERTIES 1 ; - PINp + PROPERTY w "x" ; END PINPROPERTIES' + E,
    D + 'NETS 1 ; - n ; END NETS' + E, D + 'NETS 1 ; - n ( u1 Z ) ( PIN a ) + USE SIGNAL ; END NETS' + E, D + 'NETS 1 ; - n (u1 Z) ; END NETS' + E,
    D + 'NETS 1 ; - n ( u1 Z ) + ROUTED M1 ( 0 0 ) ( * 5 ) ; END NETS' + E, D + 'NETS 1 ; - n + ROUTED M1 ( 0 0 ) ( * 5 ) ( u1 Z ) ; END NETS' + E,
    D + 'NETS 1 ; - n + ROUTED M1 ( 0 0 ) ; END NETS' + E, D + 'NETS 1 ; - n + ROUTED M1 ( 0 0 ) via1 ; END NETS' + E, D + 'NETS 1 ; - n + ROUTED M1 ( 0 0 ) via1 N ; END NETS' + E,
    D + 'NETS 1 ; - n + ROUTED M1 ( 0 0 ) via1 N; END NETS' + E, D + 'NETS 1 ; - n + ROUTED M1 ( 0 0 ) via1 N #c\n ; END NETS' + E, D + 'NETS 1 ; - n + ROUTED M1 ( 0 0 ) via1 N  #c\n ; END NETS' + E,
    D + 'NETS 1 ; - n + ROUTED M1 ( 0 0 ) via1 via2 ; END NETS' + E, D + 'NETS 1 ; - n + ROUTED M1 ( 0 0 ) N S ; END NETS' + E, D + 'NETS 1 ; - n + ROUTED M1 ( 0 0 ) N N N ; END NETS' + E,
    D + 'NETS 1 ; - n + ROUTED M1 ( 0 0 ) FN\tFS\n; END NETS' + E, D + 'NETS 1 ; - n + ROUTED M1 ( 0 0 ) Nv1 Sx ; END NETS' + E, D + 'NETS 1 ; - n + ROUTED M1 ( 0 0 ) F N ; END NETS' + E,
    D + 'NETS 1 ; - n + ROUTED M1 ( 0 0 ) (10 0 ) ; END NETS' + E, D + 'NETS 1 ; - n + ROUTED M1 ( 0 0 ) ( 10 0 ) NEW M2 ( 1 1 ) ( * 2 ) ; END NETS' + E,
    D + 'NETS 1 ; - n + ROUTED M1 ( 0 0 ) ( 10 0 ) NEW ; END NETS' + E, D + 'NETS 1 ; - n + ROUTED M1 ( 0 0 ) NEW M2 ( 1 1 ) v ; END NETS' + E,
    D + 'NETS 1 ; - n + ROUTED M1 TAPER ( 0 0 ) v ; END NETS' + E, D + 'NETS 1 ; - n + ROUTED M1 TAPERRULE r ( 0 0 ) v ; END NETS' + E, D + 'NETS 1 ; - n + ROUTED M1 TAPERRULE r STYLE 2 ( 0 0 ) v ; END NETS' + E,
    D + 'NETS 1 ; - n + ROUTED M1 TAPER STYLE 2 ( 0 0 ) v ; END NETS' + E, D + 'NETS 1 ; - n + ROUTED M1 STYLE 2 ( 0 0 ) v ; END NETS' + E, D + 'NETS 1 ; - n + ROUTED M1 STYLE 2 TAPER ( 0 0 ) v ; END NETS' + E,
    D + 'NETS 1 ; - n + ROUTED M1 TAPERRULEr ( 0 0 ) v ; END NETS' + E, D + 'NETS 1 ; - n + ROUTED M1 TAPERx ( 0 0 ) v ; END NETS' + E, D + 'NETS 1 ; - n + ROUTED M1( 0 0 ) v ; END NETS' + E,
    D + 'NETS 1 ; - n + ROUTED M1 ( 0 0 ) v + ROUTED M2 ( 1 1 ) w + FIXED M3 ( 2 2 ) x + COVER M1 ( 3 3 ) y + NOSHIELD M1 ( 4 4 ) z + USE CLOCK + NONDEFAULTRULE r ; END NETS' + E,
    D + 'NETS 1 ; - n + ROUTED M1 ( 0 0 ) v DO 2 BY 2 STEP 1 1 ; END NETS' + E, D + 'NETS 1 ; - n + ROUTED M1 ( 0 0 ) DO ; END NETS' + E, D + 'NETS 1 ; - n + ROUTED M1 ( 0 0 5 ) ( * * 7 ) ; END NETS' + E,
    D + 'NETS 1 ; - n + ROUTED M1 ( 0 0 ) ; ; END NETS' + E, D + 'NETS 1 ; - n + ROUTED M1 ( 0 0 ) v;w ; END NETS' + E, D + 'NETS 1 ; - n + ROUTED M1 ( * * ) v ; END NETS' + E,
    D + 'NETS 1 ; - n + ROUTED M1 ( 0 0 ) + USE x ; END NETS' + E, D + 'NETS 1 ; - n + ROUTED M1 ( 0 0 ) v +USE x ; END NETS' + E, D + 'NETS 1 ; - n + ROUTED M1 ( 0 0 ) v + USE x;END NETS' + E,
    D + 'NETS 2 ; - n ( a b ) ; - n ( c d ) ; END NETS' + E, D + 'NETS 1 ; - n + SHIELD M1 ( 0 0 ) v ; END NETS' + E, D + 'NETS 1 ; - n + ROUTED 5 ( 0 0 ) 6 ; END NETS' + E,
    D + 'SPECIALNETS 1 ; - VDD ( * VDD ) + USE POWER + ROUTED M1 100 + SHAPE STRIPE + STYLE 1 ( 0 0 ) ( 100 * ) via1 DO 2 BY 1 STEP 50 0 via2 NEW M2 0 ( 1 1 ) v ; END SPECIALNETS' + E,
    D + 'SPECIALNETS 1 ; - VDD + ROUTED M1 100 ( 0 0 ) via1 DO 2 BY 1 STEP -50 +3 ; END SPECIALNETS' + E, D + 'SPECIALNETS 1 ; - VDD + ROUTED M1 100 ( 0 0 ) via1 DO 2 BY 1 STEP 50 ; END SPECIALNETS' + E,
    D + 'SPECIALNETS 1 ; - VDD + ROUTED M1 ( 0 0 ) v ; END SPECIALNETS' + E, D + 'SPECIALNETS 1 ; - VDD + ROUTED M1 1.5 ( 0 0 ) v ; END SPECIALNETS' + E,
    D + 'SPECIALNETS 1 ; - VDD + ROUTED M1 100 ( 0 0 ) DO DO 1 BY 1 STEP 0 0 ; END SPECIALNETS' + E, D + 'SPECIALNETS 1 ; - VDD + ROUTED M1 100 ( 0 0 ) v N ; END SPECIALNETS' + E,
    D + 'SPECIALNETS 1 ; - VDD + NOSHIELD M1 100 ( 0 0 ) v ; END SPECIALNETS' + E, D + 'SPECIALNETS 1 ; - VDD + ROUTED M1 100 + SHAPE ( 0 0 ) v ; END SPECIALNETS' + E,
    D + 'SPECIALNETS 1 ; - VDD + ROUTED M1 100 ( 0 0 ) v DO 2 BY 1 STEP 50 0; END SPECIALNETS' + E, D + 'SPECIALNETS 1 ; - VDD + ROUTED M1 100 ( 0 0 ) v DO 2 BY 1 STEP 50 0 w ; END SPECIALNETS' + E,
    D + 'SPECIALNETS 1 ; - VDD + FIXED M1 1 ( 0 0 ) a + COVER M1 2 ( 0 0 ) b + ROUTED M1 3 ( 0 0 ) c + ROUTED M1 4 ( 0 0 ) d + NONDEFAULTRULE q ; END SPECIALNETS' + E,
    # unusual characters in every name position
    D + 'NETS 1 ; - n;x ( u;1 Z; ) ( PIN; a#b ) + USE S;G + NONDEFAULTRULE r;1 ; END NETS' + E,
    D + 'NETS 1 ; - n + ROUTED M;1 TAPERRULE r;1 STYLE s;1 ( 0 0 ) v;1 N v;2 NEW M#2 ( 1 1 ) #v ; END NETS' + E,
    D + 'COMPONENTS 1 ; - u;1 AND;2 + PLACED ( 1 2 ) N;x ; END COMPONENTS' + E,
    D + 'PINS 1 ; - p;1 + NET n;1 + DIRECTION IN; + USE S; + LAYER M;1 ( 0 0 ) ( 1 1 ) + PLACED ( 5 5 ) N; ; END PINS' + E,
    D + 'VIAS 1 ; - v;1 + VIARULE r;1 + LAYERS a; b; c; + PATTERN p; ; END VIAS' + E,
    D + 'ROW r; c; 0 0 N; DO 1 BY 1 STEP 0 0 ; TRACKS X 0 DO 1 STEP 1 LAYER M;1 ; UNITS D; M; 100 ;' + E,
    D + 'SPECIALNETS 1 ; - V;DD ( *; V; ) + USE P; + ROUTED M;1 100 + SHAPE S;T + STYLE 1; ( 0 0 ) v;1 DO 1 BY 1 STEP 0 0 v;2 ; END SPECIALNETS' + E,
    D + 'PROPERTYDEFINITIONS COMPONENTPIN a; b; ; END PROPERTYDEFINITIONS NONDEFAULTRULES 1 ; - r; + LAYER M; WIDTH 1 SPACING 2 + VIA v; ; END NONDEFAULTRULES' + E,
    D + 'PINPROPERTIES 1 ; - PIN p; + PROPERTY w; "a;" ; END PINPROPERTIES' + E,
    'DESIGN d;x ; END DESIGN', 'VERSION 5;8 ;', 'VERSION "5;8" ;', 'VERSION ;; ;',
    'VERSION 5.8 ; ' + D + E + ' VERSION 5.7 ; BUSBITCHARS "()" ;', D + 'END DESIGN END', '\x00', 'VERSION \x00 ;', 'VERSION a\x0bb ;', 'VERSION \xe9 ;', D + E + '\x0b',
]


def text_cases(text, check_file=True):
    """-> (cases, info dict, python-side failure | None)"""
    tree, exc = de.lark_tree(text)
    info = {'raises': exc}
    cases = [f'deftext_case {cstr(text)} {copt(tree, de.coq_tree)}']
    fail = None
    if check_file:
        d, log, exc2 = de.real_run(text)
        info['raises_parse'] = exc2
        if tree is None and d is not None:
            fail = 'def_file.parse accepts a text the plain lark parser rejects'
        try:
            cases.append(f'deftext_file_case {cstr(text)} {copt(d, de.coq_deffile)}')
        except de.OutOfDomain:
            info['file_case_out_of_domain'] = True
    return cases, info, fail


def int_limit_cases():
    """Python's limit on int(str): the number of digits (sign excluded, leading zeros included) must not exceed 4300"""
    cases = []
    for n in (1, 640, 4299, 4300, 4301, 5000):
        for sign in ('', '-', '+'):
            try:
                v = int(sign + '9' * n)
                ok = v == (-1 if sign == '-' else 1) * (10 ** n - 1)
            except ValueError:
                ok = None
            cases.append(f'pyint_nines_case {cstr(sign)} {n} {"None" if ok is None else "(Some true)" if ok else "(Some false)"}')
    return cases


# ---- the printer (python twin of DefTextSpec.words / print_def, on the lark tree) ---------------------------------------
def _pt(t):
    return ['('] + [str(c) for c in t.children] + [')']


def _do(t):
    c = [str(x) for x in t.children]
    return ['DO', c[0], 'BY', c[1], 'STEP', c[2], c[3]]


def py_words(tree):
    """the canonical word list of a lark parse tree (filtered keywords re-inserted; wire_opt written as TAPERRULE a [STYLE b])"""
    out = []
    ch = list(tree.children)
    if ch and not hasattr(ch[0], 'data'):
        ch.pop(0)

    def stmt(name, body):
        return ['-', str(name)] + body + [';']

    def section(kw, n, stmts):
        return [kw, str(n), ';'] + stmts + ['END', kw]

    def wire(w, special):
        c = w.children
        if special:
            o = [str(c[0]), str(c[1])]
            for so in c[2:-1]:
                o += ['+', str(so.children[0]), str(so.children[1])]
            pts = c[-1].children
        else:
            ids = [str(x) for x in c[1].children]
            o = [str(c[0])] + ([] if not ids else ['TAPERRULE', ids[0]] + (['STYLE', ids[1]] if len(ids) > 1 else []))
            pts = c[2].children
        for e in pts:
            if e.data == 'point':
                o += _pt(e)
            elif e.data == 'sppoints_via':
                o += [str(e.children[0])] + (_do(e.children[1]) if len(e.children) > 1 else [])
            else:
                o += [str(e.children[0])] + ([de.orient_text(e.children[1])] if len(e.children) > 1 else [])
        return o

    def net(s, special):
        body = []
        for it in s.children[1:]:
            if it.data == 'net_pin':
                body += ['(', str(it.children[0]), str(it.children[1]), ')']
            elif it.data == 'net_opt':
                body += ['+', str(it.children[0]), str(it.children[1])]
            else:
                body += ['+', str(it.children[0])]
                for i, w in enumerate(it.children[1:]):
                    body += (['NEW'] if i else []) + wire(w, special)
        return stmt(s.children[0], body)

    def design_stmt(t):
        c = t.children
        if t.data == 'design_stmt':
            k = str(c[0])
            if k == 'UNITS': return [k] + [str(x) for x in c[1:]] + [';']
            if k == 'DIEAREA': return [k] + [w for p in c[1:] for w in _pt(p)] + [';']
            if k == 'ROW': return [k] + [str(x) for x in c[1:6]] + _do(c[6]) + [';']
            return [k, str(c[1]), str(c[2]), 'DO', str(c[3]), 'STEP', str(c[4]), 'LAYER', str(c[5]), ';']
        if t.data == 'propdef':
            return ['PROPERTYDEFINITIONS'] + [w for s in c for w in ['COMPONENTPIN', str(s.children[1]), str(s.children[2]), ';']] + ['END', 'PROPERTYDEFINITIONS']
        if t.data == 'vias':
            return section('VIAS', c[0], [w for s in c[1:] for w in stmt(s.children[0], [x for o in s.children[1:] for x in ['+'] + [str(a) for a in o.children]])])
        if t.data == 'nondef':
            def nd(s):
                o, i, k = [], 1, s.children
                while i < len(k):
                    kk = str(k[i])
                    if kk == 'HARDSPACING': o += ['+', kk]; i += 1
                    elif kk == 'LAYER': o += ['+', kk, str(k[i + 1]), 'WIDTH', str(k[i + 2]), 'SPACING', str(k[i + 3])]; i += 4
                    else: o += ['+', kk, str(k[i + 1])]; i += 2
                return stmt(k[0], o)
            return section('NONDEFAULTRULES', c[0], [w for s in c[1:] for w in nd(s)])
        if t.data == 'comp':
            return section('COMPONENTS', c[0], [w for s in c[1:] for w in stmt(s.children[0], [str(s.children[1]), '+', 'PLACED'] + _pt(s.children[2]) + [str(s.children[3])])])
        if t.data == 'pins':
            def po(o):
                k = str(o.children[0]); a = o.children[1:]
                if k == 'LAYER': return ['+', k, str(a[0])] + _pt(a[1]) + _pt(a[2])
                if k == 'PLACED': return ['+', k] + _pt(a[0]) + [str(a[1])]
                return ['+', k] + [str(x) for x in a]
            return section('PINS', c[0], [w for s in c[1:] for w in stmt(s.children[0], [x for o in s.children[1:] for x in po(o)])])
        if t.data == 'pinprop':
            return section('PINPROPERTIES', c[0], [w for s in c[1:] for w in ['-', 'PIN', str(s.children[0]), '+', 'PROPERTY', str(s.children[1]), str(s.children[2]), ';']])
        special = t.data == 'spnets'
        return section('SPECIALNETS' if special else 'NETS', c[0], [w for s in c[1:] for w in net(s, special)])

    for f in ch:
        if f.data == 'design':
            out += ['DESIGN', str(f.children[0]), ';'] + [w for s in f.children[1:] for w in design_stmt(s)] + ['END', 'DESIGN']
        else:
            out += [str(f.children[0]), str(f.children[1]), ';']
    return out


def py_print(tree):
    ch = tree.children
    head = (str(ch[0]) + '\n') if ch and not hasattr(ch[0], 'data') else ''
    return head + ''.join(w + '\n' for w in py_words(tree))
