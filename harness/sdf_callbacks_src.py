"""C14, source tie: Gen/SdfCallbacksSrc.v (SdfTransformer.triple, sanitize, SdfTransformer.interconnect / iopath translated from the
current sdf.py) is regenerated and run against the real callbacks on generated argument lists (lark Tokens / float lists)."""
from fractions import Fraction

HEADER = '''From Coq Require Import List ZArith Bool Arith String.
From KV Require Import Model.Corr Model.SdfCallbacksSrcLib Gen.SdfCallbacksSrc.
Import ListNotations.
Local Open Scope list_scope.
Local Open Scope string_scope.
'''


def translate(ck):
    from vcheck import gen_all
    res = gen_all.generate(['SdfCallbacksSrc'])
    ck.obligation('translate sdf.SdfTransformer.triple / sanitize / interconnect / iopath -> Gen/SdfCallbacksSrc.v', res['SdfCallbacksSrc'] is None,
                  'translation', res['SdfCallbacksSrc'] or '')
    ck.trust('translator translate/gen_sdf_callbacks.py (fail-closed Python-ast translation of the four pure callbacks of sdf.py; vocabulary '
             'Model/SdfCallbacksSrcLib.v: a Token = its text, a float = 8 * value on the 1/8 grid with float() = dec8 of Model/SdfText.v, '
             'IndexError / ValueError / the namedtuple arity error = None); its output is additionally run against the real callbacks')
    return res['SdfCallbacksSrc'] is None


def cstr(s):
    assert all(32 <= ord(c) < 127 and c != '"' for c in s)
    return f'"{s}"'


def f8(x):
    v = Fraction(x) * 8
    if v.denominator != 1:
        raise ValueError('off grid')
    return f'({v.numerator})%Z'


def zlist(l):
    return '[' + '; '.join(f8(x) for x in l) + ']'


def sval(x):
    return f'SvNums {zlist(x)}' if isinstance(x, list) else f'SvTok {cstr(str(x))}'


def gen_number(rng):
    r = rng.random()
    if r < 0.12:
        return ''
    if r < 0.24:
        return rng.choice(['-', '.', '-.', '1.2.3', '--1', '1-2', '..', '-0', '0', '00.50', '5.', '.5', '-.125', '1234567.875'])
    v = Fraction(rng.randint(-4000, 4000), 8)
    s = f'{abs(float(v)):.3f}'.rstrip('0')
    if rng.random() < 0.5:
        s = s.rstrip('.')
    return ('-' if v < 0 else '') + s


def gen_cases(rng, n):
    """(coq case text, description)"""
    from lark import Token
    from kyupy import sdf
    out = []
    for i in range(n):
        if i % 2 == 0:
            k = rng.choice([0, 3, 3, 3, 1, 2, 5])
            toks = [gen_number(rng) + rng.choice([':', ')']) for _ in range(k)]
            try:
                exp = sdf.SdfTransformer.triple([Token('ANON', t) for t in toks])
                e = f'(Some {zlist(exp)})'
            except ValueError as ex:
                e = 'None' if 'grid' not in str(ex) else None
            except Exception:                                  # noqa
                e = 'None'
            txt = 'false' if e is None else f'triple_src_case SdfTransformer_triple_src [{"; ".join(cstr(t) for t in toks)}] {e}'
            out.append((txt, {'triple': toks}))
        else:
            io = rng.random() < 0.5
            a = rng.choice(['A', '(posedge CK)', 'u1/Y', 'x\\[3\\]/Z', ''])
            b = rng.choice(['Y', 'u2/A', 'Q'])
            ts = [rng.choice([[], [0.5, 1.0, 1.5], [0.0, 0.0, 0.0], [float(rng.randint(-9, 9)) / 8 for _ in range(3)], [1.0]])
                  for _ in range(rng.choice([0, 1, 1, 2, 2, 2, 3, 4]))]
            args = [Token('ID', a), Token('ID', b)] + [list(t) for t in ts]
            if rng.random() < 0.08:
                args = args[:rng.randint(0, 1)]
            cargs = '[' + '; '.join(sval(x) for x in args) + ']'
            f = sdf.SdfTransformer.iopath if io else sdf.SdfTransformer.interconnect
            try:
                got = list(f(list(args)))
                e = '(Some [' + '; '.join(sval(x) for x in got) + '])'
            except Exception:                                  # noqa
                e = 'None'
            out.append((f'entry_src_case SdfTransformer_{"iopath" if io else "interconnect"}_src {cargs} {e}', {'entry': str(args)[:200], 'iopath': io}))
    return out


def cases_file(cases):
    return HEADER + 'Definition results : list bool := [\n ' + ';\n '.join(cases) + '].\nEval vm_compute in (failing results).\n'
