"""C20, source tie of the transformer callbacks: Gen/DefCallbacksSrc.v (DefTransformer.pins_opt / pins_stmt / comp_stmt translated from
the current def_file.py) is regenerated, and run against the real callbacks on the argument lists the recording transformer of
harness/def_elab.py sees while lark parses the generated files (plus a few direct calls, also with argument lists that raise).

The rendering is generic: a Python value is written as the [pyv] literal of its own structure (None / int / str (a lark Token is a
str: its text) / tuple / list), an object as list(vars(obj).items()); nothing is interpreted.  A value outside that universe makes
the case fail."""

HEADER = '''From Coq Require Import List ZArith Bool Arith String.
From KV Require Import Model.Corr Model.DefRouteSrcLib Model.DefCallbacksSrcLib Gen.DefCallbacksSrc.
Import ListNotations.
Local Open Scope list_scope.
Local Open Scope string_scope.
Local Open Scope Z_scope.
'''
CALLBACKS = {'pins_opt': None, 'pins_stmt': 'pins', 'comp_stmt': 'components'}
SEEN = {}         # callback -> calls seen (incl. those with an argument outside the universe, which yield no case)
LOG = []          # (callback, case text): filled by the instrumented recorder, drained by vcheck/props/C20.py


class OutOfUniverse(Exception):
    pass


def translate(ck):
    from vcheck import gen_all
    res = gen_all.generate(['DefCallbacksSrc'])
    ck.obligation('translate def_file.DefTransformer.pins_opt / pins_stmt / comp_stmt (+ DefPin / DefNet / DefVia.__init__) -> Gen/DefCallbacksSrc.v',
                  res['DefCallbacksSrc'] is None, 'translation', res['DefCallbacksSrc'] or '')
    ck.trust('translator translate/gen_def_callbacks.py (fail-closed Python-ast translation of the callbacks pins_opt, pins_stmt, comp_stmt of '
             'def_file.DefTransformer onto Python values; vocabulary Model/DefRouteSrcLib.v + Model/DefCallbacksSrcLib.v: a Token = its text, '
             'an object = its insertion-ordered vars(), Cls(e) = the attribute stores of Cls.__init__, setattr with a computed name = a store '
             'into that list (TypeError / property without setter = None), obj.f.append(e) on a list __init__ created = read, append, store '
             'back (value semantics: the list has no other name that is read later), the side-effect comprehension = a structural scan, the '
             'final self.def_file.D[k] = v = the returned entry, lower() on ASCII texts only); its output is additionally run against the '
             'real callbacks on every argument list lark hands them')
    return res['DefCallbacksSrc'] is None


def pyv(x):
    if x is None:
        return 'PNone'
    if type(x) is int:
        return f'(PInt ({x}))'
    if isinstance(x, str):
        s = str(x)
        if not all(32 <= ord(c) < 127 and c != '"' for c in s):
            raise OutOfUniverse(repr(s))
        return f'(PStr "{s}")'
    if type(x) is tuple:
        return '(PTup [' + '; '.join(pyv(v) for v in x) + '])'
    if type(x) is list:
        return '(PList [' + '; '.join(pyv(v) for v in x) + '])'
    raise OutOfUniverse(f'{type(x).__name__}: {x!r}'[:80])


def run_case(name, f, tr, args):
    """call the real callback f(tr, args); -> (case text, result, exception | None)"""
    try:
        a = pyv(list(args))
    except OutOfUniverse:
        a = None
    store = CALLBACKS[name]
    before = dict(getattr(tr.def_file, store)) if store else None
    fn = f'DefTransformer_{name}_src'
    try:
        r = f(tr, args)
    except Exception as e:                                    # noqa
        return (None if a is None else f'cb_raises ({fn} {a})'), None, e
    if a is None:
        return None, r, None                                  # an argument outside the universe (a name with a quote / non-ASCII character): no case
    try:
        if store is None:
            return f'cb_ret_case ({fn} {a}) {pyv(r)}', r, None
        after = getattr(tr.def_file, store)
        new = [k for k in after if k not in before or after[k] is not before[k]]
        if r is not None or len(new) != 1 or list(after)[:len(before)] != list(before):
            return 'false', r, None
        k = new[0]
        if store == 'pins':
            return f'cb_store_obj_case ({fn} {a}) {pyv(k)} {pyv([(n, v) for n, v in vars(after[k]).items()])}', r, None
        return f'cb_store_val_case ({fn} {a}) {pyv(k)} {pyv(after[k])}', r, None
    except OutOfUniverse:
        return 'false', r, None


def install():
    """the recording transformer of harness/def_elab.py additionally logs the raw argument lists / results of the translated callbacks"""
    from harness import def_elab as de
    if getattr(de.make_recorder, '_src', False):
        return
    orig = de.make_recorder

    def mk(log):
        # the real callbacks are wrapped INSIDE the recorder's own wrappers (what is logged is the real function's behaviour, not the
        # recorder's assertions): def_file.DefTransformer is patched only while the recording subclass is built
        from kyupy import def_file

        def wrap(name, f):
            def w(self, args):
                case, r, exc = run_case(name, f, self, args)
                SEEN[name] = SEEN.get(name, 0) + 1
                if case is not None:
                    LOG.append((name, case))
                if exc is not None:
                    raise exc
                return r
            return w
        real = {name: vars(def_file.DefTransformer)[name] for name in CALLBACKS}
        try:
            for name, f in real.items():
                setattr(def_file.DefTransformer, name, wrap(name, f))
            return orig(log)
        finally:
            for name, f in real.items():
                setattr(def_file.DefTransformer, name, f)
    mk._src = True
    de.make_recorder = mk


def direct_cases():
    """direct calls, also outside the grammar (wrong shapes raise; two placements; attribute named like a field)"""
    from lark import Token
    from kyupy import def_file
    T = lambda s: Token('ID', s)                              # noqa
    out = []
    calls = [('pins_opt', [T('PLACED'), (1, 2), T('N')]), ('pins_opt', [T('PLACED'), (None, 2, 7), T('FS')]), ('pins_opt', [T('PLACED'), (1,), T('N')]),
             ('pins_opt', [T('PLACED'), (1, 2)]), ('pins_opt', [T('NET')]), ('pins_opt', [T('Net'), T('a')]), ('pins_opt', [T('LAYER'), T('m1')]),
             ('pins_opt', [T('LAYER'), T('m1'), (0, 0), (5, 5)]), ('pins_opt', [T('FOO'), T('x')]), ('pins_opt', []), ('pins_opt', [(1, 2)]),
             ('pins_opt', [T('USE'), (1, 2)]),
             ('pins_stmt', [T('p')]), ('pins_stmt', [T('p'), ('placed', (1, 2, 'N')), ('net', 'n'), ('placed', (3, 4, 'S'))]),
             ('pins_stmt', [T('p'), ('placed', (1, 2, 'N')), ('placed', (1, 2, 'N')), ('placed', (0, 0, 'FN'))]),
             ('pins_stmt', [T('p'), ('net', 'a'), ('net', 'b'), ('port', []), ('layer', ['m', (0, 0), (1, 1)])]),
             ('pins_stmt', [T('p'), ('points', [])]), ('pins_stmt', [T('p'), ('name', 'q')]), ('pins_stmt', [T('p'), ('net', 'a', 'b')]),
             ('pins_stmt', [T('p'), (7, 'a')]), ('pins_stmt', [(1, 2)]), ('pins_stmt', []),
             ('comp_stmt', [T('u1'), T('INV'), (10, 20), T('N')]), ('comp_stmt', [T('u1'), T('INV'), (10, 20)]),
             ('comp_stmt', [T('u1'), (1, 2), (10, 20), T('N')]), ('comp_stmt', [T('u1'), T('INV'), (None, 20, 3), T('FS'), T('x')])]
    for name, args in calls:
        tr = def_file.DefTransformer()
        case, _, _ = run_case(name, getattr(def_file.DefTransformer, name), tr, args)
        assert case is not None
        out.append((name, case, f'direct call {name}({[str(a) if isinstance(a, str) else a for a in args]!r})'))
    return out


def cases_file(cases):
    return HEADER + 'Definition results : list bool := [\n ' + ';\n '.join(cases) + '].\nEval vm_compute in (failing results).\n'
