"""C11 oracle: a generator that OWNS flat gate-level netlists (ground truth = its own evaluation), renders them as
structural Verilog with surface variation (declaration styles, ascending / descending ranges, bit and part selects,
concatenations, sized constants, escaped identifiers, comments, attributes, whitespace, shuffled statements, named
pins in any order, unconnected pins) and, where expressible, as ISCAS bench text; runs the real parsers +
resolve_tlib_cells + LogicSim(m=2) and compares io order, truth tables, branchforks structure and the two formats.

Cell functions come from the datasheet families of vcheck/props/C19.py (family_of / family_fn: written from the cell
NAME, independent of the library's implementation circuits); pin names and pin order come from tlib.cells[kind][1]
as the task prescribes.  Everything is drawn from the random.Random passed in."""
import contextlib
import io
import itertools
import re

import numpy as np

LIBS = ['NANGATE', 'NANGATE_ZN', 'GSC180', 'SAED32', 'SAED90']
KEYWORDS = {'module', 'endmodule', 'input', 'output', 'inout', 'wire', 'tri', 'assign'}
SIMPLE_RE = re.compile(r'[A-Za-z_][A-Za-z0-9_]*\Z')

BASES_SIMPLE = ['a', 'b', 'c', 'd', 'din', 'dout', 'q', 'sum', 'cout', 'n1', 'n_2', 'N3', '_t', 'w', 'x', 'y', 'z', 'sel', 'en', 'data', 'addr',
                'Res', 'net12', 'U7_o', 'po', 'pi', 'inp', 'outp', 'wire_a', 'module_x', 'tri0', 'assign_', 'G17', 'clk', 'rst_n', 'r', 's', 't', 'u', 'v']
BASES_ODD = ['a.b', 'top/u1/n3', 'n$5', '3x', 'x+y', 'q~', 'sig-1', 'p:0', 'h#', 'a.b.c', '@k', 'm%2', '!g', 'k[7]', 'bus[2][1]', 'o(1)', "d,e", 'f;g', 'b{0}']
INSTS_SIMPLE = ['u1', 'U2', 'g3', 'inst_4', 'x5', 'i6', 'cell7', 'G8', 'u9', 'u10', 'u11', 'U12', 'g13', 'g14', 'g15', 'u16', 'u17', 'u18', 'u19', 'u20', 'u21', 'u22']
INSTS_ODD = ['u/1', 'top.u2', 'g[3]', 'i$4', '5u', 'x~6', 'add_1/U7']


# ---- library catalogue -------------------------------------------------------------------------------------------
_CAT = {}


def catalogue(lib):
    """{family key: [(kind, in_pins, out_pins, spec)]} ; spec = ('comb', fam) | ('dff', dpin, clkpin) | ('sdff', d, se, si, clk)"""
    if lib in _CAT:
        return _CAT[lib]
    from kyupy import techlib
    from vcheck.props import C19
    tl = getattr(techlib, lib)
    cat = {}
    for kind, (circ, pins) in tl.cells.items():
        ins = [p for p, (i, o) in sorted(pins.items(), key=lambda kv: kv[1][0]) if not o]
        outs = [p for p, (i, o) in sorted(pins.items(), key=lambda kv: kv[1][0]) if o]
        if not outs:
            continue
        seq = any('dff' in n.kind.lower() or 'latch' in n.kind.lower() for n in circ.nodes)
        if seq:
            if re.match(r'(DFF_X\d|DFFX\d)', kind) and set(outs) == {'Q', 'QN'} and len(ins) == 2 and 'D' in ins:
                clk = [p for p in ins if p != 'D'][0]
                cat.setdefault(('dff',), []).append((kind, ins, outs, ('dff', 'D', clk)))
            elif re.match(r'(SDFF_X\d|SDFFX\d)', kind) and set(outs) == {'Q', 'QN'} and set(ins) >= {'D', 'SE', 'SI'} and len(ins) == 4:
                clk = [p for p in ins if p not in ('D', 'SE', 'SI')][0]
                cat.setdefault(('sdff',), []).append((kind, ins, outs, ('sdff', 'D', 'SE', 'SI', clk)))
            continue
        fam = C19.family_of(lib, kind)
        if fam is None:
            continue
        z = [0] * len(ins)
        if any(C19.family_fn(lib, fam, z, o) is None for o in outs):
            continue
        key = (fam[0],) + tuple(str(x) for x in fam[1:])
        cat.setdefault(key, []).append((kind, ins, outs, ('comb', fam)))
    _CAT[lib] = cat
    return cat


_TT = {}


def cell_table(lib, kind, spec, n_in, out):
    """numpy truth table of a combinational cell output, index = sum(in_k << k) (pin k = k-th input in pin order)"""
    key = (lib, kind, out)
    if key not in _TT:
        from vcheck.props import C19
        t = np.zeros(1 << n_in, dtype=np.uint8)
        for idx in range(1 << n_in):
            row = [(idx >> k) & 1 for k in range(n_in)]
            t[idx] = C19.family_fn(lib, spec[1], row, out)
        _TT[key] = t
    return _TT[key]


# ---- the owned netlist --------------------------------------------------------------------------------------------
class Sig:
    """a declared (or implicit) signal: base name as kyupy sees it, direction, optional range, bit names in declared order"""

    def __init__(self, base, kind, rng=None):
        self.base, self.kind, self.rng = base, kind, rng
        if rng is None:
            self.idx = [None]
            self.bits = [base]
        else:
            l, r = rng
            self.idx = list(range(l, r + 1)) if l <= r else list(range(l, r - 1, -1))
            self.bits = [f'{base}[{i}]' for i in self.idx]


class Net:
    """ports: [Sig] in port-list order; sigs: every Sig; cells: [dict(inst, kind, ins, outs, spec, conn{pin: bit|('c',v)|None})];
    aliases: {bit: bit | ('c', v)} (continuous assigns, bit level); assigns: [( [target bits], [source items] )] statement grouping"""

    def __init__(self):
        self.lib = None
        self.ports, self.sigs, self.cells, self.assigns = [], [], [], []
        self.flags = set()

    def sig_of(self, bit):
        for s in self.sigs:
            if bit in s.bits:
                return s
        raise KeyError(bit)

    def in_bits(self):
        return [b for s in self.ports if s.kind == 'input' for b in s.bits]

    def out_bits(self):
        return [b for s in self.ports if s.kind == 'output' for b in s.bits]

    def io_expected(self):
        return [(b, s.kind) for s in self.ports for b in s.bits]

    def states(self):
        return [c for c in self.cells if c['spec'][0] in ('dff', 'sdff')]

    def describe(self):
        """JSON-able description from which from_description rebuilds the netlist"""
        return {'lib': self.lib, 'sigs': [[s.base, s.kind, list(s.rng) if s.rng else None] for s in self.sigs],
                'ports': [self.sigs.index(s) for s in self.ports],
                'cells': [[c['kind'], c['inst'], {p: (list(v) if isinstance(v, tuple) else v) for p, v in c['conn'].items()}] for c in self.cells],
                'assigns': [[list(t), [list(x) if isinstance(x, tuple) else x for x in s]] for t, s in self.assigns],
                'flags': sorted(self.flags)}

    @staticmethod
    def from_description(d):
        net = Net()
        net.lib = d['lib']
        net.sigs = [Sig(b, k, tuple(r) if r else None) for b, k, r in d['sigs']]
        net.ports = [net.sigs[i] for i in d['ports']]
        net.flags = set(d.get('flags', []))
        byk = {c[0]: c for v in catalogue(net.lib).values() for c in v}
        un = lambda v: tuple(v) if isinstance(v, list) else v
        for kind, inst, conn in d['cells']:
            _, ins, outs, spec = byk[kind]
            net.cells.append({'kind': kind, 'inst': inst, 'ins': ins, 'outs': outs, 'spec': spec, 'conn': {p: un(v) for p, v in conn.items()}})
        net.assigns = [(list(t), [un(x) for x in s]) for t, s in d['assigns']]
        return net


def evaluate(net, pats, state):
    """pats: {input bit: uint8 array}, state: {inst: uint8 array}.  Returns ({bit: array}, {inst: next-state array}).
    Unconnected / undriven = 0 (kyupy's documented convention for 2-valued simulation)."""
    n = len(next(iter(pats.values()))) if pats else len(next(iter(state.values())))
    zero = np.zeros(n, dtype=np.uint8)
    drv = {}
    for ci, c in enumerate(net.cells):
        for o in c['outs']:
            b = c['conn'].get(o)
            if b is not None:
                drv[b] = ('cell', ci, o)
    for tg, src in net.assigns:
        for t, s in zip(tg, src):
            drv[t] = ('alias', s)
    memo = dict(pats)
    busy = set()

    def item(v):
        if v is None:
            return zero
        if isinstance(v, tuple):
            return zero + v[1]
        return val(v)

    def val(b):
        if b in memo:
            return memo[b]
        if b in busy:
            raise RuntimeError('combinational loop in generated netlist at ' + b)
        busy.add(b)
        d = drv.get(b)
        if d is None:
            r = zero
        elif d[0] == 'alias':
            r = item(d[1])
        else:
            c = net.cells[d[1]]
            sp = c['spec']
            if sp[0] in ('dff', 'sdff'):
                r = state[c['inst']] if d[2] == 'Q' else 1 - state[c['inst']]
            else:
                idx = np.zeros(n, dtype=np.int64)
                for k, p in enumerate(c['ins']):
                    idx |= item(c['conn'].get(p)).astype(np.int64) << k
                r = cell_table(net.lib, c['kind'], sp, len(c['ins']), d[2])[idx]
        busy.discard(b)
        memo[b] = r
        return r
    outs = {b: val(b) for b in net.out_bits()}
    nxt = {}
    for c in net.states():
        sp = c['spec']
        if sp[0] == 'dff':
            nxt[c['inst']] = item(c['conn'].get(sp[1]))
        else:
            d, se, si = (item(c['conn'].get(p)) for p in sp[1:4])
            nxt[c['inst']] = np.where(se == 1, si, d).astype(np.uint8)
    return outs, nxt


# ---- generation ---------------------------------------------------------------------------------------------------
def _pick_names(rng, pool_simple, pool_odd, n, p_odd):
    names = []
    ps, po = list(pool_simple), list(pool_odd)
    rng.shuffle(ps); rng.shuffle(po)
    for _ in range(n):
        if po and rng.random() < p_odd:
            names.append(po.pop())
        elif ps:
            names.append(ps.pop())
        else:
            names.append(f'nn{len(names)}_{rng.randint(0, 999)}')
    return names


def _group(rng, items, p_bus):
    """partition a list into groups (buses) / singletons"""
    items = list(items)
    rng.shuffle(items)
    groups = []
    while items:
        k = 1 if rng.random() > p_bus else rng.randint(1, min(5, len(items)))
        groups.append(items[:k])
        items = items[k:]
    return groups


def gen_netlist(rng, lib=None, bench_friendly=None, probe=None, size=None):
    """probe: None (main stream, constructs that the parser is meant to support) or one of
    'assign-order' (assign chains in arbitrary textual order), 'onebit-nonzero' (1-bit bus [k:k], k>0, referenced by base name),
    'tri-bus' (internal buses declared with the keyword tri), 'unconnected-input' (.P() on cell inputs; not part of the check)."""
    net = Net()
    net.lib = lib or rng.choice(LIBS)
    cat = catalogue(net.lib)
    bench_friendly = (rng.random() < 0.5) if bench_friendly is None else bench_friendly
    if bench_friendly:
        net.flags.add('bench-friendly')
    if probe:
        net.flags.add('probe:' + probe)
    comb_keys = [k for k in cat if k[0] not in ('dff', 'sdff')]
    n_pi = rng.randint(1, 7)
    n_ff = rng.choice([0, 0, 0, 1, 1, 2]) if (('dff',) in cat) else 0
    n_gates = size if size is not None else rng.choice([0, 1, 2, 3, 4, 5, 7, 10, 14])
    ctr = itertools.count()
    new = lambda: next(ctr)
    drivers = {}     # net id -> 'pi' | ('cell', ci, pin) | ('alias', src)
    pis = [new() for _ in range(n_pi)]
    for p in pis:
        drivers[p] = 'pi'
    avail = list(pis)
    cells = []
    # flip-flops first (their outputs are sources); data pins are connected at the end
    for f in range(n_ff):
        key = ('sdff',) if (('sdff',) in cat and rng.random() < 0.3) else ('dff',)
        kind, ins, outs, spec = rng.choice(cat[key])
        conn = {}
        use = rng.choice([('Q',), ('Q',), ('Q', 'QN'), ('QN',)]) if not bench_friendly else rng.choice([('Q',), ('Q', 'QN')])
        for o in use:
            nid = new(); drivers[nid] = ('cell', len(cells), o); conn[o] = nid; avail.append(nid)
        cells.append({'kind': kind, 'ins': ins, 'outs': outs, 'spec': spec, 'conn': conn})

    def pick_src():
        if rng.random() < 0.6:
            return avail[-1 - min(len(avail) - 1, int(rng.expovariate(0.3)))]
        return rng.choice(avail)
    n_alias = rng.choice([0, 0, 1, 1, 2, 3, 5]) if probe != 'assign-order' else rng.choice([2, 3, 5, 8])
    todo = ['g'] * n_gates + ['a'] * n_alias
    rng.shuffle(todo)
    for what in todo:
        if what == 'a':
            r = rng.random()
            src = ('c', rng.randint(0, 1)) if r < 0.2 else pick_src()
            prev = [k for k, d in drivers.items() if isinstance(d, tuple) and d[0] == 'alias']
            if probe == 'assign-order' and prev and r > 0.4:
                src = rng.choice(prev)                 # chains of assigns
            nid = new(); drivers[nid] = ('alias', src); avail.append(nid)
            continue
        key = rng.choice(comb_keys)
        cands = cat[key]
        if bench_friendly:
            cands = [c for c in cands if len(c[2]) == 1] or None
            if cands is None:
                continue
        kind, ins, outs, spec = rng.choice(cands)
        conn = {}
        same = pick_src() if rng.random() < 0.12 else None      # the same signal on several pins
        for p in ins:
            r = rng.random()
            if r < 0.07:
                conn[p] = ('c', rng.randint(0, 1))
            elif r < 0.10 and probe == 'unconnected-input':
                conn[p] = None                                   # .P() on an input: a floating input has no defined Boolean value
            elif same is not None and rng.random() < 0.7:
                conn[p] = same
            else:
                conn[p] = pick_src()
        for o in outs:
            if rng.random() < (0.9 if len(outs) == 1 else 0.75):
                nid = new(); drivers[nid] = ('cell', len(cells), o); conn[o] = nid; avail.append(nid)
            else:
                conn[o] = None                                   # output pin unconnected
        if bench_friendly and conn.get(outs[0]) is None:
            nid = new(); drivers[nid] = ('cell', len(cells), outs[0]); conn[outs[0]] = nid; avail.append(nid)
        cells.append({'kind': kind, 'ins': ins, 'outs': outs, 'spec': spec, 'conn': conn})
    # sequential data pins
    for c in cells:
        sp = c['spec']
        if sp[0] == 'dff':
            c['conn'][sp[1]] = pick_src()
            c['conn'][sp[2]] = rng.choice(pis) if (rng.random() < 0.8 or bench_friendly) else None
        elif sp[0] == 'sdff':
            for p in sp[1:4]:
                c['conn'][p] = pick_src() if rng.random() < 0.85 else ('c', rng.randint(0, 1))
            c['conn'][sp[4]] = rng.choice(pis)
    # primary outputs: distinct non-PI nets; special shapes: input feeding an output directly, constant output
    n_po = rng.randint(1, 6)
    cand = [x for x in avail if drivers[x] != 'pi']
    pos = []
    for _ in range(n_po):
        r = rng.random()
        if r < 0.12 or not cand:
            nid = new(); drivers[nid] = ('alias', rng.choice(pis)); pos.append(nid)      # assign z = a;
        elif r < 0.18:
            nid = new(); drivers[nid] = ('alias', ('c', rng.randint(0, 1))); pos.append(nid)
        elif r < 0.28 and cand:
            nid = new(); drivers[nid] = ('alias', rng.choice(cand)); pos.append(nid)       # output driven by assign from an internal net
        else:
            x = rng.choice(cand)
            if x not in pos:
                pos.append(x)
    if not pos:
        nid = new(); drivers[nid] = ('alias', rng.choice(pis)); pos.append(nid)
    used = set(pos) | set(pis)
    for c in cells:
        used |= {v for v in c['conn'].values() if isinstance(v, int)}
    for k, d in list(drivers.items()):
        if isinstance(d, tuple) and d[0] == 'alias' and isinstance(d[1], int):
            used.add(d[1])
    internal = [x for x in drivers if x not in pis and x not in pos]
    # an alias nobody reads may stay (a dangling assign); keep them all
    # ---- naming ------------------------------------------------------------------------------------------------
    p_odd = rng.choice([0.0, 0.0, 0.15, 0.5])
    groups_in = _group(rng, pis, rng.choice([0.0, 0.4, 0.8]))
    groups_out = _group(rng, pos, rng.choice([0.0, 0.4, 0.8]))
    groups_int = _group(rng, internal, rng.choice([0.0, 0.3, 0.6]) if probe != 'tri-bus' else 0.8)
    bases = _pick_names(rng, BASES_SIMPLE, BASES_ODD, len(groups_in) + len(groups_out) + len(groups_int), p_odd)
    name_of = {}

    def mk_sig(group, kind, base):
        nonlocal_probe = probe
        if len(group) == 1 and rng.random() < 0.7:
            if kind == 'wire':
                kind = rng.choice(['wire', 'wire', 'implicit', 'tri'])
            s = Sig(base, kind, None)
            slots = [0]
        else:
            extra = rng.choice([0, 0, 0, 1, 2]) if kind == 'wire' else 0     # unused bits in an internal bus
            w = len(group) + extra
            lo = rng.choice([0, 0, 0, 1, 3, 7, 12])
            if w == 1:
                # 1-bit bus: [0:0] in the main stream; [k:k] with k > 0 only when every reference is written base[k]
                lo = 0 if rng.random() < 0.6 else lo
            rg = (lo + w - 1, lo) if rng.random() < 0.6 else (lo, lo + w - 1)
            if kind == 'wire' and probe == 'tri-bus' and rng.random() < 0.7:
                kind = 'tri'                      # the grammar has a rule for "tri [l:r] names;"
            s = Sig(base, kind, rg)
            slots = sorted(rng.sample(range(w), len(group)))
        for g, sl in zip(group, slots):
            name_of[g] = s.bits[sl]
        return s
    sig_in = [mk_sig(g, 'input', bases.pop()) for g in groups_in]
    sig_out = [mk_sig(g, 'output', bases.pop()) for g in groups_out]
    sig_int = [mk_sig(g, 'wire', bases.pop()) for g in groups_int]
    # kyupy conflates the escaped scalar \k[7]  with bit 7 of a bus k: keep all visible bit names distinct
    allbits = [b for s in sig_in + sig_out + sig_int for b in s.bits]
    assert len(allbits) == len(set(allbits)), allbits
    ports = sig_in + sig_out
    rng.shuffle(ports)
    net.ports = ports
    net.sigs = ports + sig_int
    insts = _pick_names(rng, INSTS_SIMPLE, INSTS_ODD, len(cells), p_odd * 0.6)
    tr = lambda v: name_of[v] if isinstance(v, int) else v
    for c, inst in zip(cells, insts):
        c['inst'] = inst
        c['conn'] = {p: tr(v) for p, v in c['conn'].items()}
    net.cells = cells
    # ---- assign statements: group bit-level aliases; main stream keeps dependency order --------------------------
    alias = [(name_of[k], tr(d[1])) for k, d in drivers.items() if isinstance(d, tuple) and d[0] == 'alias']
    order = {t: i for i, (t, s) in enumerate(alias)}      # creation order is a dependency order
    stmts = []
    pool = list(alias)
    rng.shuffle(pool)
    while pool:
        k = rng.choice([1, 1, 1, 2, 3, 4])
        grp, pool = pool[:k], pool[k:]
        # a statement must not depend on itself (target of one bit = source of another)
        tg = {t for t, _ in grp}
        if any((not isinstance(s, tuple)) and s in tg for _, s in grp):
            for a in grp:
                stmts.append([a])
        else:
            stmts.append(grp)
    if probe == 'assign-order':
        rng.shuffle(stmts)
    else:
        # topological: a statement comes after every statement that drives one of its sources
        stmts.sort(key=lambda g: max(order[t] for t, _ in g))
        done, out, pending = set(), [], list(stmts)
        while pending:
            progressed = False
            for g in list(pending):
                if all(isinstance(s, tuple) or s not in order or s in done for _, s in g):
                    out.append(g); done |= {t for t, _ in g}; pending.remove(g); progressed = True
            if not progressed:      # two multi-bit statements that need each other: split into single-bit assigns
                assert any(len(g) > 1 for g in pending)
                pending = [[a] for g in pending for a in g]
        stmts = out
    net.assigns = [([t for t, _ in g], [s for _, s in g]) for g in stmts]
    return net


# ---- Verilog rendering ----------------------------------------------------------------------------------------------
class Style:
    def __init__(self, rng, probe=None):
        self.rng = rng
        self.probe = probe
        self.p_comment = rng.choice([0.0, 0.02, 0.1])
        self.p_nl = rng.choice([0.0, 0.1, 0.4])
        self.p_esc = rng.choice([0.0, 0.1, 0.5])
        self.p_space = rng.choice([0.2, 0.6, 1.0])

    def comment(self):
        r = self.rng
        body = r.choice(['c', 'synopsys translate_off', 'wire [3:0] fake;', 'assign z = a;', '', 'x * y', 'a ( b )', '**', 'endmodule', 'q[3]'])
        k = r.random()
        if k < 0.15:
            # star runs next to the delimiters (banners, doxygen style, empty comments / attributes)
            return r.choice(['/***/', '/****/', '/*****/', '/** ' + body + ' **/', '/* ' + body + ' ***/', '/**' + body + '*/', '/*' + '*' * r.randint(1, 12) + '*/',
                             '(***)', '(** ' + body.replace('*)', '') + ' **)', '(*' + '*' * r.randint(1, 6) + '*)', '/* * / */', '(* * ) *)'])
        if k < 0.4:
            return '/* ' + body + ' */'
        if k < 0.7:
            return '// ' + body.replace('\n', ' ') + ' */ (* \n'
        return '(* ' + body.replace('*)', '') + ' *)'

    def gap(self, need):
        """whitespace between two tokens; need = at least one separating character"""
        r = self.rng
        s = ''
        if r.random() < self.p_comment:
            s = self.comment()
            if r.random() < 0.5:
                s = ' ' + s + ' '
            return s if not need or s[0] in ' /(' else ' ' + s
        if need or r.random() < self.p_space:
            s = '\n' if r.random() < self.p_nl else r.choice([' ', ' ', ' ', '  ', '\t'])
        return s

    def ident(self, name):
        """an identifier token; escaped identifiers carry their terminating white space"""
        r = self.rng
        if SIMPLE_RE.match(name) and name not in KEYWORDS and r.random() >= self.p_esc:
            return name
        return '\\' + name + r.choice([' ', ' ', ' ', '\t', '\n'])

    def join(self, toks):
        out = ''
        for i, t in enumerate(toks):
            if i:
                prev = toks[i - 1]
                wordy = lambda x: x[-1].isalnum() or x[-1] in "_'" or x[0].isalnum() or x[0] in '_\\'
                need = (prev[-1].isalnum() or prev[-1] == '_') and (t[0].isalnum() or t[0] in '_\\')
                if prev[0] == '\\':
                    need = False       # already terminated by its own white space
                out += self.gap(need)
            out += t
        return out


def _const_tok(rng, bits):
    """sized constant for a list of 0/1, MSB first; value may carry extra high bits (truncated by the width)"""
    w = len(bits)
    val = int(''.join(str(b) for b in bits), 2)
    base = rng.choice('bbdh')
    if rng.random() < 0.2:
        base = base.upper()
    if base.lower() == 'b':
        body = format(val, 'b')
        if rng.random() < 0.7:
            body = body.zfill(w)
            if rng.random() < 0.15:
                body = rng.choice('01') + body          # one digit too many: truncated by the width
    else:
        if rng.random() < 0.2:
            val += (1 << w) * rng.randint(1, 3)
        body = str(val) if base.lower() == 'd' else format(val, 'x' if rng.random() < 0.5 else 'X')
        if rng.random() < 0.2:
            body = '0' + body
    return f"{w}'{base}{body}"


def render_items(net, st, items, allow_whole=True, top=True):
    """token list of an expression for a list of bits / constants (assign side)"""
    rng = st.rng
    segs = []
    i = 0
    while i < len(items):
        it = items[i]
        if isinstance(it, tuple):       # run of constants
            j = i
            while j < len(items) and isinstance(items[j], tuple) and rng.random() < 0.8:
                j += 1
            j = max(j, i + 1)
            segs.append([_const_tok(rng, [x[1] for x in items[i:j]])])
            i = j
            continue
        s = net.sig_of(it)
        k = s.bits.index(it)
        # longest run of consecutive bits of the same signal in declared order
        j = 1
        while i + j < len(items) and k + j < len(s.bits) and items[i + j] == s.bits[k + j]:
            j += 1
        if j > 1 and rng.random() < 0.3:
            j = rng.randint(1, j)
        if s.rng is None:
            segs.append([st.ident(s.base)]); i += 1
        elif j == len(s.bits) and k == 0 and allow_whole and rng.random() < 0.7:
            segs.append([st.ident(s.base)]); i += j
        elif j > 1:
            segs.append([st.ident(s.base), '[', str(s.idx[k]), ':', str(s.idx[k + j - 1]), ']']); i += j
        else:
            segs.append(_bit_ref(net, st, it)); i += 1
    if len(segs) == 1 and not (top and rng.random() < 0.1):
        return segs[0]
    if len(segs) > 2 and rng.random() < 0.2:      # nested concatenation
        cut = rng.randint(1, len(segs) - 1)
        inner = ['{'] + [t for sg in segs[cut:] for t in sg + [',']][:-1] + ['}']
        segs = segs[:cut] + [inner]
    return ['{'] + [t for sg in segs for t in sg + [',']][:-1] + ['}']


def _bit_ref(net, st, bit):
    """token list referring to one bit (pin connection or assign operand)"""
    rng = st.rng
    s = net.sig_of(bit)
    if s.rng is None:
        return [st.ident(s.base)]
    i = s.idx[s.bits.index(bit)]
    if len(s.bits) == 1 and rng.random() < 0.35 and (i == 0 or st.probe == 'onebit-nonzero'):
        return [st.ident(s.base)]                 # a 1-bit bus referenced by its base name
    if rng.random() < 0.15:
        return [st.ident(s.base), '[', str(i), ':', str(i), ']']
    return [st.ident(s.base), '[', ('0' if rng.random() < 0.05 else '') + str(i), ']']


def render_verilog(net, rng, probe=None):
    st = Style(rng, probe)
    stmts = []
    # declarations: group same (kind, range) signals sometimes; ports may also be re-declared as wire
    decl_sigs = [s for s in net.sigs if s.kind != 'implicit']
    rng.shuffle(decl_sigs)
    i = 0
    while i < len(decl_sigs):
        s = decl_sigs[i]
        grp = [s]
        while i + 1 < len(decl_sigs) and (decl_sigs[i + 1].kind, decl_sigs[i + 1].rng) == (s.kind, s.rng) and rng.random() < 0.5:
            i += 1
            grp.append(decl_sigs[i])
        i += 1
        kw = s.kind
        if kw == 'input' and rng.random() < 0.08:
            kw = 'inout'
        toks = [kw]
        if s.rng is not None:
            if s.rng[0] == s.rng[1] and rng.random() < 0.0:
                toks += ['[', str(s.rng[0]), ']']
            else:
                toks += ['[', str(s.rng[0]), ':', str(s.rng[1]), ']']
        for k, g in enumerate(grp):
            toks += ([','] if k else []) + [st.ident(g.base)]
        stmts.append(('decl', toks + [';']))
    for s in net.ports:
        if rng.random() < 0.15:
            toks = ['wire'] + (['[', str(s.rng[0]), ':', str(s.rng[1]), ']'] if s.rng else []) + [st.ident(s.base), ';']
            stmts.append(('decl', toks))
    for c in net.cells:
        pins = list(c['conn'].items())
        # pins that were never given a connection are simply omitted; explicit None renders as .P()
        rng.shuffle(pins)
        toks = [st.ident(c['kind']) if rng.random() < 0.05 else c['kind'], st.ident(c['inst']), '(']
        first = True
        for p, v in pins:
            if v is None and rng.random() < 0.5:
                continue
            if not first:
                toks.append(',')
            first = False
            toks += ['.', st.ident(p) if rng.random() < 0.05 else p, '(']
            if v is None:
                pass
            elif isinstance(v, tuple):
                b = rng.choice(['b', 'b', 'b', 'd', 'h', 'B', 'H'])
                toks.append(f"1'{b}{v[1]}")
            else:
                toks += _bit_ref(net, st, v)
            toks.append(')')
        toks += [')', ';']
        stmts.append(('inst', toks))
    assign_stmts = []
    for tg, src in net.assigns:
        toks = ['assign'] + render_items(net, st, tg) + ['='] + render_items(net, st, src) + [';']
        assign_stmts.append(('assign', toks))
    # shuffle everything but keep the relative order of assigns (the generator decided it)
    rest = stmts
    rng.shuffle(rest)
    slots = sorted(rng.sample(range(len(rest) + len(assign_stmts)), len(assign_stmts)))
    merged, ai, ri = [], 0, 0
    for k in range(len(rest) + len(assign_stmts)):
        if ai < len(slots) and k == slots[ai]:
            merged.append(assign_stmts[ai]); ai += 1
        else:
            merged.append(rest[ri]); ri += 1
    head = ['module', st.ident(rng.choice(['top', 'm', 'c17', 'dut_1'])), '(']
    for k, s in enumerate(net.ports):
        head += ([','] if k else []) + [st.ident(s.base)]
    head += [')', ';']
    text = st.gap(False) + st.join(head) + '\n'
    for _, toks in merged:
        text += rng.choice(['', ' ', '  ', '\t']) + st.join(toks) + rng.choice(['\n', '\n', ' ', '\n\n', ' // eol\n'])
    text += st.gap(False) + 'endmodule' + rng.choice(['\n', ' \n', '\n// end\n', ' /* end */\n'])
    return text


# ---- bench rendering ------------------------------------------------------------------------------------------------
PRIM = {'and': ['AND{n}', 'and', 'and{n}'], 'nand': ['NAND{n}', 'nand'], 'or': ['OR{n}', 'or'], 'nor': ['NOR{n}', 'nor'],
        'xor': ['XOR{n}', 'xor'], 'xnor': ['XNOR{n}', 'xnor'], 'inv': ['INV1', 'not', 'NOT', 'inv'], 'buf': ['BUF1', 'buf', 'BUFF']}


def render_bench(net, rng):
    """-> (text, statements for the Coq model, io names in order, {verilog bit: bench name}, {inst: bench state name}, resolve?) or None
    if the netlist is not expressible (multi-output use, unconnected middle pins)."""
    names = {}
    used = set()

    def bname(bit):
        if bit not in names:
            s = re.sub(r'[^-_a-zA-Z0-9]', '_', bit)
            if rng.random() < 0.1:
                s = s.replace('_', '-', 1)
            while s in used or s == '':
                s += rng.choice('0123456789x_')
            used.add(s); names[bit] = s
        return names[bit]
    use_lib_kinds = rng.random() < 0.5
    stmts = []
    extra = itertools.count()
    states = {}

    def operand(v):
        if v is None:
            return None
        if isinstance(v, tuple):
            nm = f'k{next(extra)}c{v[1]}'
            while nm in used:
                nm += '_'
            used.add(nm)
            stmts.append(('as', nm, f'__const{v[1]}__', []))
            return nm
        return bname(v)
    for b in net.in_bits() + net.out_bits():
        bname(b)
    for c in net.cells:
        sp = c['spec']
        conn = c['conn']
        if sp[0] in ('dff', 'sdff'):
            q = conn.get('Q')
            qn = conn.get('QN')
            qname = bname(q) if q is not None else None
            if qname is None:
                qname = f'st{next(extra)}'
                while qname in used:
                    qname += '_'
                used.add(qname)
            states[c['inst']] = qname
            if sp[0] == 'dff' and not use_lib_kinds:
                stmts.append(('as', qname, rng.choice(['DFF', 'dff', 'DFF1']), [operand(conn.get(sp[1]))]))
            else:
                ops = [operand(conn.get(p)) for p in c['ins']]
                if any(o is None for o in ops):
                    return None
                stmts.append(('as', qname, c['kind'], ops))
            if qn is not None:
                stmts.append(('as', bname(qn), rng.choice(PRIM['inv']), [qname]))
            continue
        outs_used = [o for o in c['outs'] if conn.get(o) is not None]
        if not outs_used:
            continue            # an instance without connected output has no bench counterpart (and no effect)
        if outs_used != [c['outs'][0]]:
            return None
        ops = [operand(conn.get(p)) for p in c['ins']]
        while ops and ops[-1] is None:
            ops.pop()
        if any(o is None for o in ops) or not ops:
            return None
        fam = sp[1][0]
        if fam in PRIM and not use_lib_kinds and len(ops) == len(c['ins']):
            kind = rng.choice(PRIM[fam]).format(n=len(ops))
        else:
            kind = c['kind']
        stmts.append(('as', bname(conn[c['outs'][0]]), kind, ops))
    for tg, src in net.assigns:
        for t, s in zip(tg, src):
            if isinstance(s, tuple):
                stmts.append(('as', bname(t), f'__const{s[1]}__', []))
            else:
                stmts.append(('as', bname(t), rng.choice(PRIM['buf']), [bname(s)]))
    rng.shuffle(stmts)
    io = []
    ins, outs = [bname(b) for b in net.in_bits()], [bname(b) for b in net.out_bits()]
    rng.shuffle(ins); rng.shuffle(outs)
    iost = []
    for group, kw in ((ins, 'INPUT'), (outs, 'OUTPUT')):
        i = 0
        while i < len(group):
            k = rng.choice([1, 1, 2, 3])
            iost.append(('io', kw if rng.random() < 0.7 else kw.lower(), group[i:i + k]))
            i += k
    if rng.random() < 0.3:
        rng.shuffle(iost)
    # interface statements first (usual style) or interleaved
    if rng.random() < 0.7:
        allst = iost + stmts
    else:
        allst = list(stmts)
        for s in iost:
            allst.insert(rng.randint(0, len(allst)), s)
        # keep relative order of interface statements = io order
        order = [s for s in allst if s[0] == 'io']
        iost = order
    io = [n for s in iost for n in s[2]]
    from harness import vlog_corr as vc
    text = vc.bench_text(allst, rng)
    return text, allst, io, names, states, True


# ---- running the implementation -------------------------------------------------------------------------------------
@contextlib.contextmanager
def quiet():
    import kyupy
    buf = io.StringIO()
    old = kyupy.log.logfile
    kyupy.log.logfile = buf
    try:
        with contextlib.redirect_stdout(io.StringIO()):
            yield buf
    finally:
        kyupy.log.logfile = old


def patterns(net, rng, n_max=10):
    ins = net.in_bits()
    sts = [c['inst'] for c in net.states()]
    k = len(ins) + len(sts)
    if k <= n_max:
        rows = np.array(list(itertools.product((0, 1), repeat=k)), dtype=np.uint8).reshape(-1, k)
    else:
        rows = np.array([[rng.randint(0, 1) for _ in range(k)] for _ in range(256)], dtype=np.uint8)
    pats = {b: rows[:, i].copy() for i, b in enumerate(ins)}
    state = {s: rows[:, len(ins) + i].copy() for i, s in enumerate(sts)}
    return pats, state, rows.shape[0]


def simulate(c, in_pos, st_pos, pats, state, npat, out_pos):
    """LogicSim(m=2) on a parsed+resolved circuit. in_pos: {bit: s_node position}, st_pos: {inst: position}.
    Returns ({bit: array}, {inst: captured next-state array})"""
    from kyupy import logic, logic_sim
    with quiet():
        s = logic_sim.LogicSim(c, sims=npat, m=2)
    stim = np.zeros((len(c.s_nodes), npat), dtype=np.uint8)
    for b, p in in_pos.items():
        stim[p] = 3 * pats[b]
    for i, p in st_pos.items():
        stim[p] = 3 * state[i]
    s.s[0] = logic.mv_to_bp(stim)
    s.s_to_c(); s.c_prop(); s.c_to_s()
    res = logic.bp_to_mv(s.s[1])[:, :npat]
    outs = {b: (res[p] == 3).astype(np.uint8) for b, p in out_pos.items()}
    raw = {b: res[p] for b, p in out_pos.items()}
    nxt = {i: (res[p] == 3).astype(np.uint8) for i, p in st_pos.items()}
    for d in (raw,):
        for b, v in d.items():
            if np.any((v != 0) & (v != 3)):
                outs[b] = np.full(npat, 2, dtype=np.uint8)      # not a Boolean value: will not match any expectation
    return outs, nxt


def observable_flops(net, pats, state):
    """The flip-flops that influence an output directly or through other flip-flops (least fixed point over the next-state
    dependencies, decided by flipping one state bit at a time under the given patterns); resolve_tlib_cells prunes every cone
    that ends in unconnected outputs only, flip-flops included, and with it everything that feeds only such cones."""
    a_out, a_nxt = evaluate(net, pats, state)
    infl_out, infl_nxt = set(), {}
    for inst in state:
        st2 = dict(state)
        st2[inst] = 1 - state[inst]
        b_out, b_nxt = evaluate(net, pats, st2)
        if not all(np.array_equal(a_out[k], b_out[k]) for k in a_out):
            infl_out.add(inst)
        infl_nxt[inst] = {k for k in a_nxt if k != inst and not np.array_equal(a_nxt[k], b_nxt[k])}
    obs = set(infl_out)
    changed = True
    while changed:
        changed = False
        for inst in state:
            if inst not in obs and infl_nxt[inst] & obs:
                obs.add(inst)
                changed = True
    return obs


def unobservable(net, inst, pats, state):
    """True if the flip-flop influences no output, neither directly nor through other flip-flops"""
    return inst not in observable_flops(net, pats, state)


def state_positions(c, names, net=None, pats=None, state=None):
    """{key: position in s_nodes of the flip-flop cell with that name}; a flip-flop without any effect may be missing"""
    sn = c.s_nodes
    pos = {}
    for key, nm in names.items():
        hits = [i for i, n in enumerate(sn) if i >= len(c.io_nodes) and n.name == nm and 'dff' in n.kind.lower()]
        if not hits and net is not None and unobservable(net, key, pats, state):
            continue
        if len(hits) != 1:
            return None, f'state element {nm!r}: {len(hits)} flip-flop nodes of that name in s_nodes'
        pos[key] = hits[0]
    return pos, None


def first_diff(exp, got, pats, state):
    for b in exp:
        g = got.get(b)
        if g is None:
            return f'{b}: not observable'
        d = np.flatnonzero(exp[b] != g)
        if len(d):
            r = int(d[0])
            asg = {k: int(v[r]) for k, v in pats.items()}
            asg.update({'state ' + k: int(v[r]) for k, v in state.items()})
            return (f'{b} = {int(g[r])}, the netlist gives {int(exp[b][r])} for {asg}  '
                    f'(column: expected {"".join(map(str, exp[b][:32]))} obtained {"".join(map(str, g[:32]))})')
    return None


def canon(c, extras):
    """edges after splicing out the nodes in extras (1-in-1-out forks); fork output pin numbers are not significant"""
    key = lambda n: (n.name, n.kind)
    edges = []
    for l in c.lines:
        if key(l.reader) in extras:
            continue
        d, dp = l.driver, l.driver_pin
        while key(d) in extras:
            up = d.ins[0]
            d, dp = up.driver, up.driver_pin
        edges.append((key(d), None if d.kind == '__fork__' else dp, key(l.reader), l.reader_pin))
    return sorted(edges, key=repr)


def check_verilog(net, text, rng, pats=None):
    """Runs the implementation on the text and compares with the owned netlist.  Returns (failure key, text) or None."""
    from kyupy import verilog, techlib
    tl = getattr(techlib, net.lib)
    if pats is None:
        pats = patterns(net, rng)
    pt, stt, npat = pats
    exp_out, exp_nxt = evaluate(net, pt, stt)
    exp_io = net.io_expected()
    res = {}
    for bf in (False, True):
        try:
            with quiet() as log:
                c = verilog.parse(text, tlib=tl, branchforks=bf)
        except Exception as e:
            return 'parse-raises', f'verilog.parse(branchforks={bf}) raises {type(e).__name__}: {e}'
        if not hasattr(c, 'io_nodes'):
            return 'parse-result', f'verilog.parse returns {type(c).__name__}, not one Circuit'
        io_got = [None if n is None else (n.name, n.kind) for n in c.io_nodes]
        if io_got != exp_io:
            k = next((i for i, (a, b) in enumerate(itertools.zip_longest(io_got, exp_io)) if a != b), None)
            return 'io-order', (f'branchforks={bf}: io_nodes[{k}] is {io_got[k] if k < len(io_got) else None}, the port list / declared range '
                                f'order gives {exp_io[k] if k < len(exp_io) else None} (io_nodes = {io_got[:8]}..)')
        pre = ({(n.name, n.kind) for n in c.nodes}, c.copy())
        try:
            with quiet():
                c.resolve_tlib_cells(tl)
        except Exception as e:
            return 'resolve-raises', f'resolve_tlib_cells raises {type(e).__name__}: {e} (branchforks={bf})'
        in_pos = {b: i for i, (b, k) in enumerate(exp_io) if k == 'input'}
        out_pos = {b: i for i, (b, k) in enumerate(exp_io) if k == 'output'}
        st_pos, err = state_positions(c, {cc['inst']: cc['inst'] for cc in net.states()}, net, pt, stt)
        if err:
            return 'state', err + f' (branchforks={bf})'
        try:
            got_out, got_nxt = simulate(c, in_pos, st_pos, pt, stt, npat, out_pos)
        except Exception as e:
            return 'sim-raises', f'LogicSim on the parsed circuit raises {type(e).__name__}: {e} (branchforks={bf})'
        d = first_diff(exp_out, got_out, pt, stt)
        if d is None:
            d = first_diff({'next state of ' + k: v for k, v in exp_nxt.items() if k in got_nxt}, {'next state of ' + k: v for k, v in got_nxt.items()}, pt, stt)
        if d:
            warn = [w for w in log.getvalue().splitlines() if ' W ' in w][:3]
            return 'function', f'branchforks={bf}: {d}' + (f'; parser warnings: {warn}' if warn else '')
        res[bf] = (pre, got_out, got_nxt)
    # branchforks only inserts forks
    (n0, c0), (n1, c1) = res[False][0], res[True][0]
    if not n0 <= n1:
        return 'branchforks', f'nodes missing with branchforks=True: {sorted(n0 - n1)[:4]}'
    extras = n1 - n0
    for n in c1.nodes:
        if (n.name, n.kind) in extras:
            if n.kind != '__fork__' or len(n.ins) != 1 or len(n.outs) != 1 or n.ins[0] is None or n.outs[0] is None:
                return 'branchforks', f'branchforks=True adds node {n.name!r} kind {n.kind} with {len(n.ins)} inputs / {len(n.outs)} outputs (not a 1:1 fork)'
    if canon(c0, set()) != canon(c1, extras):
        a, b = canon(c0, set()), canon(c1, extras)
        diff = [e for e in a if e not in b][:2] + [e for e in b if e not in a][:2]
        return 'branchforks', f'after removing the added forks the circuits differ: {diff}'
    n_pins = sum(1 for cc in net.cells for p in cc['ins'] if cc['conn'].get(p) is not None)
    if len(extras) != n_pins:
        return 'branchforks', f'branchforks=True adds {len(extras)} forks, the netlist has {n_pins} connected cell input pins'
    return None


def check_bench(net, bench, rng, pats):
    """bench = render_bench(...) result.  Returns (key, text) or None; also returns outputs for the cross-format comparison."""
    from kyupy import bench as kb, techlib
    text, stmts, io, names, states, _ = bench
    tl = getattr(techlib, net.lib)
    pt, stt, npat = pats
    try:
        with quiet():
            c = kb.parse(text)
    except Exception as e:
        return ('bench-raises', f'bench.parse raises {type(e).__name__}: {e}'), None
    io_got = [n.name for n in c.io_nodes]
    if io_got != io:
        return ('bench-io-order', f'bench io_nodes {io_got[:8]} differ from the order of the INPUT/OUTPUT statements {io[:8]}'), None
    try:
        with quiet():
            c.resolve_tlib_cells(tl)
    except Exception as e:
        return ('bench-resolve-raises', f'resolve_tlib_cells on the bench circuit raises {type(e).__name__}: {e}'), None
    pos = {n: i for i, n in enumerate(io)}
    in_pos = {b: pos[names[b]] for b in net.in_bits()}
    out_pos = {b: pos[names[b]] for b in net.out_bits()}
    st_pos, err = state_positions(c, states, net, pt, stt)
    if err:
        return ('bench-state', err), None
    exp_out, exp_nxt = evaluate(net, pt, stt)
    try:
        got_out, got_nxt = simulate(c, in_pos, st_pos, pt, stt, npat, out_pos)
    except Exception as e:
        return ('bench-sim-raises', f'LogicSim on the bench circuit raises {type(e).__name__}: {e}'), None
    d = first_diff(exp_out, got_out, pt, stt)
    if d is None:
        d = first_diff({'next state of ' + k: v for k, v in exp_nxt.items() if k in got_nxt}, {'next state of ' + k: v for k, v in got_nxt.items()}, pt, stt)
    if d:
        return ('bench-function', 'bench: ' + d), None
    return None, (got_out, got_nxt)


# ---- probes: constructs whose support is doubtful; acceptable outcomes: a clean exception, or the right function -----
def probe_texts(rng):
    """[(name, lib, verilog text, {output: expected column over inputs a,b in product order})]"""
    def m(body, decl='input a, b; output z;'):
        return f'module p (a, b, z); {decl} {body} endmodule\n'
    return [
        ('positional-pins', 'NANGATE', m('AND2_X1 u1 (a, b, z);'), {'z': '0001'}),
        ('concat-on-pin', 'NANGATE', m('AND2_X1 u1 (.A1({a}), .A2(b), .Z(z));'), {'z': '0001'}),
        ('wide-constant-on-pin', 'NANGATE', m("AND2_X1 u1 (.A1(2'b01), .A2(b), .Z(z));"), None),
        ('assign-width-mismatch', 'NANGATE', 'module p (a, b, z); input a, b; output [1:0] z; assign z = 1\'b1; endmodule\n', {'z[1]': '0000', 'z[0]': '1111'}),
        ('tri-bus', 'NANGATE', m('tri [1:0] t; assign t = {a, b}; AND2_X1 u1 (.A1(t[1]), .A2(t[0]), .Z(z));'), {'z': '0001'}),
        ('escaped-bit-aliases-bus-bit', 'NANGATE', m('wire [1:0] k; wire \\k[1] ; assign k = {a, a}; assign \\k[1] = b; AND2_X1 u1 (.A1(k[1]), .A2(k[0]), .Z(z));'), {'z': '0011'}),
        ('ansi-header', 'NANGATE', 'module p (input a, input b, output z); AND2_X1 u1 (.A1(a), .A2(b), .Z(z)); endmodule\n', {'z': '0001'}),
    ]


def run_probe(name, lib, text, expect):
    from kyupy import verilog, techlib
    tl = getattr(techlib, lib)
    try:
        with quiet() as log:
            c = verilog.parse(text, tlib=tl)
            c.resolve_tlib_cells(tl)
    except Exception as e:
        return 'raises', f'{type(e).__name__}: {str(e)[:80]}'
    if expect is None:
        return 'accepted', ''
    try:
        io_n = [(n.name, n.kind) for n in c.io_nodes]
        ins = [i for i, (n, k) in enumerate(io_n) if k == 'input']
        rows = np.array(list(itertools.product((0, 1), repeat=len(ins))), dtype=np.uint8)
        pats = {io_n[i][0]: rows[:, j] for j, i in enumerate(ins)}
        got, _ = simulate(c, {io_n[i][0]: i for i in ins}, {}, pats, {}, len(rows), {n: i for i, (n, k) in enumerate(io_n) if k == 'output'})
    except Exception as e:
        return 'sim-raises', f'{type(e).__name__}: {e}'
    cols = {k: ''.join(map(str, v)) for k, v in got.items()}
    return ('correct' if cols == expect else 'WRONG'), f'obtained {cols}, Verilog semantics {expect}; warnings {[w for w in log.getvalue().splitlines() if " W " in w][:2]}'
