"""Correspondence of Model/Launch.v with the pure-Python CUDA stand-in (kyupy.MockCuda) and with WaveSimCuda's grid
computation: a probe kernel records cuda.grid(2) of every kernel instance the real launcher runs; the Coq model must
produce exactly that sequence, and the instances inside the bounds must be `threads X Y bx by` for the grid that
WaveSimCuda._grid_dim / kyupy.cdiv compute."""
from harness import circgen as cg


def trace_launch(gx, gy, bx, by):
    import kyupy
    cuda = kyupy.MockCuda()
    seen = []

    def probe():
        seen.append(tuple(int(v) for v in cuda.grid(2)))
    cuda.jit(probe)[(gx, gy), (bx, by)]()
    # the decorator form with arguments is the one wave_sim uses for device functions
    return seen


def gen_dims(rng, n):
    dims = [(1, 1, 32, 16), (2, 1, 32, 16), (2, 3, 32, 16), (3, 2, 4, 2), (2, 2, 2, 5), (1, 4, 3, 1), (0, 2, 3, 3), (2, 0, 3, 3)]
    while len(dims) < n:
        dims.append((rng.randint(0, 4), rng.randint(0, 4), rng.randint(1, 6), rng.randint(1, 6)))
    return dims[:n]


def gen_bounds(rng, n):
    b = [(8, 5, 32, 16), (32, 16, 32, 16), (33, 17, 32, 16), (40, 3, 32, 16), (64, 40, 32, 16), (49, 1, 32, 16), (0, 7, 32, 16), (5, 0, 32, 16)]
    while len(b) < n:
        b.append((rng.randint(0, 70), rng.randint(0, 40), rng.choice([32, 1, 2, 3, 7]), rng.choice([16, 1, 2, 5])))
    return b[:n]


def run(ck, rng, n=24):
    """returns list of (key, what, replay) failures; records one correspondence obligation"""
    import kyupy
    from kyupy import wave_sim
    fails = []
    pairs = lambda l: cg.coq_list(l, lambda p: f'({p[0]}, {p[1]})')
    cases = []
    descs = []
    for gx, gy, bx, by in gen_dims(rng, n):
        got = trace_launch(gx, gy, bx, by)
        cases.append(f'list_eqb (launch {gx} {gy} {bx} {by}) {pairs(got)}')
        descs.append({'kind': 'launch', 'grid': [gx, gy], 'block': [bx, by], 'implementation_threads': len(got)})
        ck.count(1, 'launcher: kernel[grid, block] thread sequences')
        ck.nontrivial(('launch', gx, gy, bx, by))
    for X, Y, bx, by in gen_bounds(rng, n):
        grid = (kyupy.cdiv(X, bx), kyupy.cdiv(Y, by))
        got = [p for p in trace_launch(grid[0], grid[1], bx, by) if p[0] < X and p[1] < Y]
        exact_once = sorted(got) == [(x, y) for x in range(X) for y in range(Y)]
        if not exact_once:
            fails.append(('launch:cover', f'launching over {X} x {Y} instances with block ({bx},{by}) does not run every in-range instance exactly once '
                          f'({len(got)} in-range instances, {len(set(got))} distinct, expected {X * Y})',
                          {'component': 'kyupy.MockCuda launcher / cdiv', 'input': {'X': X, 'Y': Y, 'block': [bx, by], 'grid': list(grid)}}))
        cases.append(f'list_eqb (threads {X} {Y} {bx} {by}) {pairs(got)} && Nat.eqb (cdiv {X} {bx}) {grid[0]} && Nat.eqb (cdiv {Y} {by}) {grid[1]}')
        descs.append({'kind': 'threads', 'X': X, 'Y': Y, 'block': [bx, by], 'grid': list(grid)})
        ck.count(1, 'launcher: in-range instances of a bounded launch')
        ck.nontrivial(('threads', X, Y, bx, by))
    # WaveSimCuda's own grid computation and block shape
    try:
        bd = None
        import inspect
        src = inspect.getsource(wave_sim.WaveSimCuda.__init__)
        import re
        m = re.search(r'_block_dim\s*=\s*\((\d+)\s*,\s*(\d+)\)', src)
        bd = (int(m.group(1)), int(m.group(2))) if m else None
    except Exception:
        bd = None
    ck.dist['WaveSimCuda._block_dim'] = str(bd)
    text = ('From Coq Require Import List Arith Bool.\nFrom KV Require Import Model.Launch.\nImport ListNotations.\n'
            'Definition pair_eqb (a b : nat * nat) := Nat.eqb (fst a) (fst b) && Nat.eqb (snd a) (snd b).\n'
            'Fixpoint list_eqb (a b : list (nat * nat)) : bool := match a, b with [] , [] => true | x :: a\', y :: b\' => pair_eqb x y && list_eqb a\' b\' | _, _ => false end.\n'
            'Definition cases : list bool := [\n  ' + ';\n  '.join(cases) + '].\n'
            'Eval vm_compute in (map fst (filter (fun p => negb (snd p)) (combine (seq 0 (length cases)) cases))).\n')
    ok, out = ck.coq_eval('launch', text)
    bad = cg.parse_nat_list(out) if ok else None
    ck.obligation('Model/Launch.v (launch, threads, cdiv) = kyupy.MockCuda launcher and kyupy.cdiv on generated grid / block shapes',
                  ok and bad == [], 'correspondence', '' if ok and bad == [] else (out[-600:] if not ok else f'cases {bad[:10]} differ: {descs[bad[0]]}'))
    # the same thread sequences on the TRANSLATED source (Gen/LaunchSrc.v, written by translate/gen_launch.py from the current
    # __init__.py); a stale pair of coordinates is passed in to exercise the independence of the earlier state
    from vcheck import gen_all
    res = gen_all.generate(['LaunchSrc'])
    ck.obligation('translate kyupy.MockCuda launcher -> Gen/LaunchSrc.v', res['LaunchSrc'] is None, 'translation', res['LaunchSrc'] or '')
    ck.trust('translator translate/gen_launch.py (fail-closed: the decorator plumbing of MockCuda.jit / grid / __init__ must be the expected syntax '
             'trees; the loop nest of Launcher.__getitem__.inner is translated into actions on the coordinates, vocabulary Model/LaunchSrcLib.v); '
             'its output is additionally compared with the thread sequence of the real launcher')
    if res['LaunchSrc'] is None:
        text_s = text.replace('From KV Require Import Model.Launch.', 'From KV Require Import Model.Launch Model.LaunchSrcLib Gen.LaunchSrc.')
        text_s = text_s.replace('list_eqb (launch ', 'list_eqb (launch_s ').replace('list_eqb (threads ', 'list_eqb (threads_s ')
        text_s = text_s.replace('Definition cases : list bool', (
            'Definition launch_s gx gy bx by_ := fst (launch_src gx gy bx by_ (7, 9)).\n'
            'Definition threads_s X Y bx by_ := filter (fun p => Nat.ltb (fst p) X && Nat.ltb (snd p) Y) (launch_s (cdiv X bx) (cdiv Y by_) bx by_).\n'
            'Definition cases : list bool'), 1)
        ok_s, out_s = ck.coq_eval('launchsrc', text_s)
        bad_s = cg.parse_nat_list(out_s) if ok_s else None
        ck.obligation('translated source Gen/LaunchSrc.v = kyupy.MockCuda launcher on the same grid / block shapes',
                      ok_s and bad_s == [], 'correspondence',
                      '' if ok_s and bad_s == [] else (out_s[-600:] if not ok_s else f'cases {bad_s[:10]} differ: {descs[bad_s[0]]}'))
    if ok and bad:
        for i in bad[:3]:
            fails.append(('launch:model', f'the mock GPU launcher does not enumerate kernel instances as modelled (and proved complete) for {descs[i]}',
                          {'component': 'kyupy.MockCuda launcher', 'input': descs[i]}))
    return fails
