"""C10, resolve_tlib_cells as one theorem over its loop (Properties/C10.v section 7): per-case tie (Model/CircuitResolveSem.v).

A case = (host circuit before the call as tables, the library table restricted to the kinds that occur in the host -- kind name and
implementation as tables --, the canonical view of the real host after Circuit.resolve_tlib_cells(tlib) with the FULL library, the D22
flag computed HERE from the live objects for every library instance of the host, and the number of Circuit.substitute calls the real
loop made).  The Coq side (resolve_case) rebuilds the circuits with circ_of_tables, runs the model's loop (resolve_tlib) and its trace
version (resolve_trace), compares both with the real result, evaluates EVERY hypothesis checker of C10_resolve_function_checked
(cinv_b, io_ok_b, lib_ok_sem_b, lib_total_b, resolve_host_ok_b), the decidable conclusions (result consistent, io_nodes unchanged, no
library kind left) and compares the D22 flag and the number of visited instances.

Two streams: the one-instance hosts of the `resolve:<lib>` stream of vcheck/props/C10.py (every cell definition of the five libraries,
all pins / random pin subsets), and `resolve-multi:<lib>`: hosts with 2-5 instances of different cells of one library that feed each
other, instances created in an order unrelated to the signal flow, unconnected input and output pins (clean-up, also of instances that
are not yet resolved: the case of fix 11c77ac), plus an independent hierarchical evaluation (each instance = its implementation
circuit evaluated on its own by harness/oracle_net.py) against LogicSim on the resolved host.
"""
import re
from harness import circuit_edit as ce
from harness import subst_sem_corr as ssc
from harness import oracle_net as on

HEADER = '''From Coq Require Import List Arith Bool String.
From KV Require Import Model.Circuit Model.CircuitInv Model.CircuitCorr Model.CircuitSubstSem Model.CircuitSubstSem2 Model.CircuitResolveSem.
Import ListNotations.
Local Open Scope string_scope.
Local Open Scope list_scope.
'''

CODES = {1: 'the model of resolve_tlib_cells raises, or its trace version does',
         2: 'the model result (loop or trace version) differs from the real Circuit after resolve_tlib_cells',
         3: 'a hypothesis checker of C10_resolve_function_checked fails (cinv_b / io_ok_b of the host, lib_ok_sem_b, lib_total_b)',
         4: 'a decidable conclusion of C10_resolve_function fails (result consistent, io_nodes unchanged, no library kind left)',
         5: 'the D22 / port flag computed from the live objects differs from resolve_host_ok_b',
         6: 'the number of substituted instances differs from the number of Circuit.substitute calls'}


def snapshot(host, tlib):
    """to be called BEFORE host.resolve_tlib_cells(tlib); installs a counter on host.substitute"""
    kinds = []
    for n in host.nodes:
        if n.kind in tlib.cells and n.kind not in kinds:
            kinds.append(n.kind)
    d22 = True
    for n in host.nodes:
        if n.kind in tlib.cells:
            impl = tlib.cells[n.kind][0]
            if not ssc.flags(n, impl)[2] or any(x is n for x in host.io_nodes):
                d22 = False
    flat = all(x.kind not in tlib.cells for k in kinds for x in tlib.cells[k][0].nodes)
    calls = []
    orig = host.substitute

    def counting(node, impl):
        calls.append(node.name)
        return orig(node, impl)
    host.substitute = counting
    return {'host': ssc.tables(host), 'lib': [(k, ssc.tables(tlib.cells[k][0])) for k in kinds], 'd22': d22, 'flat': flat, 'calls': calls}


def finish(snap, host_after):
    try:
        del host_after.substitute
    except AttributeError:
        pass
    snap['after'] = ce.view(host_after)
    snap['visited'] = len(snap.pop('calls'))
    return snap


def coq_case(q, s):
    b = lambda x: 'true' if x else 'false'
    lib = '[' + '; '.join(f'({q(k)}, {ssc.coq_tables(q, t)})' for k, t in s['lib']) + ']'
    return f'(resolve_case {ssc.coq_tables(q, s["host"])} {lib} {ce.coq_view(q, s["after"])} {b(s["d22"])} {s["visited"]})'


def cases_file(snaps):
    q = ce.Strings()
    cases = [coq_case(q, s) for s in snaps]
    body = ''.join(f'\n(RC {x}' for x in cases) + ' RN' + ')' * len(cases)
    return HEADER + q.defs() + f'Definition results : rcases := {body}.\nEval vm_compute in (failing_scases 0 (of_rcases results)).\n'


parse_pairs = ssc.parse_pairs


# ----------------------------------------------------------------------------------------------------
# multi-instance hosts
def comb_small(tlib):
    """names of combinational cells with at most 4 inputs whose gates the oracle knows (one name per definition)"""
    out, seen = [], set()
    for kind, (impl, pins) in tlib.cells.items():
        if id(impl) in seen:
            continue
        seen.add(id(impl))
        if any(on.is_seq(n) for n in impl.nodes):
            continue
        if sum(1 for p in pins.values() if not p[1]) > 4 or not any(p[1] for p in pins.values()):
            continue
        if on.has_loop_or_unknown(impl):
            continue
        out.append(kind)
    return out


def seq_small(tlib):
    out, seen = [], set()
    for kind, (impl, pins) in tlib.cells.items():
        if id(impl) in seen:
            continue
        seen.add(id(impl))
        if any(on.is_seq(n) for n in impl.nodes) and sum(1 for p in pins.values() if not p[1]) <= 5:
            out.append(kind)
    return out


def multi_host(rng, tlib, comb, seq):
    """(host, description, has_seq)"""
    from kyupy.circuit import Circuit, Node, Line
    # directed: u0 drives ONLY u1, no output of u1 is connected, u1 is created (= visited) BEFORE u0: the clean-up of u1's substitution
    # deletes the still unresolved library instance u0 (the situation of fix 11c77ac)
    directed = rng.random() < 0.25
    n_inst = 3 if directed else rng.randint(2, 5)
    kinds = [rng.choice(comb) for _ in range(n_inst)]
    has_seq = False
    if seq and rng.random() < 0.25:
        kinds[rng.randrange(n_inst)] = rng.choice(seq)
        has_seq = True
    host = Circuit('multi')
    order = list(range(n_inst))
    if directed:
        order = [1, 0, 2] if rng.random() < 0.7 else [0, 1, 2]
    elif rng.random() < 0.6:
        rng.shuffle(order)                     # creation order (= order of the loop) unrelated to the signal flow
    us = [None] * n_inst
    n_pi = rng.randint(1, 4)
    sigs = []

    def make_pis():
        for k in range(n_pi):
            p = Node(host, f'pi{k}', 'input'); host.io_nodes.append(p)
            f = Node(host, f'wi{k}')
            Line(host, p, f)
            sigs.append(f)
    early = rng.random() < 0.5
    if early:
        make_pis()
    for j in order:
        us[j] = Node(host, f'u{j}', kinds[j])
    if not early:
        make_pis()
    n_po = 0
    for j in range(n_inst):                    # wiring follows the signal flow u0 -> u1 -> ...
        impl, pins = tlib.cells[kinds[j]]
        ins = sorted((p[0], nm) for nm, p in pins.items() if not p[1])
        outs = sorted((p[0], nm) for nm, p in pins.items() if p[1])
        p_in = 1.0 if rng.random() < 0.5 else 0.8
        excl = None
        for idx, nm in ins:
            if directed and j == 1 and idx == ins[0][0]:
                Line(host, sigs[-1], (us[j], idx))
                excl = sigs.pop()              # u1 is the only reader of u0's output
            elif rng.random() < p_in:
                Line(host, rng.choice(sigs), (us[j], idx))
        p_out = 1.0 if rng.random() < 0.4 else 0.6
        for idx, nm in outs:
            if directed and j == 0:
                if idx == outs[0][0]:
                    f = Node(host, f'w{j}_{idx}')
                    Line(host, (us[j], idx), f)
                    sigs.append(f)
                continue
            if directed and j == 1:
                continue
            if rng.random() < p_out:
                f = Node(host, f'w{j}_{idx}')
                Line(host, (us[j], idx), f)
                if rng.random() < 0.3:
                    sigs[:] = sigs[:n_pi] + [f]          # the next instance is the ONLY reader: a chain that a clean-up can eat
                else:
                    sigs.append(f)
                if rng.random() < 0.5 or j == n_inst - 1:
                    o = Node(host, f'po{n_po}', 'output'); host.io_nodes.append(o); n_po += 1
                    Line(host, f, o)
    if rng.random() < 0.3:                     # a host gate and a host state element that have nothing to do with the library
        g = Node(host, 'hg', rng.choice(['NAND2', 'XOR2', 'INV1']))
        Line(host, rng.choice(sigs), g)
        if g.kind != 'INV1':
            Line(host, rng.choice(sigs), g)
        f = Node(host, 'whg'); Line(host, g, f)
        if rng.random() < 0.5:
            d = Node(host, 'hd', 'DFF'); Line(host, f, d)
            o = Node(host, 'pohd', 'output'); host.io_nodes.append(o); Line(host, d, o)
        else:
            o = Node(host, 'pohg', 'output'); host.io_nodes.append(o); Line(host, f, o)
    return host, {'kinds': kinds, 'order': order, 'pis': n_pi, 'directed': directed}, has_seq


def hier_eval(host, tlib, stim):
    """{line index: value} of the host with every library instance evaluated through its implementation circuit on its own
    (unconnected instance inputs read 0); stim: value per s_node position.  None where unknown."""
    s_nodes = host.s_nodes
    spos = {n.index: i for i, n in enumerate(s_nodes)}
    io_idx = set(n.index for n in host.io_nodes)
    memo = {}
    inst = {}

    def inst_outs(u):
        if u.index not in inst:
            impl = tlib.cells[u.kind][0]
            ins = [n for n in impl.io_nodes if len(n.ins) == 0]
            outs = [n for n in impl.io_nodes if len(n.ins) > 0]
            st = [0] * len(impl.s_nodes)
            for k, n in enumerate(ins):
                l = u.ins[k] if k < len(u.ins) else None
                v = line_val(l) if l is not None else 0
                st[impl.s_nodes.index(n)] = 0 if v is None else v
            _, cap = on.evaluate(impl, st, on.Alg2)
            inst[u.index] = [cap[impl.s_nodes.index(n)] for n in outs]
        return inst[u.index]

    def line_val(l):
        if l.index in memo:
            return memo[l.index]
        memo[l.index] = None                   # guards against loops
        n = l.driver
        if n.kind in tlib.cells:
            o = inst_outs(n)
            v = o[l.driver_pin] if l.driver_pin < len(o) else None
        elif n.index in io_idx and len(n.ins) > 0 and n.ins[0] is not None and not on.is_seq(n):
            v = line_val(n.ins[0])
        elif n.index in spos:
            v = stim[spos[n.index]]
            if 'dff' in n.kind.lower() and l.driver_pin == 1:
                v = 1 - v
        elif n.kind == '__fork__':
            v = line_val(n.ins[0]) if len(n.ins) > 0 and n.ins[0] is not None else 0
        else:
            fam = on.family(n.kind)
            ins = [(line_val(n.ins[k]) if k < len(n.ins) and n.ins[k] is not None else None) for k in range(4)]
            v = on.gate_fn(on.Alg2, fam, ins) if (fam is not None and l.driver_pin == 0) else None
        memo[l.index] = v
        return v
    return {n.index: (line_val(n.ins[0]) if len(n.ins) > 0 and n.ins[0] is not None else None) for n in s_nodes}


def multi_case(rng, lib, tlib, comb, seq, capture_table, post=None):
    """(snapshot or None, description, failure message or None, failure class); post(resolved circuit) -> message or None is an extra
    check of the result (C10: eliminate_1to1_forks after resolve_tlib_cells)"""
    import itertools
    host, desc, has_seq = multi_host(rng, tlib, comb, seq)
    desc.update({'kind': 'resolve-multi', 'library': lib, 'host': ssc.tables(host)})
    before = [(n.name, n.kind) for n in host.s_nodes[:len(host.io_nodes)]]
    r = host.copy()
    snap = snapshot(r, tlib)
    try:
        r.resolve_tlib_cells(tlib)
    except Exception as e:
        return None, desc, f'resolve_tlib_cells raises {type(e).__name__}: {e}', 'raises'
    finish(snap, r)
    snap['desc'] = desc
    if ce.invariant(r) is not None:
        return snap, desc, f'the resolved circuit is inconsistent: {ce.invariant(r)}', 'invariant'
    if any(n.kind in tlib.cells for n in r.nodes):
        return snap, desc, 'library cells remain after resolving', 'remain'
    if [(n.name, n.kind) for n in r.s_nodes[:len(r.io_nodes)]] != before:
        return snap, desc, 'resolving changes the names / order of the ports', 'ports'
    if post is not None:
        msg = post(r)
        if msg:
            return snap, desc, msg, 'eliminate'
    if has_seq or not snap['d22']:
        return snap, desc, None, None
    # function at the output ports and at the host's own state element, ports by position, host state by name
    pis = [i for i, n in enumerate(host.s_nodes) if n.kind == 'input']
    hst = [i for i, n in enumerate(host.s_nodes) if i >= len(host.io_nodes)]
    rst = {n.name: i for i, n in enumerate(r.s_nodes) if i >= len(r.io_nodes)}
    rows = list(itertools.product((0, 1), repeat=len(pis) + len(hst)))
    if len(rows) > 32:
        rows = [tuple(rng.randint(0, 1) for _ in range(len(pis) + len(hst))) for _ in range(32)]
    for bits in rows:
        stim = [0] * len(host.s_nodes)
        for i, b in zip(pis + hst, bits):
            stim[i] = b
        exp = hier_eval(host, tlib, stim)
        stim_r = [0] * len(r.s_nodes)
        for i, b in zip(pis, bits[:len(pis)]):
            stim_r[i] = b
        for i, b in zip(hst, bits[len(pis):]):
            nm = host.s_nodes[i].name
            if nm in rst:
                stim_r[rst[nm]] = b
        t = capture_table(r, [stim_r])[:, 0]
        for i, n in enumerate(host.s_nodes):
            if n.kind == 'input':
                continue
            j = i if i < len(host.io_nodes) else rst.get(n.name)
            if j is None:
                continue
            e = exp.get(n.index)
            if e is not None and t[j] >= 0 and t[j] != e:
                return snap, desc, (f'{n.name} for inputs/state {bits}: the resolved circuit gives {t[j]}, the host with every instance read through '
                                    f'its implementation gives {e}'), 'function'
    return snap, desc, None, None


# ----------------------------------------------------------------------------------------------------
def replay_case(inp):
    """True if the case still fails"""
    import os
    from vcheck import core
    from kyupy import techlib
    tlib = getattr(techlib, inp['library'])
    host = ssc.rebuild(inp['host'], 'host')
    snap = snapshot(host, tlib)
    try:
        host.resolve_tlib_cells(tlib)
    except Exception:
        return True
    finish(snap, host)
    os.makedirs(core.CASES, exist_ok=True)
    path = os.path.join(core.CASES, f'C10_replay_rsem_{os.getpid()}.v')
    with open(path, 'w') as f:
        f.write(cases_file([snap]))
    ok, out = core.coqc_file(path, timeout=600)
    core.Check._cleanup_case(path)
    pairs = parse_pairs(out) if ok else None
    return pairs is None or bool(pairs)
