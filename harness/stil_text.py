"""TEXT-level correspondence for stil.py's grammar (C18).

stil.parse(text) -- Lark(stil.GRAMMAR, parser='lalr', transformer=StilTransformer()) + StilFile.__init__ -- is run on
  (i)   the STIL texts harness/stil_gen.py renders (well-formed and edge stream),
  (ii)  own small files written with arbitrary ignored text / ignored blocks, and mutations of (i) and (ii)
        (characters and tokens): both sides must reject, or accept with equal results,
  (iii) fixed corner-case probes (the experiments that determined Model/StilText.v),
  (iv)  texts written by the Python twin of print_stil;
what it handed to StilFile(...) (version token, signal_groups, scan_chains, calls) is what the model's parse_stil
must return; any exception is `None`; a chain list holding None (ScanChain without ScanIn / ScanOut) is outside the
modelled domain and must be flagged so by stil_domain.  Everything is drawn from the random.Random passed in.

Domain of the model: code points < 256 (one Coq ascii per code point); the generators stay inside it."""
import re
from harness.bench_text import cstr
from harness.vlog_corr import quiet, clist, copt

HEADER = '''From Coq Require Import List NArith Bool Arith String Ascii.
From KV Require Import Model.Stil Model.Corr Model.StilText.
Import ListNotations.
Local Open Scope list_scope.
Local Open Scope string_scope.
'''
IGN = r'(?:\r?\n|//[^\n]*|[\t\f ])*'
VERSION_RE = re.compile(IGN + 'STIL' + IGN + r'([-0-9.]+)')


def cases_file(cases):
    return HEADER + 'Definition results : list bool := [\n ' + ';\n '.join(cases) + '].\nEval vm_compute in (failing results).\n'


# ---- the real parser -----------------------------------------------------------------------------------------
def real_parse(text):
    """-> ('ok', (version token, groups | None, chains, calls)) | ('unrep', chains) | ('raise', exception name);
    second result: oracle failure or None"""
    from kyupy import stil
    try:
        with quiet():
            s = stil.parse(text)
    except Exception as e:   # noqa
        return ('raise', type(e).__name__), None
    chains = [(k, list(v)) for k, v in s.scan_chains.items()]
    if any(x is None for _, v in chains for x in v):
        return ('unrep', chains), None
    m = VERSION_RE.match(text)
    bad = None
    if m is None or float(m.group(1)) != s.version:
        bad = f'StilFile.version is {s.version!r}, the text says {m.group(1) if m else None!r}'
    groups = None if s.signal_groups is None else [(k, [str(x) for x in v]) for k, v in s.signal_groups.items()]
    calls = [(str(c.name), [(str(k), str(v)) for k, v in c.parameters.items()]) for c in s.calls]
    return ('ok', (m.group(1) if m else '?', groups, [(str(k), [str(x) for x in v]) for k, v in chains], calls)), bad


def cdict(d, f):
    return clist(d, lambda kv: f'({cstr(kv[0])}, {f(kv[1])})')


def cfile(t):
    ver, groups, chains, calls = t
    g = copt(groups, lambda gs: cdict(gs, lambda v: clist(v, cstr)))
    return ('{| sf_version := %s; sf_groups := %s; sf_chains := %s; sf_calls := %s |}' % (
        cstr(ver), g, cdict(chains, lambda v: clist(v, cstr)),
        clist(calls, lambda c: '{| call_name := %s; call_params := %s |}' % (cstr(c[0]), cdict(c[1], cstr)))))


def text_case(text, res):
    if res[0] == 'unrep':
        return f'stext_case {cstr(text)} false None'
    return f'stext_case {cstr(text)} true {copt(res[1] if res[0] == "ok" else None, cfile)}'


# ---- own generator: token lists with the places where ignored text may go --------------------------------------------
NAMES = ['a', 'b', 'si', 'so', '_pi', '_po', 'top.u1.q_reg.SI', 'x.SI', 'ff[3]', 'n.m', '!', '', 'a b', 'p\nq', 'load_unload',
         'c_capture', 'x_launch', 'A.SIB', '.SI.', "it's", '{', '}', ';', '//', 'ScanIn', 'a.b\nc.d']
VALUES = ['01', '0101N', 'LHXX', '0 1', '01\n10', '01 // c\n 10', 'P', '\\r5 0', "'", '"q"', '{}', '}', '/', '/1', '\r1', '0\r\n1', 'a=b',
          'N' * 9, '0!', '01 ', 'x//', '-']
NOBS = ['x', '* fast *', 'a; b', '"q"=0', 'x // c', 'Ann', "'10ns' D", '\r', '/', 'ScanIn; ', 'STIL', '=', '*', 'x\ny', 'x //y\n z', '\r x']
COMMENTS = ['', ' c', ' }', ' {', ' ";', '{}', '\r', ' STIL 1.0;', '/', ' \t\x0c']


def gen_trivia(rng, rich=True, p_empty=0.5):
    if rng.random() < p_empty:
        return ''
    out = ''
    for _ in range(1 if rng.random() < 0.7 else rng.randint(2, 4)):
        k = rng.random()
        if not rich or k < 0.5:
            out += ' '
        elif k < 0.58:
            out += '\t'
        elif k < 0.62:
            out += '\x0c'
        elif k < 0.77:
            out += '\n'
        elif k < 0.85:
            out += '\r\n'
        else:
            out += '//' + rng.choice(COMMENTS) + rng.choice(['\n', '\n', '\r\n'])
    return out


HOSTILE = [False]     # set by gen_tokens: raw text that unbalances a block (a "//" after other text is no comment)


def gen_ignore(rng, depth=0):
    """one token: the raw text of an ignored block"""
    def seg():
        s = gen_trivia(rng)
        if rng.random() < 0.6:
            s += rng.choice(NOBS)
            if rng.random() < 0.04:
                s += rng.choice([' // }', ' // {', '// }\n'])
                HOSTILE[0] = True
        return s
    out = '{' + seg()
    for _ in range(rng.choice([0, 0, 1, 2]) if depth < 3 else 0):
        out += gen_ignore(rng, depth + 1) + seg()
    return out + '}'


def q(s):
    return '"' + s + '"'


def name(rng):
    n = rng.choice(NAMES)
    return n if '"' not in n else 'n'


def gen_tokens(rng):
    """a STIL file as a token list (str tokens; ('glue', value) marks a call-parameter value that is written directly before
    its ';')"""
    HOSTILE[0] = False
    t = ['STIL', rng.choice(['1.0', '1.0', '0', '1.', '.5', '-1.5', '2005', '1.0.0', '-', '.', '1-2', '--1', '00.10', '-.5', '-5.'])]
    t += [gen_ignore(rng)] if rng.random() < 0.5 else [';']
    kinds = ['groups', 'chains', 'pattern']
    if rng.random() < 0.15:
        kinds.remove(rng.choice(kinds))
    if rng.random() < 0.3:
        kinds.append(rng.choice(['groups', 'chains', 'pattern']))
    kinds += [rng.choice(['ign', 'ign', 'burst', 'user']) for _ in range(rng.randint(0, 3))]
    rng.shuffle(kinds)
    for k in kinds:
        if k == 'ign':
            t += [rng.choice(['Header', 'Signals', 'Timing', 'PatternExec', 'Procedures', 'MacroDefs']), gen_ignore(rng)]
        elif k == 'burst':
            t += ['PatternBurst', q(name(rng)), gen_ignore(rng)]
        elif k == 'user':
            t += ['UserKeywords', rng.choice(['', 'abc', 'ScanIn', 'Z']) + ';']
        elif k == 'groups':
            t += ['SignalGroups', '{']
            for _ in range(rng.randint(0, 4)):
                t += [q(rng.choice(['_pi', '_po', '_si', 'g', name(rng)])), '=', "'", q(name(rng))]
                for _ in range(rng.choice([0, 0, 1, 3])):
                    t += ['+', q(name(rng))]
                t += ["'"]
                if rng.random() < 0.3:
                    t += [gen_ignore(rng)]
                if rng.random() < 0.7:
                    t += [';']
            t += ['}']
        elif k == 'chains':
            t += ['ScanStructures', '{']
            for _ in range(rng.choice([0, 1, 1, 2, 3])):
                t += ['ScanChain', q(rng.choice(['1', '2', 'c', name(rng)])), '{']
                items = ['in', 'out', 'cells']
                if rng.random() < 0.12:
                    items.remove(rng.choice(items))
                items += [rng.choice(['len', 'inv', 'clk', 'in', 'out', 'cells']) for _ in range(rng.randint(0, 3))]
                rng.shuffle(items)
                for it in items:
                    if it == 'in':
                        t += ['ScanIn', q(name(rng)), ';']
                    elif it == 'out':
                        t += ['ScanOut', q(name(rng)), ';']
                    elif it == 'clk':
                        t += ['ScanMasterClock', q(name(rng)), ';']
                    elif it == 'len':
                        t += ['ScanLength', str(rng.choice([0, 3, 417, '007'])), ';']
                    elif it == 'inv':
                        t += ['ScanInversion', str(rng.randint(0, 1)), ';']
                    else:
                        t += ['ScanCells'] + [('!' if rng.random() < 0.3 else q(name(rng))) for _ in range(rng.randint(0, 5))] + [';']
                t += ['}']
            t += ['}']
        else:
            t += ['Pattern', q(name(rng)), '{']
            for _ in range(rng.randint(0, 6)):
                k2 = rng.random()
                if k2 < 0.1:
                    t += [q(name(rng)), ':']
                elif k2 < 0.2:
                    t += ['W', q(name(rng)), ';']
                elif k2 < 0.3:
                    t += ['Macro', q(name(rng)), ';']
                elif k2 < 0.4:
                    t += ['C', gen_ignore(rng)]
                elif k2 < 0.5:
                    t += ['Ann', gen_ignore(rng)]
                else:
                    t += ['Call', q(rng.choice(['load_unload', 'load_unload', 'x_capture', 'y_launch', name(rng)])), '{']
                    for _ in range(rng.randint(0, 3)):
                        t += [q(rng.choice(['si', 'so', '_pi', '_po', name(rng)])), '=', ('glue', rng.choice(VALUES)), ';']
                    t += ['}']
            t += ['}']
    return t


def render(toks, rng, rich=True):
    out = gen_trivia(rng, rich)
    for tk in toks:
        if isinstance(tk, tuple):
            out += tk[1]                       # the value; its ';' follows directly
        else:
            out += tk + gen_trivia(rng, rich)
    if rich and rng.random() < 0.15:
        out += '//' + rng.choice(COMMENTS)
    return out


MUT_CHARS = '{}{}"";;\'=+:!/\r\n .-0aZ\x0b\x0c\t\xe9\\#'
KW_ALL = ['STIL', 'Header', 'Signals', 'Timing', 'PatternBurst', 'PatternExec', 'Procedures', 'MacroDefs', 'UserKeywords', 'SignalGroups',
          'ScanStructures', 'ScanChain', 'ScanLength', 'ScanIn', 'ScanOut', 'ScanInversion', 'ScanCells', 'ScanMasterClock', 'Pattern', 'W', 'C',
          'Macro', 'Ann', 'Call']


def mutate_chars(text, rng):
    st = rng.random()
    if st < 0.3 and text:
        i = rng.randrange(len(text))
        return text[:i] + text[i + 1:]
    if st < 0.7:
        i = rng.randint(0, len(text))
        return text[:i] + rng.choice(MUT_CHARS) + text[i:]
    i = rng.randrange(len(text))
    return text[:i] + rng.choice(MUT_CHARS) + text[i + 1:]


def mutate_tokens(toks, rng):
    t2 = list(toks)
    st = rng.random()
    if st < 0.2 and t2:
        i = rng.randrange(len(t2))
        t2.insert(i, t2[i])
    elif st < 0.4 and len(t2) > 1:
        i = rng.randrange(len(t2) - 1)
        t2[i], t2[i + 1] = t2[i + 1], t2[i]
    elif st < 0.6 and t2:
        del t2[rng.randrange(len(t2))]
    elif st < 0.8:
        kws = [i for i, t in enumerate(t2) if t in KW_ALL]
        if kws:
            i = rng.choice(kws)
            t2[i] = rng.choice([t2[i].lower(), t2[i] + 's', t2[i][:-1], rng.choice(KW_ALL), t2[i] + rng.choice(KW_ALL), t2[i].upper()])
    else:
        t2.insert(rng.randint(0, len(t2)), rng.choice(KW_ALL + ['{', '}', ';', '=', "'", '+', ':', '!', '"x"', '1.0', '7', 'foo']))
    return t2


# focused probes of the structures where the domain / raise decisions are taken
def gen_small(rng):
    toks = gen_tokens(rng)
    st = rng.random()
    if st < 0.45:
        return render(toks, rng), ('hostile' if HOSTILE[0] else 'rendered')
    if st < 0.7:
        return render(mutate_tokens(toks, rng), rng), 'token-mutation'
    text = render(toks, rng)
    for _ in range(rng.choice([1, 1, 2])):
        text = mutate_chars(text, rng)
    return text, 'char-mutation'


SYNTAX_ERRORS = ('UnexpectedToken', 'UnexpectedCharacters', 'UnexpectedEOF', 'UnexpectedInput')


def small_case(rng):
    text, stream = gen_small(rng)
    res, bad = real_parse(text)
    desc = {'kind': 'stil-text', 'stream': stream, 'text': text, 'result': res[0], 'raises': res[1] if res[0] == 'raise' else None,
            'parsed': repr(res[1])[:600]}
    if bad is None and stream == 'rendered' and res[0] == 'raise' and res[1] in SYNTAX_ERRORS:
        bad = f'a STIL text rendered from a token list of the grammar is rejected by lark ({res[1]})'
    return [text_case(text, res)], desc, bad


def big_case(text, rng, mutations):
    """the text of harness/stil_gen.py itself plus character mutations of it"""
    cases, descs = [], []
    res, bad = real_parse(text)
    cases.append(text_case(text, res))
    descs.append({'kind': 'stil-text', 'stream': 'stil_gen', 'text': text, 'result': res[0], 'raises': res[1] if res[0] == 'raise' else None})
    for _ in range(mutations):
        t2 = text
        for _ in range(rng.choice([1, 1, 2, 3])):
            t2 = mutate_chars(t2, rng)
        if rng.random() < 0.3:        # a keyword-level change
            kw = rng.choice([k for k in KW_ALL if k in t2] or ['STIL'])
            t2 = t2.replace(kw, rng.choice([kw.lower(), kw[:-1], kw + 'x', rng.choice(KW_ALL)]), 1)
        r2, b2 = real_parse(t2)
        bad = bad or b2
        cases.append(text_case(t2, r2))
        descs.append({'kind': 'stil-text', 'stream': 'stil_gen-mutation', 'text': t2, 'result': r2[0], 'raises': r2[1] if r2[0] == 'raise' else None})
    return cases, descs, bad


# ---- the probes that determined the model; checked on every run -------------------------------------------------------------
SS = 'ScanStructures { ScanChain "1" { ScanIn "si"; ScanOut "so"; ScanCells "a" ! "b"; } }'
PT = 'Pattern "p" { Call "load_unload" { "si"=01; } }'


def full(head='STIL 1.0;', pre='', mid='', post='', ss=SS, p=PT):
    return f'{head} {pre} {ss} {mid} {p} {post}'


def chain(body):
    return 'ScanStructures { ScanChain "1" { ' + body + ' } }'


def call(body):
    return 'Pattern "p" { Call "load_unload" { ' + body + ' } }'


CORNER_TEXTS = [
    full(), 'STIL 1.0; ' + SS, 'STIL 1.0; ' + PT, 'STIL 1.0;', 'STIL 1.0 { Design 2005; }', full(head='STIL 1.0 { Design 2005; }'),
    'STIL1.0;ScanStructures{ScanChain"1"{ScanIn"si";ScanOut"so";ScanCells"a"!"b";}}Pattern"p"{Call"load_unload"{"si"=01;}}',
    # ignored blocks: comments at segment starts swallow braces, after other text they do not
    full(pre='Header { // } \n }'), full(pre='Header { x // } \n }'), full(pre='Header { x \n // } \n }'), full(pre='Header { {a} // } \n }'),
    full(pre='Header { {a} x // } \n }'), full(pre='Header {// {\n}'), full(pre='Header {\r\n// {\r\n}'), full(pre='Header { \r }'), full(pre='Header { \r\n }'),
    full(pre='Header { / }'), full(pre='Header { / / }'), full(pre='Header { /'), full(pre='Header { \r'), full(pre='Header { a { b { c } d } e { } f }'),
    full(pre='Header { } }'), full(pre='Header { { }'), 'STIL 1.0; Header { ', 'STIL 1.0; Header { //', full(pre='Header {}{}'), full(pre='Header'),
    full(pre='Header { } ;'), full(pre='Header {\x0b}'), full(pre='Header {"}"}'), full(pre='Header {//\n}'), full(pre='Header { x{//}\n} }'),
    full(pre='Header { x{y//}\n} }'), full(pre='Header { {}//}\n }'), full(pre='Header { {} y//}\n }'),
    # ignored text between tokens
    full(pre='\r'), full(pre='\r\n'), full(pre='\x0b'), full(pre='\x0c\t'), '//c\n' + full(), full(post='// end'), full(post='// end\n'), full(post='x'),
    full(pre='/'), full(pre='/ /'), full(pre='//'), full(post='/'), '\r\nSTIL\r\n1.0\r\n;\r\n' + SS + '\r\n' + PT + '\r\n', full().replace(' ', '\r'),
    full().replace(' ', ' //c\n'), full().replace(' ', ' //c\r\n'), full().replace(';', ' ;'), full().replace('"si"', ' "si" '),
    # call parameters
    full(p=call('"si"= 01 // c\n 10;')), full(p=call('"si"= // c;\n 10;')), full(p=call('"si"= {}";')), full(p=call('"si"=;')), full(p=call('"si"=  ;')),
    full(p=call('"si"= //c\n;')), full(p=call('"si"=\r1;')), full(p=call('"si"=\r\n1;')), full(p=call('"si"=/1;')), full(p=call('"si"=//1;')),
    full(p=call('"si"=0\r\n1;')), full(p=call('"si"=01 ;')), full(p=call('"si"=0;"si"=1;"so"=H;')), full(p=call('"si"=01')), full(p=call('"si"=01; ;')),
    full(p=call('"si" 01;')), full(p=call('"si"=="01";')), full(p=call('si=01;')), full(p=call('')), full(p=call('"si"=\n0\n1\n;')),
    'STIL 1.0; ' + SS + ' Pattern "p" { Call "x" { "a"=01', full(p=call('"a"="b"="c";')), full(p=call("\"si\"='01';")), full(p=call('"si"=01;}')),
    # scan chains
    full(ss=chain('ScanIn "si"; ScanOut "so"; ScanCells ;')), full(ss=chain('ScanIn "si"; ScanOut "so";')), full(ss=chain('ScanOut "so"; ScanCells "a";')),
    full(ss=chain('ScanIn "si"; ScanCells "a";')), full(ss=chain('ScanCells "a";')), full(ss=chain('')), full(ss='ScanStructures { }'),
    full(ss=chain('ScanIn "si"; ScanOut "so"; ScanCells!"a"!!"b"!;')), full(ss=chain('ScanIn "si"; ScanOut "so"; ScanCells "!" "a";')),
    full(ss=chain('ScanIn "si"; ScanOut "so"; ScanCells "top.a.SI" "x.SI.y" "a.b\nc.d" "a.SIb" ".SI" "a..SI" "a.S.SII" "a.SI.SI" ".S.SII" "q\n.SI";')),
    full(ss=chain('ScanIn "si"; ScanCells "a"; ScanOut "so"; ScanCells "b"; ScanIn "si2";')),
    full(ss='ScanStructures { ScanChain "1" { ScanIn "si"; ScanOut "so"; ScanCells "a"; } ScanChain "2" { ScanIn "s2"; ScanOut "o2"; ScanCells "b"; } '
            'ScanChain "1" { ScanIn "si3"; ScanOut "so3"; ScanCells "c"; } }'),
    full(ss='ScanStructures { ScanChain "1" { ScanOut "so"; ScanCells "a"; } ScanChain "1" { ScanIn "si3"; ScanOut "so3"; ScanCells "c"; } }'),
    full(ss='ScanStructures { ScanChain "1" { ScanIn "si3"; ScanOut "so3"; ScanCells "c"; } ScanChain "1" { ScanOut "so"; ScanCells "a"; } }'),
    full(mid=SS.replace('"a"', '"zz"')), full(mid=chain('ScanIn "x";')), full(pre=chain('ScanIn "x";')), full(pre=chain('ScanIn "x"; ScanCells;')),
    full(ss=chain('ScanIn version "si"; ScanOut "so"; ScanCells "a";')), full(ss=chain('ScanInversion 1; ScanLength 2; ScanMasterClock "c"; ScanIn "si"; ScanOut "so"; ScanCells "a";')),
    full(ss=chain('ScanLength2;ScanIn "si"; ScanOut "so"; ScanCells "a";')), full(ss=chain('ScanLength -2;ScanIn "si"; ScanOut "so"; ScanCells "a";')),
    full(ss=chain('ScanLength ;ScanIn "si"; ScanOut "so"; ScanCells "a";')), full(ss=chain('ScanLength 2 3;ScanIn "si"; ScanOut "so"; ScanCells "a";')),
    full(ss=chain('ScanInversion1;ScanIn"si";ScanOut"so";ScanCells"a";')), full(ss=chain('ScanIn "si" ScanOut "so"; ScanCells "a";')),
    full(ss=chain('ScanIn "si"; ScanOut "so"; ScanCells "a"')), full(ss=chain('ScanIn "si"; ScanOut "so"; ScanCells "a" 1;')), full(ss=chain('scanIn "si";')),
    full(ss='ScanStructures { ScanChain "1\n2" { ScanIn "si"; ScanOut "so"; ScanCells "a"; } }'), full(ss='ScanStructures { ScanChain { ScanCells; } }'),
    full(ss='ScanStructures { ScanChain "1" { ScanIn "si; ScanOut "so"; ScanCells "a"; } }'),
    # signal groups
    full(pre='SignalGroups { "_pi" = \'"a" + "b"\' ; "_po"=\'"c"\'{ScanOut;} "x"=\'"y"\' { a {b} } ; "z"=\'"w"\' }'), full(pre='SignalGroups { "_pi" = \'\' ; }'),
    full(pre='SignalGroups { "a" = \'"1"\' ; "b"=\'"2"\'; "a"=\'"3"\'; }'), full(pre='SignalGroups { "a" = \'"1"\' ;; }'), full(pre='SignalGroups { "a" = \'"1"\' {x} {y} }'),
    full(pre='SignalGroups { "a" = \'"1"\' ; {x} }'), full(pre='SignalGroups { }'), full(pre='SignalGroups { "a" = \'"1" "2"\' }'), full(pre='SignalGroups { "a" = \'"1" +\' }'),
    full(pre='SignalGroups { "a" = "1" }'), full(pre='SignalGroups { "a" \'"1"\' }'), full(pre='SignalGroups { "a"=\'"1"\'"b"=\'"2"\' }'),
    full(pre='SignalGroups { "a"=\'"1"\' }', mid='SignalGroups { "b"=\'"2"\' }'), full(pre='SignalGroups { "a"=\'"1"+"2"+\n"3"\' // #signals=3\n }'),
    full(pre='SignalGroups { "a"=\'"1"\'{// }\n} }'), full(pre='SignalGroups "x" { }'),
    # other blocks
    full(pre='PatternBurst "b" { PatList { "p" { } } }'), full(pre='PatternBurst { }'), full(pre='PatternBurst"b"{}'), full(pre='PatternExec { PatternBurst "b"; }'),
    full(pre='UserKeywords abc;'), full(pre='UserKeywords ;'), full(pre='UserKeywordsabc;'), full(pre='UserKeywords abc def;'), full(pre='UserKeywords ab1;'),
    full(pre='UserKeywords abc ;'), full(pre='UserKeywords //c\n abc;'), full(pre='UserKeywords'), full(pre='UserKeywords abc'), full(pre='UserKeywords a;b;'),
    full(pre='Signals { "a" In; }'), full(pre='Timing { W "x" { } }'), full(pre='Procedures { }'), full(pre='MacroDefs { }'), full(pre='Macro "x";'),
    full(pre='Pattern "q" { }'), full(post='Pattern "q" { Call "zz" { } }'), full(post='Pattern "q" { }'), full(pre='Patterns "q" { }'), full(pre='PatternB "q" { }'),
    full(pre='Foo { }'), full(pre='header { }'), full(pre='Header{}Signals{}Timing{}'), full(pre='HeaderSignals{}'),
    # pattern statements
    full(p='Pattern "p" { W "w"; "lab": C { "a"=0; } Macro "m"; Ann {* x *} "l2" : Call "load_unload" { "si"=01; "so"=LH; } Call "x_capture" { } }'),
    full(p='Pattern "p" { C { } MacroDefs { } }'), full(p='Pattern "p" { C { } Macro "x"; }'), full(p='Pattern "p" { C{}C{}Call"c"{}Call"d"{} }'),
    full(p='Pattern "p" { Cal "x" { } }'), full(p='Pattern "p" { CallC "x" { } }'), full(p='Pattern "p" { "lab" Call "x" { } }'), full(p='Pattern "p" { "lab":: }'),
    full(p='Pattern "p" { W; }'), full(p='Pattern "p" { Ann }'), full(p='Pattern "p" { Ann {*}*} }'), full(p='Pattern "p" { Call "x" }'), full(p='Pattern { }'),
    full(p='Pattern "p" { "precondition all Signals": C { "_pi"=\\r7 0 ; "_po"=\\r3 X ; } }'), full(p='Pattern "p" { Call "x" { } ; }'),
    full(p='Pattern "p" { Call "a_launch" { "_pi"=0P; } Call "a_capture" { "_pi"=0P; "_po"=LH; } Call "load_unload" { "so"=L\nH; "si"=0\n1; } }'),
    # FLOAT
    full(head='STIL 1.0.0;'), full(head='STIL -1.5;'), full(head='STIL -;'), full(head='STIL .;'), full(head='STIL .5;'), full(head='STIL 5.;'), full(head='STIL 1-2;'),
    full(head='STIL --1;'), full(head='STIL -.5;'), full(head='STIL -5.;'), full(head='STIL 00.10;'), full(head='STIL -.;'), full(head='STIL 1.-;'), full(head='STIL ;'),
    full(head='STIL 1.0'), full(head='STIL 1.0 {} ;'), full(head='STIL 1.0 ; ;'), full(head='STIL 1.0 {}{}'), full(head='STIL 1 0;'), full(head='STIL 1e5;'),
    full(head='STIL +1;'), full(head='STIL 1.0{//}\n};'), full(head='stil 1.0;'), full(head='STIL STIL 1.0;'), full(head='1.0;'),
    '', ' ', 'STIL', '//', '\n', 'STIL 1.0; STIL 1.0;' + SS + PT, full() + full(),
]


# the corner cases that are also recorded as `Example corner_cases` in Proofs/StilTextProofs.v (same texts, results as the real parser
# gives them: tools-free regeneration with coq_examples_text())
COQ_EXAMPLES = [
 ('minimal file', full()),
 ('no separators needed after keywords', 'STIL1.0;ScanStructures{ScanChain"1"{ScanIn"si";ScanOut"so";ScanCells"a"!"b";}}Pattern"p"{Call"load_unload"{"si"=01;}}'),
 ('a comment at the start of an ignored block swallows the brace', full(pre='Header { // } \n }')),
 ('after other raw text // is no comment: the block ends at the first closing brace', full(pre='Header { x // } \n }')),
 ('after an inner block ignored text is skipped again', full(pre='Header { {a} // } \n }')),
 ('... but not after raw text that follows the inner block', full(pre='Header { {a} x // } \n }')),
 ('nested ignored braces', full(pre='Header { a { b { c } d } e { } f }')),
 ('a lone carriage return is raw text inside an ignored block', full(pre='Header { \r }')),
 ('a lone carriage return between tokens raises', full(pre='\r')),
 ('CR LF between tokens', '\r\nSTIL\r\n1.0\r\n;\r\n' + SS + '\r\n' + PT + '\r\n'),
 ('vertical tab raises', full(pre='\x0b')),
 ('comment without newline at the end of the text', full(post='// end')),
 ('call parameter: comment markers and newlines inside the value', full(p=call('"si"= 01 // c\n 10;'))),
 ('call parameter: ignored text (a comment with a semicolon) before the value', full(p=call('"si"= // c;\n 10;'))),
 ('call parameter: braces and quotes in the value', full(p=call('"si"= {}";'))),
 ('call parameter: empty value raises', full(p=call('"si"=  ;'))),
 ('call parameter: a value may start with a lone carriage return', full(p=call('"si"=\r1;'))),
 ('call parameter: repeated name, dict() keeps the first position and the last value', full(p=call('"si"=0;"so"=H;"si"=1;'))),
 ('empty ScanCells', full(ss=chain('ScanIn "si"; ScanOut "so"; ScanCells ;'))),
 ('no ScanCells statement: TypeError', full(ss=chain('ScanIn "si"; ScanOut "so";'))),
 ('markers adjacent to quotes', full(ss=chain('ScanIn "si"; ScanOut "so"; ScanCells!"a"!!"b"!;'))),
 ('hierarchical cell names', full(ss=chain('ScanIn "si"; ScanOut "so"; ScanCells "top.a.SI" "x.SI.y" "a.b\nc.d" "a.SIb" ".SI" "a.S.SII";'))),
 ('the last ScanIn / ScanCells statement counts', full(ss=chain('ScanIn "si"; ScanCells "a"; ScanOut "so"; ScanCells "b"; ScanIn "si2";'))),
 ('ScanInversion is tried before ScanIn', full(ss=chain('ScanIn version "si"; ScanOut "so"; ScanCells "a";'))),
 ('ScanLength / ScanInversion / ScanMasterClock are dropped', full(ss=chain('ScanInversion 1; ScanLength2; ScanMasterClock "c"; ScanIn "si"; ScanOut "so"; ScanCells "a";'))),
 ('signal groups: optional ignored block and semicolon', full(pre='SignalGroups { "_pi" = \'"a" + "b"\' ; "_po"=\'"c"\'{ScanOut;} "x"=\'"y"\' { a {b} } ; "z"=\'"w"\' }')),
 ('signal groups: two semicolons raise', full(pre='SignalGroups { "a" = \'"1"\' ;; }')),
 ('UserKeywords: one word', full(pre='UserKeywordsabc;')),
 ('UserKeywords: no blank before the semicolon', full(pre='UserKeywords abc ;')),
 ('Pattern statements: labels, W, C, Macro, Ann are dropped', full(p='Pattern "p" { W "w"; "lab": C { "a"=0; } Macro "m"; Ann {* x *} "l2" : Call "load_unload" { "si"=01; "so"=LH; } Call "x_capture" { } }')),
 ('the last Pattern block counts', full(post='Pattern "q" { Call "zz" { } }')),
 ('no Pattern block: TypeError', 'STIL 1.0; ' + SS),
 ('no ScanStructures block: AttributeError', 'STIL 1.0; ' + PT),
 ('float() raises', full(head='STIL 1.0.0;')),
 ('negative version', full(head='STIL -.5 { Design 2005; }')),
]
COQ_DOMAIN_EXAMPLES = [('ScanChain without ScanIn: the chain list holds None (outside the domain)', full(ss=chain('ScanOut "so"; ScanCells "a";')))]
CORNER_TEXTS += [t for _, t in COQ_EXAMPLES + COQ_DOMAIN_EXAMPLES if t not in CORNER_TEXTS]


def coq_examples_text():
    lines = []
    for what, t in COQ_EXAMPLES:
        res, bad = real_parse(t)
        assert bad is None and res[0] != 'unrep', what
        lines.append(f'  (* {what} *)\n  parse_stil {cstr(t)} = {copt(res[1] if res[0] == "ok" else None, cfile)}')
    for what, t in COQ_DOMAIN_EXAMPLES:
        res, bad = real_parse(t)
        assert res[0] == 'unrep', what
        lines.append(f'  (* {what} *)\n  stil_domain {cstr(t)} = false')
    return 'Example corner_cases :\n' + ' /\\\n'.join(lines) + '.\nProof. vm_compute. repeat split. Qed.\n'


def corner_cases():
    cases, descs, bad = [], [], None
    for text in CORNER_TEXTS:
        res, b = real_parse(text)
        bad = bad or b
        cases.append(text_case(text, res))
        descs.append({'kind': 'stil-text', 'stream': 'corner', 'text': text, 'result': res[0], 'raises': res[1] if res[0] == 'raise' else None,
                      'parsed': repr(res[1])[:600]})
    return cases, descs, bad


# ---- Python twin of print_stil ------------------------------------------------------------------------------------------------------
PR_NAMES = ['a', 'b', 'si', 'so', '_pi', '_po', 'ff[3]', 'q_reg_0_', 'a b', 'p\nq', 'load_unload', 'c_capture', 'x_launch', "it's", '{', '}', ';', '//', '!x', 'ScanIn',
            '', 'test_si1', 'test_so1', 'u/v', '\r']
PR_VALUES = ['01', '0101N', 'LHXX', '0 1', '01\n10', '01 // c\n 10', 'P', '\\r5 0', "'", '"q"', '{}', '}', '/', '/1', '\r1', '0\r\n1', 'a=b', '0!', '01 ', '-']


def gen_file(rng):
    """(version, groups | None, chains, calls) satisfying wf_file"""
    def uniq(k, pool):
        return rng.sample(pool, min(k, len(pool)))
    ver = rng.choice(['1.0', '0', '1.', '.5', '-1.5', '2005', '00.10', '-.5', '-5.'])
    groups = None
    if rng.random() < 0.8:
        groups = [(g, [rng.choice(PR_NAMES) for _ in range(rng.randint(1, 4))]) for g in uniq(rng.randint(0, 4), PR_NAMES)]
    chains = []
    for nm in uniq(rng.choice([0, 1, 1, 2, 3]), PR_NAMES):
        mid = [('!' if rng.random() < 0.3 else rng.choice(PR_NAMES)) for _ in range(rng.randint(0, 5))]
        chains.append((nm, [rng.choice(PR_NAMES)] + mid + [rng.choice(PR_NAMES)]))
    calls = []
    for _ in range(rng.randint(0, 5)):
        calls.append((rng.choice(['load_unload', 'x_capture', 'y_launch'] + PR_NAMES),
                      [(k, rng.choice(PR_VALUES)) for k in uniq(rng.randint(0, 3), PR_NAMES)]))
    return ver, groups, chains, calls


def py_print(f):
    ver, groups, chains, calls = f
    out = 'STIL ' + ver + ';'
    if groups is not None:
        out += '\nSignalGroups {'
        for g, ms in groups:
            out += '\n ' + q(g) + " = '" + ' + '.join(q(m) for m in ms) + "';"
        out += '\n}'
    out += '\nScanStructures {'
    for nm, ch in chains:
        out += '\n ScanChain ' + q(nm) + ' { ScanIn ' + q(ch[0]) + '; ScanOut ' + q(ch[-1]) + '; ScanCells' + \
               ''.join(' !' if x == '!' else ' ' + q(x) for x in ch[1:-1]) + '; }'
    out += '\n}\nPattern "_pattern_" {'
    for nm, ps in calls:
        out += '\n Call ' + q(nm) + ' {' + ''.join(' ' + q(k) + '=' + v + ';' for k, v in ps) + ' }'
    return out + '\n}\n'


def print_case(rng):
    f = gen_file(rng)
    text = py_print(f)
    res, bad = real_parse(text)
    if bad is None and (res[0] != 'ok' or res[1] != f):
        bad = f'print_stil of {f} is read back by the real parser as {res}'
    return [f'sprint_case {cfile(f)} {cstr(text)}', text_case(text, res)], {'kind': 'stil-print', 'text': text, 'result': res[0]}, bad
