"""DEF files with a generator-owned structured ground truth (C20).

gen_def(rng)           -> ground truth (plain JSON-able lists / dicts; all coordinates RESOLVED, plus flags that say
                          which coordinates the text writes as '*')
render(gt, rng)        -> DEF text with whitespace / comment / section-order variation
check_file(gt, d)      -> oracle: list of (key, message) for every difference between what def_file.parse returned and
                          what the ground truth states (sections, counts, raw routing statements, resolved wire points,
                          expanded vias, per-layer / per-type listings)
build_net(gt_net, sp)  -> DefNet / DefWire objects as the transformer delivers them (direct stream, wider value range)
coq_*                  -> rendering for Model/DefRoute.v
"""

ORIENTS = ['N', 'S', 'E', 'W', 'FN', 'FS', 'FE', 'FW']
LAYERS = ['M1', 'M2', 'M3', 'metal4', 'met5', 'li1', 'M1']          # M1 twice: repeated layers are the interesting case
KEYWORDS = {'END', 'NEW', 'DO', 'BY', 'STEP', 'LAYER', 'DESIGN', 'VIAS', 'NETS', 'PINS', 'COMPONENTS', 'SPECIALNETS', 'ROW', 'TRACKS',
            'UNITS', 'DIEAREA', 'VERSION', 'TAPER', 'TAPERRULE', 'STYLE', 'PLACED', 'PIN', 'PROPERTY', 'WIDTH', 'SPACING', '-', '+', ';',
            '(', ')', '*', 'N', 'S', 'E', 'W', 'FN', 'FS', 'FE', 'FW', 'PROPERTYDEFINITIONS', 'NONDEFAULTRULES', 'PINPROPERTIES'}
STYLES = ['typical', 'typical', 'wildcards', 'arrays', 'via-only', 'unrouted', 'multi-routed', 'sparse', 'shuffled']


# ---------------------------------------------------------------------------------------------------- generator
def _name(rng, kind, used):
    for _ in range(100):
        r = rng.random()
        i = rng.randrange(1000)
        if kind == 'comp':
            n = rng.choice([f'u{i}', f'core/alu/U{i}', f'reg_{i}[{i % 8}]', f'\\inst.{i}', f'g{i}$x', f'{i}_blk', f'FILLER_{i}_{i + 1}'])
        elif kind == 'net':
            n = rng.choice([f'n{i}', f'net[{i}]', f'a/b/n_{i}', f'data[{i % 32}][{i % 4}]', f'N_{i}', f'_{i}_', f'clk-{i}'])
        elif kind == 'spnet':
            n = rng.choice(['VDD', 'VSS', 'vdd!', 'gnd!', f'VDD_{i}', f'vccd{i % 3}', 'VPWR', 'VGND'])
        elif kind == 'via':
            n = rng.choice([f'via{i % 9}', f'VIA{i % 5}{i % 7}', f'via{i % 4}_{i % 3}_2x1', f'M{i % 5 + 1}M{i % 5 + 2}_PR', f'v{i}#c', f'Svia{i % 3}', f'Nv{i % 3}'])
        elif kind == 'pin':
            n = rng.choice([f'p{i}', f'io[{i % 64}]', f'clk{i % 3}', f'rst_n{i % 2}', f'out.{i}'])
        else:
            n = f'{kind}{i}'
        if n not in used and n not in KEYWORDS:
            used.add(n)
            return n
    raise RuntimeError('name space exhausted')


def gen_wire(rng, special, style, vianames, big=False):
    """one routing statement: resolved coordinates + star flags; the first point is always explicit"""
    lim = 10 ** rng.choice([2, 3, 4, 6]) if not big else 10 ** rng.choice([3, 9, 18, 30])
    lo = 0 if not big else -lim
    x, y = rng.randint(lo, lim), rng.randint(lo, lim)
    first = [x, y] + ([rng.randint(0, 50)] if rng.random() < 0.08 else [])
    n_el = rng.choice([1, 1, 2, 2, 3, 4, 5, 8]) if style != 'long' else rng.randint(15, 40)
    if rng.random() < 0.04:
        n_el = rng.randint(15, 30)
    p_via = {'typical': 0.3, 'wildcards': 0.25, 'arrays': 0.55, 'via-only': 0.9}.get(style, 0.3)
    p_star = {'typical': 0.75, 'wildcards': 0.95}.get(style, 0.7)
    elems = []
    for k in range(n_el):
        if rng.random() < p_via and vianames:
            nm = rng.choice(vianames)
            if special:
                if rng.random() < (0.75 if style == 'arrays' else 0.4):
                    r = rng.random()
                    if r < 0.35:      # a row of vias
                        prm = ['array', rng.randint(1, 5), 1, rng.choice([-1, 1]) * rng.randint(1, 500), rng.choice([0, 0, rng.randint(0, 50)])]
                    elif r < 0.6:     # a column
                        prm = ['array', 1, rng.randint(1, 5), rng.choice([0, 0, rng.randint(0, 50)]), rng.choice([-1, 1]) * rng.randint(1, 500)]
                    elif r < 0.93:    # a block
                        prm = ['array', rng.randint(1, 4), rng.randint(1, 4), rng.randint(-300, 300), rng.randint(-300, 300)]
                    else:             # degenerate counts
                        prm = ['array', rng.choice([0, 1, 2]), rng.choice([0, 1, 3]), rng.randint(-9, 9), rng.randint(-9, 9)]
                    if big:
                        prm[3] *= 10 ** 12
                else:
                    prm = None
            else:
                prm = ['orient', rng.choice(ORIENTS)] if rng.random() < 0.5 else None
            elems.append(['via', nm, prm])
        else:
            r = rng.random()
            nx, ny = x, y
            if r < 0.45: nx = rng.randint(lo, lim)
            elif r < 0.9: ny = rng.randint(lo, lim)
            elif r < 0.97: nx, ny = rng.randint(lo, lim), rng.randint(lo, lim)
            sx = nx == x and rng.random() < p_star
            sy = ny == y and rng.random() < p_star
            ext = rng.randint(0, 90) if rng.random() < 0.08 else None
            elems.append(['pt', nx, ny, ext, sx, sy])
            x, y = nx, ny
    w = {'layer': rng.choice(LAYERS), 'first': first, 'elems': elems}
    if special:
        w['width'] = rng.choice([0, 1, 100, 140, 480, 1600, 12000]) if not big else rng.randint(0, 10 ** 20)
        w['opts'] = [o for o in ([['SHAPE', rng.choice(['STRIPE', 'RING', 'FOLLOWPIN', 'IOWIRE', 'COREWIRE'])]] if rng.random() < 0.5 else []) +
                     ([['STYLE', str(rng.randint(0, 3))]] if rng.random() < 0.15 else [])]
    else:
        w['width'] = None
        r = rng.random()
        w['opts'] = ([['TAPER']] if r < 0.1 else [['TAPERRULE', f'rule{rng.randint(0, 3)}']] if r < 0.2 else []) + \
                    ([['STYLE', str(rng.randint(0, 3))]] if rng.random() < 0.1 else [])
    return w


def gen_net(rng, special, style, name, comps, vianames, big=False):
    items = []
    if special:
        for _ in range(rng.choice([0, 1, 1, 2])):
            items.append(['pin', rng.choice(['*', rng.choice(comps) if comps else 'u0']), rng.choice(['VDD', 'VSS', 'vdd', 'VPB'])])
    else:
        for _ in range(rng.choice([0, 1, 2, 2, 3, 5])):
            items.append(['pin', rng.choice(comps + ['PIN']) if comps else 'PIN', rng.choice(['A', 'B', 'Z', 'Q', 'D', 'CK', 'a[3]', 'io'])])
    opts = []
    if rng.random() < 0.6:
        opts.append(['opt', 'USE', rng.choice(['POWER', 'GROUND'] if special else ['SIGNAL', 'CLOCK', 'SIGNAL'])])
    if not special and rng.random() < 0.15:
        opts.append(['opt', 'NONDEFAULTRULE', f'rule{rng.randint(0, 3)}'])
    wiring = []
    n_routed = {'unrouted': rng.choice([0, 0, 1]), 'multi-routed': rng.choice([2, 2, 3]), 'sparse': rng.choice([0, 1])}.get(style, 1)
    if style not in ('unrouted', 'multi-routed', 'sparse') and rng.random() < 0.04:
        n_routed = 0 if rng.random() < 0.5 else 2
    kws = ['ROUTED'] * n_routed
    if rng.random() < 0.2:
        kws.insert(rng.randint(0, len(kws)), rng.choice(['FIXED', 'COVER'] + ([] if special else ['NOSHIELD'])))
    seen = set()
    for kw in kws:
        if kw != 'ROUTED' and kw in seen:
            continue
        seen.add(kw)
        wiring.append(['wiring', kw, [gen_wire(rng, special, style, vianames, big) for _ in range(rng.choice([1, 1, 2, 3, 4]))]])
    before = [o for o in opts if rng.random() < 0.5]
    after = [o for o in opts if o not in before]
    return {'name': name, 'items': items + before + wiring + after}


def gen_def(rng, style=None):
    style = style or rng.choice(STYLES)
    used = set()
    gt = {'style': style, 'leading_comment': rng.random() < 0.3}
    gt['version'] = rng.choice(['5.8', '5.7', '5.6', '5.5'])
    gt['dividerchar'] = rng.choice(['/', '/', '|', '.'])
    gt['busbitchars'] = rng.choice(['[]', '[]', '<>', '()'])
    if style == 'sparse':
        for k in ('version', 'dividerchar', 'busbitchars'):
            if rng.random() < 0.5:
                gt[k] = None
    gt['design'] = _name(rng, 'design', used)
    gt['units'] = [['DISTANCE', 'MICRONS', rng.choice([100, 1000, 2000, 4000])]] if (style != 'sparse' or rng.random() < 0.5) else []
    W, H = rng.randint(10, 10 ** 6), rng.randint(10, 10 ** 6)
    gt['diearea'] = None if (style == 'sparse' and rng.random() < 0.5) else (
        [[0, 0], [W, H]] if rng.random() < 0.8 else [[0, 0], [0, H], [W // 2, H], [W // 2, H // 2], [W, H // 2], [W, 0]])
    rows = []
    for i in range(0 if style == 'sparse' else rng.choice([0, 1, 2, 3, 6])):
        horizontal = rng.random() < 0.8
        cnt, step = rng.choice([1, 1, 2, 17, 1305, 100000]), rng.choice([0, 1, 190, 380, 460, 5000])
        if cnt > 1 and step == 0:
            step = 380
        rows.append({'name': f'ROW_{i}' if rng.random() < 0.8 else _name(rng, 'row', used), 'site': rng.choice(['unit', 'core', 'FreePDK45_38x28_10R_NP_162NW_34O']),
                     'x': rng.randint(0, W), 'y': rng.randint(0, H), 'orient': rng.choice(['N', 'FS', 'S', 'FN']),
                     'do': [cnt, 1, step, 0] if horizontal else [1, cnt, 0, step], 'count': cnt, 'step': step})
    gt['rows'] = rows
    gt['tracks'] = [{'dir': rng.choice('XY'), 'start': rng.randint(0, 5000), 'num': rng.randint(1, 9999), 'step': rng.randint(1, 800),
                     'layer': rng.choice(LAYERS)} for _ in range(0 if style == 'sparse' else rng.choice([0, 2, 4]))]
    vias = []
    for _ in range(rng.choice([0, 1, 2, 4]) if style != 'sparse' else 0):
        opts = []
        if rng.random() < 0.7:
            opts += [['VIARULE', f'rule_{rng.randint(0, 9)}'], ['CUTSIZE', [rng.randint(1, 200), rng.randint(1, 200)]],
                     ['LAYERS', [rng.choice(LAYERS), f'V{rng.randint(1, 5)}', rng.choice(LAYERS)]]]
            if rng.random() < 0.8: opts.append(['CUTSPACING', [rng.randint(0, 200), rng.randint(0, 200)]])
            if rng.random() < 0.8: opts.append(['ENCLOSURE', [rng.randint(0, 99) for _ in range(4)]])
            if rng.random() < 0.5: opts.append(['ROWCOL', [rng.randint(1, 6), rng.randint(1, 6)]])
            if rng.random() < 0.2: opts.append(['PATTERN', f'2_F0F0_{rng.randint(0, 9)}'])
            if rng.random() < 0.3: rng.shuffle(opts)
        vias.append({'name': _name(rng, 'via', used), 'opts': opts})
    gt['vias'] = vias
    vianames = [v['name'] for v in vias] + [_name(rng, 'via', used) for _ in range(rng.choice([1, 2, 3]))]
    comps = [{'name': _name(rng, 'comp', used), 'kind': rng.choice(['AND2_X1', 'sky130_fd_sc_hd__nand2_1', 'DFF_X1', 'FILLCELL_X4', 'INVX1']),
              'x': rng.randint(0, W), 'y': rng.randint(0, H), 'orient': rng.choice(ORIENTS)}
             for _ in range(rng.choice([0, 1, 3, 6, 12]) if style != 'sparse' else rng.choice([0, 1]))]
    gt['components'] = comps
    cnames = [c['name'] for c in comps]
    pins = []
    for _ in range(rng.choice([0, 1, 2, 5]) if style != 'sparse' else 0):
        nm = _name(rng, 'pin', used)
        opts = [['NET', nm if rng.random() < 0.8 else _name(rng, 'net', set())]]
        if rng.random() < 0.1: opts.append(['SPECIAL'])
        if rng.random() < 0.9: opts.append(['DIRECTION', rng.choice(['INPUT', 'OUTPUT', 'INOUT', 'FEEDTHRU'])])
        if rng.random() < 0.8: opts.append(['USE', rng.choice(['SIGNAL', 'CLOCK', 'POWER', 'GROUND'])])
        if rng.random() < 0.1: opts.append(['PORT'])
        if rng.random() < 0.8:
            opts.append(['LAYER', rng.choice(LAYERS), [rng.randint(0, 100), rng.randint(0, 100)], [rng.randint(100, 400), rng.randint(100, 400)]])
            for _ in range(rng.choice([1, 1, 1, 2])):
                opts.append(['PLACED', rng.randint(0, W), rng.randint(0, H), rng.choice(ORIENTS)])
        pins.append({'name': nm, 'opts': opts})
    gt['pins'] = pins
    su, nu = set(), set()
    gt['specialnets'] = [gen_net(rng, True, style, _name(rng, 'spnet', su), cnames, vianames)
                         for _ in range(rng.choice([0, 1, 2, 3]) if style != 'sparse' else rng.choice([0, 1]))]
    gt['nets'] = [gen_net(rng, False, style, _name(rng, 'net', nu), cnames, vianames)
                  for _ in range(rng.choice([1, 2, 4, 7]) if style != 'sparse' else rng.choice([0, 1]))]
    gt['noise'] = [s for s in ('propdef', 'nondef', 'pinprop') if rng.random() < (0.3 if style != 'sparse' else 0.0)]
    order = ['units', 'propdef', 'diearea', 'rows', 'tracks', 'vias', 'nondef', 'components', 'pins', 'pinprop', 'specialnets', 'nets']
    if style == 'shuffled':
        rng.shuffle(order)
    gt['order'] = order
    return gt


# ---------------------------------------------------------------------------------------------------- renderer
def _pt(x, y, ext=None):
    return ['(', '*' if x is None else str(x), '*' if y is None else str(y)] + ([str(ext)] if ext is not None else []) + [')']


def wire_tokens(w, special):
    t = [w['layer']]
    if special:
        t.append(str(w['width']))
        for o in w['opts']:
            t += ['+'] + o
    else:
        for o in w['opts']:
            t += o
    f = w['first']
    t += _pt(f[0], f[1], f[2] if len(f) > 2 else None)
    for e in w['elems']:
        if e[0] == 'pt':
            _, x, y, ext, sx, sy = e
            t += _pt(None if sx else x, None if sy else y, ext)
        else:
            _, nm, prm = e
            t.append(nm)
            if prm is not None and prm[0] == 'orient':
                t.append(prm[1])
            elif prm is not None:
                t += ['DO', str(prm[1]), 'BY', str(prm[2]), 'STEP', str(prm[3]), str(prm[4])]
    return t


def net_tokens(net, special):
    t = ['-', net['name']]
    for it in net['items']:
        if it[0] == 'pin':
            t += ['(', it[1], it[2], ')']
        elif it[0] == 'opt':
            t += ['+', it[1], it[2]]
        else:
            t += ['+', it[1]]
            for i, w in enumerate(it[2]):
                if i: t.append('NEW')
                t += wire_tokens(w, special)
    return t + [';']


def tokens(gt):
    """list of statements, each a list of tokens (a statement boundary is where a line break is customary)"""
    S = []
    if gt['version'] is not None: S.append(['VERSION', gt['version'], ';'])
    if gt['dividerchar'] is not None: S.append(['DIVIDERCHAR', '"%s"' % gt['dividerchar'], ';'])
    if gt['busbitchars'] is not None: S.append(['BUSBITCHARS', '"%s"' % gt['busbitchars'], ';'])
    S.append(['DESIGN', gt['design'], ';'])
    for sec in gt['order']:
        if sec == 'units':
            for u in gt['units']: S.append(['UNITS', u[0], u[1], str(u[2]), ';'])
        elif sec == 'diearea' and gt['diearea'] is not None:
            S.append(['DIEAREA'] + [t for p in gt['diearea'] for t in _pt(p[0], p[1])] + [';'])
        elif sec == 'rows':
            for r in gt['rows']:
                S.append(['ROW', r['name'], r['site'], str(r['x']), str(r['y']), r['orient'], 'DO', str(r['do'][0]), 'BY', str(r['do'][1]),
                          'STEP', str(r['do'][2]), str(r['do'][3]), ';'])
        elif sec == 'tracks':
            for t in gt['tracks']:
                S.append(['TRACKS', t['dir'], str(t['start']), 'DO', str(t['num']), 'STEP', str(t['step']), 'LAYER', t['layer'], ';'])
        elif sec == 'vias' and (gt['vias'] or gt['style'] != 'sparse'):
            S.append(['VIAS', str(len(gt['vias'])), ';'])
            for v in gt['vias']:
                t = ['-', v['name']]
                for o in v['opts']:
                    t += ['+', o[0]] + ([o[1]] if isinstance(o[1], str) else [str(a) for a in o[1]])
                S.append(t + [';'])
            S.append(['END', 'VIAS'])
        elif sec == 'components' and (gt['components'] or gt['style'] != 'sparse'):
            S.append(['COMPONENTS', str(len(gt['components'])), ';'])
            for c in gt['components']:
                S.append(['-', c['name'], c['kind'], '+', 'PLACED'] + _pt(c['x'], c['y']) + [c['orient'], ';'])
            S.append(['END', 'COMPONENTS'])
        elif sec == 'pins' and (gt['pins'] or gt['style'] != 'sparse'):
            S.append(['PINS', str(len(gt['pins'])), ';'])
            for p in gt['pins']:
                t = ['-', p['name']]
                for o in p['opts']:
                    if o[0] == 'LAYER': t += ['+', 'LAYER', o[1]] + _pt(*o[2]) + _pt(*o[3])
                    elif o[0] == 'PLACED': t += ['+', 'PLACED'] + _pt(o[1], o[2]) + [o[3]]
                    else: t += ['+'] + o
                S.append(t + [';'])
            S.append(['END', 'PINS'])
        elif sec in ('specialnets', 'nets') and (gt[sec] or gt['style'] != 'sparse'):
            kw = sec.upper()
            S.append([kw, str(len(gt[sec])), ';'])
            for n in gt[sec]:
                S.append(net_tokens(n, sec == 'specialnets'))
            S.append(['END', kw])
        elif sec == 'propdef' and 'propdef' in gt['noise']:
            S += [['PROPERTYDEFINITIONS'], ['COMPONENTPIN', 'designRuleWidth', 'REAL', ';'], ['END', 'PROPERTYDEFINITIONS']]
        elif sec == 'nondef' and 'nondef' in gt['noise']:
            S += [['NONDEFAULTRULES', '1', ';'], ['-', 'rule0', '+', 'HARDSPACING', '+', 'LAYER', 'M1', 'WIDTH', '100', 'SPACING', '200', '+', 'VIA', 'via0', ';'],
                  ['END', 'NONDEFAULTRULES']]
        elif sec == 'pinprop' and 'pinprop' in gt['noise']:
            S += [['PINPROPERTIES', '1', ';'], ['-', 'PIN', 'p0', '+', 'PROPERTY', 'weight', '"a ( 1 2 ) ; b"', ';'], ['END', 'PINPROPERTIES']]
    S.append(['END', 'DESIGN'])
    return S


COMMENTS = ['# generated', '# - n1 ( u1 Z ) + ROUTED M1 ( 0 0 ) ( * 5 ) ;', '#', '## END DESIGN', '# NEW M2 ( 1 1 ) via1', '# "quoted" ; text']


def render(gt, rng):
    """whitespace / comment variation.  A comment is only recognised by the grammar directly after a whitespace
    character, and the ORIENTATION token swallows one; so a comment always follows two."""
    mode = rng.choice(['plain', 'plain', 'messy', 'oneline', 'commented'])
    out = []
    if gt.get('leading_comment'):
        out.append('# DEF written by the C20 generator\n')

    def sep(end_of_stmt):
        if mode == 'plain':
            return '\n' if end_of_stmt else ' '
        if mode == 'oneline':
            return ' '
        r = rng.random()
        if mode == 'commented' and (r < 0.08 or (end_of_stmt and r < 0.4)):
            return rng.choice(['  ', ' \n', '\n\n', '\t ']) + rng.choice(COMMENTS) + '\n' + rng.choice(['', '  ', '\t'])
        if r < 0.5: return ' '
        if r < 0.7: return '\n' + ' ' * rng.randint(0, 6)
        if r < 0.8: return '\t'
        if r < 0.9: return '   '
        return rng.choice([' \r\n', '\n\n', ' \f ', '\t\t'])

    for st in tokens(gt):
        for i, tk in enumerate(st):
            out.append(tk)
            out.append(sep(i == len(st) - 1))
    return ''.join(out)


# ---------------------------------------------------------------------------------------------------- oracle
def norm(x):
    """tuples -> lists, recursively (ground truth survives a JSON round trip)"""
    if isinstance(x, (list, tuple)):
        return [norm(v) for v in x]
    if isinstance(x, dict):
        return {k: norm(v) for k, v in x.items()}
    return x


def wire_expect(w, special):
    """(raw statement as the transformer should hand it over, resolved wire points, via placements in file order).
    The ground truth owns the resolved coordinates -- nothing is inherited here."""
    f = w['first']
    raw = [list(f)]
    pts = [list(f)]
    cur = (f[0], f[1])
    placed = []
    for e in w['elems']:
        if e[0] == 'pt':
            _, x, y, ext, sx, sy = e
            tail = [] if ext is None else [ext]
            raw.append([None if sx else x, None if sy else y] + tail)
            pts.append([x, y] + tail)
            cur = (x, y)
        else:
            _, nm, prm = e
            if prm is None:
                raw.append([nm, None if special else 'N'])
                placed.append((nm, [cur[0], cur[1], 'N']))
            elif prm[0] == 'orient':
                raw.append([nm, prm[1]])
                placed.append((nm, [cur[0], cur[1], prm[1]]))
            else:
                _, n, m, dx, dy = prm
                raw.append([nm, [n, m, dx, dy]])
                for i in range(n):
                    for j in range(m):
                        placed.append((nm, [cur[0] + i * dx, cur[1] + j * dy, 'N']))
    return raw, (pts if len(pts) > 1 else []), placed


def group(pairs):
    d = {}
    for k, v in pairs:
        d.setdefault(k, []).append(v)
    return [[k, v] for k, v in d.items()]


def net_expect(net, special):
    pins = [[it[1], it[2]] for it in net['items'] if it[0] == 'pin']
    attrs = {it[1].lower(): it[2] for it in net['items'] if it[0] == 'opt'}
    wiring = {}
    for it in net['items']:
        if it[0] == 'wiring':
            wiring.setdefault(it[1].lower(), []).extend(it[2])
    routed = wiring.get('routed', [])
    segs, vias = [], []
    for w in routed:
        raw, pts, placed = wire_expect(w, special)
        if pts:
            segs.append((w['layer'], [w['width'], pts]))
        vias += placed
    return {'pins': pins, 'attrs': attrs,
            'wiring': {kw: [{'layer': w['layer'], 'width': None if w['width'] is None else str(w['width']), 'points': wire_expect(w, special)[0]} for w in ws]
                       for kw, ws in wiring.items()},
            'wires': group(segs), 'vias': group(vias)}


WIRING_KW = ('routed', 'fixed', 'cover', 'noshield')


def listing(net, attr):
    """list(net.wires.items()) / list(net.vias.items()) as plain lists, or ('raises', type, text)"""
    try:
        return norm(list(getattr(net, attr).items()))
    except Exception as e:                                   # noqa
        return ('raises', type(e).__name__, str(e)[:120])


def net_actual(n):
    d = dict(vars(n))
    d.pop('name', None)
    pins = norm(d.pop('pins', None))
    wiring = {}
    for kw in WIRING_KW:
        if kw in d:
            ws = d.pop(kw)
            wiring[kw] = [{'layer': w.layer, 'width': w.width, 'points': norm(w.points)} for w in ws]
    return {'pins': pins, 'attrs': norm(d), 'wiring': wiring, 'wires': listing(n, 'wires'), 'vias': listing(n, 'vias')}


def _has_none(x):
    return x is None or (isinstance(x, list) and any(_has_none(v) for v in x))


def check_net(sec, net, special, got_net, out):
    name = net['name']
    exp = net_expect(net, special)
    if got_net is None:
        out.append((f'{sec}-missing', f'{sec}: net {name!r} is missing from the extracted data'))
        return
    act = net_actual(got_net)
    where = f'{sec}[{name!r}]'
    if act['pins'] != exp['pins']:
        out.append(('net-pins', f'{where}.pins = {act["pins"]}, file states {exp["pins"]}'))
    if act['attrs'] != exp['attrs']:
        out.append(('net-attrs', f'{where} attributes = {act["attrs"]}, file states {exp["attrs"]}'))
    n_routed = sum(1 for it in net['items'] if it[0] == 'wiring' and it[1] == 'ROUTED')
    repeated = any(sum(1 for it in net['items'] if it[0] == 'wiring' and it[1] == kw) > 1 for kw in ('ROUTED', 'FIXED', 'COVER', 'NOSHIELD'))
    empty_ok = {kw: v for kw, v in act['wiring'].items() if v or kw in exp['wiring']}      # an empty default list is fine
    lost_wires = False
    if empty_ok != exp['wiring']:
        cnt = {kw: (len(exp['wiring'].get(kw, [])), len(act['wiring'].get(kw, []))) for kw in set(exp['wiring']) | set(empty_ok)}
        if repeated and any(a < e for e, a in cnt.values()):
            lost_wires = True
            out.append(('repeated-routed', f'{where}: the file has {n_routed} "+ ROUTED" statements; wires per keyword (stated, extracted) = {cnt}: '
                                           f'a later statement replaces the earlier one; .wires = {str(act["wires"])[:150]}, file states {str(exp["wires"])[:250]}'))
        else:
            out.append(('net-wiring', f'{where} routing statements = {str(act["wiring"])[:300]}, file states {str(exp["wiring"])[:300]}'))
    for attr in ('wires', 'vias'):
        a, e = act[attr], exp[attr]
        if a == e or lost_wires:
            continue
        if isinstance(a, tuple):
            if a[1] == 'AttributeError' and n_routed == 0:
                out.append(('unrouted-net-listing', f'{where}.{attr} raises {a[1]}: {a[2]} (the net has no "+ ROUTED" statement; the listing should be empty)'))
            elif a[1] == 'TypeError' and not special and attr == 'wires':
                out.append(('regular-net-wires', f'{where}.{attr} raises {a[1]}: {a[2]} (regular nets carry no wire width)'))
            else:
                out.append((f'net-{attr}-raises', f'{where}.{attr} raises {a[1]}: {a[2]}'))
        elif attr == 'wires' and _has_none([seg[1] for _, segs in a for seg in segs]):
            out.append(('wildcard-wire-points', f'{where}.wires = {str(a)[:300]}: a "*" coordinate is left as None instead of the previous value; '
                                                f'file states {str(e)[:300]}'))
        else:
            out.append((f'net-{attr}', f'{where}.{attr} = {str(a)[:300]}, file states {str(e)[:300]}'))
    # every wire on its own (all keywords): wire_points / vias
    for kw in WIRING_KW:
        ws_gt = [w for it in net['items'] if it[0] == 'wiring' and it[1].lower() == kw for w in it[2]]
        ws = getattr(got_net, kw, None) or []
        if len(ws) != len(ws_gt):
            continue                                           # reported above
        for i, (w, wg) in enumerate(zip(ws, ws_gt)):
            raw, pts, placed = wire_expect(wg, special)
            try:
                gp = norm(w.wire_points)
            except Exception as e:                             # noqa
                gp = ('raises', type(e).__name__, str(e)[:100])
            if gp != pts:
                key = 'wildcard-wire-points' if isinstance(gp, list) and _has_none(gp) else 'wire-points'
                out.append((key, f'{where}.{kw}[{i}].wire_points = {str(gp)[:300]}, file states {str(pts)[:300]}'))
            try:
                gv = norm(list(w.vias.items()))
            except Exception as e:                             # noqa
                gv = ('raises', type(e).__name__, str(e)[:100])
            if gv != group(placed):
                out.append(('wire-vias', f'{where}.{kw}[{i}].vias = {str(gv)[:300]}, file states {str(group(placed))[:300]}'))


def check_file(gt, d):
    """compares everything def_file.parse returned with the ground truth; returns [(key, message)]"""
    out = []

    def cmp(key, what, got, exp):
        if norm(got) != norm(exp):
            out.append((key, f'{what} = {str(norm(got))[:300]}, file states {str(norm(exp))[:300]}'))

    for k in ('version', 'dividerchar', 'busbitchars', 'design'):
        cmp('header', k, getattr(d, k, None), gt[k])
    cmp('units', 'units', d.units, gt['units'])
    cmp('diearea', 'diearea', getattr(d, 'diearea', None), gt['diearea'])
    cmp('rows', 'rows', d.rows, [[r['name'], r['site'], [r['x'], r['y']], r['orient'], r['count'], r['step']] for r in gt['rows']])
    cmp('tracks', 'tracks', d.tracks, [[t['dir'], t['start'], t['num'], t['step'], t['layer']] for t in gt['tracks']])
    ev = []
    for v in gt['vias']:
        a = {'name': v['name'], 'rowcol': [1, 1], 'cutspacing': [0, 0]}
        for o in v['opts']:
            a[o[0].lower()] = o[1]
        ev.append([v['name'], a])
    cmp('vias', 'vias', [[k, vars(v)] for k, v in d.vias.items()], ev)
    cmp('components', 'components', list(d.components.items()), [[c['name'], [c['kind'], [c['x'], c['y']], c['orient']]] for c in gt['components']])
    ep = []
    for p in gt['pins']:
        a = {'name': p['name'], 'points': []}
        for o in p['opts']:
            if o[0] == 'PLACED': a['points'].append([o[1], o[2], o[3]])
            elif o[0] == 'LAYER': a['layer'] = [o[1], o[2], o[3]]
            elif o[0] in ('SPECIAL', 'PORT'): a[o[0].lower()] = []
            else: a[o[0].lower()] = o[1]
        ep.append([p['name'], a])
    cmp('pins', 'pins', [[k, vars(v)] for k, v in d.pins.items()], ep)
    for sec, special in (('specialnets', True), ('nets', False)):
        got = getattr(d, sec)
        cmp(f'{sec}-names', f'{sec} (names, in file order)', list(got.keys()), [n['name'] for n in gt[sec]])
        for n in gt[sec]:
            check_net(sec, n, special, got.get(n['name']), out)
    return out


# ---------------------------------------------------------------------------------------------------- direct stream
def build_net(net, special):
    """the DefNet the (repaired) transformer builds for this ground-truth net -- without going through text, so that values
    the grammar cannot write (negative / huge coordinates) reach DefWire / DefNet as well"""
    from kyupy import def_file
    dn = def_file.DefNet(net['name'])
    for it in net['items']:
        if it[0] == 'pin':
            dn.pins.append((it[1], it[2]))
        elif it[0] == 'opt':
            setattr(dn, it[1].lower(), it[2])
        else:
            ws = []
            for w in it[2]:
                dw = def_file.DefWire()
                dw.layer = w['layer']
                dw.width = None if w['width'] is None else str(w['width'])
                raw = wire_expect(w, special)[0]
                dw.points = [tuple(tuple(v) if isinstance(v, list) else v for v in p) for p in raw]
                ws.append(dw)
            kw = it[1].lower()
            if getattr(dn, kw, None):
                getattr(dn, kw).extend(ws)        # what "all statements accumulate" means; the direct stream never has two statements of a kind
            else:
                setattr(dn, kw, ws)
    return dn


# ---------------------------------------------------------------------------------------------------- Coq rendering
HEADER = '''From Coq Require Import List ZArith Bool Arith String.
From KV Require Import Model.Corr Model.DefRoute.
Import ListNotations.
Local Open Scope list_scope.
Local Open Scope string_scope.
Local Open Scope Z_scope.
'''


def cs(s):
    assert all(32 <= ord(ch) < 127 for ch in s), s
    return '"' + s.replace('"', '""') + '"'


def cz(x):
    return f'({x})' if x < 0 else str(x)


def coz(x):
    return 'None' if x is None else f'(Some {cz(x)})'


def cl(xs):
    return '[' + '; '.join(xs) + ']'


def cpt(p):
    return f'({cz(p[0])}, {cz(p[1])}, {coz(p[2] if len(p) > 2 else None)})'


def coq_wire(w):
    els = []
    for e in w['elems']:
        if e[0] == 'pt':
            _, x, y, ext, sx, sy = e
            els.append(f'EPt {coz(None if sx else x)} {coz(None if sy else y)} {coz(ext)}')
        else:
            _, nm, prm = e
            p = 'VNone' if prm is None and w['width'] is not None else ('(VOrient "N")' if prm is None else
                 f'(VOrient {cs(prm[1])})' if prm[0] == 'orient' else f'(VArray {prm[1]} {prm[2]} {cz(prm[3])} {cz(prm[4])})')
            els.append(f'EVia {cs(nm)} {p}')
    return f'mkWire {cs(w["layer"])} {coz(w["width"])} {cpt(w["first"])} {cl(els)}'


def coq_vias(items):
    return cl(f'({cs(k)}, {cl(f"({cz(v[0])}, {cz(v[1])}, {cs(v[2])})" for v in vs)})' for k, vs in items)


def coq_wires(items):
    return cl(f'({cs(k)}, {cl(f"({coz(wd)}, {cl(cpt(p) for p in pts)})" for wd, pts in segs)})' for k, segs in items)


def coq_net_case(net, act):
    """model on the ground-truth statements vs. the listings the implementation returned (None where it raised or
    returned something that is not even of the right shape, e.g. a None coordinate)"""
    stmts = cl(f'({cs(it[1].lower())}, {cl(coq_wire(w) for w in it[2])})' for it in net['items'] if it[0] == 'wiring')

    def opt(a, f):
        if isinstance(a, tuple):
            return 'None'
        try:
            return f'(Some {f(a)})'
        except Exception:                                      # noqa  (None coordinate etc.)
            return 'None'
    return f'defnet_case {stmts} {opt(act["wires"], coq_wires)} {opt(act["vias"], coq_vias)}'


def coq_wire_case(w, pts, vias):
    try:
        return f'defwire_case ({coq_wire(w)}) {cl(cpt(p) for p in pts)} {coq_vias(vias)}'
    except Exception:                                          # noqa
        return 'false'


def coq_row_case(r, got):
    return (f'defrow_case {cs(r["name"])} {cs(r["site"])} {r["x"]} {r["y"]} {cs(r["orient"])} {cz(r["do"][0])} {cz(r["do"][1])} {cz(r["do"][2])} {cz(r["do"][3])} '
            f'({cs(got[0])}, {cs(got[1])}, ({cz(got[2][0])}, {cz(got[2][1])}), {cs(got[3])}, {cz(got[4])}, {cz(got[5])})')


def coq_track_case(t, got):
    return (f'deftrack_case {cs(t["dir"])} {t["start"]} {t["num"]} {t["step"]} {cs(t["layer"])} '
            f'({cs(got[0])}, {cz(got[1])}, {cz(got[2])}, {cz(got[3])}, {cs(got[4])})')


def cases_file(cases):
    return HEADER + 'Definition results : list bool := [\n ' + ';\n '.join(cases) + '].\nEval vm_compute in (failing results).\n'
