"""C12 / C15, array layer: numpy and kyupy.logic against the shape-polymorphic Coq model (Model/NdArray.v, Model/MvWrappers.v)
on random shapes -- ranks 0..5, axes of length 1 and 0, missing leading axes, incompatible shapes, out=None / caller-supplied
out= of the right shape, with extra leading axes of length 1, of a wrong shape (both must fail) -- plus an independent
oracle that states the wrappers' contract with plain Python loops over multi-indices (own broadcasting rule, no numpy arithmetic).

Arrays are rendered as  A [shape] [elements in index order]; the element order is produced by recursing through the nested
tolist() result, i.e. by numpy's own multi-index semantics, not by ravel()."""
import itertools

import numpy as np

from harness import enc_corr as ec

HEADER = '''From Coq Require Import List ZArith NArith Bool Arith.
From KV Require Import Model.Encodings Model.EncodingsCorr Model.NdArray Model.MvWrappers Model.NdCorr.
Import ListNotations.
Local Open Scope list_scope.
'''

Z, X, U, O = 0, 1, 2, 3


# ------------------------------------------------------------------------------------------------ rendering
def flat(x):
    if isinstance(x, list):
        return [v for y in x for v in flat(y)]
    return [int(x)]


def coq_list(l):
    return '[' + ';'.join(str(int(v)) for v in l) + ']'


def coq_nd(a):
    a = np.asarray(a)
    return f'(A {coq_list(a.shape)} {coq_list(flat(a.tolist()))})'


def coq_opt(x, f=coq_nd):
    return 'None' if x is None else f'(Some {f(x)})'


def cases_file(cases):
    return HEADER + 'Definition cases : list nd_case := [\n ' + ';\n '.join(cases) + '].\nEval vm_compute in (nd_failing cases).\n'


def call(f, *a, **k):
    try:
        return f(*a, **k), None
    except Exception as e:  # noqa
        return None, f'{type(e).__name__}: {e}'


# ------------------------------------------------------------------------------------------------ own broadcasting rule
def py_broadcast(*shapes):
    n = max((len(s) for s in shapes), default=0)
    out = []
    for ax in range(n):
        ds = [s[ax - (n - len(s))] for s in shapes if ax - (n - len(s)) >= 0]
        big = [d for d in ds if d != 1]
        if any(d != big[0] for d in big):
            return None
        out.append(big[0] if big else 1)
    return tuple(out)


def py_bidx(shape, idx):
    """the operand element read for result index idx: right-aligned, 0 on axes of length 1"""
    idx = idx[len(idx) - len(shape):] if len(shape) else ()
    return tuple(0 if d == 1 else i for d, i in zip(shape, idx))


def elem(nested, idx):
    for i in idx:
        nested = nested[i]
    return nested


# ------------------------------------------------------------------------------------------------ generators
def gen_shape(rng, maxrank=4, dims=(0, 1, 1, 2, 2, 3, 3, 5), limit=120):
    while True:
        rank = rng.choice([r for r in (0, 1, 1, 2, 2, 2, 3, 3, 4, 4, 5) if r <= maxrank])
        sh = tuple(rng.choice(dims) for _ in range(rank))
        if int(np.prod(sh, dtype=np.int64)) <= limit:
            return sh


def sub_shape(rng, b, p_one=0.3):
    """a shape that broadcasts to b: some leading axes dropped, some axes of length 1"""
    k = rng.choice([0, 0, 0, 1, 1, 2, len(b)]) if b else 0
    k = min(k, len(b))
    return tuple(1 if rng.random() < p_one else d for d in b[k:])


def gen_pair(rng):
    """(s1, s2): mostly compatible (either operand may be the smaller one), sometimes not"""
    b = gen_shape(rng)
    r = rng.random()
    if r < 0.35:
        s1, s2 = b, sub_shape(rng, b)
    elif r < 0.55:
        s1, s2 = sub_shape(rng, b), b
    elif r < 0.8:
        s1, s2 = sub_shape(rng, b), sub_shape(rng, b)
    else:
        s1, s2 = gen_shape(rng), gen_shape(rng)
    if rng.random() < 0.12 and s2:
        s2 = list(s2)
        i = rng.randrange(len(s2))
        s2[i] = rng.choice([d for d in (0, 1, 2, 3, 4) if d != s2[i]])
        s2 = tuple(s2)
    return s1, s2


def gen_out_shape(rng, s1, s2):
    """None (no out=) or a shape: the broadcast shape, that with extra leading 1 axes, or something else"""
    b = py_broadcast(s1, s2)
    r = rng.random()
    if r < 0.4:
        return None
    if b is not None and r < 0.65:
        return b
    if b is not None and r < 0.75:
        return (1,) * rng.choice([1, 2]) + b
    cand = [s1, s2, tuple(reversed(b or s1)), (b or s1) + (1,), (2,) + (b or s1), gen_shape(rng), (b or s1)[1:],
            tuple(d if d != 1 else 2 for d in (b or s1)), (int(np.prod(b or s1, dtype=np.int64)),)]
    return rng.choice(cand)


def rand_arr(rng, shape, hi=8):
    n = int(np.prod(shape, dtype=np.int64))
    return np.array([rng.randrange(hi) for _ in range(n)], dtype=np.uint8).reshape(shape)


# ------------------------------------------------------------------------------------------------ documented algebra
def s_not(c):
    return X if c in (X, U) else c ^ 3


def s_and(a, b):
    if Z in (a, b): return Z
    if a in (X, U) or b in (X, U): return X
    return (a & b & 3) | ((a | b) & 4)


def s_or(a, b):
    if O in (a, b): return O
    if a in (X, U) or b in (X, U): return X
    return ((a | b) & 3) | ((a | b) & 4)


def s_xor(a, b):
    if a in (X, U) or b in (X, U): return X
    return ((a ^ b) & 3) | ((a | b) & 4)


def s_transition(a, b):
    """docstring of mv_transition: from the initial value of a to the final value of b; unknown if any input is unknown
    (or only one is unassigned), unassigned if both are"""
    if a == U and b == U: return U
    if a in (X, U) or b in (X, U): return X
    ini, fin = (a >> 1) & 1, b & 1
    return fin | (ini << 1) | ((ini ^ fin) << 2)


SPEC2 = {'or': s_or, 'and': s_and, 'xor': s_xor, 'transition': s_transition}
COQ_OP = {'or': 'MvOr', 'and': 'MvAnd', 'xor': 'MvXor'}


# ------------------------------------------------------------------------------------------------ C12: wrappers
def wrapper_case(rng, logic):
    """one call of a public wrapper.  -> (coq case, description, [(key, message)] oracle failures)"""
    if rng.random() < 0.2:
        op = 'not'
        s1 = gen_shape(rng)
        s2 = None
        osh = gen_out_shape(rng, s1, s1)
    else:
        op = rng.choice(['or', 'and', 'xor', 'transition'])
        s1, s2 = gen_pair(rng)
        osh = gen_out_shape(rng, s1, s2)
    x1 = rand_arr(rng, s1)
    x2 = rand_arr(rng, s2) if s2 is not None else None
    desc = {'op': 'mv_' + op, 'x1': x1.tolist(), 'x1_shape': list(s1), 'x2': None if x2 is None else x2.tolist(),
            'x2_shape': None if s2 is None else list(s2), 'out_shape': None if osh is None else list(osh),
            'fill': rng.choice([0xee, 0, 3, 1]), 'positional': osh is not None and rng.random() < 0.3}
    coq, fails = run_wrapper(logic, desc)
    return coq, desc, fails


def run_wrapper(logic, desc):
    """runs the described call on the implementation.  -> (coq case or None, [(key, message)] oracle failures)"""
    fails = []
    op = desc['op'][3:]
    s1 = tuple(desc['x1_shape'])
    s2 = None if desc['x2_shape'] is None else tuple(desc['x2_shape'])
    osh = None if desc['out_shape'] is None else tuple(desc['out_shape'])
    fill, positional = desc['fill'], desc['positional']
    x1 = np.array(desc['x1'], dtype=np.uint8).reshape(s1)
    x2 = None if s2 is None else np.array(desc['x2'], dtype=np.uint8).reshape(s2)
    out = None if osh is None else np.full(osh, fill, dtype=np.uint8)
    fn = getattr(logic, 'mv_' + op)
    args = [a.copy() for a in ((x1,) if op == 'not' else (x1, x2))]
    if out is None:
        r, err = call(fn, *args)
    elif positional:
        r, err = call(fn, *args, out)
    else:
        r, err = call(fn, *args, out=out)
    if err is None and not (isinstance(r, np.ndarray) and r.dtype == np.uint8):
        fails.append((f'wrapper:mv_{op}:dtype', f'returns {type(r).__name__} of dtype {getattr(r, "dtype", None)}'))
        return None, fails
    res = None if err else r
    if op == 'not':
        coq = f'KMvNot {coq_nd(x1)} {coq_opt(out if out is None else np.full(osh, fill, dtype=np.uint8))} {coq_opt(res)}'
    elif op == 'transition':
        coq = f'KMvTransition {coq_nd(x1)} {coq_nd(x2)} {coq_opt(out if out is None else np.full(osh, fill, dtype=np.uint8))} {coq_opt(res)}'
    else:
        coq = f'KMvBin {COQ_OP[op]} {coq_nd(x1)} {coq_nd(x2)} {coq_opt(out if out is None else np.full(osh, fill, dtype=np.uint8))} {coq_opt(res)}'
    # ---- oracle: the documented contract, by multi-index
    b = py_broadcast(s1, s2) if s2 is not None else tuple(s1)
    must_work = b is not None and (osh is None or tuple(osh) == b)
    if err is not None:
        if must_work:
            if op != 'not' and b != tuple(s1):
                key = f'wrapper:mv_{op}:broadcast-first-operand-stretched'
            else:
                key = f'wrapper:mv_{op}' + (':out=' if out is not None else '')
            fails.append((key, f'raises {err} for operand shapes {s1} / {s2} (broadcast shape {b}), out shape {osh}'))
        return coq, fails
    if b is None:
        fails.append((f'wrapper:mv_{op}', f'incompatible operand shapes {s1} / {s2} do not raise'))
        return coq, fails
    if out is not None and r is not out:
        fails.append((f'wrapper:mv_{op}:out=', 'the result is not the out= array'))
    want_shape = tuple(osh) if osh is not None else b
    if tuple(r.shape) != want_shape:
        fails.append((f'wrapper:mv_{op}', f'result shape {tuple(r.shape)}, expected {want_shape}'))
        return coq, fails
    # element by element over the broadcast shape b (own rule); an accepted out= of another shape must hold the same elements in order
    l1, l2 = x1.tolist(), (None if x2 is None else x2.tolist())
    want = []
    for idx in itertools.product(*[range(d) for d in b]):
        a = elem(l1, py_bidx(s1, idx))
        want.append(s_not(a) if op == 'not' else SPEC2[op](a, elem(l2, py_bidx(s2, idx))))
    got = flat(r.tolist())
    if got != want:
        k = next((i for i in range(min(len(got), len(want))) if got[i] != want[i]), None)
        fails.append((f'wrapper:mv_{op}' + (':out=' if out is not None else ''),
                      (f'element number {k} (row-major) is {got[k]}, the algebra gives {want[k]}' if k is not None else
                       f'{len(got)} elements, the broadcast shape has {len(want)}') + f' (operand shapes {s1} / {s2}, out shape {osh})'))
    if out is not None and err is None and not np.array_equal(out, r):
        fails.append((f'wrapper:mv_{op}:out=', 'out= array did not receive the result'))
    return coq, fails


def primitive_cases_c12(rng):
    """numpy's broadcasting / ufunc / putmask primitives as modelled in Model/NdArray.v"""
    coq = []
    s1, s2 = gen_pair(rng)
    b, _ = call(lambda: np.broadcast_shapes(s1, s2))
    coq.append(f'KBroadcast2 {coq_list(s1)} {coq_list(s2)} {coq_opt(b, coq_list)}')
    if py_broadcast(s1, s2) != (None if b is None else tuple(b)):
        raise AssertionError(f'harness broadcasting rule differs from numpy on {s1} {s2}')
    s3 = sub_shape(rng, b) if b is not None and rng.random() < 0.7 else gen_shape(rng)
    b3, _ = call(lambda: np.broadcast(np.zeros(s1, np.uint8), np.zeros(s2, np.uint8), np.zeros(s3, np.uint8)).shape)
    coq.append(f'KBroadcast3 {coq_list(s1)} {coq_list(s2)} {coq_list(s3)} {coq_opt(b3, coq_list)}')
    sh = gen_shape(rng, dims=(1, 2, 3, 4, 5))
    n = int(np.prod(sh, dtype=np.int64))
    k = rng.randrange(n)
    idx = [int(i) for i in np.unravel_index(k, sh)] if sh else []
    k2 = int(np.ravel_multi_index(tuple(idx), sh)) if sh else 0
    coq.append(f'KRavel {coq_list(sh)} {coq_list(idx)} {k2}')
    a, c = rand_arr(rng, s1, 256), rand_arr(rng, s2, 256)
    r, err = call(lambda: a | c)
    coq.append(f'KOr2 {coq_nd(a)} {coq_nd(c)} {coq_opt(None if err else r)}')
    osh = gen_out_shape(rng, s1, s2) or (b if b is not None else s1)
    w = None
    if rng.random() < 0.6:
        wsh = rng.choice([osh, sub_shape(rng, osh), gen_shape(rng)])
        w = rand_arr(rng, wsh, 2)
    o0 = rand_arr(rng, osh, 256)
    o = o0.copy()
    r, err = call(lambda: np.bitwise_or(a, c, out=o, where=True if w is None else w.astype(bool)))
    coq.append(f'KOrOut {coq_nd(a)} {coq_nd(c)} {coq_opt(w)} {coq_nd(o0)} {coq_opt(None if err else o)}')
    msh = rng.choice([osh, osh, tuple(reversed(osh)), (1,) + tuple(osh), gen_shape(rng), tuple(osh)[1:]])
    m = rand_arr(rng, msh, 2)
    o = o0.copy()
    v = rng.randrange(256)
    r, err = call(lambda: np.putmask(o, m.astype(bool), v))
    coq.append(f'KPutmask {coq_nd(o0)} {coq_nd(m)} {v} {coq_opt(None if err else o)}')
    return coq


# ------------------------------------------------------------------------------------------------ C15: any rank
def gen_nd_shape(rng, last=None):
    rank = rng.choice([0, 1, 1, 2, 2, 3, 3, 4, 4, 5])
    dims = [rng.choice([0, 1, 1, 2, 2, 3]) for _ in range(max(rank - 1, 0))]
    if rank:
        dims.append(last if last is not None else rng.choice([0, 1, 2, 3, 7, 8, 9, 15, 16, 17, 25]))
    while int(np.prod(dims, dtype=np.int64)) > 400:
        dims[rng.randrange(len(dims))] = 1
    return tuple(dims)


def primitive_cases_c15(rng, logic):
    coq = []
    sh = gen_nd_shape(rng, last=rng.choice([0, 1, 2, 3, 5]))
    x = rand_arr(rng, sh, 256)
    r, err = call(lambda: x.swapaxes(-1, -2))
    coq.append(f'KSwap {coq_nd(x)} {coq_opt(None if err else r)}')
    sh = gen_nd_shape(rng)
    bits = rand_arr(rng, sh, 2) if rng.random() < 0.8 else rand_arr(rng, sh, 4) * 85
    r, err = call(lambda: np.packbits(bits, axis=-1, bitorder='little'))
    coq.append(f'KPackLast {coq_nd(bits)} {coq_opt(None if err else r)}')
    sh2 = gen_nd_shape(rng, last=rng.choice([1, 2, 3]))
    if len(sh2) >= 2:
        sh2 = sh2[:-2] + (rng.choice([0, 1, 3, 8, 9, 17]), sh2[-1])
    bits2 = rand_arr(rng, sh2, 2)
    r, err = call(lambda: np.packbits(bits2, axis=-2, bitorder='little'))
    coq.append(f'KPackAxis2 {coq_nd(bits2)} {coq_opt(None if err else r)}')
    y = rand_arr(rng, gen_nd_shape(rng, last=rng.choice([0, 1, 2, 3])), 256)
    r, err = call(lambda: np.unpackbits(y, axis=-1, bitorder='little'))
    coq.append(f'KUnpackLast {coq_nd(y)} {coq_opt(None if err else r)}')
    r, err = call(lambda: logic.unpackbits(y)[..., :3])
    if err is None:
        coq.append(f'KUnpackNew 3 {coq_nd(y)} {coq_nd(r)}')
    b3 = rand_arr(rng, gen_nd_shape(rng, last=rng.choice([0, 1, 3, 3, 3, 7, 8, 9, 12])), 2)
    r, err = call(lambda: logic.packbits(b3))
    coq.append(f'KPackU8 {coq_nd(b3)} {coq_opt(None if err else r)}')
    return coq


def conv_cases(rng, logic):
    """mv_to_bp / bp_to_mv at ranks 0..5 vs Model/MvWrappers.v, plus the round trip stated by multi-index"""
    coq, fails = [], []
    sh = gen_nd_shape(rng)
    x = rand_arr(rng, sh, 8 if rng.random() < 0.85 else 256)
    desc = {'shape': list(sh), 'data': x.tolist()}
    bp, err = call(logic.mv_to_bp, x)
    coq.append(f'KMvToBp {coq_nd(x)} {coq_opt(None if err else bp)}')
    if err is not None:
        if len(sh) >= 1:
            fails.append(('mv_to_bp:any-rank', f'mv_to_bp raises {err} on shape {sh}'))
        return coq, desc, fails
    back, err2 = call(logic.bp_to_mv, bp)
    coq.append(f'KBpToMv {coq_nd(bp)} {coq_opt(None if err2 else back)}')
    if err2 is not None:
        fails.append(('bp_to_mv:any-rank', f'bp_to_mv raises {err2} on shape {bp.shape}'))
        return coq, desc, fails
    # oracle by multi-index: signals on axis -2, patterns on the last axis, lanes little-endian, padding 0
    xs = sh if len(sh) >= 2 else (sh[0], 1)
    xl = x.reshape(xs).tolist()
    p = xs[-1]
    nb = -(-p // 8)
    if tuple(bp.shape) != tuple(xs[:-1]) + (3, nb) or tuple(back.shape) != tuple(xs[:-1]) + (8 * nb,):
        fails.append(('mv_to_bp:any-rank', f'shapes {bp.shape} / {back.shape} for input shape {sh}'))
        return coq, desc, fails
    bl, kl = bp.tolist(), back.tolist()
    for idx in itertools.product(*[range(d) for d in xs[:-1]]):
        for j in range(8 * nb):
            v = (elem(xl, idx + (j,)) & 7) if j < p else 0
            for k in range(3):
                got = (elem(bl, idx + (k, j // 8)) >> (j % 8)) & 1
                if got != (v >> k) & 1:
                    fails.append(('mv_to_bp:any-rank', f'index {idx} pattern {j} plane {k} holds {got}, value is {v if j < p else "padding"} (shape {sh})'))
                    return coq, desc, fails
            if elem(kl, idx + (j,)) != v:
                fails.append(('bp_to_mv:any-rank', f'bp_to_mv(mv_to_bp(a)) at {idx + (j,)} is {elem(kl, idx + (j,))}, was {v} (shape {sh})'))
                return coq, desc, fails
    return coq, desc, fails


def bp_case(rng, logic):
    """random bit-parallel bytes of any rank (any number of planes)"""
    sh = gen_nd_shape(rng, last=rng.choice([0, 1, 1, 2, 3]))
    if len(sh) >= 2:
        sh = sh[:-2] + (rng.choice([3, 3, 3, 0, 1, 2, 8, 9]), sh[-1])
    b = rand_arr(rng, sh, 256)
    r, err = call(logic.bp_to_mv, b)
    return [f'KBpToMv {coq_nd(b)} {coq_opt(None if err else r)}']


def args_cases(rng, logic):
    """mvarray / bparray through the flat model, nested groups included (3-D / 4-D)"""
    c = ec.gen_args(rng)
    args = c['args']
    pa = '[' + ';'.join(ec.coq_pv(a) for a in args) + ']'
    coq = []
    m, err = call(logic.mvarray, *args)
    coq.append(f'KMvarray {pa} {coq_opt(None if err else m)}')
    b, err = call(logic.bparray, *args)
    coq.append(f'KBparray {pa} {coq_opt(None if err else b)}')
    return coq
