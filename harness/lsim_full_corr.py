"""Tie C for the instantiated source-level model of the logic simulator (Proofs/LogicSimDriversFull.v: stc_of / cts_of / p2p_of / prop_of /
cycle_src on the result of the Coq build(), the object of C01_logicsim_drivers_source_is_model / _source_correct): a FRESH real LogicSim
(m = 2) on a generated circuit, the assignment array written as the checks write it, LogicSim.cycle(k); per lane the Coq side -- the pinned
per-lane meaning of s_to_c / c_to_s / s_ppo_to_ppi / cycle around the TRANSLATED _prop_cpu loop, run on the locations / op rows / offsets of
the Coq model of SimOps -- must produce exactly the real signal memory c and the real s[0] / s[1] rows (all three planes)."""
import io
import contextlib
import numpy as np

from harness import circgen as cg
from harness.lsim_drivers_corr import mem_lit

HEADER = '''From Coq Require Import List NArith ZArith Bool Arith String.
From KV Require Import Model.Logic Model.Netlist Model.SimOps Model.LogicSimModel Model.Corr Model.LogicSimDrvPrelude Gen.LogicSimDriversSrc
     Proofs.LogicSimDriversFull.
Import ListNotations.
Local Open Scope list_scope.
Local Open Scope string_scope.
Fixpoint bl_eqb (a b : list bool) : bool := match a, b with [], [] => true | x :: a', y :: b' => Bool.eqb x y && bl_eqb a' b' | _, _ => false end.
Fixpoint bll_eqb (a b : list (list bool)) : bool := match a, b with [], [] => true | x :: a', y :: b' => bl_eqb x y && bll_eqb a' b' | _, _ => false end.
Definition src_case (c : netlist) (reuse strip : bool) (k : nat) (S0 S1 expC expS0 expS1 : list (list bool)) : bool :=
  match build c (repeat 1%N (List.length (c_lines c) + 3)) 1%N reuse strip with
  | Some so =>
      let n_io := List.length (c_io c) in
      let L' := cycle_src k (stc_of so n_io) (cts_of so n_io) (p2p_of so n_io) (prop_of so)
                          (mk_lsim (repeat [false] (N.to_nat (so_len so))) S0 S1) in
      bll_eqb (ls_c L') expC && bll_eqb (ls_s0 L') expS0 && bll_eqb (ls_s1 L') expS1
  | None => false
  end.
'''


def b(x):
    return 'true' if x else 'false'


def run_real(c, stim_mv, reuse, strip, k):
    """-> (s before [2, s_len, 3, nbytes], c after, s after) of a fresh LogicSim(m=2)"""
    from kyupy import logic, logic_sim
    sims = stim_mv.shape[1]
    with contextlib.redirect_stdout(io.StringIO()):
        s = logic_sim.LogicSim(c, sims=sims, m=2, c_reuse=reuse, strip_forks=strip)
        s.s[0] = logic.mv_to_bp(stim_mv)
        before = s.s.copy()
        s.cycle(k)
    return before, s.c.copy(), s.s.copy()


def case(c, reuse, strip, k, before, c_after, s_after, lane):
    return (f'src_case {cg.coq_netlist(c)} {b(reuse)} {b(strip)} {k} {mem_lit(before[0], lane)} {mem_lit(before[1], lane)} '
            f'{mem_lit(c_after, lane)} {mem_lit(s_after[0], lane)} {mem_lit(s_after[1], lane)}')


def cases_file(cases):
    body = ';\n '.join(cases)
    return HEADER + f'Definition results : list bool := [\n {body}].\nEval vm_compute in (failing results).\n'


# ---- C02: the separation condition of the list-memory lifting of the 8-valued loop (Proofs/LogicSimLoop8.v ops_sep_b) ----------------------
SEP_HEADER = '''From Coq Require Import List NArith ZArith Bool Arith String.
From KV Require Import Model.Logic Model.Netlist Model.SimOps Model.LogicSimModel Model.Corr Proofs.LogicSimLoop8 Proofs.LogicSimLoopN.
Import ListNotations.
Local Open Scope list_scope.
Local Open Scope string_scope.
(* 0: separation violated; 1: holds; 2: an op writes the scratch slot (gate without output line) and the EXTENDED check ops_sepx_b
   (Proofs/LogicSimLoopN.v: separated, or the output location is a scratch location) holds; 3: build fails *)
Definition sep_case (c : netlist) (reuse strip : bool) : nat :=
  match build c (repeat 1%N (List.length (c_lines c) + 3)) 1%N reuse strip with
  | Some so => if existsb (fun o => Nat.eqb (s_out o) (so_nlines so + 1)) (so_ops so) then (if ops_sepx_b so then 2 else 0)
               else if ops_sep_b so && ops_sepx_b so then 1 else 0
  | None => 3
  end.
'''


def sep_case(c, reuse, strip):
    return f'sep_case {cg.coq_netlist(c)} {b(reuse)} {b(strip)}'


def sep_file(cases):
    body = ';\n '.join(cases)
    return SEP_HEADER + f'Definition results : list nat := [\n {body}].\nEval vm_compute in results.\n'


def real_sep(sim):
    """the same verdict computed from the REAL arrays of a simulator object (sim.ops, sim.c_locs, sim.tmp_idx, sim.tmp2_idx)"""
    locs = [int(x) for x in sim.c_locs]
    t0, t1 = locs[sim.tmp_idx], locs[sim.tmp2_idx]
    rows = [[int(x) for x in r[:6]] for r in sim.ops]
    if t0 < 0 or t1 < 0 or t0 == t1:
        return 0
    for r in rows:
        lo = locs[r[1]]
        if lo >= 0 and (lo == t0 or lo == t1) and r[1] == sim.tmp_idx:
            continue                      # extended check: the op writes a scratch location only
        if lo < 0 or lo == t0 or lo == t1:
            return 0
        for x in r[2:6]:
            l = locs[x]
            if l < 0 or l == lo or l == t0 or l == t1:
                return 0
    if any(r[1] == sim.tmp_idx for r in rows):
        return 2
    return 1
