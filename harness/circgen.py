"""Random structured circuits (built through kyupy's own Circuit/Node/Line API) and their rendering
as Coq terms of KV.Model.Netlist.  Everything is drawn from the random.Random passed in."""
from kyupy.circuit import Circuit, Node, Line

# (kind name, number of operand pins).  Names exercise upper/lower case and suffixes; the
# prefix table of sim.py decides which primitive each denotes.
GATE_KINDS = [
    ('BUF1', 1), ('buf', 1), ('nbuff', 1), ('INV1', 1), ('not', 1), ('inv_x1', 1), ('ibuf', 1),
    ('AND2', 2), ('and3', 3), ('AND4', 4), ('NAND2', 2), ('nand3', 3), ('NAND4', 4),
    ('OR2', 2), ('or3', 3), ('OR4', 4), ('NOR2', 2), ('nor3', 3), ('NOR4', 4),
    ('XOR2', 2), ('xor3', 3), ('XOR4', 4), ('XNOR2', 2), ('xnor3', 3), ('XNOR4', 4),
    ('AO21', 3), ('AO22', 4), ('OA21', 3), ('OA22', 4), ('AOI21', 3), ('aoi22', 4), ('OAI21', 3), ('oai22', 4),
    ('AO211', 4), ('OA211', 4), ('AOI211', 4), ('oai211', 4), ('MUX21', 3), ('mux21x1', 3), ('isolor', 2),
    # generic (bench-style) names: ONE kind name used with several arities in one circuit and across the circuits of one process
    ('and', 2), ('and', 4), ('nand', 2), ('nand', 3), ('or', 2), ('or', 4), ('nor', 3), ('nor', 2), ('xor', 2), ('xor', 3), ('xnor', 2), ('xnor', 4),
]
VARIADIC = ('and', 'nand', 'or', 'nor', 'xor', 'xnor')


class AbstractNet:
    """Owned ground truth: gates over signal ids.  signals: ('pi', i) | ('q', ff) | ('qn', ff) | ('lq', latch) | ('g', gate) | ('const', 0/1)"""

    def __init__(self):
        self.n_pi = 0
        self.ffs = []        # dicts: kind, d (signal or None), use_q, use_qn
        self.latches = []    # dicts: kind, d
        self.gates = []      # dicts: kind, ins (list of signal or None), has_out
        self.pos = []        # signals read by output cells


def gen_abstract(rng, n_gates=None, seq=True, allow_unconnected=True, allow_dangling=True, kinds=None, n_pi=None, distinct_ins=False, p_nodata=0.08):
    a = AbstractNet()
    a.n_pi = n_pi if n_pi is not None else rng.randint(1, 6)
    n_ff = rng.choice([0, 0, 1, 2, 3]) if seq else 0
    n_la = rng.choice([0, 0, 0, 1]) if seq else 0
    n_gates = n_gates if n_gates is not None else rng.choice([1, 2, 3, 5, 8, 12, 20, 35])
    sigs = [('pi', i) for i in range(a.n_pi)]
    for f in range(n_ff):
        uq, uqn = rng.choice([(True, False), (True, True), (False, True), (True, True)])
        a.ffs.append({'kind': rng.choice(['DFF', 'dff_x1', 'SDFFX1']), 'd': None, 'use_q': uq, 'use_qn': uqn})
        if uq: sigs.append(('q', f))
        if uqn: sigs.append(('qn', f))
    for l in range(n_la):
        a.latches.append({'kind': rng.choice(['LATCH', 'latchx1']), 'd': None})
        sigs.append(('lq', l))
    for g in range(n_gates):
        kind, ar = rng.choice(kinds or GATE_KINDS)
        ins = []
        for p in range(ar):
            # bias towards recent signals for depth and reconvergence
            s = sigs[-1 - min(len(sigs) - 1, int(rng.expovariate(0.25)))] if rng.random() < 0.6 else rng.choice(sigs)
            if distinct_ins and s in ins:
                rest = [x for x in sigs if x not in ins]
                s = rng.choice(rest) if rest else s
            ins.append(s)
        if allow_unconnected and rng.random() < 0.12:
            # leave a pin unconnected (reads constant 0): high pins for variadic families, any pin otherwise
            if kind.lower().startswith(VARIADIC) and ar > 2 and rng.random() < 0.7:
                ins[-1] = None
            else:
                ins[rng.randrange(ar)] = None
        has_out = not (allow_dangling and rng.random() < 0.05)
        a.gates.append({'kind': kind, 'ins': ins, 'has_out': has_out})
        if has_out:
            sigs.append(('g', g))
    n_po = rng.randint(1, 4)
    cand = [s for s in sigs if s[0] == 'g'] or sigs
    for _ in range(n_po):
        a.pos.append(rng.choice(cand) if rng.random() < 0.8 else rng.choice(sigs))
    # a state element may lack its data line (then it has no PPO slot and keeps whatever it is loaded with)
    for f in a.ffs:
        f['d'] = None if (allow_unconnected and rng.random() < p_nodata) else rng.choice(sigs)
    for l in a.latches:
        l['d'] = None if (allow_unconnected and rng.random() < p_nodata) else rng.choice(sigs)
    return a


def build_circuit(rng, a, fork_style=None, branchforks=None, name='rnd'):
    """Elaborates the abstract net into a kyupy Circuit (verilog-style interface).
    Returns (circuit, info) where info maps abstract signals to the line driven at their source."""
    c = Circuit(name)
    fork_style = fork_style if fork_style is not None else rng.choice(['always', 'needed', 'mixed'])
    branchforks = branchforks if branchforks is not None else (rng.random() < 0.25)
    src = {}      # signal -> (node, out pin)
    readers = {}  # signal -> list of (node, in pin)
    pis = []
    for i in range(a.n_pi):
        n = Node(c, f'pi{i}', 'input')
        pis.append(n)
        src[('pi', i)] = (n, 0)
    ffn = []
    for i, f in enumerate(a.ffs):
        n = Node(c, f'ff{i}', f['kind'])
        ffn.append(n)
        src[('q', i)] = (n, 0)
        src[('qn', i)] = (n, 1)
    lan = []
    for i, l in enumerate(a.latches):
        n = Node(c, f'la{i}', l['kind'])
        lan.append(n)
        src[('lq', i)] = (n, 0)
    gn = []
    for i, g in enumerate(a.gates):
        n = Node(c, f'g{i}', g['kind'])
        gn.append(n)
        if g['has_out']:
            src[('g', i)] = (n, 0)
        for p, s in enumerate(g['ins']):
            if s is not None:
                readers.setdefault(s, []).append((n, p))
    pon = []
    for i, s in enumerate(a.pos):
        n = Node(c, f'po{i}', 'output')
        pon.append(n)
        readers.setdefault(s, []).append((n, 0))
    for i, f in enumerate(a.ffs):
        if f['d'] is not None:
            readers.setdefault(f['d'], []).append((ffn[i], 0))
    for i, l in enumerate(a.latches):
        if l['d'] is not None:
            readers.setdefault(l['d'], []).append((lan[i], 0))
    # io order: inputs and outputs interleaved at random (port list order)
    io = pis + pon
    if rng.random() < 0.5:
        rng.shuffle(io)
    for n in io:
        c.io_nodes.append(n)
    # wire up, in a random signal order so that line indices are not topological
    sig_list = list(src.keys())
    rng.shuffle(sig_list)
    nfork = 0
    for s in sig_list:
        drv, dpin = src[s]
        rds = readers.get(s, [])
        if not rds:
            if rng.random() < 0.3:   # dangling named signal
                fk = Node(c, f'sig{nfork}'); nfork += 1
                Line(c, (drv, dpin), fk)
            continue
        use_fork = len(rds) > 1 or fork_style == 'always' or (fork_style == 'mixed' and rng.random() < 0.5)
        if not use_fork:
            Line(c, (drv, dpin), rds[0])
            continue
        # decide the fork structure first, then create the fork nodes in a random order (sink-first orders included:
        # Circuit.forks iterates in creation order, which need not be topological)
        chain = rng.random() < 0.2
        rng.shuffle(rds)
        names = [f'sig{nfork}'] + ([f'sig{nfork}c'] if chain else [])
        bnames = [f'sig{nfork}~{rn.name}/{rp}' for (rn, rp) in rds] if branchforks else []
        nfork += 1
        order = names + bnames
        rng.shuffle(order)
        made = {nm: Node(c, nm) for nm in order}
        fk = made[names[0]]
        Line(c, (drv, dpin), fk)
        if chain:
            fk2 = made[names[1]]
            Line(c, fk, fk2)
            split = rng.randint(0, len(rds))      # some readers hang on the first fork, the rest on the second
        for k, (rn, rp) in enumerate(rds):
            src_f = fk2 if (chain and k >= split) else fk
            if branchforks:
                bf = made[bnames[k]]
                Line(c, src_f, bf)
                Line(c, bf, (rn, rp))
            else:
                Line(c, src_f, (rn, rp))
        if chain and split == len(rds) and len(fk2.outs) == 0 and rng.random() < 0.5:
            pass                                   # dangling second fork
    return c


def permute_circuit(rng, c, name=None):
    """The same circuit with its nodes and lines created in a random order (explicit pins, same io order): node and line
    indices become arbitrary, e.g. forks precede cells and a state element is the last node."""
    p = Circuit(name or c.name)
    order = list(c.nodes)
    rng.shuffle(order)
    new = {}
    for n in order:
        new[n.index] = Node(p, n.name, n.kind)
    lines = list(c.lines)
    rng.shuffle(lines)
    for l in lines:
        Line(p, (new[l.driver.index], l.driver_pin), (new[l.reader.index], l.reader_pin))
    for n in c.io_nodes:
        p.io_nodes.append(new[n.index])
    return p


def gen_circuit(rng, **kw):
    bkw = {k: kw.pop(k) for k in ('fork_style', 'branchforks') if k in kw}
    permute = kw.pop('permute', None)
    a = gen_abstract(rng, **kw)
    c = build_circuit(rng, a, **bkw)
    if permute is None:
        permute = rng.random() < 0.3     # arbitrary node / line index orders (forks before cells, state elements last ...)
    if permute:
        c = permute_circuit(rng, c)
    return c, a


# ---- rendering as Coq -----------------------------------------------------------------------------
def _opt(l):
    return 'None' if l is None else f'Some {l.index}'


def coq_string(s):
    return '"' + s.replace('"', '""') + '"'


def coq_netlist(c):
    nodes = '; '.join('{| n_kind := %s; n_ins := [%s]; n_outs := [%s] |}' % (
        coq_string(n.kind), '; '.join(_opt(l) for l in n.ins), '; '.join(_opt(l) for l in n.outs)) for n in c.nodes)
    lines = '; '.join('{| l_drv := %d; l_dpin := %d; l_rdr := %d; l_rpin := %d |}' % (
        l.driver.index, l.driver_pin, l.reader.index, l.reader_pin) for l in c.lines)
    io = '; '.join(str(n.index) for n in c.io_nodes)
    return '{| c_nodes := [%s]; c_lines := [%s]; c_io := [%s] |}' % (nodes, lines, io)


def describe(c):
    """JSON-able, self-contained description of a circuit (for replay files)."""
    return {'nodes': [[n.name, n.kind, [None if l is None else l.index for l in n.ins],
                       [None if l is None else l.index for l in n.outs]] for n in c.nodes],
            'lines': [[l.driver.index, l.driver_pin, l.reader.index, l.reader_pin] for l in c.lines],
            'io': [n.index for n in c.io_nodes]}


def from_description(d, name='replay'):
    c = Circuit(name)
    for nm, kind, _, _ in d['nodes']:
        Node(c, nm, kind)
    for drv, dp, rdr, rp in d['lines']:
        Line(c, (c.nodes[drv], dp), (c.nodes[rdr], rp))
    for i in d['io']:
        c.io_nodes.append(c.nodes[i])
    return c


def coq_list(xs, f=str):
    return '[' + '; '.join(f(x) for x in xs) + ']'


def coq_Z(x):
    x = int(x)
    return f'({x})%Z' if x < 0 else f'{x}%Z'


def coq_N(x):
    return f'{int(x)}%N'


def parse_nat_list(out):
    """Extracts the list printed by 'Eval vm_compute in (... : list nat)'."""
    import re
    m = re.search(r'=\s*\[(.*?)\]\s*:\s*list nat', out, flags=re.S)
    if m is None:
        return None
    body = m.group(1).strip()
    return [int(x) for x in re.findall(r'\d+', body)]
