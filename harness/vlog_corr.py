"""C11 correspondence: the real helper methods of kyupy.verilog.VerilogTransformer / SignalDeclaration and the real
bench elaborator are run on generated inputs; (input, what the implementation produced) is rendered as a Coq term
for KV.Model.VerilogElab, whose *_case functions recompute the result with the model and compare.

Everything is drawn from the random.Random passed in.  Streams: mostly-valid inputs plus edge inputs on which the
implementation raises (model: None)."""
import contextlib
import io

HEADER = '''From Coq Require Import List NArith ZArith Bool Arith String Ascii.
From KV Require Import Model.VerilogElab Model.Corr.
Import ListNotations.
Local Open Scope list_scope.
Local Open Scope string_scope.
'''

SIMPLE = ['a', 'b', 'clk', 'data', 'Q', 'n_12', '_x', 'sum', 'cO', 'w1', 'A1', 'zz9', 'io_bus', 'N', 'r2d2']
ODD = ['a.b', 'n[3]', 'u1/x', '$w', '3x', 'p[1][0]', 'x+y', 'q~', 'k[0]', 'top.u.q']


@contextlib.contextmanager
def quiet():
    """kyupy.log writes to the stream it saw at import time: swap it"""
    import kyupy
    buf = io.StringIO()
    old = kyupy.log.logfile
    kyupy.log.logfile = buf
    try:
        with contextlib.redirect_stdout(io.StringIO()):
            yield buf
    finally:
        kyupy.log.logfile = old


# ---- rendering -------------------------------------------------------------------------------------------
def cstr(s):
    assert all(ord(ch) < 127 and (ord(ch) >= 32 or ch in '\t\n\r') for ch in s), repr(s)      # raw tab / newline are fine inside a Coq string
    return '"' + s.replace('"', '""') + '"'


def clist(xs, f=str):
    return '[' + '; '.join(f(x) for x in xs) + ']'


def cz(z):
    return f'{z}%Z' if z >= 0 else f'({z})%Z'


def copt(x, f):
    return 'None' if x is None else f'(Some {f(x)})'


def csig(v):
    return f'(SOne {cstr(v)})' if isinstance(v, str) else f'(SMany {clist(v, cstr)})'


def cases_file(cases):
    return HEADER + 'Definition results : list bool := [\n ' + ';\n '.join(cases) + '].\nEval vm_compute in (failing results).\n'


# ---- helper methods --------------------------------------------------------------------------------------
def tok(s):
    from lark import Token
    return Token('__ANON', s)


def gen_range(rng):
    st = rng.random()
    if st < 0.45:
        l, r = rng.randint(0, 12), rng.randint(0, 12)
    elif st < 0.6:
        l = rng.randint(0, 300); r = l + rng.choice([-1, 0, 1, 0])
        r = max(r, 0)
    elif st < 0.8:
        l = rng.randint(0, 2000); r = max(0, l + rng.randint(-40, 40))
    else:
        l, r = rng.randint(0, 63), None
    return l, r


def range_case(rng):
    """-> (coq case, description, python result)"""
    from kyupy.verilog import VerilogTransformer
    l, r = gen_range(rng)
    lead = '0' * rng.choice([0, 0, 0, 1, 2])
    args = [tok(lead + str(l))] + ([tok(str(r))] if r is not None else [])
    got = list(VerilogTransformer().range(args))
    return f'range_case {cz(l)} {copt(r, cz)} {clist(got, cz)}', {'kind': 'range', 'l': l, 'r': r}, got


def gen_const(rng):
    """a token the lexer rule /[0-9]+'[bdh][0-9a-f]+/i admits (plus a few it does not: two quotes, empty parts)"""
    w = rng.choice([1, 1, 2, 3, 4, 5, 8, 12, 16, 33, 0])
    base = rng.choice('bdhBDH')
    digs = {'b': '01', 'd': '0123456789', 'h': '0123456789abcdefABCDEF'}[base.lower()]
    st = rng.random()
    n = rng.randint(1, max(1, (w + 3) // {'b': 1, 'd': 3, 'h': 4}[base.lower()] + rng.choice([0, 0, 1, 3])))
    body = ''.join(rng.choice(digs) for _ in range(n))
    if st < 0.12:      # a digit the base does not have (ValueError)
        body = body[:-1] + rng.choice({'b': '29af', 'd': 'afC', 'h': 'f'}[base.lower()])
    if rng.random() < 0.06 and base.lower() in 'bh':       # int(digits, base) accepts the prefix of the base: 1'b0b1 is ONE token and means 1'b1
        body = rng.choice(['0b', '0B'] if base.lower() == 'b' else ['0x', '0X', '0b']) + (body if rng.random() < 0.9 else '')
    ws = ('0' * rng.choice([0, 0, 1])) + str(w)
    s = f"{ws}'{base}{body}"
    if st > 0.97:
        s = s + "'b1"
    return s


def sigsel_case(rng):
    from kyupy.verilog import VerilogTransformer
    t = VerilogTransformer()
    st = rng.random()
    if st < 0.35:
        name = rng.choice(SIMPLE + ODD)
        l, r = gen_range(rng)
        if r is not None and abs(l - r) > 70:
            r = l
        rg = t.range([tok(str(l))] + ([tok(str(r))] if r is not None else []))
        args, coq = [name, rg], f'(AName {cstr(name)} (Some (vrange {cz(l)} {copt(r, cz)})))'
        desc = {'kind': 'sigsel-range', 'name': name, 'l': l, 'r': r}
    elif st < 0.8:
        name = gen_const(rng)
        args, coq = [name], f'(AName {cstr(name)} None)'
        desc = {'kind': 'sigsel-const', 'token': name}
    elif st < 0.9:
        name = rng.choice(SIMPLE + ODD + ["it's", "'", "4'", "'b1", "x'b1", "4'q1"])
        args, coq = [name], f'(AName {cstr(name)} None)'
        desc = {'kind': 'sigsel-name', 'name': name}
    else:
        l = [rng.choice(SIMPLE + ["1'b0", "1'b1", 'a[3]'] + (["'"] if rng.random() < 0.1 else [])) for _ in range(rng.randint(0, 4))]
        args, coq = [l], f'(AConcat {clist(l, cstr)})'
        desc = {'kind': 'sigsel-concat', 'list': l}
    try:
        got = t.sigsel(args)
        if not isinstance(got, (str, list)):
            got = list(got)
    except Exception as e:
        got = None
        desc['raises'] = type(e).__name__
    return f'sigsel_case {coq} {copt(got, csig)}', desc, got


def concat_case(rng):
    from kyupy.verilog import VerilogTransformer
    args = []
    for _ in range(rng.randint(0, 6)):
        if rng.random() < 0.5:
            args.append(rng.choice(SIMPLE + ODD + ["1'b1"]))
        else:
            args.append([rng.choice(SIMPLE) + f'[{rng.randint(0, 9)}]' for _ in range(rng.randint(0, 4))])
    got = VerilogTransformer().concat([list(a) if isinstance(a, list) else a for a in args])
    return f'concat_case {clist(args, csig)} {clist(got, cstr)}', {'kind': 'concat', 'args': args}, got


def names_case(rng):
    from kyupy.verilog import SignalDeclaration, VerilogTransformer
    name = rng.choice(SIMPLE + ODD)
    kind = rng.choice(['input', 'output', 'wire'])
    if rng.random() < 0.25:
        rg, crg, l, r = None, 'None', None, None
    else:
        l, r = gen_range(rng)
        if r is not None and abs(l - r) > 70:
            r = l
        rg = VerilogTransformer().range([tok(str(l))] + ([tok(str(r))] if r is not None else []))
        crg = f'(Some (vrange {cz(l)} {copt(r, cz)}))'
    got = SignalDeclaration(kind, name, rg).names
    ck = {'input': 'KInput', 'output': 'KOutput', 'wire': 'KWire'}[kind]
    return (f'names_case {{| d_kind := {ck}; d_base := {cstr(name)}; d_rng := {crg} |}} {clist(got, cstr)}',
            {'kind': 'names', 'name': name, 'l': l, 'r': r}, got)


# ---- port position table / io_nodes through tiny parsed modules -------------------------------------------
def esc(name, rng):
    import re
    if re.fullmatch(r'[A-Za-z_][A-Za-z0-9_]*', name) and name not in ('module', 'endmodule', 'input', 'output', 'inout', 'wire', 'tri', 'assign') \
            and rng.random() < 0.85:
        return name
    return '\\' + name + rng.choice([' ', ' ', '\t', '\n'])


def io_case(rng):
    """declaration-only module: ports, redeclarations (wire before / after), inout, undeclared ports, duplicate
    ports, io declarations that are not ports, buses in both directions."""
    from kyupy import verilog
    pool = rng.sample(SIMPLE + ['a.b', 'u1/x', '$w', '3x'], rng.randint(1, 7))
    decls = {}  # base -> (kind, rng)
    stmts = []  # (kind keyword, range or None, [bases])
    for b in pool:
        kind = rng.choice(['input', 'input', 'output', 'output', 'inout', 'wire'])
        if rng.random() < 0.5:
            rg = None
        else:
            l, r = rng.randint(0, 9), rng.randint(0, 9)
            rg = (l, None) if rng.random() < 0.1 else (l, r)
        decls[b] = (kind, rg)
    order = list(pool)
    rng.shuffle(order)
    i = 0
    while i < len(order):       # group equal (kind, range) neighbours into one statement sometimes
        b = order[i]
        grp = [b]
        while i + 1 < len(order) and decls[order[i + 1]] == decls[b] and rng.random() < 0.6:
            i += 1
            grp.append(order[i])
        stmts.append((decls[b][0], decls[b][1], grp))
        i += 1
    # redeclarations
    for b in pool:
        if rng.random() < 0.3:
            k2 = rng.choice(['wire', 'wire', 'output', 'input'])
            st = (k2, decls[b][1] if rng.random() < 0.8 else None, [b])
            stmts.insert(rng.randint(0, len(stmts)), st)
    ports = [b for b in pool if decls[b][0] != 'wire' or rng.random() < 0.3]
    rng.shuffle(ports)
    if rng.random() < 0.1:
        ports.append('undeclared_p')
    if ports and rng.random() < 0.08:
        ports.insert(rng.randint(0, len(ports)), rng.choice(ports))
    if rng.random() < 0.15 and len(ports) > 1:
        ports.pop()          # an io declaration that is not a port

    def rtxt(rg):
        if rg is None:
            return ''
        return f'[{rg[0]}]' if rg[1] is None else f'[{rg[0]}:{rg[1]}]'
    text = 'module m (' + ', '.join(esc(p, rng) for p in ports) + ');\n'
    for kind, rg, grp in stmts:
        text += f' {kind} {rtxt(rg)} ' + ', '.join(esc(b, rng) for b in grp) + ';\n'
    text += 'endmodule\n'
    desc = {'kind': 'io', 'text': text}
    try:
        with quiet():
            c = verilog.parse(text)
        got = [None if n is None else (n.name, n.kind) for n in c.io_nodes]
    except KeyError as e:
        got = None
        desc['raises'] = 'KeyError'
    except AssertionError as e:
        # duplicate cell names (two io declarations expanding to one name): outside the model's domain
        return None, desc, None
    ck = {'input': 'KInput', 'output': 'KOutput', 'inout': 'KInput', 'wire': 'KWire'}

    def cdecl(st):
        kind, rg, grp = st
        crg = 'None' if rg is None else f'(Some (vrange {cz(rg[0])} {copt(rg[1], cz)}))'
        return f'(declaration {ck[kind]} {crg} {clist(grp, cstr)})'
    cgot = copt(got, lambda g: clist(g, lambda x: copt(x, lambda p: f'({cstr(p[0])}, {ck[p[1]]})')))
    return f'io_case {clist(ports, cstr)} {clist(stmts, cdecl)} {cgot}', desc, got


# ---- bench elaborator ------------------------------------------------------------------------------------
BENCH_KINDS = ['AND2', 'and', 'NAND3', 'or', 'NOR2', 'xor', 'XNOR2', 'not', 'INV1', 'BUF1', 'buf', 'DFF', 'dff', 'AOI21', 'MUX21', 'AND2_X1',
               '__const0__', '__const1__', '__fork__']


def gen_bench_stmts(rng):
    """small descriptions over a small name pool: forward references, outputs read internally, signals used twice
    on one gate, duplicate assignments (assertion), interface statements anywhere, empty parameter lists"""
    pool = rng.sample(['a', 'b', 'c', 'd', 'z', 'y', 'w', 'n-1', '_t', '9', 'G10', 'g10'], rng.randint(2, 8))
    stmts = []
    n = rng.randint(1, 9)
    assigned = set()
    for _ in range(n):
        st = rng.random()
        if st < 0.3:
            stmts.append(('io', rng.choice(['INPUT', 'input', 'OUTPUT', 'output']), [rng.choice(pool) for _ in range(rng.randint(0, 3))]))
        else:
            z = rng.choice(pool)
            if z in assigned and rng.random() < 0.8:
                z = rng.choice(pool)
            assigned.add(z)
            kind = rng.choice(BENCH_KINDS[:-1]) if rng.random() < 0.97 else '__fork__'
            ar = 0 if kind.startswith('__c') else rng.randint(0 if rng.random() < 0.1 else 1, 4)
            stmts.append(('as', z, kind, [rng.choice(pool) for _ in range(ar)]))
    return stmts


def bench_text(stmts, rng):
    def sp():
        return rng.choice(['', '', ' ', '  ', '\t'])
    out = []
    for s in stmts:
        if s[0] == 'io':
            out.append(f'{s[1]}{sp()}({sp()}' + f'{sp()},{sp()}'.join(s[2]) + f'{sp()})')
        else:
            out.append(f'{s[1]}{sp()}={sp()}{s[2]}{sp()}({sp()}' + f'{sp()},{sp()}'.join(s[3]) + f'{sp()})')
        if rng.random() < 0.2:
            out[-1] += ' # ' + rng.choice(['comment', 'z = and(a,b)', 'INPUT(q)', ''])
    sep = '\n' if rng.random() < 0.8 else rng.choice([' ', '\n\n', '\r\n'])
    if any('#' in o for o in out):
        sep = '\n'
    return sep.join(out) + rng.choice(['', '\n'])


def bench_view(c):
    nodes = [(n.name, n.kind) for n in c.nodes]
    lines = [(l.driver.index, l.driver_pin, l.reader.index, l.reader_pin) for l in c.lines]
    return nodes, lines, [n.index for n in c.io_nodes]


def coq_bench_stmts(stmts):
    def one(s):
        if s[0] == 'io':
            return f'BInterface {clist(s[2], cstr)}'
        return f'BAssign {cstr(s[1])} {cstr(s[2])} {clist(s[3], cstr)}'
    return clist(stmts, one)


def bench_case_of(stmts, text):
    from kyupy import bench
    desc = {'kind': 'bench', 'text': text}
    try:
        with quiet():
            c = bench.parse(text)
        got = bench_view(c)
    except AssertionError:
        got = None
        desc['raises'] = 'AssertionError'
    cgot = copt(got, lambda v: '(' + clist(v[0], lambda p: f'({cstr(p[0])}, {cstr(p[1])})') + ', ' +
                clist(v[1], lambda q: f'({q[0]}, {q[1]}, {q[2]}, {q[3]})') + ', ' + clist(v[2]) + ')')
    return f'bench_case {coq_bench_stmts(stmts)} {cgot}', desc, got


def bench_case(rng):
    stmts = gen_bench_stmts(rng)
    return bench_case_of(stmts, bench_text(stmts, rng))


# ---- python twins of the theorems, evaluated on what the implementation returned (oracle) -----------------
def oracle(desc, got):
    """Returns a failure text if the implementation's result contradicts the property statement."""
    k = desc['kind']
    if k == 'range':
        l, r = desc['l'], desc['r']
        exp = [l] if r is None else ([l + i for i in range(r - l + 1)] if l <= r else [l - i for i in range(l - r + 1)])
        if got != exp:
            return (f'[{l}:{r}] expands to {got[:6]}.. ({len(got)} indices), declared range is {exp[:6]}.. ({len(exp)})' if isinstance(got, list)
                    else f'[{l}:{r}] gives {got!r}, declared range is {exp[:6]}.. ({len(exp)} indices)')
    if k in ('sigsel-range', 'names') and desc.get('l') is not None:
        l, r, name = desc['l'], desc['r'], desc['name']
        idx = [l] if r is None else ([l + i for i in range(r - l + 1)] if l <= r else [l - i for i in range(l - r + 1)])
        exp = [f'{name}[{i}]' for i in idx]
        g = [got] if isinstance(got, str) else got
        if g != exp:
            return f'{name}[{l}:{r}] yields {g[:5] if isinstance(g, list) else g!r}.. expected {exp[:5]}..'
    if k == 'sigsel-const' and 'raises' not in desc:
        import re
        m = re.fullmatch(r"0*(\d+)'([bdhBDH])([0-9a-fA-F]+)", desc['token'])
        if m and int(m.group(1)) > 0:
            w, val = int(m.group(1)), int(m.group(3), {'b': 2, 'd': 10, 'h': 16}[m.group(2).lower()])
            g = [got] if isinstance(got, str) else got
            exp = [f"1'b{(val >> (w - 1 - i)) & 1}" for i in range(w)]
            if g != exp:
                return f"{desc['token']} yields {g}, expected {w} bits MSB first of {val} mod 2^{w}: {exp}"
    if k == 'concat':
        exp = [x for a in desc['args'] for x in (a if isinstance(a, list) else [a])]
        if got != exp:
            return f'concat yields {got}, expected {exp}'
    return None


# ---- VerilogTransformer.module: passes 0, 1, 1.5, 2 (Model/VerilogModule.v) --------------------------------
MOD_HEADER = '''From Coq Require Import List NArith ZArith Bool Arith String Ascii.
From KV Require Import Model.VerilogElab Model.Circuit Model.VerilogModule Model.Corr.
Import ListNotations.
Local Open Scope list_scope.
Local Open Scope string_scope.
'''


def mod_cases_file(cases):
    return MOD_HEADER + 'Definition results : list bool := [\n ' + ';\n '.join(cases) + '].\nEval vm_compute in (failing results).\n'


INST_SEEN = []      # (pin children of the parse tree, items of the dict built by VerilogTransformer.instantiation)


def inst_cases(limit):
    """the intercepted calls of VerilogTransformer.instantiation as cases for Model/VerilogModule.v mk_pins"""
    out, seen = [], set()
    for raw, items in INST_SEEN:
        try:
            rp = clist(raw, lambda p: (f'RNamed {cstr(p[0])} {copt(p[1], coq_sigval)}' if isinstance(p, tuple) else f'RPos {coq_sigval(p)}'))
            it = clist(items, lambda kv: '(' + (f'PName {cstr(kv[0])}' if isinstance(kv[0], str) else f'PPos {kv[0]}') + f', {coq_sigval(kv[1])})')
        except AssertionError:
            continue
        c = f'inst_case {rp} {it}'
        if c not in seen:
            seen.add(c)
            out.append(c)
        if len(out) >= limit:
            break
    del INST_SEEN[:]
    return out


_PARSERS = {}       # (id(tlib), branchforks) -> (Lark parser with the tapping transformer, the transformer)


def _tap_parser(tlib, branchforks):
    from lark import Lark
    from kyupy import verilog
    key = (id(tlib), branchforks)
    if key not in _PARSERS:
        class Tap(verilog.VerilogTransformer):
            seen = None

            @staticmethod
            def instantiation(args):
                r = verilog.VerilogTransformer.instantiation(args)
                INST_SEEN.append(([a.children[0] for a in args[2:]], list(r.pins.items())))
                return r

            def module(self, args):
                rec = [list(args), None, None]
                self.seen.append(rec)
                try:
                    rec[1] = verilog.VerilogTransformer.module(self, args)
                except Exception as e:       # the model's None
                    rec[2] = type(e).__name__
                    raise
                return rec[1]
        tap = Tap(branchforks, tlib)
        _PARSERS[key] = (Lark(verilog.GRAMMAR, parser='lalr', transformer=tap), tap)
    return _PARSERS[key]


def capture_modules(text, tlib, branchforks):
    """Runs the REAL parser (kyupy.verilog.GRAMMAR, lalr, transformer applied while parsing, exactly as verilog.parse does)
    with a subclass of VerilogTransformer whose `module` records the arguments lark hands to it and then calls the real
    method.  -> [(args, Circuit | None, exception name | None)], one entry per module call."""
    parser, tap = _tap_parser(tlib, branchforks)
    tap.seen = seen = []
    try:
        with quiet():
            parser.parse(text)
    except Exception as e:
        if not seen or seen[-1][2] is None:
            return None, f'{type(e).__name__}: {e}'       # the text did not reach module (lexer / parser / child transformer)
    return seen, None


def coq_sigval(v):
    if isinstance(v, str):
        return f'(SOne {cstr(v)})'
    return f'(SMany {clist(list(v), cstr)})'


def coq_module_args(args):
    """the argument list of VerilogTransformer.module as a vmodule term"""
    from kyupy.verilog import SignalDeclaration, Instantiation
    kd = {'input': 'KInput', 'output': 'KOutput', 'wire': 'KWire'}
    stmts = []
    for st in args[2:]:
        if isinstance(st, list):
            assert all(isinstance(d, SignalDeclaration) for d in st) and st, st
            ds = [f'{{| d_kind := {kd[d.kind]}; d_base := {cstr(d.basename)}; d_rng := ' +
                  ('None' if d.rnge is None else f'(Some {clist(list(d.rnge), cz)})') + ' |}' for d in st]
            stmts.append(f'VDecl {clist(ds)}')
        elif isinstance(st, Instantiation):
            pins = [('(' + (f'PName {cstr(p)}' if isinstance(p, str) else f'PPos {p}') + f', {coq_sigval(s)})') for p, s in st.pins.items()]
            stmts.append(f'VInst {cstr(st.type)} {cstr(st.name)} {clist(pins)}')
        else:
            assert st.data == 'assign' and len(st.children) == 2, st
            stmts.append(f'VAssign {coq_sigval(st.children[0])} {coq_sigval(st.children[1])}')
    ports = list(args[1].children)
    return f'(mkM {cstr(args[0])} {clist(ports, cstr)} {clist(stmts)})'


def coq_pin_tables(args, tlib):
    """TechLib.cells[kind][1] for every instantiated kind the library knows, in dict order"""
    from kyupy.verilog import Instantiation
    kinds = []
    for st in args[2:]:
        if isinstance(st, Instantiation) and st.type not in kinds:
            kinds.append(st.type)
    rows = []
    for k in kinds:
        if k in tlib.cells:
            tab = tlib.cells[k][1]
            rows.append(f'({cstr(k)}, ' + clist(tab.items(), lambda kv: f'({cstr(kv[0])}, ({kv[1][0]}, {"true" if kv[1][1] else "false"}))') + ')')
    return clist(rows)


def circuit_view(c):
    nodes = [(n.name, n.kind) for n in c.nodes]
    lines = [(l.driver.index, l.driver_pin, l.reader.index, l.reader_pin) for l in c.lines]
    io = [None if n is None else n.index for n in c.io_nodes]
    assert all(n.index == i for i, n in enumerate(c.nodes)) and all(l.index == i for i, l in enumerate(c.lines))
    return nodes, lines, io


def module_cases_of(text, tlib, branchforks, desc):
    """-> [(coq case, description, got)] for every module of the text; [] if the text never reaches module"""
    seen, err = capture_modules(text, tlib, branchforks)
    if seen is None:
        return []
    out = []
    for args, c, exc in seen:
        d = dict(desc, kind='module', branchforks=branchforks, text=text)
        if exc:
            got = None
            d['raises'] = exc
        else:
            got = circuit_view(c)
            if c.name != args[0]:
                d['name-mismatch'] = (c.name, args[0])
        try:
            term = coq_module_args(args)
        except AssertionError:          # a non-ASCII / control character in a name: not renderable
            continue
        cgot = copt(got, lambda v: '(' + clist(v[0], lambda p: f'({cstr(p[0])}, {cstr(p[1])})') + ', ' +
                    clist(v[1], lambda q: f'({q[0]}, {q[1]}, {q[2]}, {q[3]})') + ', ' + clist(v[2], lambda x: copt(x, str)) + ')')
        bfs = 'true' if branchforks else 'false'
        out.append((f'module_case {term} {coq_pin_tables(args, tlib)} {bfs} {cgot}', d, got))
    return out


WILD_NAMES = ['a', 'b', 'c', 'w', 'z', 'y', 'k', 'n1', 'u1', 'q']
WILD_KINDS = ['AND2_X1', 'INV_X1', 'BUF_X1', 'HA_X1', 'DFF_X1', 'NAND2_X1', 'MUX2_X1', 'FOO', 'output', '__fork__', '__const0__']


def gen_wild_module(rng):
    """small module texts over a tiny name pool, far outside what a synthesis tool writes: several drivers on one signal,
    undriven and unread signals, assigns in every direction (constants, driven targets, chains, self assigns, width
    mismatch), whole buses and concatenations on pins, positional and empty and duplicate and unknown pins, unknown cell
    kinds, instances named like ports, 1-bit buses by base name, undeclared ports, redeclarations, several modules."""
    from kyupy import techlib
    tl = techlib.NANGATE
    names = rng.sample(WILD_NAMES, rng.randint(2, 7))
    decl = {}
    lines = []
    for nm in names:
        r = rng.random()
        kind = rng.choice(['input', 'input', 'output', 'output', 'wire', 'wire', 'inout', 'tri', None])
        if kind is None:
            continue
        if r < 0.55:
            rg = None
        elif r < 0.75:
            k = rng.choice([0, 0, 1, 3])
            rg = (k, k)
        else:
            rg = (rng.randint(0, 3), rng.randint(0, 3))
        decl[nm] = (kind, rg)
        lines.append(f'{kind} ' + (f'[{rg[0]}:{rg[1]}] ' if rg else '') + nm + ';')
        if rng.random() < 0.15:
            lines.append(rng.choice(['wire', 'output', 'input']) + ' ' + (f'[{rg[0]}:{rg[1]}] ' if rg and rng.random() < 0.7 else '') + nm + ';')

    def bit(nm):
        rg = decl.get(nm, (None, None))[1]
        r = rng.random()
        if rg is None or r < (0.25 if rg[0] == rg[1] else 0.06):
            return nm if r > 0.03 else f'{nm}[0]'
        lo, hi = min(rg), max(rg)
        i = rng.randint(lo, hi) if r < 0.95 else hi + 1
        return f'{nm}[{i}]'

    def expr(wide=True):
        r = rng.random()
        if r < 0.12:
            w = rng.choice([1, 1, 1, 2, 3])
            return f"{w}'b" + ''.join(rng.choice('01') for _ in range(w))
        if r < 0.14:
            return rng.choice(["1'h1", "1'd0", "2'd5", "1'B1"] + (["\\1'b ", "\\1'bx "] if rng.random() < 0.1 else []))
        nm = rng.choice(names)
        if r < 0.88 or not wide:
            return bit(nm)
        if r < 0.93:
            rg = decl.get(nm, (None, None))[1]
            return f'{nm}[{rg[0]}:{rg[1]}]' if rg else nm
        return '{' + ', '.join(expr(False) for _ in range(rng.randint(1, 3))) + '}'
    driven = {nm for nm in names if decl.get(nm, ('',))[0] in ('input', 'inout')}

    def target():
        """mostly a bit nobody drives yet (a second driver is an assertion in Node())"""
        for _ in range(6):
            e = expr(False)
            if e not in driven or rng.random() < 0.04:
                driven.add(e)
                return e
        return f'nn{len(driven)}'
    insts = rng.sample(['g1', 'g2', 'g3', 'g4', 'g5', 'u1', 'a', 'z', '__const0_0__', '__const1_1__'], rng.randint(0, 4))
    for inst in insts:
        kind = rng.choice(WILD_KINDS[:7]) if rng.random() < 0.95 else rng.choice(WILD_KINDS)
        r = rng.random()
        if kind in tl.cells:
            pn = list(tl.cells[kind][1])
        else:
            pn = ['A', 'Z']
        if r < 0.03:
            pins = [expr() for _ in range(rng.randint(0, 3))]             # positional
        else:
            rng.shuffle(pn)
            pins = []
            for p in pn:
                q = rng.random()
                if q < 0.08:
                    continue
                is_out = kind in tl.cells and tl.cells[kind][1][p][1]
                if q < 0.13:
                    pins.append(f'.{p}()')
                elif is_out and q < 0.97:
                    pins.append(f'.{p}({target()})')
                else:
                    pins.append(f'.{p}({expr(q < 0.16)})')
            if rng.random() < 0.08:
                pins.insert(rng.randint(0, len(pins)), f'.{rng.choice(pn + pn + ["XX"])}({expr(False)})')       # duplicate or unknown pin
        lines.append(f'{kind} {inst} (' + ', '.join(pins) + ');')
    for _ in range(rng.choice([0, 0, 1, 1, 2, 3, 4])):
        lines.append(f'assign {target() if rng.random() < 0.93 else expr()} = {expr()};')
    rng.shuffle(lines)
    ports = [nm for nm in names if nm in decl and (decl[nm][0] not in ('wire', 'tri') or rng.random() < 0.1)]
    rng.shuffle(ports)
    if rng.random() < 0.05:
        ports.append(rng.choice(WILD_NAMES))
    text = 'module t (' + ', '.join(ports) + ');\n ' + '\n '.join(lines) + '\nendmodule\n'
    if rng.random() < 0.05:
        text += 'module t2 (a); input a; endmodule\n'
    return text, tl


# ---- TechLib pin tables vs the tables derived from the translated library text (Model/VerilogLibPins.v) ------
LIB_HEADER = MOD_HEADER + 'From KV Require Import Model.TechCell Gen.TechLibs Model.VerilogLibPins.\n'


def pintab_cases(libnames, rng):
    """one case per (library, cell kind) of the real TechLib objects plus a few kinds no library has"""
    from kyupy import techlib
    cases, meta = [], []
    for ln in libnames:
        tl = getattr(techlib, ln)
        kinds = list(tl.cells) + ['__fork__', 'NOSUCH_X1', rng.choice(list(tl.cells)) + '_']
        for k in kinds:
            got = list(tl.cells[k][1].items()) if k in tl.cells else None
            cg_ = copt(got, lambda t: clist(t, lambda kv: f'({cstr(kv[0])}, ({kv[1][0]}, {"true" if kv[1][1] else "false"}))'))
            cases.append(f'pintab_case lib_{ln} {cstr(k)} {cg_}')
            meta.append({'kind': 'pintab', 'lib': ln, 'cell': k})
    return cases, meta


def lib_cases_file(cases):
    return LIB_HEADER + 'Definition results : list bool := [\n ' + ';\n '.join(cases) + '].\nEval vm_compute in (failing results).\n'


# ---- directed stream for known finding D33: a signal that is named like a generated branch fork ----------------
def gen_bf_clash(rng):
    """-> (clash text, control text, library name, description).  A flat module in which instance `victim` reads signal S on
    pin P, and a wire that is called exactly  S~victim/P  (the name VerilogTransformer.module gives the branch fork of that
    pin; an escaped identifier) is read by another instance.  The control text is the same module with a harmless wire name.
    Statement order, the position of the reader, declared / implicit wire, bus bits as S, extra instances vary."""
    from harness import vlog_gen as vg
    lib = rng.choice(vg.LIBS)
    cat = vg.catalogue(lib)
    cells = [c for k, v in cat.items() if k[0] not in ('dff', 'sdff') for c in v if len(c[2]) == 1 and 1 <= len(c[1]) <= 3]
    n_in = rng.randint(2, 4)
    use_bus = rng.random() < 0.4
    if use_bus:
        lo = rng.choice([0, 1, 3])
        rg = (lo + n_in - 1, lo) if rng.random() < 0.6 else (lo, lo + n_in - 1)
        idx = list(range(rg[0], rg[1] + 1)) if rg[0] <= rg[1] else list(range(rg[0], rg[1] - 1, -1))
        srcs = [f'd[{i}]' for i in idx]
        decl_in = f'input [{rg[0]}:{rg[1]}] d;'
        ports_in = ['d']
    else:
        srcs = rng.sample(['a', 'b', 'c', 'e'], n_in)
        decl_in = 'input ' + ', '.join(srcs) + ';'
        ports_in = list(srcs)
    insts = rng.sample(['u1', 'u2', 'g3', 'U4', 'x5', 'i_6'], 3)
    victim, reader, other = insts

    def inst(name, cell, conn):
        kind, ins, outs, _ = cell
        pins = [f'.{p}({s})' for p, s in conn.items()]
        rng.shuffle(pins)
        return f'{kind} {name} (' + ', '.join(pins) + ');'
    vcell, rcell, ocell = rng.choice(cells), rng.choice(cells), rng.choice(cells)
    vconn = {p: rng.choice(srcs) for p in vcell[1]}
    vconn[vcell[2][0]] = 'y'
    P = rng.choice(vcell[1])
    S = vconn[P]
    clash = f'{S}~{victim}/{P}'
    control = 'w_' + ''.join(ch if ch.isalnum() else '_' for ch in clash)
    rpin = rng.choice(rcell[1])
    oconn = {p: rng.choice(srcs) for p in ocell[1]}
    oconn[ocell[2][0]] = 'v'
    declare = rng.random() < 0.6
    reader_first = rng.random() < 0.3

    def render(wname):
        ref = wname if all(ch.isalnum() or ch == '_' for ch in wname) else '\\' + wname + ' '
        rconn = {p: (ref if p == rpin else rng.choice(srcs)) for p in rcell[1]}
        rconn[rcell[2][0]] = 'z'
        body = [inst(victim, vcell, vconn), inst(other, ocell, oconn)]
        rinst = inst(reader, rcell, rconn)
        if reader_first:
            body.insert(0, rinst)
        else:
            body.insert(rng.randint(1, len(body)), rinst)
        decls = [decl_in, 'output y, z, v;'] + ([f'wire {ref};'] if declare else [])
        stmts = decls + body
        if rng.random() < 0.5:
            stmts = body + decls
        return f'module clash ({", ".join(ports_in + ["y", "z", "v"])});\n ' + '\n '.join(stmts) + '\nendmodule\n'
    st = rng.getstate()
    t_clash = render(clash)
    rng.setstate(st)                      # the same random choices for the control text
    t_ctrl = render(control)
    return t_clash, t_ctrl, lib, {'kind': 'bf-clash', 'lib': lib, 'victim': f'{victim}.{P}', 'signal': S, 'clash-name': clash,
                                  'reader-first': reader_first, 'declared': declare}


def bf_diff(text, libname):
    """parses with branchforks False / True and compares the connectivity after contracting the added 1:1 forks.
    -> None if branchforks only inserts forks, else a description of the difference."""
    from kyupy import verilog, techlib
    from harness import vlog_gen as vg
    tl = getattr(techlib, libname)
    res = {}
    for bf in (False, True):
        try:
            with quiet():
                res[bf] = verilog.parse(text, tlib=tl, branchforks=bf)
        except Exception as e:
            res[bf] = f'{type(e).__name__}: {e}'
    c0, c1 = res[False], res[True]
    if isinstance(c0, str) and isinstance(c1, str):
        return None
    if isinstance(c0, str) or isinstance(c1, str):
        return (f'branchforks=False {"raises " + c0 if isinstance(c0, str) else "is accepted"}, '
                f'branchforks=True {"raises " + c1 if isinstance(c1, str) else "is accepted"}')
    key = lambda n: (n.name, n.kind)
    n0, n1 = {key(n) for n in c0.nodes}, {key(n) for n in c1.nodes}
    if not n0 <= n1:
        return f'nodes missing with branchforks=True: {sorted(n0 - n1)[:3]}'
    extras = n1 - n0
    for n in c1.nodes:
        if key(n) in extras and (n.kind != '__fork__' or len(n.ins) != 1 or len(n.outs) != 1 or n.ins[0] is None or n.outs[0] is None):
            return f'branchforks=True adds node {n.name!r} ({n.kind}) with {len(n.ins)} inputs / {len(n.outs)} outputs: not a 1:1 fork'
    a, b = vg.canon(c0, set()), vg.canon(c1, extras)
    if a != b:
        only0 = [e for e in a if e not in b][:2]
        only1 = [e for e in b if e not in a][:2]
        return f'after contracting the added forks: only without branch forks {only0}, only with branch forks {only1}'
    n_pins = sum(1 for n in c0.nodes if n.kind != '__fork__' for l in n.ins if l is not None and n.kind not in ('output',))
    if len(extras) != n_pins:
        return f'branchforks=True adds {len(extras)} forks for {n_pins} connected cell input pins'
    return None
