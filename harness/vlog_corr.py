"""C11 correspondence: the real helper methods of kyupy.verilog.VerilogTransformer / SignalDeclaration and the real
bench elaborator are run on generated inputs; (input, what the implementation produced) is rendered as a Coq term
for KV.Model.VerilogElab, whose *_case functions recompute the result with the model and compare.

Everything is drawn from the random.Random passed in.  Streams: mostly-valid inputs plus edge inputs on which the
implementation raises (model: None)."""
import contextlib
import io

HEADER = '''From Coq Require Import List NArith ZArith Bool Arith String Ascii.
From KV Require Import Model.VerilogElab Model.Corr.
Import ListNotations.
Local Open Scope list_scope.
Local Open Scope string_scope.
'''

SIMPLE = ['a', 'b', 'clk', 'data', 'Q', 'n_12', '_x', 'sum', 'cO', 'w1', 'A1', 'zz9', 'io_bus', 'N', 'r2d2']
ODD = ['a.b', 'n[3]', 'u1/x', '$w', '3x', 'p[1][0]', 'x+y', 'q~', 'k[0]', 'top.u.q']


@contextlib.contextmanager
def quiet():
    """kyupy.log writes to the stream it saw at import time: swap it"""
    import kyupy
    buf = io.StringIO()
    old = kyupy.log.logfile
    kyupy.log.logfile = buf
    try:
        with contextlib.redirect_stdout(io.StringIO()):
            yield buf
    finally:
        kyupy.log.logfile = old


# ---- rendering -------------------------------------------------------------------------------------------
def cstr(s):
    assert all(ord(ch) < 127 and (ord(ch) >= 32 or ch in '\t\n\r') for ch in s), repr(s)      # raw tab / newline are fine inside a Coq string
    return '"' + s.replace('"', '""') + '"'


def clist(xs, f=str):
    return '[' + '; '.join(f(x) for x in xs) + ']'


def cz(z):
    return f'{z}%Z' if z >= 0 else f'({z})%Z'


def copt(x, f):
    return 'None' if x is None else f'(Some {f(x)})'


def csig(v):
    return f'(SOne {cstr(v)})' if isinstance(v, str) else f'(SMany {clist(v, cstr)})'


def cases_file(cases):
    return HEADER + 'Definition results : list bool := [\n ' + ';\n '.join(cases) + '].\nEval vm_compute in (failing results).\n'


# ---- helper methods --------------------------------------------------------------------------------------
def tok(s):
    from lark import Token
    return Token('__ANON', s)


def gen_range(rng):
    st = rng.random()
    if st < 0.45:
        l, r = rng.randint(0, 12), rng.randint(0, 12)
    elif st < 0.6:
        l = rng.randint(0, 300); r = l + rng.choice([-1, 0, 1, 0])
        r = max(r, 0)
    elif st < 0.8:
        l = rng.randint(0, 2000); r = max(0, l + rng.randint(-40, 40))
    else:
        l, r = rng.randint(0, 63), None
    return l, r


def range_case(rng):
    """-> (coq case, description, python result)"""
    from kyupy.verilog import VerilogTransformer
    l, r = gen_range(rng)
    lead = '0' * rng.choice([0, 0, 0, 1, 2])
    args = [tok(lead + str(l))] + ([tok(str(r))] if r is not None else [])
    got = list(VerilogTransformer().range(args))
    return f'range_case {cz(l)} {copt(r, cz)} {clist(got, cz)}', {'kind': 'range', 'l': l, 'r': r}, got


def gen_const(rng):
    """a token the lexer rule /[0-9]+'[bdh][0-9a-f]+/i admits (plus a few it does not: two quotes, empty parts)"""
    w = rng.choice([1, 1, 2, 3, 4, 5, 8, 12, 16, 33, 0])
    base = rng.choice('bdhBDH')
    digs = {'b': '01', 'd': '0123456789', 'h': '0123456789abcdefABCDEF'}[base.lower()]
    st = rng.random()
    n = rng.randint(1, max(1, (w + 3) // {'b': 1, 'd': 3, 'h': 4}[base.lower()] + rng.choice([0, 0, 1, 3])))
    body = ''.join(rng.choice(digs) for _ in range(n))
    if st < 0.12:      # a digit the base does not have (ValueError)
        body = body[:-1] + rng.choice({'b': '29af', 'd': 'afC', 'h': 'f'}[base.lower()])
    ws = ('0' * rng.choice([0, 0, 1])) + str(w)
    s = f"{ws}'{base}{body}"
    if st > 0.97:
        s = s + "'b1"
    return s


def sigsel_case(rng):
    from kyupy.verilog import VerilogTransformer
    t = VerilogTransformer()
    st = rng.random()
    if st < 0.35:
        name = rng.choice(SIMPLE + ODD)
        l, r = gen_range(rng)
        if r is not None and abs(l - r) > 70:
            r = l
        rg = t.range([tok(str(l))] + ([tok(str(r))] if r is not None else []))
        args, coq = [name, rg], f'(AName {cstr(name)} (Some (vrange {cz(l)} {copt(r, cz)})))'
        desc = {'kind': 'sigsel-range', 'name': name, 'l': l, 'r': r}
    elif st < 0.8:
        name = gen_const(rng)
        args, coq = [name], f'(AName {cstr(name)} None)'
        desc = {'kind': 'sigsel-const', 'token': name}
    elif st < 0.9:
        name = rng.choice(SIMPLE + ODD + ["it's", "'", "4'", "'b1", "x'b1", "4'q1"])
        args, coq = [name], f'(AName {cstr(name)} None)'
        desc = {'kind': 'sigsel-name', 'name': name}
    else:
        l = [rng.choice(SIMPLE + ["1'b0", "1'b1", 'a[3]'] + (["'"] if rng.random() < 0.1 else [])) for _ in range(rng.randint(0, 4))]
        args, coq = [l], f'(AConcat {clist(l, cstr)})'
        desc = {'kind': 'sigsel-concat', 'list': l}
    try:
        got = t.sigsel(args)
        if not isinstance(got, (str, list)):
            got = list(got)
    except Exception as e:
        got = None
        desc['raises'] = type(e).__name__
    return f'sigsel_case {coq} {copt(got, csig)}', desc, got


def concat_case(rng):
    from kyupy.verilog import VerilogTransformer
    args = []
    for _ in range(rng.randint(0, 6)):
        if rng.random() < 0.5:
            args.append(rng.choice(SIMPLE + ODD + ["1'b1"]))
        else:
            args.append([rng.choice(SIMPLE) + f'[{rng.randint(0, 9)}]' for _ in range(rng.randint(0, 4))])
    got = VerilogTransformer().concat([list(a) if isinstance(a, list) else a for a in args])
    return f'concat_case {clist(args, csig)} {clist(got, cstr)}', {'kind': 'concat', 'args': args}, got


def names_case(rng):
    from kyupy.verilog import SignalDeclaration, VerilogTransformer
    name = rng.choice(SIMPLE + ODD)
    kind = rng.choice(['input', 'output', 'wire'])
    if rng.random() < 0.25:
        rg, crg, l, r = None, 'None', None, None
    else:
        l, r = gen_range(rng)
        if r is not None and abs(l - r) > 70:
            r = l
        rg = VerilogTransformer().range([tok(str(l))] + ([tok(str(r))] if r is not None else []))
        crg = f'(Some (vrange {cz(l)} {copt(r, cz)}))'
    got = SignalDeclaration(kind, name, rg).names
    ck = {'input': 'KInput', 'output': 'KOutput', 'wire': 'KWire'}[kind]
    return (f'names_case {{| d_kind := {ck}; d_base := {cstr(name)}; d_rng := {crg} |}} {clist(got, cstr)}',
            {'kind': 'names', 'name': name, 'l': l, 'r': r}, got)


# ---- port position table / io_nodes through tiny parsed modules -------------------------------------------
def esc(name, rng):
    import re
    if re.fullmatch(r'[A-Za-z_][A-Za-z0-9_]*', name) and name not in ('module', 'endmodule', 'input', 'output', 'inout', 'wire', 'tri', 'assign') \
            and rng.random() < 0.85:
        return name
    return '\\' + name + rng.choice([' ', ' ', '\t', '\n'])


def io_case(rng):
    """declaration-only module: ports, redeclarations (wire before / after), inout, undeclared ports, duplicate
    ports, io declarations that are not ports, buses in both directions."""
    from kyupy import verilog
    pool = rng.sample(SIMPLE + ['a.b', 'u1/x', '$w', '3x'], rng.randint(1, 7))
    decls = {}  # base -> (kind, rng)
    stmts = []  # (kind keyword, range or None, [bases])
    for b in pool:
        kind = rng.choice(['input', 'input', 'output', 'output', 'inout', 'wire'])
        if rng.random() < 0.5:
            rg = None
        else:
            l, r = rng.randint(0, 9), rng.randint(0, 9)
            rg = (l, None) if rng.random() < 0.1 else (l, r)
        decls[b] = (kind, rg)
    order = list(pool)
    rng.shuffle(order)
    i = 0
    while i < len(order):       # group equal (kind, range) neighbours into one statement sometimes
        b = order[i]
        grp = [b]
        while i + 1 < len(order) and decls[order[i + 1]] == decls[b] and rng.random() < 0.6:
            i += 1
            grp.append(order[i])
        stmts.append((decls[b][0], decls[b][1], grp))
        i += 1
    # redeclarations
    for b in pool:
        if rng.random() < 0.3:
            k2 = rng.choice(['wire', 'wire', 'output', 'input'])
            st = (k2, decls[b][1] if rng.random() < 0.8 else None, [b])
            stmts.insert(rng.randint(0, len(stmts)), st)
    ports = [b for b in pool if decls[b][0] != 'wire' or rng.random() < 0.3]
    rng.shuffle(ports)
    if rng.random() < 0.1:
        ports.append('undeclared_p')
    if ports and rng.random() < 0.08:
        ports.insert(rng.randint(0, len(ports)), rng.choice(ports))
    if rng.random() < 0.15 and len(ports) > 1:
        ports.pop()          # an io declaration that is not a port

    def rtxt(rg):
        if rg is None:
            return ''
        return f'[{rg[0]}]' if rg[1] is None else f'[{rg[0]}:{rg[1]}]'
    text = 'module m (' + ', '.join(esc(p, rng) for p in ports) + ');\n'
    for kind, rg, grp in stmts:
        text += f' {kind} {rtxt(rg)} ' + ', '.join(esc(b, rng) for b in grp) + ';\n'
    text += 'endmodule\n'
    desc = {'kind': 'io', 'text': text}
    try:
        with quiet():
            c = verilog.parse(text)
        got = [None if n is None else (n.name, n.kind) for n in c.io_nodes]
    except KeyError as e:
        got = None
        desc['raises'] = 'KeyError'
    except AssertionError as e:
        # duplicate cell names (two io declarations expanding to one name): outside the model's domain
        return None, desc, None
    ck = {'input': 'KInput', 'output': 'KOutput', 'inout': 'KInput', 'wire': 'KWire'}

    def cdecl(st):
        kind, rg, grp = st
        crg = 'None' if rg is None else f'(Some (vrange {cz(rg[0])} {copt(rg[1], cz)}))'
        return f'(declaration {ck[kind]} {crg} {clist(grp, cstr)})'
    cgot = copt(got, lambda g: clist(g, lambda x: copt(x, lambda p: f'({cstr(p[0])}, {ck[p[1]]})')))
    return f'io_case {clist(ports, cstr)} {clist(stmts, cdecl)} {cgot}', desc, got


# ---- bench elaborator ------------------------------------------------------------------------------------
BENCH_KINDS = ['AND2', 'and', 'NAND3', 'or', 'NOR2', 'xor', 'XNOR2', 'not', 'INV1', 'BUF1', 'buf', 'DFF', 'dff', 'AOI21', 'MUX21', 'AND2_X1',
               '__const0__', '__const1__', '__fork__']


def gen_bench_stmts(rng):
    """small descriptions over a small name pool: forward references, outputs read internally, signals used twice
    on one gate, duplicate assignments (assertion), interface statements anywhere, empty parameter lists"""
    pool = rng.sample(['a', 'b', 'c', 'd', 'z', 'y', 'w', 'n-1', '_t', '9', 'G10', 'g10'], rng.randint(2, 8))
    stmts = []
    n = rng.randint(1, 9)
    assigned = set()
    for _ in range(n):
        st = rng.random()
        if st < 0.3:
            stmts.append(('io', rng.choice(['INPUT', 'input', 'OUTPUT', 'output']), [rng.choice(pool) for _ in range(rng.randint(0, 3))]))
        else:
            z = rng.choice(pool)
            if z in assigned and rng.random() < 0.8:
                z = rng.choice(pool)
            assigned.add(z)
            kind = rng.choice(BENCH_KINDS[:-1]) if rng.random() < 0.97 else '__fork__'
            ar = 0 if kind.startswith('__c') else rng.randint(0 if rng.random() < 0.1 else 1, 4)
            stmts.append(('as', z, kind, [rng.choice(pool) for _ in range(ar)]))
    return stmts


def bench_text(stmts, rng):
    def sp():
        return rng.choice(['', '', ' ', '  ', '\t'])
    out = []
    for s in stmts:
        if s[0] == 'io':
            out.append(f'{s[1]}{sp()}({sp()}' + f'{sp()},{sp()}'.join(s[2]) + f'{sp()})')
        else:
            out.append(f'{s[1]}{sp()}={sp()}{s[2]}{sp()}({sp()}' + f'{sp()},{sp()}'.join(s[3]) + f'{sp()})')
        if rng.random() < 0.2:
            out[-1] += ' # ' + rng.choice(['comment', 'z = and(a,b)', 'INPUT(q)', ''])
    sep = '\n' if rng.random() < 0.8 else rng.choice([' ', '\n\n', '\r\n'])
    if any('#' in o for o in out):
        sep = '\n'
    return sep.join(out) + rng.choice(['', '\n'])


def bench_view(c):
    nodes = [(n.name, n.kind) for n in c.nodes]
    lines = [(l.driver.index, l.driver_pin, l.reader.index, l.reader_pin) for l in c.lines]
    return nodes, lines, [n.index for n in c.io_nodes]


def coq_bench_stmts(stmts):
    def one(s):
        if s[0] == 'io':
            return f'BInterface {clist(s[2], cstr)}'
        return f'BAssign {cstr(s[1])} {cstr(s[2])} {clist(s[3], cstr)}'
    return clist(stmts, one)


def bench_case_of(stmts, text):
    from kyupy import bench
    desc = {'kind': 'bench', 'text': text}
    try:
        with quiet():
            c = bench.parse(text)
        got = bench_view(c)
    except AssertionError:
        got = None
        desc['raises'] = 'AssertionError'
    cgot = copt(got, lambda v: '(' + clist(v[0], lambda p: f'({cstr(p[0])}, {cstr(p[1])})') + ', ' +
                clist(v[1], lambda q: f'({q[0]}, {q[1]}, {q[2]}, {q[3]})') + ', ' + clist(v[2]) + ')')
    return f'bench_case {coq_bench_stmts(stmts)} {cgot}', desc, got


def bench_case(rng):
    stmts = gen_bench_stmts(rng)
    return bench_case_of(stmts, bench_text(stmts, rng))


# ---- python twins of the theorems, evaluated on what the implementation returned (oracle) -----------------
def oracle(desc, got):
    """Returns a failure text if the implementation's result contradicts the property statement."""
    k = desc['kind']
    if k == 'range':
        l, r = desc['l'], desc['r']
        exp = [l] if r is None else ([l + i for i in range(r - l + 1)] if l <= r else [l - i for i in range(l - r + 1)])
        if got != exp:
            return f'[{l}:{r}] expands to {got[:6]}.. ({len(got)} indices), declared range is {exp[:6]}.. ({len(exp)})'
    if k in ('sigsel-range', 'names') and desc.get('l') is not None:
        l, r, name = desc['l'], desc['r'], desc['name']
        idx = [l] if r is None else ([l + i for i in range(r - l + 1)] if l <= r else [l - i for i in range(l - r + 1)])
        exp = [f'{name}[{i}]' for i in idx]
        g = [got] if isinstance(got, str) else got
        if g != exp:
            return f'{name}[{l}:{r}] yields {g[:5]}.. expected {exp[:5]}..'
    if k == 'sigsel-const' and 'raises' not in desc:
        import re
        m = re.fullmatch(r"0*(\d+)'([bdhBDH])([0-9a-fA-F]+)", desc['token'])
        if m and int(m.group(1)) > 0:
            w, val = int(m.group(1)), int(m.group(3), {'b': 2, 'd': 10, 'h': 16}[m.group(2).lower()])
            g = [got] if isinstance(got, str) else got
            exp = [f"1'b{(val >> (w - 1 - i)) & 1}" for i in range(w)]
            if g != exp:
                return f"{desc['token']} yields {g}, expected {w} bits MSB first of {val} mod 2^{w}: {exp}"
    if k == 'concat':
        exp = [x for a in desc['args'] for x in (a if isinstance(a, list) else [a])]
        if got != exp:
            return f'concat yields {got}, expected {exp}'
    return None
