"""Independent liveness / overlap checker for the signal-memory map published by sim.SimOps."""
import numpy as np


def check_map(so, c, strip):
    """so: a SimOps (or subclass) instance. Returns None or a description of the violated clause."""
    ops = np.asarray(so.ops)
    locs = np.asarray(so.c_locs)
    caps = np.asarray(so.c_caps)
    nl = len(c.lines)
    n_levels = len(so.level_starts)
    level_of_op = np.zeros(len(ops), dtype=int)
    for li, (a, b) in enumerate(zip(so.level_starts, so.level_stops)):
        level_of_op[a:b] = li + 1
    # stems as the property describes them: a stripped fan-out branch stands for the signal feeding its fork (chain)
    stem = {}
    if strip:
        for f in c.forks.values():
            if len(f.ins) == 0 or f.ins[0] is None:
                continue
            l = f.ins[0]
            while l.driver.kind == '__fork__' and len(l.driver.ins) > 0 and l.driver.ins[0] is not None:
                l = l.driver.ins[0]
            for ol in f.outs:
                if ol is not None:
                    stem[ol.index] = l.index
    FOREVER = n_levels + 5
    born, dies = {}, {}
    special = {so.zero_idx, so.tmp_idx, so.tmp2_idx}
    for i in range(so.ppi_offset, so.ppo_offset):
        if locs[i] >= 0:
            born[i], dies[i] = 0, FOREVER
    for i in special:
        born[i], dies[i] = 0, FOREVER
    for k, op in enumerate(ops):
        o = int(op[1])
        lv = level_of_op[k]
        if o not in special:
            if o in born:
                return f'signal {o} is produced by two operations'
            born[o], dies[o] = lv, lv
        for x in op[2:6]:
            x = stem.get(int(x), int(x))
            if x not in born:
                return f'operation {k} (level {lv}) reads signal {x} which no earlier operation produced and which is not an interface/zero slot'
            if born[x] >= lv and x not in special and not (so.ppi_offset <= x < so.ppo_offset):
                return f'operation {k} reads signal {x} produced in its own or a later level ({born[x]} >= {lv})'
            dies[x] = max(dies[x], lv)
    # everything a port or state element reads must stay intact until results are read
    for i, n in enumerate(c.s_nodes):
        if len(n.ins) > 0 and n.ins[0] is not None:
            x = stem.get(n.ins[0].index, n.ins[0].index)
            if x in born:
                dies[x] = FOREVER
            if locs[so.ppo_offset + i] != locs[x] or caps[so.ppo_offset + i] != caps[x]:
                return f'output slot of s_node {i} is not aliased to the signal it stands for'
    for b, s in stem.items():
        if (locs[b], caps[b]) != (locs[s], caps[s]):
            return f'stripped branch {b} is not aliased to its stem {s}'
    items = sorted(born)
    for x in items:
        if locs[x] < 0 or locs[x] + caps[x] > so.c_len or caps[x] <= 0:
            return f'signal {x} region [{locs[x]},{locs[x] + caps[x]}) outside [0,{so.c_len})'
    # simultaneously live signals must not overlap
    iv = sorted((int(locs[x]), int(locs[x] + caps[x]), born[x], dies[x], x) for x in items)
    for a in range(len(iv)):
        for b in range(a + 1, len(iv)):
            if iv[b][0] >= iv[a][1]:
                break
            # regions overlap in memory: live ranges must be disjoint.  A region released at the end of level L
            # may be handed out from level L+1 on.
            la, lb = iv[a], iv[b]
            if la[2] <= lb[3] and lb[2] <= la[3]:
                return (f'signals {la[4]} (levels {la[2]}..{la[3]}, memory [{la[0]},{la[1]})) and {lb[4]} (levels {lb[2]}..{lb[3]}, '
                        f'memory [{lb[0]},{lb[1]})) are live at the same time and overlap')
    return None
