"""Correspondence of KV.Model.SimOps.build with sim.SimOps on generated circuits."""
import io
import contextlib
import numpy as np
from harness import circgen as cg

HEADER = '''From Coq Require Import List NArith ZArith Bool Arith String.
From KV Require Import Model.Netlist Model.SimOps Model.Corr.
Import ListNotations.
Local Open Scope list_scope.
Local Open Scope string_scope.
'''


def run_impl(c, caps, cmin, reuse, strip, caps_dtype=None):
    """caps: int or list. Returns simops_data tuple or None when the implementation raises.
    caps_dtype: hand the capacity vector over as a numpy array of that (possibly narrow) integer dtype."""
    from kyupy import sim
    try:
        with contextlib.redirect_stdout(io.StringIO()):
            so = sim.SimOps(c, c_caps=(np.array(caps, dtype=caps_dtype) if caps_dtype and not isinstance(caps, int) else caps),
                            c_caps_min=cmin, c_reuse=reuse, strip_forks=strip)
        if so.ops.ndim != 2:
            return so, None
        return so, (so.ops[:, :6].tolist(), so.level_starts.tolist(), so.c_locs.tolist(), so.c_caps.tolist(), int(so.c_len))
    except Exception as e:   # noqa
        return e, None


def coq_data(d):
    if d is None:
        return 'None'
    ops, ls, locs, caps, clen = d
    o = cg.coq_list(ops, lambda r: f'({r[0]}%N, [{"; ".join(str(x) for x in r[1:])}])')
    return f'Some ({o}, {cg.coq_list(ls)}, {cg.coq_list(locs, cg.coq_Z)}, {cg.coq_list(caps, cg.coq_N)}, {clen}%N)'


def caps_list(c, caps):
    n = len(c.lines) + 3
    return [caps] * n if isinstance(caps, int) else list(caps)


def coq_case(c, caps, cmin, reuse, strip, data):
    return (f'simops_case {cg.coq_netlist(c)} {cg.coq_list(caps_list(c, caps), cg.coq_N)} {cmin}%N '
            f'{"true" if reuse else "false"} {"true" if strip else "false"} ({coq_data(data)})')


def cases_file(cases):
    body = ';\n '.join(coq_case(*cs) for cs in cases)
    return HEADER + f'Definition results : list bool := [\n {body}].\nEval vm_compute in (failing results).\n'


def cert_case(c, reuse, strip):
    caps = cg.coq_list([1] * (len(c.lines) + 3), cg.coq_N)
    args = f'{cg.coq_netlist(c)} {caps} 1%N {"true" if reuse else "false"} {"true" if strip else "false"}'
    return (f'(cert_case {args} && match build {args} with Some so => ssa_topo (so_stems so) (so_nlines so + 1) (so_ops so) '
            f'| None => false end)')


def cert_file(cases):
    hdr = HEADER.replace('Model.Corr.', 'Model.Corr Model.SimOpsCert Proofs.AllocProofs.')
    return hdr + 'Definition results : list bool := [\n ' + ';\n '.join(cases) + '].\nEval vm_compute in (failing results).\n'


def run_certs(ck, circuits, label):
    """circuits: list of (c, reuse, strip). Evaluates the memory-map and schedule certificates of the MODEL's SimOps result in Coq."""
    cases = [cert_case(*x) for x in circuits]
    chunks = [cases[i:i + 40] for i in range(0, len(cases), 40)]
    outs = ck.coq_eval_many('cert', [cert_file(ch) for ch in chunks], jobs=12)
    bad = [ci * 40 + j for ci, (ok, out) in enumerate(outs) for j in ((cg.parse_nat_list(out) if ok else None) or [])]
    ran = all(ok and cg.parse_nat_list(out) is not None for ok, out in outs)
    ck.obligation(f'{label}: certificates (ownership simulation of the memory map, level independence, SSA-topological op list) hold for the model\'s SimOps '
                  f'result on {len(cases)} circuits (unit capacities)', ran and not bad, 'correspondence', f'failing circuits {bad[:8]}')
    return bad


def run_domain(ck, circuits, label, min_frac=0.3):
    """Discharges the netlist hypotheses of the option theorems (wf_netlist, comb_acyclic, gates_known, forks_ok) on generated
    circuits with the proved-sound checker Proofs/OptionsCheck.hyps_all_b; reports how many circuits lie inside the proved domain."""
    nets = [cg.coq_netlist(c) for c in circuits]
    chunks = [nets[i:i + 40] for i in range(0, len(nets), 40)]
    texts = ['From Coq Require Import List NArith Bool Arith String.\nFrom KV Require Import Model.Netlist Proofs.OptionsCheck.\n'
             'Import ListNotations.\nOpen Scope string_scope.\nDefinition res : list bool := [\n ' +
             ';\n '.join(f'hyps_all_b {n}' for n in ch) +
             '].\nEval vm_compute in (map fst (filter (fun p => negb (snd p)) (combine (seq 0 (List.length res)) res))).\n' for ch in chunks]
    outs = ck.coq_eval_many('dom', texts, jobs=12)
    ran = all(ok and cg.parse_nat_list(out) is not None for ok, out in outs)
    outside = [ci * 40 + j for ci, (ok, out) in enumerate(outs) for j in ((cg.parse_nat_list(out) if ok else None) or [])]
    inside = len(nets) - len(outside)
    ck.dist[f'{label}: circuits inside the proved domain (wf, acyclic, gates_known, forks_ok)'] = inside
    ck.dist[f'{label}: circuits outside (e.g. output-less gate, unknown kind, fork without input)'] = len(outside)
    ck.obligation(f'{label}: the hypotheses of the option theorems are discharged by the proved-sound checker hyps_all_b on {inside} of '
                  f'{len(nets)} generated circuits (non-vacuity; the others are covered by the per-case certificate only)',
                  ran and inside >= min_frac * len(nets), 'correspondence', '' if ran else outs[0][1][-500:])
    return outside


# ---- translated source (Gen/SimOpsSrc.v) --------------------------------------------------------------------------------------
# the comparison functions are emitted into every case file (not a Model file: a Model file importing Gen/SimOpsSrc.v would make
# every property's build depend on this translation)
SRC_DEFS = '''Definition simops_src_data := (list (N * list nat * list Z) * list nat * list nat * list Z * list N * N)%type.
Definition oprow_view (r : oprow) : N * list nat * list Z :=
  (r_lut r, [r_out r; r_i0 r; r_i1 r; r_i2 r; r_i3 r], [r_a0 r; r_a1 r; r_a2 r]).
Definition simops_src_view (r : list oprow * list nat * list nat * list Z * list N * N * list Z) : simops_src_data :=
  let '(ops, starts, stops, locs, caps, len, _) := r in (map oprow_view ops, starts, stops, locs, caps, len).
Definition simops_src_data_eqb (a b : simops_src_data) : bool :=
  let '(o1, l1, s1, c1, p1, n1) := a in let '(o2, l2, s2, c2, p2, n2) := b in
  list_eqb (pair_eqb (pair_eqb N.eqb (list_eqb Nat.eqb)) (list_eqb Z.eqb)) o1 o2 && list_eqb Nat.eqb l1 l2 && list_eqb Nat.eqb s1 s2 &&
  list_eqb Z.eqb c1 c2 && list_eqb N.eqb p1 p2 && N.eqb n1 n2.

(** a_ctrl : what the caller passed (None = default); the pinned normalisation is [a_ctrl_norm] *)
Definition simops_src_case (c : netlist) (actrl : option (list arow)) (caps : list N) (cmin : N) (reuse strip : bool)
    (exp : option simops_src_data) : bool :=
  opt_eqb simops_src_data_eqb
    (option_map simops_src_view
       (simops_src c (a_ctrl_norm actrl (List.length (c_lines c) + 3)) caps cmin reuse strip (S (List.length (c_nodes c))))) exp.
'''
SRC_HEADER = HEADER.replace('Model.Corr.', 'Model.Corr Model.SimOpsSrcLib Gen.SimOpsSrc.') + SRC_DEFS


def run_impl_src(c, caps, cmin, reuse, strip, a_ctrl=None):
    """like run_impl, with all nine op columns and level_stops; a_ctrl: None or a list of rows (one per line, or lines+3)"""
    from kyupy import sim
    try:
        with contextlib.redirect_stdout(io.StringIO()):
            so = sim.SimOps(c, c_caps=caps, c_caps_min=cmin, c_reuse=reuse, strip_forks=strip,
                            a_ctrl=None if a_ctrl is None else np.asarray(a_ctrl, dtype=np.int32).reshape(-1, 3))
        if so.ops.ndim != 2:
            return so, None
        return so, (so.ops.tolist(), so.level_starts.tolist(), so.level_stops.tolist(), so.c_locs.tolist(), so.c_caps.tolist(), int(so.c_len))
    except Exception as e:   # noqa
        return e, None


def coq_data_src(d):
    if d is None:
        return 'None'
    ops, ls, lst, locs, caps, clen = d
    o = cg.coq_list(ops, lambda r: f'({r[0]}%N, [{"; ".join(str(x) + "%nat" for x in r[1:6])}], [{"; ".join(cg.coq_Z(x) for x in r[6:9])}])')
    nl = lambda l: '[' + '; '.join(f'{x}%nat' for x in l) + ']'
    return f'Some ({o}, {nl(ls)}, {nl(lst)}, {cg.coq_list(locs, cg.coq_Z)}, {cg.coq_list(caps, cg.coq_N)}, {clen}%N)'


def coq_case_src(c, caps, cmin, reuse, strip, a_ctrl, data):
    act = 'None' if a_ctrl is None else 'Some ' + cg.coq_list(a_ctrl, lambda r: f'({cg.coq_Z(r[0])}, {cg.coq_Z(r[1])}, {cg.coq_Z(r[2])})')
    return (f'simops_src_case {cg.coq_netlist(c)} ({act}) {cg.coq_list(caps_list(c, caps), cg.coq_N)} {cmin}%N '
            f'{"true" if reuse else "false"} {"true" if strip else "false"} ({coq_data_src(data)})')


def cases_file_src(cases):
    body = ';\n '.join(coq_case_src(*cs) for cs in cases)
    return SRC_HEADER + f'Definition results : list bool := [\n {body}].\nEval vm_compute in (failing results).\n'


def translate_simops(ck):
    """tie T for the scheduler: regenerate Gen/SimOpsSrc.v from the current text of SimOps.__init__ (obligation: it translates)"""
    from vcheck import gen_all
    res = gen_all.generate(['SimOpsSrc'])
    ck.obligation('translate sim.SimOps -> Gen/SimOpsSrc.v', res['SimOpsSrc'] is None, 'translation', res['SimOpsSrc'] or '')
    ck.trust('translator translate/gen_simops.py (fail-closed Python-ast translation of SimOps.__init__ into option-valued Gallina over '
             'the netlist type; vocabulary Model/SimOpsSrcLib.v: Node / Line objects = their indices, numpy int arrays = lists, a set = '
             'ascending duplicate-free list, circuit.topological_order() / s_nodes = the existing models; pinned, not translated: the '
             'c_caps / a_ctrl normalisation, np.asarray(ops).reshape(-1, 9), the tail after self.c_len); its output is additionally '
             'run against the real class on generated circuits')
    return res['SimOpsSrc'] is None


def run_source_corr(ck, rng, n, label):
    """translated source (all five sections, composed in source order) = implementation: all nine op columns, level_starts,
    level_stops, c_locs, c_caps, c_len, on generated circuits x options x a_ctrl argument shapes"""
    cases = []
    for i in range(n):
        c, a = cg.gen_circuit(rng)
        reuse, strip = rng.random() < 0.6, rng.random() < 0.5
        caps = 1 if rng.random() < 0.5 else [rng.choice([4, 8, 12]) for _ in range(len(c.lines))]
        cmin = 1 if caps == 1 else 4
        act = None
        if rng.random() < 0.6:
            rows = len(c.lines) + (3 if rng.random() < 0.5 else 0)
            act = [[rng.choice([-1, 0, 1, 2]), rng.randrange(5), rng.randrange(3)] for _ in range(rows)]
        so, d = run_impl_src(c, caps, cmin, reuse, strip, act)
        ck.count(1, f'source:reuse={reuse},strip={strip},a_ctrl={"default" if act is None else len(act) - len(c.lines)}')
        cases.append((c, caps, cmin, reuse, strip, act, d))
    chunks = [cases[i:i + 8] for i in range(0, len(cases), 8)]
    outs = ck.coq_eval_many('sosrc', [cases_file_src(ch) for ch in chunks], jobs=12)
    bad = [ci * 8 + j for ci, (ok, out) in enumerate(outs) for j in ((cg.parse_nat_list(out) if ok else None) or [])]
    ran = all(ok and cg.parse_nat_list(out) is not None for ok, out in outs)
    from vcheck import core
    ck.obligation(f'{label}: translated source Gen/SimOpsSrc.v (ops incl. a_ctrl columns, level_starts, level_stops, c_locs, c_caps, c_len) = '
                  f'implementation on {len(cases)} circuits x options x a_ctrl shapes', ran and not bad, 'correspondence',
                  f'failing cases {bad[:8]}' if ran else core.coq_first_error(outs[0][1]))
    return bad


def run_op_ok(ck, circuits, label):
    """side conditions of C07_simops_levels_source_is_model / C08_simops_source_prefix_partial (array accesses in range) hold on the
    generated circuits: evaluated with the proved-sound checker op_ok_b on the MODEL's op list and stem table"""
    hdr = HEADER.replace('Model.Corr.', 'Model.Corr Proofs.SimOpsSrcLevels.')
    cases = []
    for c, _, strip in circuits:
        n = cg.coq_netlist(c)
        s = 'true' if strip else 'false'
        cases.append(f'(let c := {n} in match build_stems c {s} (src_len c) with Some st => Nat.eqb (List.length st) (src_len c) && '
                     f'forallb (op_ok_b (src_len c) st) (build_ops c {s}) | None => true end)')
    chunks = [cases[i:i + 40] for i in range(0, len(cases), 40)]
    outs = ck.coq_eval_many('opok', [hdr + 'Definition results : list bool := [\n ' + ';\n '.join(ch) + '].\nEval vm_compute in (failing results).\n'
                                     for ch in chunks], jobs=12)
    bad = [ci * 40 + j for ci, (ok, out) in enumerate(outs) for j in ((cg.parse_nat_list(out) if ok else None) or [])]
    ran = all(ok and cg.parse_nat_list(out) is not None for ok, out in outs)
    ck.obligation(f'{label}: the range side conditions of the source-tie theorems (stem table of full length, op_ok for every op) hold on '
                  f'{len(cases)} generated circuits (proved-sound checker op_ok_b)', ran and not bad, 'correspondence', f'failing circuits {bad[:8]}')
