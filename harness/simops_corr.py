"""Correspondence of KV.Model.SimOps.build with sim.SimOps on generated circuits."""
import io
import contextlib
import numpy as np
from harness import circgen as cg

HEADER = '''From Coq Require Import List NArith ZArith Bool Arith String.
From KV Require Import Model.Netlist Model.SimOps Model.Corr.
Import ListNotations.
Local Open Scope list_scope.
Local Open Scope string_scope.
'''


def run_impl(c, caps, cmin, reuse, strip):
    """caps: int or list. Returns simops_data tuple or None when the implementation raises."""
    from kyupy import sim
    try:
        with contextlib.redirect_stdout(io.StringIO()):
            so = sim.SimOps(c, c_caps=caps, c_caps_min=cmin, c_reuse=reuse, strip_forks=strip)
        if so.ops.ndim != 2:
            return so, None
        return so, (so.ops[:, :6].tolist(), so.level_starts.tolist(), so.c_locs.tolist(), so.c_caps.tolist(), int(so.c_len))
    except Exception as e:   # noqa
        return e, None


def coq_data(d):
    if d is None:
        return 'None'
    ops, ls, locs, caps, clen = d
    o = cg.coq_list(ops, lambda r: f'({r[0]}%N, [{"; ".join(str(x) for x in r[1:])}])')
    return f'Some ({o}, {cg.coq_list(ls)}, {cg.coq_list(locs, cg.coq_Z)}, {cg.coq_list(caps, cg.coq_N)}, {clen}%N)'


def caps_list(c, caps):
    n = len(c.lines) + 3
    return [caps] * n if isinstance(caps, int) else list(caps)


def coq_case(c, caps, cmin, reuse, strip, data):
    return (f'simops_case {cg.coq_netlist(c)} {cg.coq_list(caps_list(c, caps), cg.coq_N)} {cmin}%N '
            f'{"true" if reuse else "false"} {"true" if strip else "false"} ({coq_data(data)})')


def cases_file(cases):
    body = ';\n '.join(coq_case(*cs) for cs in cases)
    return HEADER + f'Definition results : list bool := [\n {body}].\nEval vm_compute in (failing results).\n'


def cert_case(c, reuse, strip):
    caps = cg.coq_list([1] * (len(c.lines) + 3), cg.coq_N)
    args = f'{cg.coq_netlist(c)} {caps} 1%N {"true" if reuse else "false"} {"true" if strip else "false"}'
    return (f'(cert_case {args} && match build {args} with Some so => ssa_topo (so_stems so) (so_nlines so + 1) (so_ops so) '
            f'| None => false end)')


def cert_file(cases):
    hdr = HEADER.replace('Model.Corr.', 'Model.Corr Model.SimOpsCert Proofs.AllocProofs.')
    return hdr + 'Definition results : list bool := [\n ' + ';\n '.join(cases) + '].\nEval vm_compute in (failing results).\n'


def run_certs(ck, circuits, label):
    """circuits: list of (c, reuse, strip). Evaluates the memory-map and schedule certificates of the MODEL's SimOps result in Coq."""
    cases = [cert_case(*x) for x in circuits]
    chunks = [cases[i:i + 40] for i in range(0, len(cases), 40)]
    outs = ck.coq_eval_many('cert', [cert_file(ch) for ch in chunks], jobs=12)
    bad = [ci * 40 + j for ci, (ok, out) in enumerate(outs) for j in ((cg.parse_nat_list(out) if ok else None) or [])]
    ran = all(ok and cg.parse_nat_list(out) is not None for ok, out in outs)
    ck.obligation(f'{label}: certificates (ownership simulation of the memory map, level independence, SSA-topological op list) hold for the model\'s SimOps '
                  f'result on {len(cases)} circuits (unit capacities)', ran and not bad, 'correspondence', f'failing circuits {bad[:8]}')
    return bad


def run_domain(ck, circuits, label, min_frac=0.3):
    """Discharges the netlist hypotheses of the option theorems (wf_netlist, comb_acyclic, gates_known, forks_ok) on generated
    circuits with the proved-sound checker Proofs/OptionsCheck.hyps_all_b; reports how many circuits lie inside the proved domain."""
    nets = [cg.coq_netlist(c) for c in circuits]
    chunks = [nets[i:i + 40] for i in range(0, len(nets), 40)]
    texts = ['From Coq Require Import List NArith Bool Arith String.\nFrom KV Require Import Model.Netlist Proofs.OptionsCheck.\n'
             'Import ListNotations.\nOpen Scope string_scope.\nDefinition res : list bool := [\n ' +
             ';\n '.join(f'hyps_all_b {n}' for n in ch) +
             '].\nEval vm_compute in (map fst (filter (fun p => negb (snd p)) (combine (seq 0 (List.length res)) res))).\n' for ch in chunks]
    outs = ck.coq_eval_many('dom', texts, jobs=12)
    ran = all(ok and cg.parse_nat_list(out) is not None for ok, out in outs)
    outside = [ci * 40 + j for ci, (ok, out) in enumerate(outs) for j in ((cg.parse_nat_list(out) if ok else None) or [])]
    inside = len(nets) - len(outside)
    ck.dist[f'{label}: circuits inside the proved domain (wf, acyclic, gates_known, forks_ok)'] = inside
    ck.dist[f'{label}: circuits outside (e.g. output-less gate, unknown kind, fork without input)'] = len(outside)
    ck.obligation(f'{label}: the hypotheses of the option theorems are discharged by the proved-sound checker hyps_all_b on {inside} of '
                  f'{len(nets)} generated circuits (non-vacuity; the others are covered by the per-case certificate only)',
                  ran and inside >= min_frac * len(nets), 'correspondence', '' if ran else outs[0][1][-500:])
    return outside
