"""Random alloc/free histories on the real sim.Heap: full-state trace for the Coq model and an
independent invariant oracle."""
import copy

HEADER = '''From Coq Require Import List NArith ZArith Bool Arith.
From KV Require Import Model.Heap Model.Corr.
Import ListNotations.
Local Open Scope list_scope.
'''


def gen_history(rng, n):
    """list of ('a', size) | ('f', k) where k selects the k-th currently live chunk (resolved while running)."""
    style = rng.choice(['mixed', 'lifo', 'fifo', 'bursts', 'same-size'])
    ops = []
    live = 0
    for _ in range(n):
        p_free = {'mixed': 0.45, 'lifo': 0.45, 'fifo': 0.45, 'bursts': 0.3, 'same-size': 0.45}[style]
        if live > 0 and rng.random() < p_free:
            if style == 'bursts' and rng.random() < 0.3:
                for _ in range(rng.randint(1, live)):
                    ops.append(('f', rng.randrange(10 ** 6)))
                    live -= 1
            else:
                ops.append(('f', 0 if style == 'fifo' else (-1 if style == 'lifo' else rng.randrange(10 ** 6))))
                live -= 1
        else:
            size = rng.choice([4, 8]) if style == 'same-size' else rng.choice([1, 1, 2, 3, 4, 4, 8, 8, 16, 5, 7, 64])
            ops.append(('a', size))
            live += 1
    return ops, style


def run_history(ops):
    """Runs on the real Heap. Returns (steps, failure or None); steps = (op, arg, returned loc, view)."""
    from kyupy import sim
    h = sim.Heap()
    live = []      # allocation order
    sizes = {}
    steps = []
    hw = 0
    for kind, arg in ops:
        if kind == 'a':
            try:
                loc = int(h.alloc(arg))
            except Exception as e:
                return steps, f'alloc({arg}) raised {type(e).__name__}: {e}'
            # oracle: fresh region must not overlap any live one
            for l in live:
                if not (loc + arg <= l or l + sizes[l] <= loc):
                    return steps, f'alloc({arg}) returned [{loc},{loc + arg}) overlapping live chunk [{l},{l + sizes[l]})'
            if loc < 0 or loc + arg > h.max_size:
                return steps, f'alloc({arg}) returned [{loc},{loc + arg}) outside [0, max_size={h.max_size})'
            live.append(loc)
            sizes[loc] = arg
            steps.append(('a', arg, loc, view(h)))
        else:
            if not live:
                continue
            loc = live.pop(arg % len(live) if arg >= 0 else -1)
            try:
                h.free(loc)
            except Exception as e:
                return steps, f'free({loc}) raised {type(e).__name__}: {e}'
            del sizes[loc]
            steps.append(('f', loc, 0, view(h)))
        hw = max(hw, h.current_size)
        msg = invariant(h, live, sizes, hw)
        if msg:
            return steps, msg
    return steps, None


def view(h):
    return (sorted((int(k), int(v)) for k, v in h.chunks.items()), [int(x) for x in h.released], int(h.current_size), int(h.max_size))


def invariant(h, live, sizes, hw):
    ch = sorted(h.chunks.items())
    pos = 0
    for s, z in ch:
        if s != pos or z <= 0:
            return f'chunks do not tile the managed range at {pos}: {ch}'
        pos += z
    if pos != h.current_size:
        return f'chunks end at {pos}, current_size is {h.current_size}'
    rel = list(h.released)
    if rel != sorted(set(rel)) or any(r not in h.chunks for r in rel):
        return f'released list not sorted / not chunk starts: {rel}'
    relset = set(rel)
    for s, z in ch:
        if s in relset and ((s + z) in relset or s + z == h.current_size):
            return f'free chunk at {s} is not coalesced with its free neighbour / the end of the range'
    for l in live:
        if l not in h.chunks or l in relset or h.chunks[l] != sizes[l]:
            return f'live chunk {l} (size {sizes[l]}) lost or resized'
    if set(h.chunks) - relset != set(live):
        return 'a chunk is neither live nor released'
    if h.max_size != hw:
        return f'max_size {h.max_size} is not the high-water mark {hw}'
    return None


def coq_view(v):
    ch, rel, cur, mx = v
    return ('([' + '; '.join(f'({a}%N, {b}%N)' for a, b in ch) + '], [' + '; '.join(f'{r}%N' for r in rel) + f'], {cur}%N, {mx}%N)')


def coq_case(steps):
    items = '; '.join((f'(HAlloc {a}%N, {loc}%N, {coq_view(v)})' if k == 'a' else f'(HFree {a}%N, 0%N, {coq_view(v)})')
                      for k, a, loc, v in steps)
    return f'heap_case hinit [{items}]'


def cases_file(cases):
    body = ';\n '.join(cases)
    return HEADER + f'Definition results : list bool := [\n {body}].\nEval vm_compute in (failing results).\n'


# the same cases on the TRANSLATED source (Gen/HeapSrc.v, written by translate/gen_heap.py from the current sim.py)
HEADER_SRC = HEADER + '''From KV Require Import Model.HeapSrcLib Gen.HeapSrc.
Fixpoint heap_case_src (h : heap) (steps : list (hop * N * heap_view)) : bool :=
  match steps with
  | [] => true
  | (HAlloc s, loc, v) :: r =>
      match alloc_src h s with
      | Some (l, h') => N.eqb l loc && heap_view_eqb (heap_view_of h') v && heap_case_src h' r
      | None => false
      end
  | (HFree l, _, v) :: r =>
      match free_src h l with Some h' => heap_view_eqb (heap_view_of h') v && heap_case_src h' r | None => false end
  end.
'''


def cases_file_src(cases):
    body = ';\n '.join(c.replace('heap_case hinit', 'heap_case_src hinit_src', 1) for c in cases)
    return HEADER_SRC + f'Definition results : list bool := [\n {body}].\nEval vm_compute in (failing results).\n'
