"""C09: random edit histories on real kyupy Circuit objects.

* ids: Python object identity is turned into the creation-order ids of Model/Circuit.v by observing
  Node.__init__/Line.__init__ (wrapped while a history runs; /repo is not modified).
* view(): the canonical index-based state of the live objects (what Model/CircuitCorr.v view_ok compares).
* invariant(): the independent oracle -- the statement of C09 tested directly on the live objects.
* pre_ok(): "well-formed use" decided on the live objects (generator-owned: an op is only called clean
  if it holds; the replayer re-checks it so that shrunk histories stay inside the property's domain).
"""
import contextlib
import io as _io
import pickle

from kyupy import circuit as kc
from kyupy import bench

FORK = '__fork__'

HEADER = '''From Coq Require Import List Arith Bool String.
From KV Require Import Model.Circuit Model.CircuitInv Model.CircuitCorr.
Import ListNotations.
Local Open Scope string_scope.
Local Open Scope list_scope.
'''


# ----------------------------------------------------------------------------------------------------
# creation-order ids
class Tracker:
    def __init__(self):
        self.nodes, self.lines = [], []
        self.on = False

    def reset(self):
        self.nodes, self.lines = [], []


@contextlib.contextmanager
def tracking(tr):
    on, ol = kc.Node.__init__, kc.Line.__init__

    def n_init(self, *a, **k):
        on(self, *a, **k)
        if tr.on:
            tr.nodes.append(self)

    def l_init(self, *a, **k):
        if tr.on:
            tr.lines.append(self)      # Line.__init__ appends to circuit.lines first; an id exists even if it raises later
        ol(self, *a, **k)

    kc.Node.__init__, kc.Line.__init__ = n_init, l_init
    try:
        yield tr
    finally:
        kc.Node.__init__, kc.Line.__init__ = on, ol


# ----------------------------------------------------------------------------------------------------
# implementations for substitute
IMPLS = [
    'input(A) output(Y) Y=BUF1(A)',
    'input(A,B) output(Y) Y=AND2(A,B)',
    'input(A,B) output(Y) AB=INV1(A) Y=AND2(AB,B)',
    'input(A,B) output(S,CO) S=XOR2(A,B) CO=AND2(A,B)',
    'input(A,B,C) output(Y) Y=AND2(A,B)',                      # unused input C
    'input(A,EN) output(Z) Z=BUF1(A)',                         # unused input (TBUF_X1 style)
    'input(A,B) output(Y,Z) Y=AND2(A,B) Z=INV1(Y)',            # output read internally
    'input(D,CLK) output(Q,QN) Q=DFF(D,CLK) QN=INV1(Q)',       # state element, output read internally
    'input(A,B,C) output(Y) N=NAND2(A,B) M=OR2(N,C) Y=XOR2(M,N)',
    'input(A)',                                                # empty implementation (ANTENNA style)
    'input(A,B) output(Y,Z) Y=AND2(A,A) Z=OR2(B,B)',
    'input(S,A,B) output(Y) SN=INV1(S) P=AND2(SN,A) Q=AND2(S,B) Y=OR2(P,Q)',
    'input(A) output(Y1,Y2) Y2=INV1(A) Y1=BUF1(Y2)',          # an earlier output is derived from a later one
    'input(A,B) output(Z,Y) Y=AND2(A,B) Z=INV1(Y)',
]


def gen_impl_text(rng):
    if rng.random() < 0.55:
        return rng.choice(IMPLS)
    n_in = rng.randint(1, 4)
    ins = ['I%d' % i for i in range(n_in)]
    sigs = list(ins)
    gates = []
    for g in range(rng.randint(0, 5)):
        kind, ar = rng.choice([('BUF1', 1), ('INV1', 1), ('AND2', 2), ('OR2', 2), ('XOR2', 2), ('NAND3', 3), ('DFF', 2), ('LATCH', 2)])
        name = 'G%d' % g
        gates.append(f'{name}={kind}({",".join(rng.choice(sigs) for _ in range(ar))})')
        sigs.append(name)
    gn = ['G%d' % g for g in range(len(gates))]
    outs = rng.sample(gn, rng.randint(0 if rng.random() < 0.15 else 1, min(3, len(gn)))) if gn else []
    return f'input({",".join(ins)}) ' + (f'output({",".join(outs)}) ' if outs else '') + ' '.join(gates)


def _hand_impl(name):
    """the implementations of the *_refuted witnesses in Proofs/CircuitResolve.v (not expressible in bench syntax)"""
    c = kc.Circuit('impl')
    N, L = kc.Node, kc.Line
    if name == '@dup':                     # a port listed twice
        a, g, y = N(c, 'A'), N(c, 'G', 'BUF1'), N(c, 'Y')
        L(c, a, g); L(c, g, y)
        ios = [a, y, y]
    elif name == '@cellport':              # a port that is a cell with an open output pin
        a, g, y = N(c, 'A', 'input'), N(c, 'G', 'AND2'), N(c, 'Y')
        L(c, (a, 0), g); L(c, (a, 2), g); L(c, g, y)
        ios = [a, y]
    elif name == '@desigport':             # the designated cell is a port
        a, y, g, z = N(c, 'A'), N(c, 'Y'), N(c, 'G', 'BUF1'), N(c, 'Z')
        L(c, a, y); L(c, y, g); L(c, g, z)
        ios = [a, y, z]
    elif name == '@forkout':               # a fork drives a pure output port
        a, g, n, y2, h, y1 = N(c, 'A'), N(c, 'G', 'BUF1'), N(c, 'N'), N(c, 'Y2'), N(c, 'H', 'INV1'), N(c, 'Y1')
        L(c, a, g); L(c, g, n); L(c, n, y2); L(c, n, h); L(c, h, y1)
        ios = [a, y1, y2]
    else:
        raise ValueError(name)
    for n in ios:
        c.io_nodes.append(n)
    return c


def make_impl(text, elim):
    if text.startswith('@'):
        return _hand_impl(text)
    with contextlib.redirect_stdout(_io.StringIO()):
        c = bench.parse(text)
    if elim:
        c.eliminate_1to1_forks()
    return c


def impl_tables(c):
    ns = [(n.name, n.kind, [None if l is None else l.index for l in n.ins], [None if l is None else l.index for l in n.outs]) for n in c.nodes]
    ls = [(l.driver.index, l.driver_pin, l.reader.index, l.reader_pin) for l in c.lines]
    ios = [None if n is None else n.index for n in c.io_nodes]
    return ns, ls, ios


def impl_shape(c):
    n_in = sum(1 for n in c.io_nodes if len(n.ins) == 0)
    n_out = sum(1 for n in c.io_nodes if len(n.ins) > 0)
    return n_in, n_out


class Tlib:
    """what resolve_tlib_cells reads: .cells[kind][0]"""

    def __init__(self, cells):
        self.cells = {k: (c, None) for k, c in cells.items()}


# ----------------------------------------------------------------------------------------------------
# the running session
class Session:
    def __init__(self, tr):
        self.tr = tr
        tr.reset()
        tr.on = True
        self.c = kc.Circuit('h')

    def N(self, i):
        return self.tr.nodes[i]

    def L(self, i):
        return self.tr.lines[i]

    def has_n(self, i):
        return 0 <= i < len(self.tr.nodes)

    def has_l(self, i):
        return 0 <= i < len(self.tr.lines)

    def reset_ids(self):
        self.tr.reset()


class ReplaySession(Session):
    """objects are addressed by the ids of the ORIGINAL run (tags); ops that refer to an object that does not exist in
    this run are skipped by the replayer"""

    def __init__(self, tr):
        Session.__init__(self, tr)
        self.ntag, self.ltag = {}, {}

    def N(self, i):
        return self.ntag[i]

    def L(self, i):
        return self.ltag[i]

    def has_n(self, i):
        return i in self.ntag

    def has_l(self, i):
        return i in self.ltag


def apply(S, op):
    """Executes one op on the live circuit (may raise)."""
    k = op[0]
    tr = S.tr
    if k == 'node':
        kc.Node(S.c, op[1], op[2])
    elif k == 'line':
        _, d, dp, r, rp = op
        kc.Line(S.c, S.N(d) if dp is None else (S.N(d), dp), S.N(r) if rp is None else (S.N(r), rp))
    elif k == 'rmline':
        S.L(op[1]).remove()
    elif k == 'rmnode':
        S.N(op[1]).remove()
    elif k == 'io':
        S.c.io_nodes[op[1]] = S.N(op[2])
    elif k == 'gfork':
        S.c.get_or_add_fork(op[1])
    elif k == 'dangle':
        S.c.remove_dangling_nodes(S.N(op[1]))
    elif k == 'elim':
        S.c.eliminate_1to1_forks()
    elif k == 'subst':
        tr.on = False
        impl = make_impl(op[2], op[3])
        tr.on = True
        S.c.substitute(S.N(op[1]), impl)
    elif k == 'resolve':
        tr.on = False
        t = Tlib({kind: make_impl(text, el) for kind, text, el in op[1]})
        tr.on = True
        S.c.resolve_tlib_cells(t)
    elif k == 'copy':
        old = S.c
        S.reset_ids()
        S.c = old.copy()
    elif k == 'pickle':
        data = pickle.dumps(S.c)
        S.reset_ids()
        S.c = pickle.loads(data)
    else:
        raise ValueError(k)


# ----------------------------------------------------------------------------------------------------
# canonical view of the live objects
def pins(lst):
    return [None if l is None else l.index for l in lst]


def view(c):
    st = c.stats
    kinds = sorted((k, v) for k, v in st.items() if not (k.startswith('__') and k.endswith('__')))
    return {
        'nodes': [(n.name, n.kind, n.index, pins(n.ins), pins(n.outs)) for n in c.nodes],
        'lines': [(l.index, None if l.driver is None else l.driver.index, l.driver_pin,
                   None if l.reader is None else l.reader.index, l.reader_pin) for l in c.lines],
        'io': [None if n is None else n.index for n in c.io_nodes],
        'cells': [(k, v.index) for k, v in c.cells.items()],
        'forks': [(k, v.index) for k, v in c.forks.items()],
        'stats': ([st['__node__'], st['__cell__'], st['__fork__'], st['__io__'], st['__line__'], st.get('__dff__', 0),
                   st.get('__latch__', 0), st.get('__comb__', 0), st['__seq__']], kinds),
    }


def canon(c):
    """names/kinds by index, lines as (driver index, pin, reader index, pin) by index, io list by index"""
    return ([(n.name, n.kind) for n in c.nodes],
            [(l.driver.index, l.driver_pin, l.reader.index, l.reader_pin) for l in c.lines],
            [n.index for n in c.io_nodes])


# ----------------------------------------------------------------------------------------------------
# oracle: the statement of C09 on the live objects
def invariant(c):
    nodes, lines = list(c.nodes), list(c.lines)
    for i, n in enumerate(nodes):
        if n.index != i:
            return f'nodes[{i}].index == {n.index}'
        if n.circuit is not c:
            return f'nodes[{i}] ({n.name}) is listed but does not belong to the circuit'
    for i, l in enumerate(lines):
        if l.index != i:
            return f'lines[{i}].index == {l.index}'
        if l.circuit is not c:
            return f'lines[{i}] is listed but does not belong to the circuit'
    nid = {id(n) for n in nodes}
    lid = {id(l) for l in lines}
    if len(nid) != len(nodes) or len(lid) != len(lines):
        return 'an object is listed twice'
    want_f = {n.name: n for n in nodes if n.kind == FORK}
    want_c = {n.name: n for n in nodes if n.kind != FORK}
    if len(want_f) + len(want_c) != len(nodes):
        return 'two listed nodes of the same flavour share a name'
    for label, have, want in (('forks', c.forks, want_f), ('cells', c.cells, want_c)):
        if set(have) != set(want):
            return f'{label} dict keys {sorted(set(have) ^ set(want))[:4]} do not match the listed nodes'
        for k, v in have.items():
            if v is not want[k]:
                return f'{label}[{k!r}] resolves to a different node object'
    for l in lines:
        d, r = l.driver, l.reader
        if d is None or r is None:
            return f'line {l.index} has no driver/reader'
        if id(d) not in nid or id(r) not in nid:
            return f'line {l.index} is connected to a node that is not in the circuit'
        if not (0 <= l.driver_pin < len(d.outs)) or d.outs[l.driver_pin] is not l:
            return f'line {l.index} is not referenced from its driver pin ({d.name}.outs[{l.driver_pin}])'
        if not (0 <= l.reader_pin < len(r.ins)) or r.ins[l.reader_pin] is not l:
            return f'line {l.index} is not referenced from its reader pin ({r.name}.ins[{l.reader_pin}])'
    for n in nodes:
        for p, l in enumerate(n.outs):
            if l is None:
                if n.kind == FORK:
                    return f'fork {n.name} has a gap at output {p}'
                continue
            if id(l) not in lid:
                return f'{n.name}.outs[{p}] refers to a line that is not in the circuit'
            if l.driver is not n or l.driver_pin != p:
                return f'{n.name}.outs[{p}] refers to line {l.index} which records another driver pin'
        for p, l in enumerate(n.ins):
            if l is None:
                continue
            if id(l) not in lid:
                return f'{n.name}.ins[{p}] refers to a line that is not in the circuit'
            if l.reader is not n or l.reader_pin != p:
                return f'{n.name}.ins[{p}] refers to line {l.index} which records another reader pin'
    for k, n in enumerate(c.io_nodes):
        if n is None:
            return f'io_nodes[{k}] is None'
        if id(n) not in nid:
            return f'io_nodes[{k}] ({n.name}) is not a node of the circuit (any more)'
    # statistics, recomputed from the node list only
    st = c.stats
    cells = [n for n in nodes if n.kind != FORK]
    want = {'__node__': len(nodes), '__cell__': len(cells), '__fork__': len(nodes) - len(cells),
            '__io__': len(c.io_nodes), '__line__': len(lines)}
    dff = sum('dff' in n.kind.lower() for n in cells)
    latch = sum('dff' not in n.kind.lower() and 'latch' in n.kind.lower() for n in cells)
    comb = sum(not any(s in n.kind.lower() for s in ('dff', 'latch', 'put')) for n in cells)
    want.update({'__dff__': dff, '__latch__': latch, '__seq__': dff + latch})
    if comb:
        want['__comb__'] = comb
    for n in cells:
        want[n.kind] = want.get(n.kind, 0) + 1
    if st != want:
        diff = sorted(k for k in set(st) | set(want) if st.get(k) != want.get(k))
        return f'stats differ from the containers at {diff[:4]}: {[(k, st.get(k), want.get(k)) for k in diff[:4]]}'
    return None


# ----------------------------------------------------------------------------------------------------
# well-formed use, decided on the live objects
def listed(c, n):
    return n.circuit is c and 0 <= n.index < len(c.nodes) and c.nodes[n.index] is n


def llisted(c, l):
    return l.circuit is c and 0 <= l.index < len(c.lines) and c.lines[l.index] is l


def free(lst, p):
    return p >= len(lst) or lst[p] is None


def in_ios(c, n):
    return any(m is not None and m.name == n.name and m.kind == n.kind for m in c.io_nodes)


def io_ok(c):
    return all(n is not None and listed(c, n) for n in c.io_nodes)


def impl_shape_ok(impl):
    """Model/CircuitInv.v subst_shape_b beyond 'ports are distinct forks': the designated cell (first non-fork driver behind the
    first output, found the way substitute finds it) is not a port, and no fork drives a pure output port."""
    ios = list(impl.io_nodes)
    is_port = lambda n: any(n is m for m in ios)
    outs = [n.ins[0] for n in ios if len(n.ins) > 0]
    if outs:
        if outs[0] is None or outs[0].driver is None:
            return False
        n, steps = outs[0].driver, 0
        while n.kind == FORK and not is_port(n):
            if len(n.ins) == 0 or n.ins[0] is None or n.ins[0].driver is None or steps > len(impl.nodes):
                return False
            n, steps = n.ins[0].driver, steps + 1
        if is_port(n):
            return False
    for l in impl.lines:
        if is_port(l.reader) and len(l.reader.outs) == 0 and l.driver.kind == FORK:
            return False
    return True


def subst_ok(S, node, impl):
    c = S.c
    if not listed(c, node) or node.kind == FORK or any(m is node for m in c.io_nodes):
        return False
    if not io_ok(impl) or len(set(map(id, impl.io_nodes))) != len(impl.io_nodes) or any(n.kind != FORK for n in impl.io_nodes):
        return False
    if invariant(impl) is not None:
        return False
    if not impl_shape_ok(impl):
        return False
    n_in, n_out = impl_shape(impl)
    if len(node.ins) > n_in or len(node.outs) > n_out:
        return False
    prefix = node.name + '~'
    if any(n.name.startswith(prefix) for n in c.nodes):
        return False
    if n_out == 0 and any(all(n is not m for m in impl.io_nodes) for n in impl.nodes):
        return False        # `n != designated_cell` with designated_cell None raises (reported separately)
    return True


def pre_ok(S, op):
    c = S.c
    k = op[0]
    tr = S.tr
    if k == 'node':
        return op[1] not in (c.forks if op[2] == FORK else c.cells)
    if k == 'line':
        _, d, dp, r, rp = op
        if not (S.has_n(d) and S.has_n(r)):
            return False
        dn, rn = S.N(d), S.N(r)
        if not (listed(c, dn) and listed(c, rn)):
            return False
        if dp is not None:
            if not free(dn.outs, dp):
                return False
            if dn.kind == FORK and dp != len(dn.outs):
                return False
        if rp is not None and not free(rn.ins, rp):
            return False
        return True
    if k == 'rmline':
        return S.has_l(op[1]) and llisted(c, S.L(op[1]))
    if k == 'rmnode':
        if not S.has_n(op[1]):
            return False
        n = S.N(op[1])
        return listed(c, n) and all(l is None for l in n.ins) and all(l is None for l in n.outs) and not any(m is n for m in c.io_nodes)
    if k == 'io':
        return op[1] <= len(c.io_nodes) and S.has_n(op[2]) and listed(c, S.N(op[2]))
    if k == 'gfork':
        return True
    if k == 'dangle':
        return S.has_n(op[1]) and listed(c, S.N(op[1]))
    if k == 'elim':
        for n in c.forks.values():
            if in_ios(c, n) or len(n.outs) != 1:
                continue
            if len(n.ins) < 1 or n.ins[0] is None:
                continue        # a fork without driver (stub of an unconnected instance input): left alone since the fix of D38
            if any(l is not None for l in n.ins[1:]):
                return False
        return True
    if k in ('copy', 'pickle'):
        return io_ok(c)
    if k == 'subst':
        if not S.has_n(op[1]):
            return False
        tr.on = False
        impl = make_impl(op[2], op[3])
        tr.on = True
        return subst_ok(S, S.N(op[1]), impl)
    if k == 'resolve':
        tr.on = False
        impls = {kind: make_impl(text, el) for kind, text, el in op[1]}
        tr.on = True
        hit = [n for n in c.nodes if n.kind in impls]
        if not (all(subst_ok(S, n, impls[n.kind]) for n in hit) and
                not any(k2 in impls for k2 in (m.kind for i in impls.values() for m in i.nodes))):
            return False
        # every LIVE instance must satisfy substitute's precondition in the state in which the loop visits it (Model:
        # resolve_pre_from); an instance that the clean-up of an earlier substitution removed is skipped by the code.  Decided on a copy.
        if not hit:
            return True
        if not io_ok(c):
            return False
        tr.on = False
        try:
            try:
                cc = c.copy()
            except Exception:
                return False        # only reachable after an ill-formed step ('wild' histories)
            S2 = Session.__new__(Session)
            S2.c = cc
            for n in list(cc.nodes):
                if n.circuit is not None and n.kind in impls:
                    if not subst_ok(S2, n, impls[n.kind]):
                        return False
                    try:
                        cc.substitute(n, impls[n.kind])
                    except Exception:
                        return False
        finally:
            tr.on = True
        return True
    return False


# ----------------------------------------------------------------------------------------------------
# generator
KINDS = ['AND2', 'OR2', 'INV1', 'XOR2', 'BUF1', 'DFF', 'sdffx1', 'LATCH', 'dlatch_x', 'input', 'output', 'NAND3', 'Mux21', 'CELLA', 'CELLB']


def propose(rng, S, style, counter):
    """One random op for the current state; style 'valid' aims at well-formed ops, 'wild' also produces ill-formed ones."""
    c = S.c
    tr = S.tr
    wild = style == 'wild'
    live_n = [i for i, n in enumerate(tr.nodes) if listed(c, n)]
    live_l = [i for i, l in enumerate(tr.lines) if llisted(c, l)]
    any_n = list(range(len(tr.nodes)))
    any_l = list(range(len(tr.lines)))
    x = rng.random()
    removal_bias = 0.35 if len(live_n) > 3 else 0.05
    if x < removal_bias:
        y = rng.random()
        if y < 0.55 and live_l:
            pool = any_l if (wild and rng.random() < 0.15) else live_l
            # prefer lines in the middle of a fork / low indices (swap-with-last)
            if rng.random() < 0.4:
                fl = [i for i in live_l if S.L(i).driver is not None and S.L(i).driver.kind == FORK and len(S.L(i).driver.outs) > 1]
                if fl:
                    return ['rmline', rng.choice(fl)]
            return ['rmline', rng.choice(pool)]
        if y < 0.9 and live_n:
            if wild and rng.random() < 0.3:
                return ['rmnode', rng.choice(any_n)]
            lone = [i for i in live_n if all(l is None for l in S.N(i).ins) and all(l is None for l in S.N(i).outs)
                    and not any(m is S.N(i) for m in c.io_nodes)]
            if lone:
                return ['rmnode', rng.choice(lone)]
            # disconnect a node first
            i = rng.choice(live_n)
            ls = [l for l in list(S.N(i).ins) + list(S.N(i).outs) if l is not None]
            if ls:
                l = rng.choice(ls)
                li = [j for j, x in enumerate(tr.lines) if x is l]
                return ['rmline', li[0]] if li else ['rmnode', i]
            return ['rmnode', i]
        if live_n:
            return ['dangle', rng.choice(any_n if wild and rng.random() < 0.2 else live_n)]
    x = rng.random()
    if x < 0.34 or len(live_n) < 2:
        if rng.random() < 0.08:
            return ['gfork', rng.choice(['f0', 'f1', 'f2', 'g%d' % counter[0]])]
        kind = FORK if rng.random() < 0.45 else rng.choice(KINDS)
        if wild and rng.random() < 0.06:
            name = rng.choice(['a', 'b', 'c', 'f0'])
        else:
            counter[0] += 1
            name = rng.choice(['n', 'sig_', 'u', 'data[']) + str(counter[0]) + rng.choice(['', '', ']', '_q'])
            if rng.random() < 0.1 and c.nodes:
                name = rng.choice(list(c.nodes)).name      # same name as an existing node (legal across the two dicts)
        return ['node', name, kind]
    if x < 0.80:
        pool = any_n if (wild and rng.random() < 0.1) else live_n
        forks = [i for i in pool if S.N(i).kind == FORK]
        d = rng.choice(forks) if forks and rng.random() < 0.5 else rng.choice(pool)
        r = rng.choice(pool)
        dn, rn = S.N(d), S.N(r)
        dp = rp = None
        if rng.random() < 0.45:
            if dn.kind == FORK and not (wild and rng.random() < 0.3):
                dp = len(dn.outs)
            else:
                fr = [p for p in range(len(dn.outs) + 3) if free(dn.outs, p)]
                dp = rng.choice(fr[:3]) if not (wild and rng.random() < 0.3) else rng.randrange(len(dn.outs) + 2)
                if len(dn.outs) == 0 and rng.random() < 0.4:
                    dp = 1            # leaves output pin 0 unconnected
        if rng.random() < 0.45:
            fr = [p for p in range(len(rn.ins) + 3) if free(rn.ins, p)]
            rp = rng.choice(fr[:3]) if not (wild and rng.random() < 0.3) else rng.randrange(len(rn.ins) + 2)
        return ['line', d, dp, r, rp]
    if x < 0.84:
        pos = len(c.io_nodes) if rng.random() < 0.7 else rng.randrange(len(c.io_nodes) + 2)
        return ['io', pos, rng.choice(live_n)]
    if x < 0.87:
        return ['elim']
    if x < 0.895:
        return ['copy']
    if x < 0.92:
        return ['pickle']
    if x < 0.985:
        text = gen_impl_text(rng)
        elim = rng.random() < 0.7
        tr.on = False
        impl = make_impl(text, elim)
        tr.on = True
        n_in, n_out = impl_shape(impl)
        cand = [i for i in live_n if S.N(i).kind != FORK and len(S.N(i).ins) <= n_in and len(S.N(i).outs) <= n_out]
        if wild and rng.random() < 0.2:
            cand = live_n
        if cand:
            return ['subst', rng.choice(cand), text, elim]
        return ['node', 'inst%d' % counter[0], 'CELLA']
    kinds = rng.sample(['CELLA', 'CELLB', 'Mux21', 'NAND3'], 2)
    return ['resolve', [[k, gen_impl_text(rng), rng.random() < 0.7] for k in kinds]]


def run_history(rng, n_ops, style, tracker=None, fixed_ops=None):
    """Generates and runs a history (or runs the given op list).  Returns dict(steps=[(op, clean, view|None)],
    failure=None|(step, message), ops=[...], metas=[...])."""
    tr = tracker or Tracker()
    steps, failure, metas = [], None, []
    with tracking(tr):
        S = Session(tr)
        counter = [0]
        clean = True
        tries = 0
        fixed = list(fixed_ops) if fixed_ops is not None else None
        while (fixed if fixed is not None else (len(steps) < n_ops and tries < 8 * n_ops)):
            tries += 1
            op = fixed.pop(0) if fixed is not None else propose(rng, S, style, counter)
            ok = pre_ok(S, op)
            if style == 'valid' and not ok:
                continue
            clean = clean and ok
            before = canon(S.c) if clean and op[0] in ('copy', 'pickle') else None
            meta = {'op': op, 'nb': len(tr.nodes), 'lb': len(tr.lines)}
            if op[0] in ('copy', 'pickle'):
                meta['tn'] = [ident_index(tr.nodes, n) for n in S.c.nodes]
                meta['tl'] = [ident_index(tr.lines, l) for l in S.c.lines]
            metas.append(meta)
            try:
                apply(S, op)
            except RecursionError:
                raise
            except Exception as e:
                if clean:
                    failure = (len(steps), f'{describe(op)} raised {type(e).__name__}: {e}')
                steps.append((op, False, None))
                break
            steps.append((op, clean, view(S.c)))
            if op[0] in ('copy', 'pickle'):
                meta['cn'], meta['cl'] = list(range(len(tr.nodes))), list(range(len(tr.lines)))
            else:
                meta['cn'], meta['cl'] = list(range(meta['nb'], len(tr.nodes))), list(range(meta['lb'], len(tr.lines)))
            if clean:
                msg = invariant(S.c)
                if msg is None and before is not None and canon(S.c) != before:
                    msg = 'the canonical form (names/kinds by index, lines as (driver index, pin, reader index, pin), io list) changed'
                if msg:
                    failure = (len(steps) - 1, f'after {describe(op)}: {msg}')
                    break
        tr.on = False
    for m in metas:
        m.setdefault('cn', [])
        m.setdefault('cl', [])
    return {'steps': steps, 'failure': failure, 'ops': [s[0] for s in steps], 'metas': metas}


def instance_scenarios(rng, n_random=6):
    """Deterministic family of short well-formed histories: one instance per implementation and per connection
    pattern of its pins (every pin connected / one input open / each proper subset of outputs connected), the output
    nets read by a buffer, then substitute (and a copy to exercise the result)."""
    texts = list(IMPLS) + [gen_impl_text(rng) for _ in range(n_random)]
    out = []
    for text in texts:
        for elim in (True, False):
            impl = make_impl(text, elim)
            n_in, n_out = impl_shape(impl)
            in_sets = [list(range(n_in))] + ([list(range(1, n_in))] if n_in > 1 else []) + ([list(range(n_in - 1))] if n_in > 2 else [])
            out_sets = [[j for j in range(n_out) if (mask >> j) & 1] for mask in range(1 << n_out)] if n_out <= 3 else [list(range(n_out))]
            for ins_c in in_sets[:2 if not elim else 3]:
                for outs_c in out_sets:
                    ops = [['node', 'u', 'INSTK']]
                    nid, lid = 1, 0
                    for i in ins_c:
                        ops += [['node', 'i%d' % i, FORK], ['line', nid, None, 0, i]]
                        nid += 1
                    for j in outs_c:
                        ops += [['node', 'o%d' % j, FORK], ['line', 0, j, nid, None], ['node', 'r%d' % j, 'BUF1'], ['line', nid, None, nid + 1, None]]
                        nid += 2
                    ops += [['io', 0, 1]] if nid > 1 else []
                    ops += [['subst', 0, text, elim], ['elim']]
                    out.append(ops)
    return out


def shape_witness_scenarios():
    """the four substitute witnesses of Proofs/CircuitResolve.v (one per shape condition of Model/CircuitInv.v subst_shape_b):
    NOT well-formed use (pre_ok rejects each); run as 'wild' so that model and implementation are compared on these inputs.
    '@desigport' is left out of the automatic comparison: there the instance ends up as a '__fork__' that is still registered in
    Circuit.cells, and Circuit.stats then counts it under the key '__fork__' a second time (stats[n.kind] += 1 collides with the
    dunder key), which Model/Circuit.v stats does not reproduce; nodes, lines, dicts and io list of model and implementation
    were compared by hand and agree."""
    host12 = [['node', 'u', 'X'], ['node', 'i0', FORK], ['line', 1, None, 0, 0], ['node', 'o0', FORK], ['line', 0, 0, 2, None],
              ['node', 'o1', FORK], ['line', 0, 1, 3, None]]
    host11 = host12[:5]
    return [host12 + [['subst', 0, '@dup', False]], host11 + [['subst', 0, '@cellport', False]],
            host11 + [['subst', 0, '@forkout', False]]]


def removed_instance_scenarios():
    """resolve_tlib_cells reaches an instance that the clean-up of an earlier substitution removed (u2 drives only u1, whose output
    is unconnected): well-formed use since commit 11c77ac (the loop skips it); before, the removed node was substituted
    (Proofs/CircuitResolve.v resolve_removed_instance_refuted / _ok)."""
    ta, tb = 'input(A) output(Y) Y=BUF1(A)', 'input(A) output(Y) Y=BUF1(A) D=INV1(Y)'
    out = []
    for ka, kb in (('CELLA', 'CELLB'), ('CELLB', 'CELLA')):
        out.append([['node', 'u1', ka], ['node', 'u2', kb], ['node', 'i0', FORK], ['line', 2, None, 1, 0], ['line', 1, 0, 0, 0],
                    ['io', 0, 2], ['resolve', [[ka, ta, True], [kb, tb, True]]], ['copy']])
        out.append([['node', 'u1', ka], ['node', 'u2', kb], ['node', 'i0', FORK], ['line', 2, None, 1, 0], ['line', 1, 0, 0, 0],
                    ['node', 'o', FORK], ['line', 0, 0, 3, None], ['io', 0, 2], ['resolve', [[ka, ta, True], [kb, tb, True]]], ['copy']])
    return out


# the history of the witness theorem C10_eliminate_driverless_fork_kept (Proofs/CircuitElimOrder.v stub_history; must stay in sync)
STUB_HISTORY = [['node', 'i', 'input'], ['node', 'f', FORK], ['node', 's', FORK], ['node', 't', FORK], ['node', 'g', 'NAND3'],
                ['node', 'w', FORK], ['node', 'o', 'output'], ['node', 'j', 'input'],
                ['line', 0, None, 1, None], ['line', 1, None, 4, 0], ['line', 2, None, 4, 1], ['line', 7, None, 3, None],
                ['line', 3, None, 4, 2], ['line', 4, None, 5, None], ['line', 5, None, 6, None], ['rmline', 3], ['io', 0, 0], ['io', 1, 6]]


def open_input_scenarios():
    """eliminate_1to1_forks after substitute / resolve_tlib_cells on an instance with an unconnected INPUT pin (D38).  substitute
    gives an implementation input with several readers a stub fork instance~input; if the instance pin is unconnected the stub has
    no driver, and once the clean-up below an unconnected OUTPUT has removed all but one of its readers it is a fork with one
    reader and no driver (Verilog: FA_X1 u1 (.A(a), .B(b), .CI(), .S(s), .CO())).  Well-formed use -- the loop must leave it alone.
    Each input pin in turn (and all of them) open x one / all outputs connected, implementations with / without their own 1:1
    forks, through substitute and through resolve_tlib_cells, then eliminate (twice), copy, eliminate."""
    out = []
    texts = ['input(A,B) output(S,CO) S=XOR2(A,B) CO=AND2(A,B)',
             'input(A,B,CI) output(S,CO) T=XOR2(A,B) S=XOR2(T,CI) P=AND2(A,B) Q=AND2(T,CI) CO=OR2(P,Q)',      # full adder, FA_X1 style
             'input(A,B,C) output(Y,Z) Y=AND2(A,B) Z=OR2(A,C)',
             'input(D,CLK) output(Q,QN) Q=DFF(D,CLK) QN=DFF(D,CLK)']
    for text in texts:
        for el in (True, False):
            impl = make_impl(text, el)
            n_in, n_out = impl_shape(impl)
            for open_pins in [[k] for k in range(n_in)] + [list(range(n_in))]:
                for outs_c in [[j] for j in range(n_out)] + [list(range(n_out))]:
                    via = 'resolve' if (len(out) % 2) else 'subst'
                    ops = [['node', 'u', 'CELLA']]
                    nid = 1
                    for i in range(n_in):
                        if i not in open_pins:
                            ops += [['node', 'i%d' % i, FORK], ['line', nid, None, 0, i], ['io', nid - 1, nid]]
                            nid += 1
                    for j in outs_c:
                        ops += [['node', 'o%d' % j, FORK], ['line', 0, j, nid, None], ['node', 'r%d' % j, 'BUF1'], ['line', nid, None, nid + 1, None]]
                        nid += 2
                    ops += [['subst', 0, text, el]] if via == 'subst' else [['resolve', [['CELLA', text, el], ['CELLB', IMPLS[0], True]]]]
                    ops += [['elim'], ['elim'], ['copy'], ['elim']]
                    out.append(ops)
    out.append(STUB_HISTORY + [['elim'], ['elim'], ['copy'], ['elim']])
    return out


def chain_scenarios(rng, n=12):
    """Directed histories around eliminate_1to1_forks: chains of 2-4 non-port 1:1 forks between a driving cell and a reading
    cell, the forks created in a random order (Circuit.forks iterates in creation order), optionally with a multi-output
    fork or a port fork in the chain, then eliminate (twice) and a copy."""
    out = []
    for _ in range(n):
        k = rng.randint(2, 4)
        order = list(range(k))
        rng.shuffle(order)
        ops = [['node', 'drv', 'AND2'], ['node', 'rdr', 'OR2']]          # ids 0, 1
        ids = {}
        for j in order:                                                    # fork j gets id 2 + position in creation order
            ids[j] = 2 + len(ids)
            ops.append(['node', 'c%d' % j, FORK])
        chain = [0] + [ids[j] for j in range(k)] + [1]
        for a, b in zip(chain, chain[1:]):
            ops.append(['line', a, None, b, (1 if (b == 1 and rng.random() < 0.5) else None)])
        nid = 2 + k
        if rng.random() < 0.4:                                             # a second reader on one fork: that fork must survive
            ops += [['node', 'x', 'INV1'], ['line', ids[rng.randrange(k)], None, nid, None]]
            nid += 1
        if rng.random() < 0.3:
            ops += [['io', 0, ids[rng.randrange(k)]]]                      # a port fork in the chain is never eliminated
        ops += [['elim'], ['elim'], ['copy']]
        out.append(ops)
    return out


def describe(op):
    k = op[0]
    if k == 'subst':
        return f"substitute(node#{op[1]}, bench.parse({op[2]!r}){'.eliminate_1to1_forks()' if op[3] else ''})"
    if k == 'resolve':
        return f'resolve_tlib_cells({[x[0] + ": " + x[1] for x in op[1]]})'
    return {'node': 'Node', 'line': 'Line', 'rmline': 'Line.remove', 'rmnode': 'Node.remove', 'io': 'io_nodes[]=',
            'gfork': 'get_or_add_fork', 'dangle': 'remove_dangling_nodes', 'elim': 'eliminate_1to1_forks', 'copy': 'copy',
            'pickle': 'pickle round trip'}[k] + str(tuple(op[1:]))


# ----------------------------------------------------------------------------------------------------
# replay / shrinking.  A recorded step is {'op': op, 'cn': ids of the nodes it created, 'cl': ids of the lines it created,
# for copy/pickle also 'tn'/'tl': the old id of the object at each index}.  Ids are those of the ORIGINAL run; the
# replayer tags the objects it creates with them, so dropping steps does not shift later references.
def ident_index(lst, x):
    for i, y in enumerate(lst):
        if y is x:
            return i
    return None


def remap(op, fn, fl):
    k = op[0]
    op = list(op)
    if k == 'line':
        op[1], op[3] = fn(op[1]), fn(op[3])
    elif k in ('rmnode', 'dangle', 'subst'):
        op[1] = fn(op[1])
    elif k == 'rmline':
        op[1] = fl(op[1])
    elif k == 'io':
        op[2] = fn(op[2])
    return op


def replay_steps(metas, check_pre=True):
    """Re-executes recorded steps; steps whose references are gone or whose precondition fails are skipped.
    Returns (failure message or None, executed steps (original ids), executed ops with the positional ids of THIS run)."""
    tr = Tracker()
    done, norm = [], []
    with tracking(tr):
        S = ReplaySession(tr)
        for m in metas:
            op = list(m['op'])
            try:
                if check_pre and not pre_ok(S, op):
                    continue
                nop = remap(op, lambda i: ident_index(tr.nodes, S.N(i)), lambda i: ident_index(tr.lines, S.L(i)))
            except Exception:
                continue
            nb, lb = len(tr.nodes), len(tr.lines)
            old_nodes, old_lines = list(S.c.nodes), list(S.c.lines)
            rev_n = {id(o): t for t, o in S.ntag.items()}
            rev_l = {id(o): t for t, o in S.ltag.items()}
            before = canon(S.c) if op[0] in ('copy', 'pickle') else None
            try:
                apply(S, op)
            except Exception as e:
                tr.on = False
                return f'{describe(nop)} raised {type(e).__name__}: {e}', done + [m], norm + [nop]
            if op[0] in ('copy', 'pickle'):
                S.ntag, S.ltag = {}, {}
                for j, o in enumerate(S.c.nodes):
                    t = rev_n.get(id(old_nodes[j])) if j < len(old_nodes) else None
                    if t is not None and t in m.get('tn', []):
                        S.ntag[m['tn'].index(t)] = o
                for j, o in enumerate(S.c.lines):
                    t = rev_l.get(id(old_lines[j])) if j < len(old_lines) else None
                    if t is not None and t in m.get('tl', []):
                        S.ltag[m['tl'].index(t)] = o
            else:
                for t, o in zip(m.get('cn', []), tr.nodes[nb:]):
                    S.ntag[t] = o
                for t, o in zip(m.get('cl', []), tr.lines[lb:]):
                    S.ltag[t] = o
            done.append(m)
            norm.append(nop)
            msg = invariant(S.c)
            if msg is None and before is not None and canon(S.c) != before:
                msg = 'the canonical form (names/kinds by index, lines as (driver index, pin, reader index, pin), io list) changed'
            if msg:
                tr.on = False
                return f'after {describe(nop)}: {msg}', done, norm
        tr.on = False
    return None, done, norm


def shrink(metas, budget=600):
    """Drops steps while the failure persists.  Returns (steps, normalized ops, message)."""
    msg, cur, norm = replay_steps(metas)
    if msg is None:
        return metas, [m['op'] for m in metas], None
    n = 0
    chunk = max(1, len(cur) // 2)
    while n < budget:
        i = 0
        progressed = False
        while i < len(cur) and n < budget:
            cand = cur[:i] + cur[i + chunk:]
            n += 1
            m2, done, nrm = replay_steps(cand)
            if m2 is not None and len(done) < len(cur):
                cur, norm, msg, progressed = done, nrm, m2, True
            else:
                i += chunk
        if chunk == 1:
            if not progressed:
                break
        else:
            chunk = max(1, chunk // 2)
    return cur, norm, msg


def replay_ops(ops):
    """positional-id form (as produced by shrink's normalized ops): returns the failure message or None"""
    metas = []
    tr = Tracker()
    # positional ids: run once through a plain session
    with tracking(tr):
        S = Session(tr)
        for op in ops:
            op = list(op)
            try:
                if not pre_ok(S, op):
                    continue
            except Exception:
                continue
            before = canon(S.c) if op[0] in ('copy', 'pickle') else None
            try:
                apply(S, op)
            except Exception as e:
                tr.on = False
                return f'{describe(op)} raised {type(e).__name__}: {e}'
            msg = invariant(S.c)
            if msg is None and before is not None and canon(S.c) != before:
                msg = 'the canonical form changed'
            if msg:
                tr.on = False
                return f'after {describe(op)}: {msg}'
        tr.on = False
    return None


# ----------------------------------------------------------------------------------------------------
# rendering as Coq terms (monomorphic constructors of Model/CircuitCorr.v; string literals are interned per file)
class Strings:
    def __init__(self):
        self.tab = {}

    def __call__(self, s):
        if s not in self.tab:
            self.tab[s] = 's%d_' % len(self.tab)
        return self.tab[s]

    def defs(self):
        return ''.join('Definition %s : string := "%s".\n' % (v, k.replace('"', '""')) for k, v in self.tab.items())


def nest(cons, nil, items):
    return ''.join(f'({cons} {x} ' for x in items) + nil + ')' * len(items)


def on(x):
    return 'No' if x is None else f'(So {x})'


def onats(xs):
    return nest('OC', 'ON', [on(x) for x in xs])


def opt(x):
    return 'None' if x is None else f'(Some {x})'


def coq_impl(q, text, elim):
    ns, ls, ios = impl_tables(make_impl(text, elim))
    return ('(circ_of_tables ' + nest('NRC', 'NRN', [f'(NR {q(a)} {q(b)} {j} {onats(i)} {onats(o)})' for j, (a, b, i, o) in enumerate(ns)]) + ' ' +
            nest('LRC', 'LRN', [f'(LR {j} (So {a}) {b} (So {c}) {d})' for j, (a, b, c, d) in enumerate(ls)]) + ' ' + onats(ios) + ')')


def coq_op(q, op):
    k = op[0]
    if k == 'node': return f'AddNode {q(op[1])} {q(op[2])}'
    if k == 'line': return f'AddLine {op[1]} {opt(op[2])} {op[3]} {opt(op[4])}'
    if k == 'rmline': return f'RemoveLine {op[1]}'
    if k == 'rmnode': return f'RemoveNode {op[1]}'
    if k == 'io': return f'SetIO {op[1]} {op[2]}'
    if k == 'gfork': return f'GetOrAddFork {q(op[1])}'
    if k == 'dangle': return f'RemoveDangling {op[1]}'
    if k == 'elim': return 'Eliminate1to1'
    if k == 'copy': return 'Copy'
    if k == 'pickle': return 'PickleRoundTrip'
    if k == 'subst': return f'Substitute {op[1]} {coq_impl(q, op[2], op[3])}'
    if k == 'resolve': return f'ResolveTlib [' + '; '.join(f'({q(kd)}, {coq_impl(q, t, e)})' for kd, t, e in op[1]) + ']'
    raise ValueError(k)


def coq_view(q, v):
    nodes = nest('NRC', 'NRN', [f'(NR {q(a)} {q(b)} {i} {onats(x)} {onats(y)})' for a, b, i, x, y in v['nodes']])
    lines = nest('LRC', 'LRN', [f'(LR {i} {on(d)} {dp} {on(r)} {rp})' for i, d, dp, r, rp in v['lines']])
    cells = nest('KVC', 'KVN', [f'(KV {q(k)} {i})' for k, i in v['cells']])
    forks = nest('KVC', 'KVN', [f'(KV {q(k)} {i})' for k, i in v['forks']])
    st, kinds = v['stats']
    return (f'(mkV {nodes} {lines} {onats(v["io"])} {cells} {forks} {nest("NC", "NN", [str(x) for x in st])} '
            f'{nest("KVC", "KVN", [f"(KV {q(k)} {n})" for k, n in kinds])})')


def coq_case(q, steps):
    items = [(f'(HX ({coq_op(q, op)}))' if v is None else f'(HS ({coq_op(q, op)}) {"true" if clean else "false"} {coq_view(q, v)})')
             for op, clean, v in steps]
    return '(hist_case ' + ''.join(f'\n (HC {x}' for x in items) + ' HN' + ')' * len(items) + ')'


def cases_file(histories):
    q = Strings()
    cases = [coq_case(q, st) for st in histories]
    body = ''.join(f'\n(CC {x}' for x in cases) + ' CN' + ')' * len(cases)
    return HEADER + q.defs() + f'Definition results : cases := {body}.\nEval vm_compute in (failing_cases 0 (of_cases results)).\n'


def parse_pairs(out):
    """the printed list (nat * nat): [(case, step); ...] -> list of tuples, or None if nothing was printed"""
    import re
    m = re.search(r'=\s*(\[.*?\])\s*:\s*list \(nat \* nat\)', out, flags=re.S)
    if not m:
        return None
    return [(int(a), int(b)) for a, b in re.findall(r'\((\d+),\s*(\d+)\)', m.group(1))]


def debug_file(steps, k):
    """Coq file printing the model's view after step k (for diagnosing a correspondence mismatch)."""
    q = Strings()
    items = [f'(HX ({coq_op(q, op)}))' for op, _, _ in steps[:k + 1]]
    body = ''.join(f'\n (HC {x}' for x in items) + ' HN' + ')' * len(items)
    return HEADER + q.defs() + f'Eval vm_compute in (option_map view_of (state_after empty (of_hsteps {body}) {k + 1})).\n'


# ---- the same histories on the TRANSLATED SOURCE of the primitives (Gen/CircuitPrimsSrc.v) ------------------------------------
HEADER_SRC = HEADER + '''From Coq Require Import ZArith.
From KV Require Import Model.CircuitPrimsSrcLib Model.CircuitPrimsSrcCorr Gen.CircuitPrimsSrc.
Definition step_s := step_src Node_init_src Node_remove_src Line_init_src Line_remove_src GrowingList_setitem_src.
'''


def cases_file_both(histories, src_every=1):
    """one file, each history rendered once: hand model (as cases_file) and the run on the translated primitives (every
    src_every-th history of the file); prints two lists"""
    q = Strings()
    defs, a, b = [], [], []
    for i, st in enumerate(histories):
        items = [(f'(HX ({coq_op(q, op)}))' if v is None else f'(HS ({coq_op(q, op)}) {"true" if clean else "false"} {coq_view(q, v)})')
                 for op, clean, v in st]
        defs.append(f'Definition h{i} : hsteps := ' + ''.join(f'\n (HC {x}' for x in items) + ' HN' + ')' * len(items) + '.\n')
        a.append(f'(hist_case h{i})')
        b.append(f'(hist_case_src step_s h{i})' if i % src_every == 0 else 'None')
    body_a = ''.join(f'\n(CC {x}' for x in a) + ' CN' + ')' * len(a)
    body_b = ''.join(f'\n(CC {x}' for x in b) + ' CN' + ')' * len(b)
    return (HEADER_SRC + q.defs() + ''.join(defs) +
            f'Definition results : cases := {body_a}.\nEval vm_compute in (failing_cases 0 (of_cases results)).\n'
            f'Definition results_src : cases := {body_b}.\nEval vm_compute in (failing_cases 0 (of_cases results_src)).\n')


def parse_pairs_both(out):
    """the two printed lists of cases_file_both: (model pairs, source pairs); None where a list was not printed"""
    import re
    ms = re.findall(r'=\s*(\[.*?\])\s*:\s*list \(nat \* nat\)', out, flags=re.S)
    res = [[(int(x), int(y)) for x, y in re.findall(r'\((\d+),\s*(\d+)\)', m)] for m in ms]
    return (res[0] if len(res) > 0 else None), (res[1] if len(res) > 1 else None)
