"""TEXT-level correspondence for sdf.py's grammar (C14).

The real lark parser (Lark(sdf.GRAMMAR, parser='lalr'), no transformer) is run on generated texts; the children of its `start` tree
(NAME tokens of DESIGN, cell trees with ID tokens and delay trees, entries with their two names and the number tokens of every triple)
are what parse_sdf (Model/SdfText.v) must return; a lark exception is `None`.  tree_of_text is compared with harness.sdfgen.coq_tree
of the same lark tree (numbers scaled by 8) whenever every number is in the exact domain.  Everything random is drawn from the
random.Random passed in.

Domain of the model: code points < 256 (one Coq ascii per code point); the generators stay inside it."""
from harness.bench_text import cstr
from harness import sdfgen as sg

HEADER = '''From Coq Require Import List NArith ZArith Bool Arith String Ascii.
From KV Require Import Model.Sdf Model.Corr Model.SdfText.
Import ListNotations.
Local Open Scope list_scope.
Local Open Scope string_scope.
'''


def cases_file(cases):
    return HEADER + 'Definition results : list bool := [\n ' + ';\n '.join(cases) + '].\nEval vm_compute in (failing results).\n'


def clist(l, f=str):
    return '[' + '; '.join(f(x) for x in l) + ']'


def copt(x, f):
    return 'None' if x is None else f'(Some {f(x)})'


# ---- the real parser ---------------------------------------------------------------------------------------------
def real_tree(text):
    """-> (children of lark's start tree as nested python data | None, exception name, the lark tree)
    start children: str (NAME) | list (cell); cell children: str (ID) | list of entries (delay);
    entry = (is_iopath, a, b, [triple]); triple = [] | [three number texts without their last character]"""
    from lark.exceptions import LarkError
    try:
        t = sg.raw_tree(text)
    except LarkError as e:
        return None, type(e).__name__, None

    def ent(e):
        return (e.data == 'iopath', str(e.children[0]), str(e.children[1]), [[str(x)[:-1] for x in tr.children] for tr in e.children[2:]])

    def cell(c):
        return [str(x) if not hasattr(x, 'children') else [ent(e) for e in x.children] for x in c.children]
    return [str(x) if not hasattr(x, 'children') else cell(x) for x in t.children], None, t


def coq_xtree(tree):
    def ent(e):
        return f'XEntry {"true" if e[0] else "false"} {cstr(e[1])} {cstr(e[2])} {clist(e[3], lambda t: clist(t, cstr))}'

    def carg(x):
        return f'XName {cstr(x)}' if isinstance(x, str) else f'XDelay {clist(x, ent)}'

    def sarg(x):
        return f'XSName {cstr(x)}' if isinstance(x, str) else f'XSCell {clist(x, carg)}'
    return clist(tree, sarg)


def num_info(tok):
    """-> (float() accepts, 8 * value as int when exact and the text has at most 15 digits, else None)"""
    try:
        v = float(tok)
    except ValueError:
        return False, None
    nd = sum(ch.isdigit() for ch in tok)
    from fractions import Fraction
    exact = Fraction(tok) * 8
    if nd <= 15 and exact.denominator == 1:
        assert v * 8 == int(exact), tok
        return True, int(exact)
    return True, None


def numbers_of(tree):
    return [n for x in tree if not isinstance(x, str) for y in x if not isinstance(y, str) for e in y for t in e[3] for n in t if n != '']


def coq_ttree(tree):
    """the tree in the form of Model/Sdf.v (as harness.sdfgen.coq_tree renders lark's tree), from the nested data"""
    from harness import circgen as cg

    def num(n):
        return 'None' if n == '' else 'Some ' + cg.coq_Z(num_info(n)[1])

    def ent(e):
        return f'TEntry {"true" if e[0] else "false"} {cstr(e[1])} {cstr(e[2])} {clist(e[3], lambda t: clist(t, num))}'

    def carg(x):
        return f'CName {cstr(x)}' if isinstance(x, str) else f'CDelay {clist(x, ent)}'

    def sarg(x):
        return f'SName {cstr(x)}' if isinstance(x, str) else f'SCell {clist(x, carg)}'
    return clist(tree, sarg)


def text_cases(text):
    """-> (coq cases, description)"""
    tree, exc, _ = real_tree(text)
    cases = [f'sdftext_case {cstr(text)} {copt(tree, coq_xtree)}']
    in_dom = tree is not None and all(num_info(n)[1] is not None for n in numbers_of(tree))
    cases.append(f'sdftree_case {cstr(text)} {"(Some " + coq_ttree(tree) + ")" if in_dom else "None"}')
    return cases, {'kind': 'sdf-text', 'text': text, 'raises': exc, 'numbers_in_exact_domain': in_dom}


# ---- printer -------------------------------------------------------------------------------------------------------
def py_print(tree):
    """python twin of print_sdf"""
    def tr(t):
        return '(' + ':'.join(t) + ')' if t else '()'

    def ent(e):
        return ('(IOPATH ' if e[0] else '(INTERCONNECT ') + e[1] + ' ' + e[2] + ''.join(' ' + tr(t) for t in e[3]) + ')'

    def carg(x):
        if isinstance(x, str):
            return '\n  (INSTANCE ' + x + ')'
        return '\n  (DELAY (ABSOLUTE' + ''.join('\n    ' + ent(e) for e in x) + '))'

    def sarg(x):
        if isinstance(x, str):
            return '\n(DESIGN "' + x + '")'
        return '\n(CELL' + ''.join(carg(y) for y in x) + ')'
    return '(DELAYFILE' + ''.join(sarg(x) for x in tree) + '\n)\n'


def printable(tree):
    """print_sdf writes a blank before every name: a plain name that begins with a tab / form feed would lose it (wf_id)"""
    names = [x for x in tree if isinstance(x, str)]
    ids = [y for x in tree if not isinstance(x, str) for y in x if isinstance(y, str)]
    ids += [n for x in tree if not isinstance(x, str) for y in x if not isinstance(y, str) for e in y for n in e[1:3]]
    return not any(i[0] in '\t\x0c' for i in ids)


def print_cases(tree):
    """for a tree lark produced: it is well-formed, print_sdf gives `text`, and lark reads `text` back as the tree"""
    text = py_print(tree)
    back, exc, _ = real_tree(text)
    fail = None
    if back != tree:
        fail = f'print_sdf of the tree {tree} is read back by the real parser as {back if back is not None else exc}'
    return [f'sdfprint_case {coq_xtree(tree)} {cstr(text)}'], {'kind': 'sdf-print', 'text': text}, fail


# ---- generators ----------------------------------------------------------------------------------------------------
HDR = ['(TEMPERATURE', '(SDFVERSION', '(TIMESCALE', '(PROGRAM', '(VERSION', '(DIVIDER', '(VOLTAGE', '(VENDOR', '(DATE']
SEPS = ['', ' ', ' ', '\n', '\t', '  ', '\r\n', '//c\n', ' // (q)\n', '\x0c', '\n  ']
IDSEPS = [' ', ' ', ' ', '  ', ' \t', '', '\t', '\n', ' \x0c ', '\r\n', '\n//c\n', ' //c\n', '\n //c\n', '//c\n', '\r', '\x0b', '\n\t', '\r\n// (q)\n//\n ']
# in front of a name, inside the language (every comment directly follows a line break or comment); after a name (does not begin with a comment)
IDSEPS_OK = [' ', ' ', '  ', ' \t', ' \x0c ', '\t', '\n', '\r\n', '\n  ', '\n//c\n', ' \n// (q)\n//\n', '\r\n//c\n\t', '\x0c', '\n \n//c\n ', '\t\n']
AFT_OK = ['', ' ', ' \n', ' //c\n', '  ', '\t', '\n', '\r\n', '\n//c\n', '\t//c\n', '\x0c ', '\n  ']
IDS = ['u1', 'u\\[1\\]/A', 'a/b', '"q r"', '"x"', 'A', 'n-1', 'a"b', '\tz', 'x//y', 'q_reg\\[3\\]', 'blk\\.g2/ZN', 'top/u1/Z', 'caf\xe9', '"(x)"', 'a\x0bb', 'n\xa0m', 'p\x85', 'r\x1ds']
IDES = IDS + ['(posedge CK)', '(negedge A)', '(posedge  A )', '(x(y)', '(posedge\nCK)', '("z")']
NUMS = ['1', '2.5', '', '-3', '.5', '0.125', '1.2.3', '--', '0.1', '12.625', '5.', '-', '.', '007', '-.5', '0.000', '123456789012.125', '1234567890123456', '-0']
NOBS = [' "x"', ' 1ns', '', ' ', '\n', '\n x', '//c\n', ' //c\n', '\t', '/', '\r', '\r\n', '//c', ' "OVI 2.1"', ' 1.20:1.20:1.20', ' /', '//(\n.']
NAMES = ['top', 't p', 'a\nb', ' ', '', 'x(y)', '/', '\r', ' top', '//c\ntop', 'top//c', '\ttop ', '(DESIGN', ')']
IGW = ['', '', ' ', 'SETUP', ' x y ', '\n', '//c\n', '// c', ' // c', '1:2:3', '\r', '"', 'posedge CK', '0.5:0.5:0.5', '\n  ', '//(\n', '//)\nq']


def gen_text(rng, dirty=0.5):
    """-> (text, truth): a text of the shape of an SDF file.  With probability `dirty` each choice may take a variant lark rejects or
    reads surprisingly (truth = None); otherwise the text is inside the supported language and `truth` is the tree it denotes
    (generator-owned: names and number texts as written, header entries / CELLTYPE / TIMINGCHECK contribute nothing)."""
    d = rng.random() < dirty
    pick = (lambda clean, full: rng.choice(full if d else clean))
    sp = lambda: pick(['', ' ', '\n', '\t', '  ', '\r\n', '//c\n', ' // (q)\n', '\n  '], SEPS)
    idsp = lambda: pick(IDSEPS_OK, IDSEPS)
    aft = lambda: pick(AFT_OK, SEPS)                      # after a name
    ids = (lambda: pick(['u1', 'u\\[1\\]/A', 'a/b', '"q r"', 'A', 'n-1', 'x//y', 'q_reg\\[3\\]', 'blk\\.g2/ZN', '"(x)"'], IDS))
    ides = (lambda: pick(['u1', 'A', 'CK', '(posedge CK)', '(negedge A)', '(posedge  A )', '(posedge\nCK)', 'a"b'], IDES))
    num = lambda: pick(['1', '2.5', '', '-3', '.5', '0.125', '12.625', '5.', '007', '-.5', '0.000'], NUMS)

    def triple():
        if rng.random() < 0.15:
            return '(' + sp() + ')', []
        n = [num(), num(), num()]
        return '(' + sp() + n[0] + ':' + sp() + n[1] + ':' + sp() + n[2] + ')', n

    def entry():
        io = rng.random() < 0.5
        nm = ides if io else ids
        a, b = nm(), nm()
        ts = [triple() for _ in range(rng.randint(0, 3))]
        return (('(IOPATH' if io else '(INTERCONNECT') + idsp() + a + idsp() + b + aft() + ''.join(t[0] + sp() for t in ts) + ')',
                (io, a, b, [t[1] for t in ts]))

    def ign(depth=0):
        w = lambda: pick(['', ' ', 'SETUP', ' x y ', '\n', 'posedge CK', '0.5:0.5:0.5', '\n  ', ' // c', '"', '1:2:3'], IGW)
        return '(' + w() + ''.join(ign(depth + 1) for _ in range(rng.randint(0, 2 if depth < 2 else 0))) + ')' + w()

    def nob():
        return pick([' "x"', ' 1ns', ' ', '\n x', ' //c\n', '\t', '/', '\r', ' "OVI 2.1"', ' 1.20:1.20:1.20', '//c\nx'], NOBS)

    def cell():
        out, truth = '(CELL', []
        for _ in range(rng.randint(0, 4)):
            k = rng.random()
            out += sp()
            if k < 0.2:
                out += '(CELLTYPE' + nob() + ')'
            elif k < 0.45:
                if rng.random() < 0.3:
                    out += '(INSTANCE' + rng.choice(['', ' ', '\n', '\r\n//c\n', '\t ']) + ')'
                else:
                    n = ids()
                    out += '(INSTANCE' + idsp() + n + aft() + ')'
                    truth.append(n)
            elif k < 0.6:
                out += '(TIMINGCHECK' + sp() + ''.join(ign() for _ in range(rng.randint(0, 2))) + ')'
            else:
                es = [entry() for _ in range(rng.randint(0, 3))]
                out += '(DELAY' + sp() + '(ABSOLUTE' + sp() + ''.join(e[0] + sp() for e in es) + ')' + sp() + ')'
                truth.append([e[1] for e in es])
        return out + sp() + ')', truth
    out, truth = sp() + '(DELAYFILE', []
    for _ in range(rng.randint(0, 5)):
        out += sp()
        k = rng.random()
        if k < 0.35:
            out += rng.choice(HDR) + nob() + ')'
        elif k < 0.45:
            out += '(PROCESS' + rng.choice(['', nob()]) + ')'
        elif k < 0.58:
            n = pick(['top', 't p', 'a\nb', 'x(y)', '/', '\r', 'top//c', '(DESIGN', ')'], NAMES)
            out += '(DESIGN' + sp() + '"' + sp() + n + '"' + sp() + ')'
            truth.append(n)
        else:
            t, tr = cell()
            out += t
            truth.append(tr)
    return out + sp() + ')' + sp() + (rng.choice(['', '//end']) if d else ''), (None if d else truth)


# ---- structured renderings: a value of the concrete syntax `cfile` (Model/SdfText.v) together with its text --------------------------
# a separator is a list of items: 'IgSpace' | 'IgTab' | 'IgFf' | 'IgNl' | 'IgCrNl' | ('c', comment body)
IGN_TEXT = {'IgSpace': ' ', 'IgTab': '\t', 'IgFf': '\x0c', 'IgNl': '\n', 'IgCrNl': '\r\n'}
IGN_B1, IGN_NL = ['IgSpace', 'IgTab', 'IgFf'], ['IgNl', 'IgCrNl']
CBODIES = ['', 'c', ' (q) ', ' (IOPATH A Z (1:2:3))', '//', '\r', ' x\t', ')', '"']
PLAIN_ID = ['u1', 'u\\[1\\]/A', 'a/b', 'A', 'n-1', 'x//y', '/z', 'q_reg\\[3\\]', 'caf\xe9', 'blk\\.g2/ZN', '/', 'a//']
WRAP_ID = ['"q r"', '"x"', '"(x)"', '"//"', '"a\nb"', '" "']
WRAP_IDE = ['(posedge CK)', '(negedge A)', '(posedge\nCK)', '(x(y)', '(//)', '( )']
SLASH_NAMES = ['//y', '//', '//a/b']
C_NUMS = ['1', '2.5', '', '-3', '.5', '0.125', '12.625', '5.', '007']
C_PAYS = [[], [(True, 'SETUP '), (True, 'posedge D'), (False, ' '), (True, '0.5:0.5:0.5'), (False, ''), (False, '\n ')], [(True, ''), (False, '')],
          [(True, 'a'), (False, 'b'), (True, ' c'), (True, 'd'), (False, 'e'), (False, ' f')]]
DEFECTS = ['cm', 'aft', 'touch', 'slash']


def s_text(sep):
    return ''.join(IGN_TEXT[i] if isinstance(i, str) else '//' + i[1] + '\n' for i in sep)


def s_coq(sep):
    return clist(sep, lambda i: i if isinstance(i, str) else f'IgComment {cstr(i[1])}')


def s_is0(i):
    return not isinstance(i, str) or i in IGN_NL


def s_ends0(sep):
    return bool(sep) and s_is0(sep[-1])


def s_cm_ok(sep):
    nl = False
    for i in sep:
        if not isinstance(i, str) and not nl:
            return False
        nl = s_is0(i)
    return True


def g_item(rng):
    k = rng.random()
    return rng.choice(IGN_B1) if k < 0.4 else rng.choice(IGN_NL) if k < 0.75 else ('c', rng.choice(CBODIES))


def g_sep(rng, n=3):
    """any ignored text"""
    return [g_item(rng) for _ in range(rng.choice([0, 0, 1, 1, 2, n]))]


def g_idsep(rng, nonempty=False):
    """ignored text in front of a name: every comment directly follows a line break or comment"""
    out = []
    for i in g_sep(rng, 5):
        if not isinstance(i, str) and not s_ends0(out):
            out.append(rng.choice(IGN_NL))
        out.append(i)
    if nonempty and not out:
        out = [rng.choice(IGN_B1 + IGN_NL)]
    assert s_cm_ok(out)
    return out


def g_aftsep(rng, wrapped):
    """ignored text after a name: after a plain name it does not begin with a comment"""
    out = g_sep(rng, 4)
    if out and not isinstance(out[0], str) and not wrapped:
        out.insert(0, rng.choice(IGN_B1 + IGN_NL))
    return out


def g_bad_comment(rng, sep):
    """the separator with one comment put where IGNORE_0 is not running (first, or directly after a blank / tab / form feed)"""
    pos = [k for k in range(len(sep) + 1) if not s_ends0(sep[:k])]
    k = rng.choice(pos)
    return sep[:k] + [('c', rng.choice(CBODIES))] + sep[k:]


def gen_cfile(rng, defect=None):
    """-> (coq term of type cfile, text, content tree, inside the conditions of cfile_ok?).  With `defect` (one of DEFECTS) exactly one
    place next to a name violates the conditions: 'cm' a comment in front of a name that does not follow a line break or comment, 'aft' a
    comment directly after a plain name, 'touch' two plain names without separator, 'slash' a name that begins with `//` after a
    separator that ends with a line break or comment.  Everything else (well-formed names, comments without newline, header texts,
    TIMINGCHECK payloads) stays valid."""
    ctx = {'defect': defect}
    # with a defect the name `//` is left out: an empty comment lexed as a name IS that name, so a misplaced empty comment followed by the
    # name `//` (then skipped as a comment) denotes the same content by coincidence -- the file-level theorem is an implication, the
    # exactness theorems are stated at the scanner of a name
    slash_names = SLASH_NAMES if defect is None else [n for n in SLASH_NAMES if n != '//']

    def take(*kinds):
        if ctx['defect'] in kinds and rng.random() < 0.6:
            d, ctx['defect'] = ctx['defect'], None
            return d
        return None

    def name(io, sep, plain=False):
        wrapped = (WRAP_IDE if io else WRAP_ID)
        if not plain and rng.random() < 0.3:
            return rng.choice(wrapped)
        if not s_ends0(sep) and rng.random() < 0.1:
            return rng.choice(slash_names)
        return rng.choice(PLAIN_ID + (['a"b', '"x"'] if io else []))

    def is_wrapped(io, n):
        return n[0] == ('(' if io else '"')

    def before(io, nonempty=False, plain=False):
        """-> (separator, name), possibly with a 'cm' or 'slash' defect"""
        d = take('cm', 'slash')
        sep = g_idsep(rng, nonempty)
        if d == 'cm':
            sep = g_bad_comment(rng, sep)
            return sep, name(io, [], plain)            # [] : no `//` name here (keep it to one defect)
        if d == 'slash':
            sep = sep + [rng.choice(IGN_NL + [('c', 'c')])] if not s_ends0(sep) else sep
            if not s_cm_ok(sep):
                sep = [rng.choice(IGN_NL)] + sep
            return sep, rng.choice(slash_names)
        return sep, name(io, sep, plain)

    def after(io, n):
        if not is_wrapped(io, n) and take('aft'):
            return [('c', rng.choice(CBODIES))] + g_sep(rng)
        return g_aftsep(rng, is_wrapped(io, n))

    def triple():
        if rng.random() < 0.2:
            sp = g_sep(rng)
            return f'CT0 {s_coq(sp)}', '(' + s_text(sp) + ')', []
        sps, ns = [g_sep(rng, 2) for _ in range(3)], [rng.choice(C_NUMS) for _ in range(3)]
        return (f'CT3 {s_coq(sps[0])} {cstr(ns[0])} {s_coq(sps[1])} {cstr(ns[1])} {s_coq(sps[2])} {cstr(ns[2])}',
                '(' + s_text(sps[0]) + ns[0] + ':' + s_text(sps[1]) + ns[1] + ':' + s_text(sps[2]) + ns[2] + ')', ns)

    def items(parts, first=None):
        """parts: [(coq, text, ..)] -> (coq list of (sep, item), text, first separator or None)"""
        seps = [g_sep(rng) for _ in parts]
        if parts and first is not None:
            seps[0] = first
        return (clist(list(zip(seps, parts)), lambda p: f'({s_coq(p[0])}, {p[1][0]})'), ''.join(s_text(sp) + pt[1] for sp, pt in zip(seps, parts)))

    def entry():
        io = rng.random() < 0.5
        if take('touch'):
            (s1, a), s2, b = before(io, plain=True), [], name(io, [], plain=True)
        else:
            s1, a = before(io)
            b0 = rng.random() < 0.3
            s2, b = before(io, nonempty=not (is_wrapped(io, a) or b0))
            if not s2 and not is_wrapped(io, a) and not is_wrapped(io, b):
                b = rng.choice(WRAP_IDE if io else WRAP_ID)
        ts = [triple() for _ in range(rng.randint(0, 3))]
        aft = after(io, b)
        tc, tt = items(ts, aft)
        sf = g_sep(rng) if ts else aft
        return (f'CE {"true" if io else "false"} {s_coq(s1)} {cstr(a)} {s_coq(s2)} {cstr(b)} {tc} {s_coq(sf)}',
                ('(IOPATH' if io else '(INTERCONNECT') + s_text(s1) + a + s_text(s2) + b + tt + s_text(sf) + ')', (io, a, b, [t[2] for t in ts]))

    def citem():
        k = rng.random()
        if k < 0.12:
            w = rng.choice([' "x"', ' INV_X1', ' x\n', '\n"NAND2_X1" '])
            return f'CCType {cstr(w)}', '(CELLTYPE' + w + ')', None
        if k < 0.27:
            sp = g_idsep(rng)
            if take('cm'):
                sp = g_bad_comment(rng, sp)
            return f'CCInst0 {s_coq(sp)}', '(INSTANCE' + s_text(sp) + ')', None
        if k < 0.55:
            s1, n = before(False)
            s2 = after(False, n)
            return f'CCInst {s_coq(s1)} {cstr(n)} {s_coq(s2)}', '(INSTANCE' + s_text(s1) + n + s_text(s2) + ')', n
        if k < 0.65:
            sp, pay = g_sep(rng), rng.choice(C_PAYS)
            return (f'CCTiming {s_coq(sp)} {clist(pay, lambda q: "(" + ("true" if q[0] else "false") + ", " + cstr(q[1]) + ")")}',
                    '(TIMINGCHECK' + s_text(sp) + ''.join(('(' if o else ')') + w for o, w in pay) + ')', None)
        es = [entry() for _ in range(rng.randint(0, 3))]
        s1, sf, s3 = g_sep(rng), g_sep(rng), g_sep(rng)
        ec, et = items(es)
        return (f'CCDelay {s_coq(s1)} {ec} {s_coq(sf)} {s_coq(s3)}', '(DELAY' + s_text(s1) + '(ABSOLUTE' + et + s_text(sf) + ')' + s_text(s3) + ')', [e[2] for e in es])

    def titem():
        k = rng.random()
        if k < 0.15:
            kw, w = rng.choice(HDR), rng.choice([' "x"', ' 1ns', ' 1.20:1.20:1.20', '\n25'])
            return f'CTHdr {cstr(kw)} {cstr(w)}', kw + w + ')', None
        if k < 0.2:
            w = rng.choice(['', ' "typ"', ' '])
            return f'CTProcess {cstr(w)}', '(PROCESS' + w + ')', None
        if k < 0.3:
            s1, s2, s3, n = g_sep(rng), g_sep(rng), g_sep(rng), rng.choice(['top', 't p', 'x(y)', 'a\nb'])
            return f'CTDesign {s_coq(s1)} {s_coq(s2)} {cstr(n)} {s_coq(s3)}', '(DESIGN' + s_text(s1) + '"' + s_text(s2) + n + '"' + s_text(s3) + ')', n
        cs = [citem() for _ in range(rng.randint(1, 4))]
        sf = g_sep(rng)
        cc, ct = items(cs)
        return f'CTCell {cc} {s_coq(sf)}', '(CELL' + ct + s_text(sf) + ')', [c[2] for c in cs if c[2] is not None]
    while True:
        ctx['defect'] = defect
        ts = [titem() for _ in range(rng.randint(1, 3))]
        if ctx['defect'] is None:
            break
    s0, sf, s1 = g_sep(rng), g_sep(rng), g_sep(rng)
    tail = rng.choice([None, None, 'end', ''])
    tc, tt = items(ts)
    coq = f'{{| cf_s0 := {s_coq(s0)}; cf_items := {tc}; cf_sf := {s_coq(sf)}; cf_s1 := {s_coq(s1)}; cf_tail := {copt(tail, cstr)} |}}'
    text = s_text(s0) + '(DELAYFILE' + tt + s_text(sf) + ')' + s_text(s1) + ('' if tail is None else '//' + tail)
    return coq, text, [t[2] for t in ts if t[2] is not None], defect is None


def cfile_cases(rng, defect=None):
    """-> (coq cases, description, oracle failure or None): the value's text, cfile_ok, parse_sdf = lark, and lark returns the value's
    content exactly when the value is inside the conditions"""
    coq, text, tree, ok = gen_cfile(rng, defect)
    got, exc, _ = real_tree(text)
    fail = None
    if ok:
        fail = truth_oracle(text, tree)          # a defect that lark reads as the content anyway shows up in the Coq case (exactness)
    case = f'cfile_case {coq} {cstr(text)} {"true" if ok else "false"} {copt(got, coq_xtree)}'
    return [case], {'kind': 'sdf-cfile', 'text': text, 'defect': defect, 'content': tree, 'lark': got if got is not None else exc}, fail


PIECES = ['(DELAYFILE', '(SDFVERSION', '(DESIGN', '(DATE', '(VENDOR', '(PROGRAM', '(VERSION', '(DIVIDER', '(VOLTAGE', '(PROCESS', '(TEMPERATURE',
          '(TIMESCALE', '(CELL', '(CELLTYPE', '(INSTANCE', '(TIMINGCHECK', '(DELAY', '(ABSOLUTE', '(INTERCONNECT', '(IOPATH', '(', ')', ')', ')', '(', '"',
          '"top"', 'u1', 'A', 'Z', '(posedge CK)', '1:', '2:', '3)', '(1:2:3)', '(::)', '()', ' ', ' ', '\n', '\t', '\r\n', '\r', '//c\n', '/', 'x y', '"a b"', ':', '-']
MUT = '() \t\n\r/":.-1aA\x0c\\\x00\x7f\xe9\x0b\x1c\x1f\x85\xa0'


def mutate(rng, t):
    k = rng.random()
    if k < 0.3 and t:
        i = rng.randrange(len(t))
        return t[:i] + t[i + 1:]
    if k < 0.6:
        i = rng.randint(0, len(t))
        return t[:i] + rng.choice(MUT) + t[i:]
    if k < 0.8 and t:
        i = rng.randrange(len(t))
        return t[:i] + rng.choice(MUT) + t[i + 1:]
    if k < 0.9:
        i = rng.randint(0, len(t))
        return t[:i] + rng.choice(PIECES) + t[i:]
    ks = [i for i in range(len(t)) if t[i] == '(' and t[i + 1:i + 2].isalpha()]      # damage a keyword
    if not ks:
        return t + ')'
    i = rng.choice(ks)
    j = i + 1
    while j < len(t) and t[j].isalpha():
        j += 1
    kw = t[i + 1:j]
    return t[:i + 1] + rng.choice([kw.lower(), kw[:-1], kw + 'S', kw[1:], 'CELLTYPE', 'DELAY', 'INSTANCE']) + t[j:]


def soup(rng):
    return '(DELAYFILE' + ''.join(rng.choice(PIECES) for _ in range(rng.randint(0, 12))) + rng.choice([')', ')', '))', ''])


def gen_case_text(rng):
    """-> (text, stream, ground-truth tree or None if unknown)"""
    k = rng.random()
    if k < 0.3:
        t, truth = gen_text(rng, 0.0)
        return t, 'rendered', truth
    if k < 0.5:
        return gen_text(rng, 0.6)[0], 'rendered-odd', None
    if k < 0.9:
        t = gen_text(rng, rng.choice([0.0, 0.3]))[0]
        for _ in range(rng.randint(1, 2)):
            t = mutate(rng, t)
        return t, 'malformed', None
    return soup(rng), 'soup', None


def truth_oracle(text, truth):
    """None, or how lark's reading of a text of the supported language differs from the generator-owned tree"""
    tree, exc, _ = real_tree(text)
    if tree is None:
        return f'lark rejects a text of the supported SDF sub-language ({exc}); expected tree {truth}'
    norm = lambda t: [x if isinstance(x, str) else [y if isinstance(y, str) else [tuple(e[:3]) + (e[3],) for e in y] for y in x] for x in t]
    if norm(tree) != norm(truth):
        return f'lark reads the text as {tree}, the text says {truth}'
    return None


# the probes that determined the model; checked on every run
CORNER_TEXTS = [
    ' (DELAYFILE)\n//end', '(DELAYFILE(DIVIDER /))', '(DELAYFILE(CELL(DELAY(ABSOLUTE(IOPATH A Z ( 1: 2: 3)(::)())))))', '(DELAYFILE(CELL(DELAY(ABSOLUTE(INTERCONNECT "a""b c"(1.2.3:--:-))))))',
    '', '(DELAYFILE)', '(DELAYFILE )', ' (DELAYFILE)\n', '(DELAYFILE)//end', '(DELAYFILE)x', '(DELAYFILE', 'DELAYFILE)', '(DELAYFILE))', '(delayfile)',
    '(DELAYFILEX)', '( DELAYFILE)', '\r(DELAYFILE)', '\r\n(DELAYFILE)', '/(DELAYFILE)', '//c\n(DELAYFILE)', '//(DELAYFILE)', '(DELAYFILE)\x0b',
    # _NOB against the ignore terminals
    '(DELAYFILE(DATE x))', '(DELAYFILE(DATEx))', '(DELAYFILE(DATE))', '(DELAYFILE(DATE ))', '(DELAYFILE(DATE\n))', '(DELAYFILE(DATE\n ))', '(DELAYFILE(DATE \n))',
    '(DELAYFILE(DATE//c\n))', '(DELAYFILE(DATE//c\nx))', '(DELAYFILE(DATE //c\n))', '(DELAYFILE(DATE//c))', '(DELAYFILE(DATE//)\n))', '(DELAYFILE(DATE//)\nx))',
    '(DELAYFILE(DATE\r))', '(DELAYFILE(DATE\r\n))', '(DELAYFILE(DATE/))', '(DELAYFILE(DATE x(y)))', '(DELAYFILE(DATE x)(VERSION 1))', '(DELAYFILE(DATE x) y)',
    '(DELAYFILE(PROCESS))', '(DELAYFILE(PROCESS ))', '(DELAYFILE(PROCESS\n))', '(DELAYFILE(PROCESS "typ"))', '(DELAYFILE(PROCESSOR))',
    '(DELAYFILE(SDFVERSION "OVI 2.1")(DIVIDER /)(VOLTAGE 1.2:1.2:1.2)(TEMPERATURE 25:25:25)(TIMESCALE 1ns)(VENDOR "v")(PROGRAM "p")(VERSION "1"))',
    '(DELAYFILE(DIVIDER //)\n)', '(DELAYFILE(DIVIDER //\n))', '(DELAYFILE(DIVIDER //\n/))', '(DELAYFILE(TIMESCALE1ns))', '(DELAYFILE(CELLTYPE "x"))',
    # DESIGN / NAME
    '(DELAYFILE(DESIGN "top"))', '(DELAYFILE(DESIGN"top"))', '(DELAYFILE(DESIGN " top"))', '(DELAYFILE(DESIGN "top "))', '(DELAYFILE(DESIGN "//c\ntop"))',
    '(DELAYFILE(DESIGN "top//c\n"))', '(DELAYFILE(DESIGN ""))', '(DELAYFILE(DESIGN " "))', '(DELAYFILE(DESIGN "a(b)c"))', '(DELAYFILE(DESIGN "a\nb"))',
    '(DELAYFILE(DESIGN "\ra"))', '(DELAYFILE(DESIGN "\r\na"))', '(DELAYFILE(DESIGN top))', '(DELAYFILE(DESIGN "top")))', '(DELAYFILE(DESIGN "a")(DESIGN "b"))',
    '(DELAYFILE(DESIGN "top" ))', '(DELAYFILE(DESIGN\n"top"\n))', '(DELAYFILE(DESIGN "top"x))', '(DELAYFILE(DESIGN "/"))', '(DELAYFILE(DESIGN "//"))',
    # cells, INSTANCE / ID
    '(DELAYFILE(CELL))', '(DELAYFILE(CELL)(CELL))', '(DELAYFILE(CELL(INSTANCE)))', '(DELAYFILE(CELL(INSTANCE )))', '(DELAYFILE(CELL(INSTANCE u1)))',
    '(DELAYFILE(CELL(INSTANCEu1)))', '(DELAYFILE(CELL(INSTANCE  u1 )))', '(DELAYFILE(CELL(INSTANCE\tu1)))', '(DELAYFILE(CELL(INSTANCE \tu1)))',
    '(DELAYFILE(CELL(INSTANCE\t u1)))', '(DELAYFILE(CELL(INSTANCE u1\n)))', '(DELAYFILE(CELL(INSTANCE u1 \n)))', '(DELAYFILE(CELL(INSTANCE\n)))',
    '(DELAYFILE(CELL(INSTANCE \n)))', '(DELAYFILE(CELL(INSTANCE u1//c\n)))', '(DELAYFILE(CELL(INSTANCE u1 //c\n)))', '(DELAYFILE(CELL(INSTANCE "u 1")))',
    '(DELAYFILE(CELL(INSTANCE "u1)))', '(DELAYFILE(CELL(INSTANCE "")))', '(DELAYFILE(CELL(INSTANCE u"1")))', '(DELAYFILE(CELL(INSTANCE "u"1)))',
    '(DELAYFILE(CELL(INSTANCE u1 u2)))', '(DELAYFILE(CELL(INSTANCE u\\[1\\]/x\\.y)))', '(DELAYFILE(CELL(INSTANCE a)(INSTANCE b)))', '(DELAYFILE(CELL(INSTANCE (a))))',
    '(DELAYFILE(CELL(CELLTYPE "x")(INSTANCE u1)))', '(DELAYFILE(CELL(CELLTYPE)))', '(DELAYFILE(CELL(CELLTYPE ))(CELL))', '(DELAYFILE(CELL(DATE x)))',
    '(DELAYFILE(CELL (CELLTYPE"x") ))', '(DELAYFILE(CELLS))', '(DELAYFILE(CELL', '(DELAYFILE(CELL)',
    # TIMINGCHECK / _ignore
    '(DELAYFILE(CELL(TIMINGCHECK)))', '(DELAYFILE(CELL(TIMINGCHECK )))', '(DELAYFILE(CELL(TIMINGCHECK x)))', '(DELAYFILE(CELL(TIMINGCHECK())))',
    '(DELAYFILE(CELL(TIMINGCHECK(a)b(c(d)e)f)))', '(DELAYFILE(CELL(TIMINGCHECK\n(SETUP (posedge D) (posedge CK) (0.5:0.5:0.5))\n)))',
    '(DELAYFILE(CELL(TIMINGCHECK(a)\n)))', '(DELAYFILE(CELL(TIMINGCHECK(a)//c\n)))', '(DELAYFILE(CELL(TIMINGCHECK(a)//c)\n)))', '(DELAYFILE(CELL(TIMINGCHECK(a) //c)\n)))',
    '(DELAYFILE(CELL(TIMINGCHECK(//x(\n))))', '(DELAYFILE(CELL(TIMINGCHECK( //x(\n))))', '(DELAYFILE(CELL(TIMINGCHECK //c(\n(a))))', '(DELAYFILE(CELL(TIMINGCHECK(a)))',
    '(DELAYFILE(CELL(TIMINGCHECK(a))))(', '(DELAYFILE(CELL(TIMINGCHECK(a)(b))(INSTANCE u)))', '(DELAYFILE(CELL(TIMINGCHECK(IOPATH A Z (1:1:1)))))',
    # DELAY, entries, names
    '(DELAYFILE(CELL(DELAY(ABSOLUTE))))', '(DELAYFILE(CELL(DELAY (ABSOLUTE ) )))', '(DELAYFILE(CELL(DELAY)))', '(DELAYFILE(CELL(DELAY(ABSOLUTE)))', '(DELAYFILE(CELL(DELAY(INCREMENT))))',
    '(DELAYFILE(CELL(DELAY(ABSOLUTE(IOPATH A Z)))))', '(DELAYFILE(CELL(DELAY(ABSOLUTE(IOPATH A Z (1:2:3))))))', '(DELAYFILE(CELL(DELAY(ABSOLUTE(IOPATH A Z(1:2:3)(4:5:6)(7:8:9))))))',
    '(DELAYFILE(CELL(DELAY(ABSOLUTE(IOPATHA Z ()))))))', '(DELAYFILE(CELL(DELAY(ABSOLUTE(IOPATH A Z ())))))', '(DELAYFILE(CELL(DELAY(ABSOLUTE(IOPATH A Z ( ))))))',
    '(DELAYFILE(CELL(DELAY(ABSOLUTE(IOPATH (posedge CK) Q (1:2:3))))))', '(DELAYFILE(CELL(DELAY(ABSOLUTE(IOPATH (posedge CK)Q(1:2:3))))))',
    '(DELAYFILE(CELL(DELAY(ABSOLUTE(IOPATH (posedge  CK ) (negedge Q) (1:2:3))))))', '(DELAYFILE(CELL(DELAY(ABSOLUTE(IOPATH (posedge (CK) Q (1:2:3))))))',
    '(DELAYFILE(CELL(DELAY(ABSOLUTE(IOPATH () Q (1:2:3))))))', '(DELAYFILE(CELL(DELAY(ABSOLUTE(IOPATH (posedge CK Q (1:2:3)))))', '(DELAYFILE(CELL(DELAY(ABSOLUTE(IOPATH "A" Z (1:2:3))))))',
    '(DELAYFILE(CELL(DELAY(ABSOLUTE(IOPATH A\tZ (1:2:3))))))', '(DELAYFILE(CELL(DELAY(ABSOLUTE(IOPATH A Z\n(1:2:3))))))', '(DELAYFILE(CELL(DELAY(ABSOLUTE(IOPATH A Z \n(1:2:3))))))',
    '(DELAYFILE(CELL(DELAY(ABSOLUTE(IOPATH A (1:2:3))))))', '(DELAYFILE(CELL(DELAY(ABSOLUTE(IOPATH A B C (1:2:3))))))',
    '(DELAYFILE(CELL(DELAY(ABSOLUTE(INTERCONNECT a b (1:2:3))))))', '(DELAYFILE(CELL(DELAY(ABSOLUTE(INTERCONNECT u1/Z u\\[2\\]/A (1:2:3) (4:5:6))))))',
    '(DELAYFILE(CELL(DELAY(ABSOLUTE(INTERCONNECT "a" "b c" (1:2:3))))))', '(DELAYFILE(CELL(DELAY(ABSOLUTE(INTERCONNECT "a""b"(1:2:3))))))', '(DELAYFILE(CELL(DELAY(ABSOLUTE(INTERCONNECT a"b" (1:2:3))))))',
    '(DELAYFILE(CELL(DELAY(ABSOLUTE(INTERCONNECT (posedge a) b (1:2:3))))))', '(DELAYFILE(CELL(DELAY(ABSOLUTE(INTERCONNECT a b//c\n(1:2:3))))))', '(DELAYFILE(CELL(DELAY(ABSOLUTE(INTERCONNECT a b //c\n(1:2:3))))))',
    '(DELAYFILE(CELL(DELAY(ABSOLUTE(INTERCONNECT a b (1:2:3))(IOPATH A Z (1:2:3))))))', '(DELAYFILE(CELL(DELAY(ABSOLUTE(INTERCONNECT a b (1:2:3)) // (IOPATH A Z (9:9:9))\n))))',
    '(DELAYFILE(CELL(DELAY(ABSOLUTE(INTERCONNECT a b (1:2:3)))(DELAY(ABSOLUTE(IOPATH A Z (1:2:3))))))',
    # triples
    '(DELAYFILE(CELL(DELAY(ABSOLUTE(IOPATH A Z (::))))))', '(DELAYFILE(CELL(DELAY(ABSOLUTE(IOPATH A Z (1::3))))))', '(DELAYFILE(CELL(DELAY(ABSOLUTE(IOPATH A Z ( 1: 2: 3))))))',
    '(DELAYFILE(CELL(DELAY(ABSOLUTE(IOPATH A Z (1 :2:3))))))', '(DELAYFILE(CELL(DELAY(ABSOLUTE(IOPATH A Z (1:2:3 ))))))', '(DELAYFILE(CELL(DELAY(ABSOLUTE(IOPATH A Z (1:2))))))',
    '(DELAYFILE(CELL(DELAY(ABSOLUTE(IOPATH A Z (1:2:3:4))))))', '(DELAYFILE(CELL(DELAY(ABSOLUTE(IOPATH A Z (-1.5:.5:5.))))))', '(DELAYFILE(CELL(DELAY(ABSOLUTE(IOPATH A Z (1.2.3:--:-))))))',
    '(DELAYFILE(CELL(DELAY(ABSOLUTE(IOPATH A Z (1e3:2:3))))))', '(DELAYFILE(CELL(DELAY(ABSOLUTE(IOPATH A Z (+1:2:3))))))', '(DELAYFILE(CELL(DELAY(ABSOLUTE(IOPATH A Z (\n1:\n2://c\n3))))))',
    '(DELAYFILE(CELL(DELAY(ABSOLUTE(IOPATH A Z (0.1:0.2:0.3))))))', '(DELAYFILE(CELL(DELAY(ABSOLUTE(IOPATH A Z (1:2:3)x)))))', '(DELAYFILE(CELL(DELAY(ABSOLUTE(IOPATH A Z (1:2:3)) x))))',
    '(DELAYFILE(CELL(DELAY(ABSOLUTE(IOPATH A Z (1:2:3)(4:5:6)))))) // end', '(DELAYFILE(CELL(DELAY(ABSOLUTE(IOPATH A Z (1:2:3))))))\r',
    # the boundary of the separators next to a name (Proofs/SdfTextProofs.v sep_boundary): a comment directly after a blank in front of a name
    # is the name, directly after a name it belongs to the name, after a line break it is skipped; a `//` name vanishes after a line break;
    # a lone '\r' / '\v' is neither name nor ignored
    '(DELAYFILE(CELL(INSTANCE //c\n)))', '(DELAYFILE(CELL(INSTANCE //c\nu1)))', '(DELAYFILE(CELL(INSTANCE\n//c\nu1)))', '(DELAYFILE(CELL(INSTANCE\n //c\nu1)))',
    '(DELAYFILE(CELL(INSTANCE\n \n//c\nu1)))', '(DELAYFILE(CELL(INSTANCE\t//c\nu1)))', '(DELAYFILE(CELL(INSTANCE\x0c//c\nu1)))', '(DELAYFILE(CELL(INSTANCE//c\nu1)))',
    '(DELAYFILE(CELL(INSTANCE\r\n//c\nu1)))', '(DELAYFILE(CELL(INSTANCE\n//c\n//d\nu1)))', '(DELAYFILE(CELL(INSTANCE\n//c\n\t//d\nu1)))',
    '(DELAYFILE(CELL(INSTANCE "u1"//c\n)))', '(DELAYFILE(CELL(INSTANCE u1\t//c\n)))', '(DELAYFILE(CELL(INSTANCE u1\n//c\n)))', '(DELAYFILE(CELL(INSTANCE u1\r\n)))',
    '(DELAYFILE(CELL(INSTANCE\n//y\n)))', '(DELAYFILE(CELL(INSTANCE\n//y)))', '(DELAYFILE(CELL(INSTANCE\n//y)\n)))', '(DELAYFILE(CELL(INSTANCE //y)))', '(DELAYFILE(CELL(INSTANCE//y)))',
    '(DELAYFILE(CELL(INSTANCE\n//y\n //z\n)))', '(DELAYFILE(CELL(INSTANCE\n/y)))', '(DELAYFILE(CELL(INSTANCE\n//c\n/y)))',
    '(DELAYFILE(CELL(INSTANCE\ru1)))', '(DELAYFILE(CELL(INSTANCE u1\r)))', '(DELAYFILE(CELL(INSTANCE\x0bu1)))', '(DELAYFILE(CELL(INSTANCE u1\x0b)))', '(DELAYFILE(CELL(INSTANCE \r u1)))',
    '(DELAYFILE(CELL(INSTANCE\x1cu1)))', '(DELAYFILE(CELL(INSTANCE u1\x85)))', '(DELAYFILE(CELL(INSTANCE u1\xa0)))', '(DELAYFILE(CELL(INSTANCE\n\ru1)))', '(DELAYFILE(CELL(INSTANCE\n//c\r\nu1)))',
    '(DELAYFILE(CELL(INSTANCE\r\n//c\n//d\n\t u1\t\n//e\n)))', '(DELAYFILE(CELL(DELAY(ABSOLUTE(IOPATH A(posedge B)(1:2:3))))))', '(DELAYFILE(CELL(DELAY(ABSOLUTE(IOPATH AB(1:2:3)(4:5:6))))))',
    '(DELAYFILE(CELL(DELAY(ABSOLUTE(IOPATH(posedge A)B(1:2:3))))))', '(DELAYFILE(CELL(DELAY(ABSOLUTE(INTERCONNECT\na\n//c\nb\t(1:2:3))))))',
    '(DELAYFILE(CELL(DELAY(ABSOLUTE(INTERCONNECT a //c\nb (1:2:3))))))', '(DELAYFILE(CELL(DELAY(ABSOLUTE(INTERCONNECT a\n//c\nb//d\n(1:2:3))))))',
    '(DELAYFILE(CELL(DELAY(ABSOLUTE(IOPATH\n(posedge A)//c\nb(1:2:3))))))', '(DELAYFILE(CELL(DELAY(ABSOLUTE(IOPATH\n(posedge A)\n//c\nb//d\n(1:2:3))))))',
    '(DELAYFILE(CELL(DELAY(ABSOLUTE(IOPATH\n(posedge A)\n//c\n(negedge b)//d\n(1:2:3))))))', '(DELAYFILE(CELL(DELAY(ABSOLUTE(INTERCONNECT"a"b\n(1:2:3))))))',
    '(DELAYFILE(CELL(DELAY(ABSOLUTE(INTERCONNECT a\x0bb (1:2:3))))))', '(DELAYFILE(CELL(DELAY(ABSOLUTE(INTERCONNECT a\rb (1:2:3))))))',
    '(DELAYFILE(CELL(INSTANCE//\n//\n)))',      # ex_coincidence: the empty comment is the name `//`, the name `//` is a comment
]
DEC_TEXTS = ['0', '1', '-1', '1.5', '-1.5', '.5', '5.', '-.5', '-5.', '0.125', '0.375', '12.625', '007', '0.000', '-0', '-0.0', '00.50', '0.1', '0.3', '1.0625', '.',
             '-', '-.', '--1', '1-', '1-2', '1.2.3', '..', '1..', '.1.', '', '-1-', '100', '4.250', '123456789012.125', '123456789012345', '1234567890123456',
             '0.0000000000000001', '12345678901234.5', '99999999999999.875', '0.1250000000000', '0000000000000001', '3.5000', '-12.3750', '2.', '-.125', '.0625']


def corner_cases():
    cases, descs = [], []
    for text in CORNER_TEXTS:
        cs, d = text_cases(text)
        d['stream'] = 'corner'
        cases += cs
        descs += [d] * len(cs)
    return cases, descs


def dec_cases():
    from harness import circgen as cg
    cases, descs = [], []
    for s in DEC_TEXTS:
        if s == '':
            continue
        ok, v8 = num_info(s)
        cases.append(f'dec_case {cstr(s)} {"true" if ok else "false"} {copt(v8, cg.coq_Z)}')
        descs.append({'kind': 'sdf-number', 'text': s, 'float_accepts': ok, 'times8': v8})
    return cases, descs


def whitespace_probe():
    """the behaviour behind C14_text_name_whitespace_ends_name on the implementation (D34, fixed by d9c2c16); None if white space next to
    a name ends the name, else a description of what is lexed into it"""
    from kyupy import sdf, verilog, techlib
    import numpy as np
    v = ('module top (a0, a1, z0);\n  input a0, a1;\n  output z0;\n  wire n0;\n'
         '  NAND2_X1 u1 (.A1(a0), .A2(a1), .ZN(n0));\n  INV_X1 u2 (.I(n0), .ZN(z0));\nendmodule\n')
    base = '(DELAYFILE\n(CELL (INSTANCE u1) (DELAY (ABSOLUTE (IOPATH A1 ZN (1:2:3) (4:5:6)))))\n)\n'
    with sg.quiet():
        c = verilog.parse(v, tlib=techlib.NANGATE, branchforks=True)
        io_ref = sdf.parse(base).iopaths(c, techlib.NANGATE)
        if not np.abs(io_ref).sum() > 0:
            return 'reference file annotates nothing'
        for what, text in (('newline after the instance name', base.replace('(INSTANCE u1)', '(INSTANCE u1\n)')),
                           ('tab before the instance name', base.replace('(INSTANCE u1)', '(INSTANCE\tu1)')),
                           ('CR LF after the instance name', base.replace('(INSTANCE u1)', '(INSTANCE u1\r\n)')),
                           ('tab between the pins', base.replace('A1 ZN', 'A1\tZN')),
                           ('newline after the second pin', base.replace('ZN (1', 'ZN\n(1')),
                           ('form feed between the pins', base.replace('A1 ZN', 'A1\fZN'))):
            try:
                df = sdf.parse(text)
            except Exception as e:
                return f'{what}: {type(e).__name__}'
            if [str(k) for k in df.cells] != ['u1']:
                return f'{what}: instance names {[str(k) for k in df.cells]}'
            if not np.array_equal(df.iopaths(c, techlib.NANGATE), io_ref):
                return f'{what}: annotated delays differ from the file without it'
    return None


# the scanner order the model is transcribed from (lark 0.12 TraditionalLexer: priority, maximal width, length of the pattern source, name)
TERMINAL_ORDER = ['ID_OR_EDGE', 'ID', '__IGNORE_0', '__ANON_21', '__ANON_20', '_NOB', '__IGNORE_1', 'NAME']
STATE_TERMINALS = {           # the regular-expression terminals that compete in one parser state (besides the two ignore terminals)
    ('ID',), ('ID_OR_EDGE',), ('NAME',), ('_NOB',), ('__ANON_20',), ('__ANON_21',), ()}


def lexer_probe():
    """None if lark builds the scanners the model assumes (regular expressions before string literals in the recorded order; at most
    one non-ignore regular expression per parser state; contextual lexer), else a description"""
    from kyupy import sdf
    from lark import Lark
    import lark
    p = Lark(sdf.GRAMMAR, parser='lalr')
    lx = p.parser.lexer
    if type(lx).__name__ != 'ContextualLexer':
        return f'lexer is {type(lx).__name__}'
    res = [t for t in p.terminals if type(t.pattern).__name__ == 'PatternRE']
    res.sort(key=lambda x: (-x.priority, -x.pattern.max_width, -len(x.pattern.value), x.name))
    if [t.name for t in res] != TERMINAL_ORDER:
        return f'order of the regular-expression terminals is {[t.name for t in res]} (lark {lark.__version__})'
    for state, lexer in lx.lexers.items():
        names = [t.name for t in lexer.terminals]
        k = max([i for i, t in enumerate(lexer.terminals) if type(t.pattern).__name__ == 'PatternRE'], default=-1)
        if any(type(t.pattern).__name__ == 'PatternRE' for t in lexer.terminals[k + 1:]) or \
           any(type(t.pattern).__name__ != 'PatternRE' for t in lexer.terminals[:k + 1]):
            return f'state {state}: string literals are not after the regular expressions: {names}'
        rx = tuple(n for n in names[:k + 1] if not n.startswith('__IGNORE'))
        if rx not in STATE_TERMINALS:
            return f'state {state}: competing regular expressions {rx}'
        if [n for n in names[:k + 1]] != [n for n in TERMINAL_ORDER if n in names[:k + 1]]:
            return f'state {state}: scanner order {names}'
    return None
