"""Tracing symbolic executor for kyupy's straight-line bitwise code.

The real Python functions of /repo (logic.bp*v_*, logic._mv_*, LogicSim.c_prop, logic_sim._prop_cpu)
are *run* on symbolic bit-plane objects.  Every bitwise operation they perform is recorded in a
hash-consed DAG; the final content of the destination is emitted as a straight-line program
(`prog` of KV.Model.Bits).  Control flow of the traced code may depend only on concrete values
(opcode, arity, logic size): a symbolic value used as a truth value raises, which aborts
generation (fail-closed).

Symbolic kinds
  B       one bit-plane (a boolean per lane / per array element); immutable
  W       an unsigned 8-bit word per element given as 8 planes (mv storage format); mutable (out=)
  SymArr  a bit-parallel array  [..., plane, :]  with 1, 2 or 3 planes; view into a SymMem or detached
  SymMem  the simulator's signal memory  c[loc]
"""
import numpy as np


class Untranslatable(Exception):
    pass


class Dag:
    def __init__(self):
        self.nodes = []
        self.index = {}

    def mk(self, *node):
        if node in self.index:
            return self.index[node]
        self.nodes.append(node)
        self.index[node] = len(self.nodes) - 1
        return len(self.nodes) - 1

    def inp(self, n):
        return B(self, self.mk('in', n))

    def const(self, b):
        return B(self, self.mk('c', 1 if b else 0))

    def emit(self, outs, n_in):
        """Straight-line program over inputs 0..n_in-1: (instrs, out registers)."""
        reg = {}
        code = []

        def visit(i):
            stack = [i]
            while stack:
                j = stack[-1]
                if j in reg:
                    stack.pop()
                    continue
                nd = self.nodes[j]
                if nd[0] == 'in':
                    if not 0 <= nd[1] < n_in:
                        raise Untranslatable(f'input {nd[1]} out of range')
                    reg[j] = nd[1]
                    stack.pop()
                    continue
                if nd[0] == 'c':
                    code.append(('IConst', 'true' if nd[1] else 'false'))
                    reg[j] = n_in + len(code) - 1
                    stack.pop()
                    continue
                todo = [a for a in nd[1:] if a not in reg]
                if todo:
                    stack.extend(todo)
                    continue
                name = {'not': 'INot', 'and': 'IAnd', 'or': 'IOr', 'xor': 'IXor'}[nd[0]]
                code.append((name,) + tuple(reg[a] for a in nd[1:]))
                reg[j] = n_in + len(code) - 1
                stack.pop()
        for o in outs:
            visit(o.i)
        return code, [reg[o.i] for o in outs]

    def support(self, outs):
        seen, ins = set(), set()
        stack = [o.i for o in outs]
        while stack:
            j = stack.pop()
            if j in seen:
                continue
            seen.add(j)
            nd = self.nodes[j]
            if nd[0] == 'in':
                ins.add(nd[1])
            elif nd[0] != 'c':
                stack.extend(nd[1:])
        return ins


def coq_prog(code, outs):
    items = '; '.join(f'{c[0]} {" ".join(str(x) for x in c[1:])}' for c in code)
    return f'{{| p_code := [{items}]; p_outs := [{"; ".join(map(str, outs))}] |}}'


def eval_prog(code, outs, inputs):
    """Python evaluation of an emitted program on ints (for the translator self-check)."""
    env = list(inputs)
    for c in code:
        if c[0] == 'IConst':
            env.append(1 if c[1] == 'true' else 0)
        elif c[0] == 'INot':
            env.append(1 - env[c[1]])
        elif c[0] == 'IAnd':
            env.append(env[c[1]] & env[c[2]])
        elif c[0] == 'IOr':
            env.append(env[c[1]] | env[c[2]])
        else:
            env.append(env[c[1]] ^ env[c[2]])
    return [env[o] for o in outs]


class B:
    """One bit-plane."""
    __array_priority__ = 1000

    def __init__(self, dag, i):
        self.dag, self.i = dag, i

    def _lift(self, o):
        if isinstance(o, B):
            return o
        if isinstance(o, (bool, np.bool_)):
            return self.dag.const(bool(o))
        if isinstance(o, (int, np.integer)):
            if int(o) == 0:
                return self.dag.const(False)
            if int(o) in (0xff, -1, 1):  # all-ones byte (bp planes) / True
                raise Untranslatable(f'ambiguous constant {o} combined with a plane')
        raise Untranslatable(f'cannot combine plane with {type(o)}')

    def __and__(self, o): return B(self.dag, self.dag.mk('and', self.i, self._lift(o).i))
    def __or__(self, o): return B(self.dag, self.dag.mk('or', self.i, self._lift(o).i))
    def __xor__(self, o): return B(self.dag, self.dag.mk('xor', self.i, self._lift(o).i))
    def __invert__(self): return B(self.dag, self.dag.mk('not', self.i))
    __rand__, __ror__, __rxor__ = __and__, __or__, __xor__

    def __bool__(self):
        raise Untranslatable('data-dependent control flow')

    def mux(self, a, b):
        """self ? a : b"""
        return (self & a) | (~self & b)

    def __array_ufunc__(self, ufunc, method, *inputs, **kw):
        if method != '__call__' or kw:
            raise Untranslatable(f'ufunc {ufunc} {method} {kw} on plane')
        f = {np.bitwise_and: B.__and__, np.bitwise_or: B.__or__, np.bitwise_xor: B.__xor__,
             np.logical_and: B.__and__, np.logical_or: B.__or__, np.logical_xor: B.__xor__}.get(ufunc)
        if f is not None and len(inputs) == 2:
            a = inputs[0] if isinstance(inputs[0], B) else self._lift(inputs[0])
            return f(a, inputs[1])
        if ufunc in (np.invert, np.bitwise_not, np.logical_not) and len(inputs) == 1:
            return ~inputs[0]
        raise Untranslatable(f'ufunc {ufunc} on plane')


class W:
    """uint8 word per element (mv format), bit 0 first. Mutable so that it can serve as out=."""
    __array_priority__ = 1000
    NB = 8

    def __init__(self, dag, bits):
        self.dag, self.bits = dag, list(bits)

    @staticmethod
    def const(dag, v):
        v = int(v)
        if not 0 <= v < 256:
            raise Untranslatable(f'word constant {v}')
        return W(dag, [dag.const((v >> k) & 1) for k in range(W.NB)])

    def _lift(self, o):
        if isinstance(o, W):
            return o
        if isinstance(o, (int, np.integer)) and not isinstance(o, (bool, np.bool_)):
            return W.const(self.dag, o)
        raise Untranslatable(f'cannot combine word with {type(o)}')

    def _zip(self, o, f):
        o = self._lift(o)
        return W(self.dag, [f(a, b) for a, b in zip(self.bits, o.bits)])

    def __and__(self, o): return self._zip(o, B.__and__)
    def __or__(self, o): return self._zip(o, B.__or__)
    def __xor__(self, o): return self._zip(o, B.__xor__)
    __rand__, __ror__, __rxor__ = __and__, __or__, __xor__

    def __eq__(self, o):
        o = self._lift(o)
        r = self.dag.const(True)
        for a, b in zip(self.bits, o.bits):
            r = r & ~(a ^ b)
        return r

    def __ne__(self, o): return ~(self == o)
    __hash__ = None

    def __bool__(self):
        raise Untranslatable('data-dependent control flow')

    def __setitem__(self, idx, v):
        if idx is not Ellipsis:
            raise Untranslatable(f'word store with index {idx}')
        self.bits = list(self._lift(v).bits)

    def _assign(self, val, where):
        val = self._lift(val)
        if where is True or where is None:
            self.bits = list(val.bits)
        elif isinstance(where, B):
            self.bits = [where.mux(n, o) for n, o in zip(val.bits, self.bits)]
        else:
            raise Untranslatable(f'where={where!r}')

    def __array_ufunc__(self, ufunc, method, *inputs, out=None, where=True, **kw):
        if method != '__call__' or kw:
            raise Untranslatable(f'ufunc {ufunc} {method} {kw} on word')
        f = {np.bitwise_and: W.__and__, np.bitwise_or: W.__or__, np.bitwise_xor: W.__xor__}.get(ufunc)
        if f is None or len(inputs) != 2:
            raise Untranslatable(f'ufunc {ufunc} on word')
        a = inputs[0] if isinstance(inputs[0], W) else self._lift(inputs[0])
        res = f(a, inputs[1])
        if out is None:
            if where is not True:
                raise Untranslatable('where= without out=')
            return res
        (dst,) = out if isinstance(out, tuple) else (out,)
        if not isinstance(dst, W):
            raise Untranslatable('out= is not a symbolic word')
        dst._assign(res, where)
        return dst

    def __array_function__(self, func, types, args, kwargs):
        if func is np.putmask and len(args) == 3 and not kwargs:
            dst, mask, val = args
            if not isinstance(dst, W) or not isinstance(mask, B):
                raise Untranslatable('putmask operands')
            dst._assign(val, mask)
            return None
        raise Untranslatable(f'numpy function {func.__name__} on word')


def _plane_index(idx):
    if (isinstance(idx, tuple) and len(idx) == 3 and idx[0] is Ellipsis and idx[2] == slice(None)
            and isinstance(idx[1], (int, np.integer))):
        return int(idx[1])
    return None


class SymArr:
    """Bit-parallel array with planes on axis -2; either a live view of mem[loc] or detached."""
    __array_priority__ = 1000

    def __init__(self, dag, planes=None, mem=None, loc=None):
        self.dag, self._planes, self.mem, self.loc = dag, planes, mem, loc

    @property
    def planes(self):
        return self.mem.data[self.loc] if self.mem is not None else self._planes

    def _const_plane(self, v):
        if isinstance(v, B):
            return v
        if isinstance(v, (int, np.integer)) and int(v) in (0, 0xff):
            return self.dag.const(int(v) == 0xff)
        raise Untranslatable(f'plane store of {v!r}')

    def __getitem__(self, idx):
        k = _plane_index(idx)
        if k is None:
            raise Untranslatable(f'array index {idx!r}')
        return self.planes[k]

    def __setitem__(self, idx, v):
        if idx is Ellipsis:
            if isinstance(v, SymArr):
                if len(v.planes) != len(self.planes):
                    raise Untranslatable('plane count mismatch')
                new = list(v.planes)
            else:
                new = [self._const_plane(v)] * len(self.planes)
            self.planes[:] = new
            return
        k = _plane_index(idx)
        if k is None or not 0 <= k < len(self.planes):
            raise Untranslatable(f'array store index {idx!r}')
        self.planes[k] = self._const_plane(v)

    def _zip(self, o, f):
        if not isinstance(o, SymArr) or len(o.planes) != len(self.planes):
            raise Untranslatable('array operand mismatch')
        return SymArr(self.dag, [f(a, b) for a, b in zip(self.planes, o.planes)])

    def __and__(self, o): return self._zip(o, B.__and__)
    def __or__(self, o): return self._zip(o, B.__or__)
    def __xor__(self, o): return self._zip(o, B.__xor__)
    def __invert__(self): return SymArr(self.dag, [~a for a in self.planes])

    def __bool__(self):
        raise Untranslatable('data-dependent control flow')


class SymMem:
    """Signal memory c[loc]; loc are small concrete ints."""

    def __init__(self, dag, nlocs, mdim, name=lambda loc, p: None):
        self.dag = dag
        self.data = {loc: [dag.inp(name(loc, p)) for p in range(mdim)] for loc in range(nlocs)}

    def _loc(self, loc):
        if isinstance(loc, (int, np.integer)) and int(loc) in self.data:
            return int(loc)
        raise Untranslatable(f'memory index {loc!r}')

    def __getitem__(self, loc):
        return SymArr(self.dag, mem=self, loc=self._loc(loc))

    def __setitem__(self, loc, v):
        loc = self._loc(loc)
        if not isinstance(v, SymArr) or len(v.planes) != len(self.data[loc]):
            raise Untranslatable('memory store of non-array')
        self.data[loc] = list(v.planes)
