"""Writes /verif/MANIFEST.json from the table below (python3 vcheck/manifest.py)."""
import json
import os

VERIF = os.path.dirname(os.path.dirname(os.path.abspath(__file__)))
BASE_NOTE = ('Trusted: Coq 8.16.1 kernel incl. vm_compute (no native_compute, no axioms declared, no kernel check disabled); '
             'the translators under /verif/translate and the correspondence/oracle harness under /verif/vcheck; numpy semantics. ')

CLAIMS = {
    'C12': dict(
        technique='Coq proof over a model regenerated from logic.py by tracing symbolic execution; exhaustive correspondence',
        text='Proof (full). Every bp8v_/bp4v_/_mv_ operator (k=1..4) is re-translated from the current logic.py by tracing symbolic '
             'execution into a straight-line bit-plane program; Coq proves each program equal to the documented algebra on all 8^k/4^k '
             'operand tuples (bit-parallel sweep + soundness lemma), lane independence for any width (lifting lemma), Boolean restriction '
             'and De Morgan for any operand count on {0,1} and for k<=4 on all eight values. The public wrappers (shapes, broadcasting, '
             'out=) are tied by correspondence tests only.',
        design_ref='5/C12',
        note='Modelled not verified: the mv_* wrapper functions (allocation of out, broadcasting) are covered by differential tests; '
             'the tracing translator is trusted but its output is compared with the real functions on every operand combination on every run.'),
    'C01': dict(
        technique='Coq proofs over regenerated LUT/dispatch tables + hand model of SimOps/LogicSim with correspondence; gate-by-gate oracle',
        text='Proof (partial). Proved for all inputs: every LUT constant equals its primitive\'s Boolean function (33x16), both 2-valued '
             'dispatch copies (_prop_cpu and the callback loop, re-traced from the source on every run) compute that function per lane, '
             'primitive selection by kind prefix/arity, opcode injectivity, lane independence for any batch size (lifting lemma). '
             'NOT yet one theorem: that SimOps\' op list is a topological evaluation of the netlist and that the memory map preserves '
             'line-level semantics; those links are modelled (Model/SimOps.v, Model/LogicSimModel.v) and tied by exact correspondence '
             'on generated circuits (ops, levels, c_locs, c_caps, c_len, s[0], s[1] after k cycles) plus an independent evaluator.',
        design_ref='5/C01',
        note='Modelled not verified: SimOps.__init__, LogicSim.s_to_c/c_prop/c_to_s/s_ppo_to_ppi/cycle, Circuit.topological_order. '
             'Out of domain: state elements without any output connection or without data input (numpy index -1 aliasing).'),
    'C02': dict(
        technique='Coq proofs: exhaustive sweeps of the re-traced 4/8-valued dispatch + logical-relations lemma over op lists; correspondence',
        text='Proof (full at op-list level). The 4- and 8-valued dispatch of c_prop (with and without callback) is re-traced from the '
             'source and proved equal to the documented operator composition for all 8^4/4^4 operand values of all 33 opcodes; '
             'X-soundness, init/final projection and Boolean restriction are proved per primitive (exhaustive) and lifted to every op '
             'list and every stimulus by a logical-relations lemma. Scheduler and memory map are tied by correspondence (as C01).',
        design_ref='5/C02',
        note='Modelled not verified: SimOps.__init__, LogicSim.s_to_c/c_to_s. Circuit-level theorems are over line-level op-list '
             'semantics (Model/OpSem.v).'),
    'C16': dict(
        technique='Coq proofs about op-list semantics with callback (any value domain) + re-traced callback dispatch; correspondence; oracle',
        text='Proof (full at op-list level). For any value domain: the callback is presented exactly the op outputs in op order, an '
             'identity callback changes nothing, nothing upstream of the first altered signal changes, and overriding one signal equals '
             'simulating the remaining ops with that signal driven by the overwritten value. The callback copies of the dispatch are '
             're-traced and proved equal to the plain ones. Call protocol (Line object, writable view, which ops call back) is tied by '
             'correspondence and an oracle that rebuilds the cut circuit.',
        design_ref='5/C16',
        note='Modelled not verified: the callback protocol inside LogicSim.c_prop (Model/LogicSimModel.v prop1_cb).'),
}

NOT_YET = 'check not built yet in this session (see DESIGN.md section 8 build order); no claim is made'


def main():
    props = [json.loads(l) for l in open(os.path.join(VERIF, 'properties.jsonl'))]
    checks, na = [], []
    for p in props:
        pid = p['id']
        c = CLAIMS.get(pid)
        if c is None:
            na.append({'property_id': pid, 'reason': NOT_YET})
            continue
        checks.append({
            'property_id': pid,
            'quick_cmd': f'./check {pid} --tier quick',
            'thorough_cmd': f'./check {pid} --tier thorough',
            'evidence_file': f'/verif/evidence/{pid}.json',
            'replay_cmd_template': f'./check {pid} --replay {{path}}',
            'engine': 'coq+correspondence',
            'level_claimed': {'category': 'proof', 'text': c['text'], 'design_ref': c['design_ref']},
            'level_note': BASE_NOTE + c['note'],
            'technique': c['technique'],
        })
    m = {
        'version': 1,
        'setup_cmd': './check setup',
        'hooks': {'guard': 'KYUPY_VERIF', 'enable': 'no hook is needed: every check drives the pure-Python code of /repo/src from outside '
                  '(PYTHONPATH=/repo/src); the guard variable is reserved', 'baseline_off_cmd':
                  'cd /repo && /venv/bin/python -m pytest -ra -q -p no:cacheprovider --timeout=900 --continue-on-collection-errors',
                  'source_commits': [], 'add_only': True},
        'engines': [
            {'name': 'coq', 'path': '/verif/coq', 'serves_properties': sorted(CLAIMS),
             'kind_free_text': 'Coq 8.16.1 development: Model/ (executable models), Gen/ (regenerated from /repo on every run), Proofs/, Properties/ (statements only)'},
            {'name': 'translators', 'path': '/verif/translate', 'serves_properties': sorted(CLAIMS),
             'kind_free_text': 'Python tracing symbolic executor and ast extractors that regenerate Gen/*.v from the working tree'},
            {'name': 'harness', 'path': '/verif/vcheck', 'serves_properties': sorted(CLAIMS),
             'kind_free_text': 'check CLI: translation, make, Print Assumptions, correspondence (model evaluated by vm_compute vs implementation), oracle search, known findings, evidence'},
        ],
        'checks': checks,
        'not_applicable': na,
        'notes': 'See DESIGN.md. All checks claim level "proof"; where a main theorem is partial the level text says so.',
    }
    with open(os.path.join(VERIF, 'MANIFEST.json'), 'w') as f:
        json.dump(m, f, indent=1)
    print(f'{len(checks)} checks, {len(na)} not claimed')


if __name__ == '__main__':
    main()
