"""Writes /verif/MANIFEST.json from the table below (python3 vcheck/manifest.py)."""
import json
import os

VERIF = os.path.dirname(os.path.dirname(os.path.abspath(__file__)))
BASE_NOTE = ('Trusted: Coq 8.16.1 kernel incl. vm_compute (no native_compute, no axioms declared, no kernel check disabled); '
             'the translators under /verif/translate and the correspondence/oracle harness under /verif/vcheck; numpy semantics. ')

CLAIMS = {
    'C12': dict(
        technique='Coq proof over a model regenerated from logic.py by tracing symbolic execution; exhaustive correspondence',
        text='Proof (full). Every bp8v_/bp4v_/_mv_ operator (k=1..4) is re-translated from the current logic.py by tracing symbolic '
             'execution into a straight-line bit-plane program; Coq proves each program equal to the documented algebra on all 8^k/4^k '
             'operand tuples (bit-parallel sweep + soundness lemma), lane independence for any width (lifting lemma), Boolean restriction '
             'and De Morgan for any operand count on {0,1} and for k<=4 on all eight values. The public wrappers (shapes, broadcasting, '
             'out=) are tied by correspondence tests only.',
        design_ref='5/C12',
        note='Modelled not verified: the mv_* wrapper functions (allocation of out, broadcasting) are covered by differential tests; '
             'the tracing translator is trusted but its output is compared with the real functions on every operand combination on every run.'),
}

NOT_YET = 'check not built yet in this session (see DESIGN.md section 8 build order); no claim is made'


def main():
    props = [json.loads(l) for l in open(os.path.join(VERIF, 'properties.jsonl'))]
    checks, na = [], []
    for p in props:
        pid = p['id']
        c = CLAIMS.get(pid)
        if c is None:
            na.append({'property_id': pid, 'reason': NOT_YET})
            continue
        checks.append({
            'property_id': pid,
            'quick_cmd': f'./check {pid} --tier quick',
            'thorough_cmd': f'./check {pid} --tier thorough',
            'evidence_file': f'/verif/evidence/{pid}.json',
            'replay_cmd_template': f'./check {pid} --replay {{path}}',
            'engine': 'coq+correspondence',
            'level_claimed': {'category': 'proof', 'text': c['text'], 'design_ref': c['design_ref']},
            'level_note': BASE_NOTE + c['note'],
            'technique': c['technique'],
        })
    m = {
        'version': 1,
        'setup_cmd': './check setup',
        'hooks': {'guard': 'KYUPY_VERIF', 'enable': 'no hook is needed: every check drives the pure-Python code of /repo/src from outside '
                  '(PYTHONPATH=/repo/src); the guard variable is reserved', 'baseline_off_cmd':
                  'cd /repo && /venv/bin/python -m pytest -ra -q -p no:cacheprovider --timeout=900 --continue-on-collection-errors',
                  'source_commits': [], 'add_only': True},
        'engines': [
            {'name': 'coq', 'path': '/verif/coq', 'serves_properties': sorted(CLAIMS),
             'kind_free_text': 'Coq 8.16.1 development: Model/ (executable models), Gen/ (regenerated from /repo on every run), Proofs/, Properties/ (statements only)'},
            {'name': 'translators', 'path': '/verif/translate', 'serves_properties': sorted(CLAIMS),
             'kind_free_text': 'Python tracing symbolic executor and ast extractors that regenerate Gen/*.v from the working tree'},
            {'name': 'harness', 'path': '/verif/vcheck', 'serves_properties': sorted(CLAIMS),
             'kind_free_text': 'check CLI: translation, make, Print Assumptions, correspondence (model evaluated by vm_compute vs implementation), oracle search, known findings, evidence'},
        ],
        'checks': checks,
        'not_applicable': na,
        'notes': 'See DESIGN.md. All checks claim level "proof"; where a main theorem is partial the level text says so.',
    }
    with open(os.path.join(VERIF, 'MANIFEST.json'), 'w') as f:
        json.dump(m, f, indent=1)
    print(f'{len(checks)} checks, {len(na)} not claimed')


if __name__ == '__main__':
    main()
