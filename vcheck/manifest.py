"""Writes /verif/MANIFEST.json from the table below (python3 vcheck/manifest.py)."""
import json
import os

VERIF = os.path.dirname(os.path.dirname(os.path.abspath(__file__)))
BASE_NOTE = ('Trusted: Coq 8.16.1 kernel incl. vm_compute (no native_compute, no axioms declared, no kernel check disabled); '
             'the translators under /verif/translate and the correspondence/oracle harness under /verif/vcheck; numpy semantics. ')

CLAIMS = {
    'C12': dict(
        technique='Coq proof over a model regenerated from logic.py by tracing symbolic execution; exhaustive correspondence',
        text='Proof (full). Every bp8v_/bp4v_/_mv_ operator (k=1..4) is re-translated from the current logic.py by tracing symbolic '
             'execution into a straight-line bit-plane program; Coq proves each program equal to the documented algebra on all 8^k/4^k '
             'operand tuples (bit-parallel sweep + soundness lemma), lane independence for any width (lifting lemma), Boolean restriction '
             'and De Morgan for any operand count on {0,1} and for k<=4 on all eight values; the unary bit-parallel operators are additionally traced IN PLACE '
             '(output array = operand, as LogicSim calls them) and proved equal to NOT / BUF (C12_unary_inplace). ARRAY LAYER (Model/NdArray.v, MvWrappers.v, '
             'MvTransition.v): a shape-polymorphic array model (row-major index/offset bijection, numpy broadcasting rule with exact failure condition) and '
             'transcriptions of mv_not / mv_and / mv_or / mv_xor / mv_transition; proved for ALL shapes: the result at every multi-index is the documented '
             'algebra of the operands at that index modulo their shapes (C12_broadcast_index, C12_wrapper_elementwise), the exact result and exactly when the call '
             'raises (C12_wrapper_exact), a caller-supplied out= of the broadcast shape receives exactly the out=None result whatever it held before, other outs fail '
             '(C12_wrapper_out, _not_out, _transition_out), np.empty content is unobservable; element functions = traced two-operand kernels.',
        design_ref='5/C12',
        note='Modelled not verified: the mv_* wrapper functions are hand transcriptions numpy call by numpy call (two-operand case, uint8, codes < 8), compared with numpy on '
             'random shapes of rank 0..5 incl. length-0/1 axes, stretched operands on either side, incompatible shapes, out= absent / right / wrong, keyword and positional (harness/nd_corr.py); '
             'numpy primitive semantics are assumptions validated by that comparison; kernels with more than two operands are proved per element only. Reading: an out= array that overlaps an operand '
             'is outside the property for the array operators and the n-ary bit-parallel operators (they initialise out before reading; only the unary bit-parallel operators are used in place). '
             'The tracing translator is trusted but its output is compared with the real functions on every operand combination on every run. D35 (broadcasting towards the first operand raised) was found here and fixed (666613e); '
             'C12_wrapper_broadcast_refuted keeps the witness for the old code.'),
    'C01': dict(
        technique='Coq proof that the scheduler\'s op list, executed gate by gate, satisfies every node\'s equation for all well-formed acyclic netlists (+ uniqueness), over regenerated LUT/dispatch tables; memory map by certificate; exact correspondence; gate-by-gate oracle',
        text='Proof (end to end for all option combinations, from the compared model down to the unique gate-by-gate solution). SCHEDULER SOURCE TIE (round 3): translate/gen_simops.py regenerates Gen/SimOpsSrc.v from the current text of SimOps.__init__; the op-building loop is PROVED equal to build_ops for every netlist (C01_simops_ops_source_is_model[_wf], incl. the a_ctrl columns), the stem table and the level / reference-count pass equal the model under wf_netlist (C07_simops_stems / _levels_source_is_model[_wf]), and the WHOLE translated constructor equals Model.SimOps.build for all four option combinations (C08_simops_source_is_model: the allocation section through the translated Heap is proved equal to the model\'s allocation events), so every map / schedule theorem speaks about the constructor as written; the order the constructor iterates over is the translated Circuit.topological_order (C01_simops_ops_source_uses_translated_order). Proved for all inputs: every LUT constant equals its primitive\'s '
             'Boolean function; both 2-valued dispatch copies (re-traced from the source on every run) compute it per lane; primitive '
             'selection; opcode injectivity; lane independence for any batch size; and the MAIN theorem: for EVERY well-formed, '
             'combinationally acyclic netlist and EVERY stimulus the op list that SimOps builds (Kahn order, interface BUF/INV ops, forks, '
             'LUT selection by kind prefix and connected pins, zero slot for unconnected pins), executed gate by gate in any value domain, '
             'yields a valuation satisfying every node\'s equation, and solutions are unique. END TO END for the default options '
             '(C01_end_to_end_default): build() always succeeds, and the flat memory it lays out, after running the ops it schedules, '
             'holds at every observed slot the value of the driving line in that unique solution. For c_reuse/strip_forks the same holds by C06_options_irrelevant_spec / C08_build_passes_certificate_all (all four option combinations); the certificate, the executable twin of '
             'the main theorem and the models of SimOps/LogicSim (ops, levels, c_locs, s[0], s[1] after k cycles) are evaluated / compared '
             'on every generated circuit, plus an independent evaluator.',
        design_ref='5/C01',
        note='Modelled not verified: SimOps.__init__, LogicSim.s_to_c/c_prop/c_to_s/s_ppo_to_ppi/cycle, Circuit.topological_order (hand '
             'transcriptions tied by exact correspondence). The k-cycle iteration is a line-level theorem (C01_cycles_are_iter_sem: the scheduler-based iteration IS the k-fold application of the unique gate-by-gate solution, state elements without data line read 0) compared with LogicSim.cycle on every generated lane; the correspondence-checked list-memory model (Model/LogicSimModel.v: simulate, cycles, sim_case2) is PROVED to compute exactly that (C01_logicsim_model_correct, C01_cycles_model_correct, C01_sim_case2_correct: for every option combination the model\'s captured vector is the unique gate-by-gate solution at every data line; memory carried over between cycles is safe because the zero slot is pinned and every other read is of an owned slot). Reading: a variadic gate\'s arity is its highest connected pin.'),
    'C02': dict(
        technique='Coq proofs: exhaustive sweeps of the re-traced 4/8-valued dispatch + logical-relations lemma over op lists; correspondence',
        text='Proof (full at op-list level). The 4- and 8-valued dispatch of c_prop (with and without callback) is re-traced from the '
             'source and proved equal to the documented operator composition for all 8^4/4^4 operand values of all 33 opcodes; '
             'X-soundness, init/final projection and Boolean restriction are proved per primitive (exhaustive) and lifted to every op '
             'list and every stimulus by a logical-relations lemma. Scheduler and memory map are tied by correspondence (as C01).',
        design_ref='5/C02',
        note='Modelled not verified: SimOps.__init__, LogicSim.s_to_c/c_to_s (correspondence). The compared memory-level model sim_case8 is proved equal to the capture of the unique multi-valued gate-by-gate solution for every option combination (C02_logicsim_model_correct), so the line-level theorems transfer to it.'),
    'C16': dict(
        technique='Coq proofs about op-list semantics with callback (any value domain) + re-traced callback dispatch; correspondence; oracle',
        text='Proof (full at op-list level). For any value domain: the callback is presented exactly the op outputs in op order, an '
             'identity callback changes nothing, nothing upstream of the first altered signal changes, and overriding one signal equals '
             'simulating the remaining ops with that signal driven by the overwritten value. The callback copies of the dispatch are '
             're-traced and proved equal to the plain ones. Call protocol (Line object, writable view, which ops call back) is tied by '
             'correspondence and an oracle that rebuilds the cut circuit.',
        design_ref='5/C16',
        note='Modelled not verified: the callback protocol inside LogicSim.c_prop is transcribed in Model/LogicSimModel.v (prop1_cb, compared with the code: call sequence and results); that transcription is PROVED to refine the op-list callback semantics for every build() result (C16_model_callback_correct, _override, _identity, _trace, C16_sim_case8_cb_correct), so the C16 theorems hold for the compared model.'),
    'C03': dict(
        technique='Coq proof of transition-parity / initial-value invariants of a Gallina transcription of _wave_eval; whole-memory correspondence',
        text='Proof (full at op-list level). CIRCUIT LEVEL: for any op list, delays >= 0, capacities >= 4 and well-formed input waveforms every signal\'s waveform is well formed, starts at the Boolean (LUT) evaluation of the initial values and ends by parity at the Boolean evaluation of the final values, overflow or not (logical relation over the op list; with C01 the Boolean evaluation of SimOps\' op list is the netlist function). PER GATE: for ANY lookup table, ANY well-formed operand waveforms of '
             'any length, ANY non-negative delay tables and ANY capacity >= 4 the transcription of _wave_eval terminates, ends (by parity) at '
             'the LUT value of the operands\' final values -- also when transitions are dropped by overflow -- starts at the LUT value of '
             'their initial values and yields a well-formed waveform within capacity (so the facts compose along op lists). The '
             'transcription, SimOps and capture are tied to the code by comparing the whole waveform memory, abuf and s[3..10] on '
             'generated circuits; an independent Boolean evaluator is the oracle. FLAT MEMORY (C03_flat_refines): when every op\'s output region lies inside the memory and is disjoint from the region of every other tracked index (checked per generated case by the proved-sound regions_ok_b; what the allocator gives without c_reuse), c_prop on the flat waveform memory is total and the region of every index, read up to its terminator, IS the line-level waveform, and abuf is the line-level accumulation; the line-level semantics itself (wexec, wacc) is now compared with the real waveform memory / abuf on every generated case. MEMORY LEVEL, ALL OPTIONS (Proofs/WaveRegion.v, WaveSimGlue.v): the region certificate is now DERIVED from the allocator invariant for every build() result and all four c_reuse x strip_forks combinations (C03_build_regions_all: an op\'s output region never overlaps a region that is pinned or still to be read), and the compared memory-level model wsim_case is proved total and to capture, at every s_node with a data line, the capture of the UNSTRIPPED line-level waveform (C03_wavesim_model_correct; with strip_forks under zero delay on fork inputs and monotone stems, the side condition outside which D26 is the refutation); every hypothesis has a proved-sound checker evaluated on every generated case and the theorem\'s prediction is compared with the implementation\'s s[3..10] / abuf. Restated for the compared model: C03_wavesim_model_settles. SOURCE TIE OF THE KERNELS (round 3): translate/gen_wave_eval.py, a fail-closed Python-ast translator, regenerates Gen/WaveEvalSrc.v from the CURRENT text of _wave_eval, wave_capture_cpu, wave_capture_gpu and the dataset-selection prologue on every run (one record of all locals, statement by statement, loop as fuel recursion), and the translated source is PROVED equal to the hand model all the theorems are about, for all inputs with capacity >= 2 (C03_kernel_source_is_model, _any_bound; at capacity 1 they differ: C03_kernel_source_cap1_differs, SimOps never allocates less than 4); every memory access of the kernels is in the kernel\'s own lane column (the translator rejects anything else), so lane independence holds by construction. C03_source_total / C03_source_settles state termination and the settle property directly for the translated source.',
        design_ref='5/C03',
        note='Translated from source and proved equal to the model: _wave_eval, wave_capture_cpu / _gpu (sd = 0 path). Modelled not verified: WaveSim.s_to_c, c_to_s driver loops, SimOps (hand transcriptions, exact correspondence); trusted: the translator (about 700 lines) and Model/WaveSrcPrelude.v (meaning of the emitted primitives). Time is modelled as extended integers: '
             'float32/float64 arithmetic is assumed exact on the integer grid with absorbing sentinels; off-grid rounding is not modelled. '
             'Flat-memory refinement holds for all four option combinations (region certificate derived for every build() result); with strip_forks the accumulated activity is characterised through the alias run of the stripped schedule only (not yet as sums over the unstripped lines). Every round of the campaign is also repeated on a simulator object that has already simulated another batch (results must equal the fresh simulator).'),
    'C04': dict(
        technique='Coq proofs: per-gate emit-is-sum, shift/scale equivariance (simulation relation), strict monotonicity; circuit-level STA window, shift/scale equivariance and monotonicity over any op list; whole-memory correspondence; STA/shift/scale/emit-sum/monotonicity oracle incl. single-gate stress',
        text='Proof (full at op-list level on the exact time grid). PER GATE (any LUT, operands, delays): every emitted time is an operand '
             'time plus one of that operand line\'s four delays; shifting all operand times by delta shifts the result by exactly delta and '
             'scaling times and delays by any k>0 (in particular powers of two) scales it, counts and overflow unchanged; with polarity-free '
             'delays and increasing operands the result is strictly increasing (through overflow and pulse filtering). CIRCUIT LEVEL: for '
             'any op list every finite transition of every signal lies inside the window static timing analysis of the annotated op list '
             'permits; shifting (scaling) all input waveforms [and delays] shifts (scales) every signal\'s waveform for ANY op list with no side condition (C04_circuit_shift/_scale, rerun forms _inputs), and with polarity-free delays every waveform of the circuit is strictly increasing (C04_circuit_mono). Tied to the code by whole-memory and line-level correspondence; SOURCE TIE: C04_kernel_source_is_model, C04_source_emit_is_sum (the translated _wave_eval). Oracle: independent STA over the netlist, per-gate emit-is-sum on '
             'the implementation\'s waveforms, shifted (+16,-5) and scaled (x4, x1/2) reruns, single-gate stress with simultaneous arrivals.',
        design_ref='5/C04',
        note='As C03: time is the integer/dyadic grid (float rounding off the grid is not modelled).'),
    'C05': dict(
        technique='Coq proofs: exhaustive hazard-soundness of the 8-valued algebra per primitive + no-change-no-edge invariant of _wave_eval; correspondence of both simulators',
        text='Proof (full at op-list level). CIRCUIT LEVEL: for any op list over the 33 opcodes, delays >= 0, capacities >= 4: if every input waveform is predicted by its 8-valued code (same init/final; no transition unless the code shows activity) then so is every signal -- a plain 0/1 of 8-valued logic simulation implies a transition-free waveform, and init/final agree. PER OP: (1) For every primitive and all known operand values: if the documented '
             '8-valued algebra yields a plain 0/1 then the primitive is constant on the cube spanned by the active operands (exhaustive). '
             '(2) For any gate evaluation: if the LUT is constant on the cube spanned by the operands that have finite transitions, no '
             'transition is produced. (3) init/final of both simulators equal the Boolean function of init/final (C02, C03). Both '
             'simulators are run on the same circuits/stimuli and compared including the activity bit. SOURCE TIE: C05_source_no_change_no_edge (translated _wave_eval). MEMORY LEVEL: C05_wavesim_model_predicted restates the prediction for the compared flat-memory model under every c_reuse x strip_forks combination (via C03_wavesim_model_correct).',
        design_ref='5/C05',
        note='As C02 and C03 (memory level proved for all option combinations; strip_forks under its side condition).'),
    'C06': dict(
        technique='Coq proofs: memory-level invariance of the observed slots under c_reuse and strip_forks for all netlists (every option combination delivers the unstripped line-level value), launcher covers every instance once (model tied to the real MockCuda), lane independence, release-order irrelevance, multi-cycle strip invariance; differential execution over all option pairs',
        text='Proof (option clauses full at logic and timing level; code-path clause: kernel bodies by proof from the source text, driver loops by differential execution). CODE PATH (round 3): the merge kernel is ONE function for both paths; wave_capture_cpu and wave_capture_gpu, both translated from the current source, are proved equal to the capture model and hence to each other for all waveforms and capture times (C06_capture_cpu_gpu_same_source_model; sd = 0); the dataset-selection prologue of the source is the select_idx of the dataset theorems (C06_select_source_is_model); the MockCuda launcher is translated from source and proved to run every in-range kernel instance exactly once from any stale coordinates (C06_launcher_source_is_model); the GPU driver kernels wave_assign_gpu, ppo_to_ppi_gpu, wave_eval_gpu, the level_eval_cpu loop nest and the capture write-back are translated from source (translate/gen_wave_drivers.py): one kernel instance = the per-lane model step = the CPU twin (C06_assign_cpu_gpu_same_source_model over the whole launch, C06_accumulate_cpu_gpu_same_source_model, C06_capture_writeback_cpu_gpu_same_source_model; state transfer per instance: C06_state_transfer_gpu_instance_partial), the launch order is the CPU loop order (C06_launch_is_cpu_loop), and every kernel is lane-local (C06_kernels_lane_local, with the translator rejecting any access outside the kernel\'s own lane column); every memory access of the kernels is in the kernel\'s own lane column by construction of the translation. PROVED for every well-formed, combinationally acyclic netlist of known primitives, every stimulus, any value domain: '
             'whatever c_reuse and strip_forks are, the flat memory after the scheduled ops holds at the PPO slot of every observed port / state element the value that the '
             'UNSTRIPPED line-level execution gives the line feeding it (C06_options_irrelevant_spec), so any two option combinations agree at every observed slot '
             '(C06_options_irrelevant, C06_c_reuse_irrelevant, C06_end_to_end_reuse; ops, levels, aliases and interface do not depend on c_reuse: C06_c_reuse_same_interface); '
             'the stripped schedule equals the unstripped one at every line (C06_strip_forks_irrelevant) also over k clock cycles (C06_cycles_strip_irrelevant); the '
             'mock-GPU launch runs every in-bounds kernel instance exactly once (C06_gpu_threads_cover; Model/Launch.v is compared with the real launcher\'s thread sequence '
             'and cdiv on generated grid/block shapes); lane independence of the bit-parallel kernels for any batch size; irrelevance of the order in which released memory is freed. '
             'TIMING level: a zero-delay buffer is the identity on strictly increasing waveforms that fit the capacity (C06_buf_zero_delay_identity; overflow case characterised; '
             'refuted for a non-monotone waveform: D26 at gate level), hence for every well-formed acyclic netlist with zero delay on fork inputs the stripped schedule (operands read through the stem alias '
             'with the delay row of the original operand line, Model/WaveStripModel.v) equals the unstripped one at every line whenever the stem waveforms are strictly increasing and fit '
             '(C06_wave_strip_forks_irrelevant; at MEMORY level C06_wavesim_options_irrelevant: any two c_reuse x strip_forks combinations give the compared timing model the same captures), in particular for polarity-free delays and non-shrinking capacities with no further hypothesis (C06_wave_strip_forks_polfree); the general statement is '
             'REFUTED by a machine-checked witness with a polarity-dependent delay (C06_wave_strip_nonmonotone_refuted = known finding D26). Delay-dataset selection per lane or globally (modes 0/1) equals '
             'simulating with the selected dataset alone for any op list (C06_dataset_selection[_lanes]). The alias semantics and the selection function are compared with the real waveform memory '
             'of WaveSim(strip_forks=True) / multi-dataset runs on generated cases. NOT theorems (decided by running the implementation against itself on every generated configuration): '
             'CPU vs GPU kernels (WaveSim vs WaveSimCuda incl. 33..65 lanes over two cycles with s_ppo_to_ppi), more lanes, lane permutations, c_prop(sims=j).',
        design_ref='5/C06',
        note='Modelled not verified: SimOps.__init__ (correspondence for every option setting). Dataset mode 2 (random picking) and sd>0 capture are outside the claim; the GPU kernels are compared with the CPU loops differentially, their bodies are not modelled separately.'),
    'C07': dict(
        technique='Coq proofs: the scheduler\'s op list is in single-assignment topological form for every well-formed acyclic netlist with and without fork stripping; greedy levelisation yields an independent partition; any order inside levels gives the same signals; launcher model tied to the real MockCuda; permuted-schedule execution',
        text='Proof (full at op granularity; launcher, stem table and level pass from source). C07_simops_stems_source_is_model / C07_simops_levels_source_is_model: the translated stem table, reference counts, level_starts and level_stops of SimOps.__init__ equal the model (Gen/SimOpsSrc.v). LAUNCHER SOURCE TIE (round 3): C07_launcher_source_is_model (translate/gen_launch.py regenerates Gen/LaunchSrc.v from MockCuda; proved equal to Model/Launch.v, every in-range instance exactly once). For EVERY well-formed, combinationally acyclic netlist, with AND without fork stripping, the op list SimOps builds is in '
             'single-assignment topological form over the stem aliases (C07_build_ops_ssa, C07_build_ops_ssa_strip; stems are characterised as the heads of fork chains and '
             'build_stems is total), hence the published level partition passes the schedule check (C07_build_levels_valid[_strip], and C07_build_sched_cert for every '
             'result of build() under any option and capacity setting): no op reads or overwrites an output of its own level (scratch slot excepted); for every such '
             'partition ANY permutation inside the levels gives the same value of every signal except scratch; the launcher runs every in-range (simulation, operation) '
             'instance exactly once, and Model/Launch.v is compared with the thread sequence of the real MockCuda launcher on generated grid/block shapes. Memory released in a '
             'level is not handed out within that level: the release loop runs after the level\'s allocations (transcription) and the memory map is proved safe for all '
             'option combinations (C08_build_passes_certificate_all). Tied to the code by SimOps correspondence, per-circuit certificates, and by executing '
             'LogicSim/WaveSim/WaveSimCuda with permuted op rows / thread orders.',
        design_ref='5/C07',
        note='Modelled not verified: SimOps.__init__ (correspondence). Interleavings below kernel-instance granularity are not modelled (the mock launcher cannot exhibit them).'),
    'C08': dict(
        technique='Coq proofs: allocator invariants over all alloc/free histories (refinement to a block list); SimOps.build passes a proved-sound ownership certificate for ALL netlists and all four c_reuse x strip_forks combinations (invariant over the alloc/release events: reference count = pins + reads to come); step-by-step correspondence; overlap oracle',
        text='Proof (full for the allocator as written and the modelled map). ALLOCATOR SOURCE TIE (round 3): translate/gen_heap.py regenerates Gen/HeapSrc.v from the current text of class Heap (state-passing let-chain, every partial Python operation as an option in evaluation order, the enumerate loop as a structural scan) and the translated alloc / free / __init__ are PROVED equal to the hand model on every state reachable by well-formed use -- no KeyError / IndexError can occur there (C08_heap_source_is_model; exact preconditions and their necessity: C08_heap_source_exact, _precondition_needed), so the allocator theorems speak about the code as written. MAP SOURCE TIE (full): C08_simops_alloc_source_is_model (the translated allocation section, sim.py:263-320, run through the translated Heap = the model\'s allocation events, for every well-formed acyclic netlist of known gates and all four option combinations), C08_simops_source_is_model (the whole translated constructor = build), C08_simops_source_total_certified (the code as written succeeds and its memory map passes the ownership certificate). ALLOCATOR: for ALL histories of well-formed use the Gallina transcription of sim.Heap keeps its '
             'regions tiling the managed range with free regions coalesced, never returns a region overlapping a live one, keeps live '
             'regions unchanged, reports the true high-water mark, and frees commute (so Python\'s set iteration order is irrelevant); compared with sim.Heap '
             'after EVERY step of random histories (full tables). MAP: the ownership certificate is proved sound (a map that passes it makes flat-memory '
             'execution equal line-level execution at every observed slot), and SimOps.build is PROVED to produce a map passing it for EVERY well-formed, '
             'combinationally acyclic netlist of known primitives, every capacity vector, c_caps_min > 0 and ALL FOUR combinations of c_reuse and strip_forks '
             '(C08_build_passes_certificate, _reuse, _all; with stripping: stripped forks have their input connected); build() is total under the same '
             'hypotheses; the side conditions are proved necessary / checkable (C08_certificate_needs_reads_defined, C08_option_hypotheses_checkable, evaluated on every '
             'generated circuit) and a concrete netlist on which three signals share one location is exhibited (C08_reuse_nonvacuous). The certificate is still '
             'evaluated per generated case and an independent liveness/overlap checker runs on the implementation\'s tables.',
        design_ref='5/C08',
        note='Modelled not verified: sim.Heap and SimOps.__init__ are hand transcriptions tied by exact correspondence (tables after every step; ops, levels, c_locs, c_caps, c_len for all option settings).'),
    'C13': dict(
        technique='Coq proofs: returned activity counts = edges of the stored waveform; overflow-mark rule and its closure over op lists; accumulated switching activity = weighted edge sums for any op list; capture summary at circuit level and on the flat memory; whole-memory and line-level correspondence; recount oracle with generator-owned a_ctrl',
        text='Proof (full at op-list level and at memory level for all option combinations). PER GATE for all inputs: (nrise, nfall) equal the rising/falling transitions of the '
             'waveform stored; the overflow mark is set iff this evaluation dropped transitions or an operand carries the mark; no mark => '
             'identical to the result with any larger capacity. CAPTURE: the six summary values (initial, final, earliest, latest, value before T, '
             'overflow flag) for every well-formed waveform. CIRCUIT LEVEL (any op list): the accumulator contents equal the initial contents plus the '
             'weighted edge sums of the waveforms stored by the ops assigned to each accumulator (C13_wacc_running), equal to the sums over the FINAL '
             'waveforms when no accumulating op is overwritten later (C13_wacc_final/_ssa, checker acc_once_b proved sound and evaluated per case); a '
             'signal carries the overflow mark iff a transition was dropped somewhere in its fan-in or an input was marked (C13_ovf_reach); capture of every '
             'signal of the op list has the six facts with initial/final = Boolean evaluation (C13_circuit_capture); on the flat memory a PPO slot '
             'captures the line-level waveform of the line it aliases (C13_flat_capture). Tied to the code by whole-memory correspondence, by the '
             'line-level correspondence (wexec / wacc vs the real memory / abuf) and by an oracle that recounts from the stored waveforms with the '
             'generator-owned a_ctrl table (row of the LINE an op writes), checks every op carries that row, CPU and GPU capture, rerun with capacity 64. SOURCE TIE: C13_kernel_source_is_model, C13_source_counts (returned pair = edges of the stored waveform, for the translated source), C13_capture_cpu_source_is_model / _gpu_ (both capture kernels, translated from source, equal the capture model; sd = 0 path). MEMORY LEVEL, ALL OPTIONS: C13_wavesim_model_capture (the compared model captures the six facts of the unstripped line-level waveform under every option combination) and C13_wavesim_model_activity (abuf = wacc; under acc_once the weighted transitions of the final waveforms). The capture oracle reads the observed waveform through the LINE and tests that the output slot is its exact alias (location and capacity).',
        design_ref='5/C13',
        note='As C03; capture with sd>0 is outside the claim; flat-memory statements need the region certificate (c_reuse off, no fork stripping).'),
    'C17': dict(
        technique='Coq proof of Kahn-traversal and fan-in theorems for all well-formed netlists over a Gallina transcription; exact-sequence correspondence; graph oracle',
        text='TRAVERSALS FROM SOURCE (round 3): translate/gen_traversals.py regenerates Gen/TraversalsSrc.v from topological_order, topological_order_with_level, topological_line_order, reversed_topological_order, fanin and s_nodes on every run (a generator = the list of its yields, numpy counters with the width the source declares, every raising operation option-valued); each is PROVED equal to its hand model for every well-formed netlist (C17_traversals_source_is_model; side conditions forced by the source: fewer than 2^32 connected input pins per node for the uint32 visit counter, fewer than 2^31 nodes for the int32 level array, origins inside the circuit; necessity witnesses), so the traversal theorems hold for the code as written (C17_source_complete, C17_source_reverse_is_mirror); the translated functions are also compared with the implementation on every generated circuit. Proof (traversals and fan-in full, name lookup partial). For ALL well-formed netlists (pins may be unconnected, cut at state elements) the '
             'transcription of topological_order yields every node at most once, sources first, every combinational driver before its '
             'reader, and -- if the combinational part is acyclic -- every node exactly once; levels are the longest combinational '
             'distance; line order covers every line once; reverse iteration is literally the forward traversal of the reversed graph '
             '(so all facts mirror). FAN-IN: fanin(origins) is the restriction of the reversed order to the yielded nodes, yields each node at most once, only nodes '
             'with a path to an origin (C17_fanin_sound), every node with a combinational path to an origin (C17_fanin_complete_comb), exactly the transitive fan-in in '
             'combinational circuits (C17_fanin_exact_comb), and is characterised exactly at state elements (C17_fanin_unfold/_comb_node/_seq_node: a flip-flop is yielded '
             'only through readers that are origins or earlier-indexed yielded state elements). The transcriptions are compared with the code as exact sequences on random '
             'graphs and origin sets, the hypotheses are discharged per circuit by proved-sound checkers. Prefix lookup: integer keys are listed in numeric order; '
             '_locs is otherwise decided by correspondence and a ground-truth oracle.',
        design_ref='5/C17',
        note='Modelled not verified: the five traversal generators (Model/Netlist.v). Not modelled: the regular expression of _locs.'),
    'C19': dict(
        technique='Coq proof by exhaustive evaluation of all cells regenerated from techlib.py against a datasheet-family specification; exhaustive correspondence with TechLib.cells',
        text='Proof (full). All five library strings are re-extracted from techlib.py on every run and parsed into Gen/TechLibs.v; Coq proves '
             'for every cell: each pin once, every name expands and no name is defined twice, every output defined; and for every purely '
             'combinational cell whose name belongs to a family (AND/OR/NAND/NOR/XOR/XNOR-n, BUF/INV variants, AO/OA/AOI/OAI with the '
             'library\'s pin grouping, MUX2/MUX4, half/full adders by pin name) all outputs equal the family function on all input rows, '
             'evaluated with the simulator\'s own prefix table and LUTs. TEXT LEVEL: TechLib.__init__\'s text processing (re.split at \';\\s+\', name pattern up to the first blank, bench parsing with the Coq lexer/parser of Model/BenchText.v, pin tables in io order, brace-product expansion) is transcribed in Model/TechLibText.v and PROVED by evaluation to yield exactly the translated cell lists on the five library strings, which the translator now emits verbatim (C19_text_matches_translation), so the translator\'s own re-implementation is no longer trusted; expand_names is proved to be the itertools product in order, with the exact condition under which names are distinct (and a witness that distinct alternatives alone do not suffice). Validated against TechLib.cells (names, pin tables, LogicSim truth tables) exhaustively and against TechLib(text) on generated library texts incl. malformed ones.',
        design_ref='5/C19',
        note='The family specification Model/TechlibSpec.v is trusted. Sequential, tristate, clock-gating, isolation, decoder, filler and tie cells get the pin theorems only.'),
    'C10': dict(
        technique='Coq proofs over the circuit-edit model: exhaustive resolve theorems for all cells of the five libraries; view of every reachable circuit is a well-formed netlist; copy/pickle preserve the pin-equivalent view, names and every solution; fork elimination preserves the function (id-based semantics, both directions) and the interface set; machine-checked witness for the state-order defect; view / s_names correspondence on edit histories; differential truth tables; all library cell definitions',
        text='Proof (copy, pickle, fork elimination, substitute on arbitrary implementations full; library clause full by exhaustive evaluation). '
             'SUBSTITUTE, ANY IMPLEMENTATION (round 3, Properties/C10.v section 6): C10_substitute_function_full -- for every successful substitute call on a consistent host and a consistent implementation of the documented shape (subst_shape_b, pure_ports_b: every port has one pin), ANY subset of connected instance pins, clean-up included, in every value domain where BUF1 copies: the result is consistent, io and port names / order are unchanged, every node is a host node or the renamed copy of an implementation node, and the solutions of the result are exactly the host valuations in which the instance is read as the implementation function of its pins (unconnected input reads zero) -- both directions, agreeing on every surviving host line; the only exclusion is d22_free_b (known finding D22, refuted companion C10_substitute_d22_refuted); remove_dangling_nodes and the clean-up loop preserve the function with no assumption (C10_remove_dangling_function, C10_cleanup_function); D21 / D29 / pure-ports necessity are machine-checked witnesses; the split model (substitute = substitute_pre ; cleanup), all hypothesis checkers and the structural description are evaluated on every generated substitute case against the real Circuit. COMPOSITION resolve ; eliminate (section 8): since fix 05399b6 (D38) eliminate_1to1_forks keeps a fork without driver -- the stub fork that resolving an instance with an unconnected input leaves behind -- instead of raising; the precondition of every elimination theorem got weaker accordingly (a one-reader fork may have no driver), C10_eliminate_driverless_fork_kept is the witness (old behaviour: None), and the C09 / C10 streams eliminate after every resolve with open input pins. RESOLVE LOOP (Properties/C10.v section 7): C10_resolve_function -- for every consistent host, every library table whose implementations satisfy the per-call hypotheses (lib_ok_sem_b, lib_total_b: PROVED for the complete tables of the five regenerated libraries, C10_lib_tables_ok) and no D22 instance, the WHOLE loop of resolve_tlib_cells (snapshot of the node list, instances deleted by an earlier clean-up are skipped) ends consistent, with io unchanged and no library kind left, and the solutions of the result are exactly the host valuations in which EVERY library instance is read through its implementation (both directions, equal observations at every kept node, ports included: C10_resolve_ports_kept); compared per case with the real resolve_tlib_cells incl. the number of substitute calls, on one-instance and multi-instance hosts (creation order unrelated to signal flow, unconnected pins, clean-ups deleting instances before their turn) with a hierarchical oracle. '
             'BRIDGE: for every circuit reachable by an edit history the netlist view (what the simulators read) is a well-formed netlist (C10_view_wf, C10_history_view_wf), so the C01/C07/C17 theorems apply to it. '
             'COPY / PICKLE: the result has the same node count and kinds, the same line table and io list, the same connected pins at every position (exact equality can fail only by a trailing None: C10_copy_view_not_equal), '
             'the same names position by position and the same s_nodes names; hence for ANY value domain the gate-by-gate solutions coincide (C10_copy_solution, C10_pickle_solution). '
             'FORK ELIMINATION: with an id-based semantics proved equivalent to the netlist semantics of the view (C10_csol_iff_solution / C10_solution_iff_csol), eliminate_1to1_forks keeps io list, names, kinds and the set of interface '
             'nodes, removes only non-interface forks, every solution of the original is a solution of the result and every solution of the result extends to the original, agreeing at every input pin of every surviving node '
             '(C10_eliminate_function, C10_eliminate_solution_view): the observed function is unchanged. STATE ORDER: s_nodes names are a permutation with the port prefix unchanged (C10_eliminate_s_names[_perm]); that the ORDER can '
             'change is a machine-checked witness (C10_eliminate_state_order_refuted = known finding D29) and a sufficient condition for keeping it is proved (C10_eliminate_order_kept, checker sound). LIBRARY CLAUSE (Properties/C10Lib.v, cell lists regenerated from techlib.py on every run): for EVERY cell definition of the five libraries the model of TechLib.__init__ builds the implementation circuit, a one-instance host is resolved with the model of resolve_tlib_cells, and Coq proves by evaluation, lifted to a statement over ALL input and state rows (C10_lib_function_meaning), that the result is consistent, keeps io list and s_nodes names, contains no library kind and computes at every connected output and next-state exactly what the implementation / the datasheet function of C19 computes -- with all pins connected (every name), with each single pin left unconnected (first name of each definition) and with no output connected (every name); the exceptions are exactly the known findings D15, D21, D22, and for every excepted instance the failure itself is a theorem (*_refuted). The models of the implementation circuits and of the resolved hosts are compared structurally with the real TechLib / resolve_tlib_cells for every definition on every run. Tied to the code by comparing, after every '
             'step of random / generated / witness histories, the model\'s view with the netlist rendered from the real Circuit and s_names with [n.name for n in c.s_nodes]; plus the differential streams: random circuits x '
             'copy/pickle/eliminate sequences (arbitrary node/line orders), random implementation shapes x connected-pin subsets x host state elements / host gates / permuted hosts, every cell definition of the five libraries x '
             'all pins / random pin subsets x all (or 32 random) input-state combinations; known findings D15, D21, D22, D29.',
        design_ref='5/C10',
        note='Modelled not verified: Model/Circuit.v (C09 correspondence). The semantic theorem for substitute on arbitrary implementations is not proved (differential); known findings are genuine deviations from the property as stated and are listed with their keys in known_findings.json.'),
    'C20': dict(
        technique='Coq proofs about Gallina transcriptions of the DEF lexer/parser, of every DefTransformer callback and of the routing elaboration of def_file.py (wildcards, via arrays, per-layer / per-type '
                  'listings, ROW arithmetic) with exact correspondence; DEF texts rendered from a generator-owned ground truth as oracle',
        text='Proof (full from TEXT). TEXT LEVEL: Model/DefText.v transcribes lark\'s contextual lexer and the LALR parser for def_file.GRAMMAR (accept set per parser position taken from lark\'s table and compared on every run); proved: a text is read as the word list it writes regardless of ignored text (C20_text_as_words, C20_lexer_ignores), every writing of a well-formed tree parses to it (C20_parse_words, C20_parse_print). CALLBACKS: Model/DefElab.v transcribes every DefTransformer callback; proved for every tree: each COMPONENTS / PINS / VIAS / NETS / SPECIALNETS statement is elaborated exactly once into the dict in statement order (last wins on repeated names), rows / tracks / units keep statement order, header and DIEAREA take the last statement, points, nets (pins in written order, attributes) and wires reach the routing model exactly as written (C20_*_exactly_once, C20_net_as_written, C20_rwire_as_written, C20_def_of_tree_listing), restated from text (C20_text_components ...). ROUTING: proved for ALL routing statements and wire lists of the transcription Model/DefRoute.v: wire_points '
             'equals the structural wildcard resolution and each resolved coordinate is the nearest explicitly written value at or before it in its '
             'column (iff); a via sits at the last resolved wire point before it; DO n BY m STEP dx dy yields exactly the n*m positions '
             '(x+i*dx, y+j*dy) (membership iff, count, exact order; NoDup whenever every direction with more than one copy has a non-zero step); '
             'DefNet.wires / .vias list, per layer / via name in order of first use, exactly the segments / placements of all ROUTED wires in file '
             'order (special and regular nets alike; several ROUTED statements accumulate); ROW DO-BY-STEP gives (count, step) for horizontal and '
             'vertical rows with non-negative step. Tied to the code by: per-callback correspondence (a recording subclass of DefTransformer: arguments received and value returned vs the Coq callback), per-file correspondence (elab of the tree lark builds = DefFile), text correspondence (parse_def = lark\'s tree or rejection on rendered / mutated / truncated / probe texts), lark\'s scanner tables for the 49 accept sets, the listings of every generated net, and the ground truth of generated DEF texts. SOURCE TIE (routing): translate/gen_def_route.py is a fail-closed ast translator of DefWire.wire_points, DefWire.vias, DefNet.wires and DefNet.vias (def_file.py:14-58) onto Python values (None/int/str/tuple/list, every raising operation option-valued in evaluation order, truthiness only as `e or CONSTANT` with Python\'s rule, `p[0] or loc[0]` rejected), regenerated as Gen/DefRouteSrc.v on every run; C20_route_source_is_model proves the translated four properties equal Model/DefRoute.v on every routing statement of the domain (first point fully specified, width None / int / token text) and never raise there, C20_dnet_source_is_model composes with the callback model; the translated source is also run against 2806 real DefNet / DefWire objects (raises iff the implementation raises).',
        design_ref='5/C20',
        note='Modelled not verified (correspondence): the lexer / parser / callback transcriptions; which accept set belongs to which parser position is transcribed from lark\'s LALR table, lark\'s table construction itself is not modelled; code points >= 256 are outside the model. Modelled not verified: '
             'accumulation of wiring statements, ROW branch (hand transcription of the REPAIRED code; DefWire.wire_points/.vias and DefNet.wires/.vias are ALSO translated from the source and proved equal, trusting translate/gen_def_route.py and the pyv vocabulary Model/DefRouteSrcLib.v; '
             'finding D7). Domain: first point of a routing statement fully specified; coordinates are unsigned in text (grammar), any integer in the '
             'direct-object stream; ROW theorems require step >= 0 and one count = 1 (C20_row_negative_step_refuted). Not covered: pins with several '
             'PORT/LAYER groups, a comment directly after "via ORIENT " with a single blank, via names that look like an orientation.'),
    'C15': dict(
        technique='Coq proofs (induction over any number of signals/patterns/leading axes; Z.testbit for the dtypes) over a Gallina transcription '
                  'of the encoding functions + value tables regenerated by evaluating the code; exact correspondence; generator-owned oracle',
        text='Proof (full for the modelled functions). Proved for ALL inputs of Model/Encodings.v: bp_to_mv(mv_to_bp(m)) = m with the pattern axis '
             'padded to a multiple of 8 by ZERO for any matrix of codes, any pattern count and any number of leading axes (induction), 1-D arrays '
             'as one pattern per signal, the converse mv_to_bp(bp_to_mv(b)) = b, and the lane/plane layout (plane k = bit k, pattern j = bit j mod 8 '
             'of byte j/8, padding lanes 0); mvarray puts p >= 2 pattern strings on the last axis and signals on axis -2 with entry [i][j] = '
             'interpret(pattern_j[i]), one pattern gives a 1-D array, one-character strings are scalars; the eight values render to 0X-1PRFN and '
             'parse back, every documented alias parses to its value, every other code point (unbounded) is UNKNOWN, string -> array -> string and '
             'array -> string -> array round trips; ANY RANK (Model/NdArray.v): bp_to_mv(mv_to_bp(x)) = x padded, for any list of leading axes incl. length-0 axes and rank 1, element-wise statement, '
             'axis convention at any rank, swapaxes as multi-index exchange, failure below the minimum rank (C15_roundtrip_any_rank, _rank1, _get, C15_axis_convention_any_rank, C15_swapaxes_index, C15_conv_low_rank); unpackbits = two\'s complement bits (Z.testbit), packbits(unpackbits x) = x for every value of '
             'int8..int64/uint8..uint64, unpackbits(packbits l) = l for bit lists of the dtype\'s width, sign-/zero-extension and truncation of '
             'other widths; _pop_count_lut[b] = number of one bits for all 256 bytes and popcount = sum. The character/scalar table, the rendering '
             'table, the documented aliases (docstrings) and _pop_count_lut are regenerated from the working tree on every run and the theorems '
             'are re-proved about them.',
        design_ref='5/C15',
        note='Modelled not verified: the transcription of interpret/mvarray/mv_str/mv_to_bp/bp_to_mv/unpackbits/packbits/popcount and the small '
             'models of the numpy primitives they call (packbits/unpackbits with bitorder=little and axis, pad edge/constant, view on a '
             'little-endian host, swapaxes, choose, np.array of nested lists) are tied to the code by exact comparison on generated inputs '
             '(1-D..5-D, pattern counts not multiples of 8, empty axes, C/Fortran/strided layouts, all integer dtypes with boundary values, '
             'alias/junk/unicode strings, nested lists, booleans, None). Observed and outside the stated domain: mv_str raises TypeError for '
             'arrays with more than two axes; unpackbits raises for 0-d and for non-contiguous arrays of multi-byte dtypes (ndarray.view); '
             'p >= 2 one-character pattern strings form one vector (documented character rule).'),
    'C11': dict(
        technique='Coq proofs over a hand transcription of the elaboration helpers of verilog.py and of the bench elaborator (exact correspondence on generated '
                  'tokens / modules / bench files) + differential oracle with generator-owned netlists rendered as Verilog and bench text',
        text='Proof (both formats full from TEXT). VERILOG TEXT (round 3, Model/VerilogText.v): lexer and LALR parser of verilog.GRAMMAR as lark 0.12 runs it (contextual lexer, scanner order, keyword literals as plain prefixes, the three comment forms, attributes, escaped identifiers with their terminator, sized constants), with the EXACT accepted language (C11_vtext_language: parse_verilog s = Some t iff s is a rendering of the tokens of t and t has the grammar shape; C11_vtext_lex_iff), every rendering of a well-formed tree with arbitrary ignored text parses to it (C11_vtext_any_rendering, _parse_print, _ignored_irrelevant), open comments are rejected, and the module theorems restated FROM TEXT (C11_text_module_consistent / _ports / _pin_in / _pin_out / _assign / _outputs; pins_nodup discharged from text: C11_vtext_pin_dict); lark\'s LALR accept sets, scanner order and pattern sources are pinned against the model on every run; parse_verilog is compared with lark\'s raw tree on generated / mutated / malformed / probe texts and the whole pipeline circuits_of_text with verilog.parse (every node, line, io entry). VERILOG MODULE: Model/VerilogModule.v transcribes passes 0, 1, 1.5 (assign retry loop) and 2 (constants, undriven signals, one-bit buses, branch forks) and the output loop of VerilogTransformer.module on top of the circuit-edit model; proved for EVERY accepted module: the result is a consistent circuit (C11_module_consistent, io live under checkable port conditions), ports appear in port-list order with bus bits in declared range order (C11_module_ports), every named pin connection reaches exactly the cell pin the library pin table names and every line at an instance cell comes from such a pin (C11_module_pin_in/_out/_pins_only), every assign bit pair is wired in either statement order or left unresolved exactly when neither side is driven (C11_module_assign), output ports read the fork of their name or of their bit 0 (C11_module_outputs), and branchforks=True equals branchforks=False up to splitting each reader line by one fork (C11_module_branchforks[_sets]) under a name side condition whose necessity is a machine-checked witness (known finding D33); witnesses for the repaired output-loop defect (D32). Compared with the real parser by intercepting what `module` receives on generated, probe and wild modules for all five libraries and both settings (nodes, lines, pins, io incl. holes, raises). BENCH TEXT: Model/BenchText.v is a lexer + parser for exactly the language lark accepts for bench.py\'s grammar (contextual keywords, comments, CR/LF corner cases determined by running lark); proved: parse(print l) = l for well-formed statements, insensitivity to ignored text, a declarative characterisation of the accepted texts (C11_bench_language), keyword assignments rejected; the wiring theorems now start from text (C11_bench_text_wiring). Compared with the real lark parser / bench.parse on generated, malformed and token-soup texts. Proved for ALL inputs over '
             'Model/VerilogElab.v: [l:r] expands to |l-r|+1 bit names in declared direction (also for part selects), bit names are injective; w\'bN / w\'dN / '
             'w\'hN give exactly w one-bit constants, MSB first, of value N mod 2^w; concat = flat_map; the port position table numbers the port bits 0..n-1 in '
             'port-list order with bus bits in declared range order, no position twice, and io_nodes is exactly that list with the declared directions (no '
             'holes) when names are unambiguous; for bench: every assignment z = KIND(a_0..a_n) of an accepted description yields THE cell named z of that '
             'kind whose k-th input pin is driven by the fork a_k and whose output drives fork z. The models are compared with the real methods / parsers on '
             'every run (results incl. exceptions; bench: every node, line, pin, io). Everything else (text -> tree, named pins, assigns, constants, branch '
             'forks, library resolution, both formats) is decided by an oracle: a generator owns flat netlists over all five libraries, renders them with '
             'surface variation, and compares io order, exhaustive truth tables (LogicSim m=2, flip-flops through state positions), the structure added by '
             'branchforks=True and the bench rendering against its own evaluation.',
        design_ref='5/C11',
        note='Modelled not verified (correspondence): VerilogTransformer.range/sigsel/concat/declaration/instantiation/module, BenchTransformer + Node/Line constructors. Not modelled: the Verilog lark grammar (oracle: generator-owned netlists rendered with surface variation incl. star-run comments, truth tables through LogicSim); the link elaborated circuit -> simulated function for Verilog goes through the oracle and C10 (resolve) + C01. Cell functions of the oracle are the datasheet families of C19. Out of the generated '
             'subset: positional pins, concatenations / wide constants on pins, ANSI headers (all rejected with an exception), floating cell inputs, assign '
             'width mismatches, escaped scalars that collide with a bus bit name.'),
    'C14': dict(
        technique='Coq proofs: SDF text -> tree (lexer/parser transcription with round trip and none-lost-from-text theorems) and slot-by-slot theorems over a Gallina transcription of the SDF transformer callbacks and of DelayFile.iopaths/interconnects; '
                  'exact correspondence on generated (tree, circuit) cases incl. exceptions; generator-owned ground-truth oracle on Verilog x SDF renderings',
        text='Proof (full from TEXT). TEXT LEVEL: Model/SdfText.v transcribes what lark 0.12 does with sdf.GRAMMAR (contextual lexer, scanner order, ignore rules, keywords as prefixes, LALR parser); next to names the conditions of the concrete syntax are exactly what the lexer of d9c2c16 skips (C14_text_idsep_exact, _comment_lexed_as_name, _slash_name_lost, _name_end_exact, _instance0_exact; the first version of the theorem is the special case _parse_cfile_v1; for whole files cfile_ok is sufficient, not necessary: _cfile_ok_not_necessary); proved: parse/print round trip for every well-formed tree, insensitivity to ignored text, header / CELLTYPE / TIMINGCHECK entries are skipped without effect, and every delay entry written in any DELAY of any CELL ends up in the DelayFile under its instance (C14_text_parse_cfile, _parse_print, _ignored_text_irrelevant, _skipped_items_irrelevant, _entry_kept[_any], _delayfile_of_blocks); compared with lark on generated, mutated, malformed and corner-case texts on every run; a lexer probe checks that lark builds the scanners the model transcribes; the whitespace-in-names defect (D34) was found here. From the tree that the lark grammar hands to the transformer on, everything is '
             'modelled: triple/sanitize/cell/start, DelayFile.__init__, iopaths, interconnects (string processing of escaped names, edge qualifiers and '
             'pin references included). Proved for ALL block sequences: grouping keeps every entry of every CELL block per instance in file order '
             '(repeated instances, several instance-less blocks, several DELAY sections); for ALL circuits/files: the returned array is the zero array '
             'overwritten in application order -- each [line, in-pol, out-pol] slot holds the rising/falling triple of the LAST entry addressing it '
             '(line = position of the named pin in the cell; "(posedge P)"/"(negedge P)" -> that input polarity only; one triple -> both output '
             'polarities; "()" and empty components -> 0; dataset axis first), every other slot is 0; interconnects likewise on the input line of the '
             'single-output fork between the two pins, broadcast over axis 2. The statement about grouping is FALSE for the pinned code (dict(...) keeps '
             'only the last block of an instance, D6; witness theorem C14_cells_lost_refuted); it holds for the code with the proposed 3-line fix. SOURCE TIE (callbacks): translate/gen_sdf_callbacks.py translates SdfTransformer.triple / sanitize / interconnect / iopath from the current source (fail closed; namedtuple field count read from the source) as Gen/SdfCallbacksSrc.v on every run; C14_callbacks_source_is_model proves them equal to triple_cb / entry_cb of Model/Sdf.v for every argument list (one triple duplicated; 0 or >= 3 triples raise), and the translated code is run against the real callbacks on lark Tokens.',
        design_ref='5/C14',
        note='Modelled not verified: the behaviour of lark on this one grammar is transcribed and compared, not derived; float() is modelled for decimals denoting k/8 with at most 15 digits; numpy broadcasting, verilog.parse. Supported subset: '
             'non-negative delays (the skip test max(max(delvals))==0 drops e.g. "(0:0:0) (-1:0:0)"; for non-negative delays it drops exactly the all-zero '
             'entries, proved), one spelling per instance name in a file, INTERCONNECT to an output port only on fan-out-free nets (no branch fork is '
             'created for ports), an instance-less block exists when interconnects() is called (else TypeError), IOPATHs of unconnected pins above the '
             'highest connected pin raise IndexError. One slot per (line, in-pol, out-pol): IOPATHs of one input to several outputs collide by design.'),
    'C18': dict(
        technique='Coq proofs by induction over chains / port lists about a hand transcription of StilFile.__init__/_maps/tests/responses/'
                  'tests_loc; exact correspondence incl. error cases; differential tests through a STIL generator that owns the ground truth',
        text='Proof (full from TEXT). TEXT LEVEL: Model/StilText.v transcribes the STIL grammar with lark\'s contextual lexing and the StilTransformer callbacks; the accepted language is characterised exactly (C18_text_language: a text parses to a tree iff it is a rendering of a well-formed concrete syntax tree, converse included), ignored blocks are skipped exactly on balanced braces incl. brace-swallowing comments (C18_text_ignored_block_iff), layout and ignored blocks / statements are irrelevant (C18_text_layout_irrelevant, _transform_core), parse(print f) = f (C18_text_parse_print), chains / groups / calls are the last definitions as written, and the scan load/unload and pi/po position theorems are restated starting from text (C18_text_scan_load_position ...); compared with the real stil.parse on generated, mutated, malformed and 205 corner-case texts on every run. For ALL circuits, chains, marker placements, signal-group orders and '
             'strings satisfying wf_scan (distinct interface names, every scan port in one chain, every cell at one place): the cell '
             'pre ++ cell :: post of a chain receives character number ncell(post) of the load string, inverted iff an odd number of "!" '
             'markers lies between scan-in and the cell (unknown/unassigned untouched); responses() likewise with the markers between the '
             'cell and scan-out; _pi/_po characters go to the interface position of the group member; the interface list is '
             'Circuit.s_nodes (Model/Netlist.s_nodes); tests_loc yields mv_transition(loaded value, simulated next state or -- without '
             'launch clock -- the loaded value) per flip-flop and mv_transition(launch character, capture character) per input, and '
             'mv_transition equals the documented table on all 64 operand pairs. The pinned-tree code is transcribed as well '
             '(maps_gen false) and refuted by a witness chain. The lark grammar is not modelled: generated STIL text (TetraMAX dialect) '
             'is parsed and groups/chains/calls, tests, responses, tests_loc are compared with the generator\'s intent; the shipped b15 '
             'files are compared with an independent regex reading.',
        design_ref='5/C18',
        note='Modelled not verified: StilFile.__init__, _maps, tests, responses, tests_loc (Model/Stil.v; numpy broadcasting of 1-D operands '
             'modelled by bshape/bget/assign). Not modelled: the STIL grammar/StilTransformer. The logic simulation inside tests_loc is an '
             'input of the model (C01/C02 cover LogicSim); the oracle evaluates the next state itself (Kleene). Domain: chain lists have '
             'both port entries; kinds are ASCII; a one-row interface (numpy would broadcast it) is excluded.'),
    'C09': dict(
        technique='Coq proof of a graph-consistency invariant for a Gallina transcription of circuit.py over all edit histories; '
                  'state-by-state correspondence on random histories; independent invariant oracle with shrinking',
        text='PRIMITIVES FROM SOURCE (round 3): translate/gen_circuit_prims.py regenerates Gen/CircuitPrimsSrc.v from GrowingList.__setitem__ / free_index, IndexList.__delitem__, Node.__init__ / remove, Line.__init__ / remove on every run; each is PROVED equal to the primitive of the edit model for ALL states, raising cases included (C09_prims_source_is_model), equality of states up to pointwise equal object stores is respected by the invariant and by every primitive step (C09_ceq_respected), and every well-formed primitive history executed by the translated source does not raise and ends in a consistent graph (C09_prims_source_history); the generated histories are also run with the primitive steps executed by the translated source and compared with the real Circuit after every step. Proof (full for all twelve public edit operations). Model/Circuit.v transcribes GrowingList, IndexList, Node, Line and the Circuit '
             'mutators with creation-order ids for object identity. Proved for ALL circuits / ALL histories of well-formed use '
             '(fresh names, explicit pins only on free positions and on forks only the next one, nodes removed after their lines, ports not '
             'removed): Node(), Line() (implicit/explicit pins), Line.remove (swap-with-last, fork squeeze and renumbering), Node.remove, '
             'io_nodes[]=, get_or_add_fork, remove_dangling_nodes, eliminate_1to1_forks, copy and the pickle round trip do not raise and '
             'preserve: indices = list positions, name lookups exact, every line referenced from exactly the two pins it records, no pin '
             'refers to a removed line, fork outputs gap-free, every io_nodes entry a listed node; copy = pickle round trip and both keep '
             'the canonical form; Circuit.stats equals the counts over the containers; the executable checker cinv_b is sound. '
             'substitute and resolve_tlib_cells are proved as well (C09_substitute, C09_resolve: a weak invariant that exempts the temporarily detached line ends is carried '
             'through the five phases of substitute; the resolve loop skips instances removed by an earlier clean-up, as the code does since fix 11c77ac), so ALL TWELVE public '
             'operations are inside `supported` and C09_history_inv_all covers every history. The extra preconditions on implementation circuits (no port twice, ports are forks, '
             'designated cell not a port, no fork driving a pure output port) are evaluated on the inputs, and each is shown NECESSARY by a machine-checked witness reproduced on '
             'the real code; witnesses also record the two pre-fix defects (clean-up inside the output loop, substitution of removed instances).',
        design_ref='5/C09',
        note='Modelled not verified: Model/Circuit.v is a hand transcription tied to circuit.py by comparing the complete canonical state '
             '(node/line tables with pins, dicts, io list, stats, raising behaviour) after EVERY step of random histories; object identity '
             'is observed by wrapping Node/Line.__init__ in the harness. Out of the proved domain: implementation circuits violating the shape preconditions (API misuse, witnesses given), negative pin numbers, nodes of another circuit, non-ASCII kind names in stats.'),
}

NOT_YET = 'check not built yet in this session (see DESIGN.md section 8 build order); no claim is made'


def main():
    props = [json.loads(l) for l in open(os.path.join(VERIF, 'properties.jsonl'))]
    checks, na = [], []
    for p in props:
        pid = p['id']
        c = CLAIMS.get(pid)
        if c is None:
            na.append({'property_id': pid, 'reason': NOT_YET})
            continue
        checks.append({
            'property_id': pid,
            'quick_cmd': f'./check {pid} --tier quick',
            'thorough_cmd': f'./check {pid} --tier thorough',
            'evidence_file': f'/verif/evidence/{pid}.json',
            'replay_cmd_template': f'./check {pid} --replay {{path}}',
            'engine': 'coq+correspondence',
            'level_claimed': {'category': 'proof', 'text': c['text'], 'design_ref': c['design_ref']},
            'level_note': BASE_NOTE + c['note'],
            'technique': c['technique'],
        })
    m = {
        'version': 1,
        'setup_cmd': './check setup',
        'hooks': {'guard': 'KYUPY_VERIF', 'enable': 'no hook is needed: every check drives the pure-Python code of /repo/src from outside '
                  '(PYTHONPATH=/repo/src); the guard variable is reserved', 'baseline_off_cmd':
                  'cd /repo && /venv/bin/python -m pytest -ra -q -p no:cacheprovider --timeout=900 --continue-on-collection-errors',
                  'source_commits': [], 'add_only': True},
        'engines': [
            {'name': 'coq', 'path': '/verif/coq', 'serves_properties': sorted(CLAIMS),
             'kind_free_text': 'Coq 8.16.1 development: Model/ (executable models), Gen/ (regenerated from /repo on every run), Proofs/, Properties/ (statements only)'},
            {'name': 'translators', 'path': '/verif/translate', 'serves_properties': sorted(CLAIMS),
             'kind_free_text': 'Python tracing symbolic executor and ast extractors that regenerate Gen/*.v from the working tree'},
            {'name': 'harness', 'path': '/verif/vcheck', 'serves_properties': sorted(CLAIMS),
             'kind_free_text': 'check CLI: translation, make, Print Assumptions, correspondence (model evaluated by vm_compute vs implementation), oracle search, known findings, evidence'},
        ],
        'checks': checks,
        'not_applicable': na,
        'notes': 'See DESIGN.md. All checks claim level "proof"; where a main theorem is partial the level text says so.',
    }
    with open(os.path.join(VERIF, 'MANIFEST.json'), 'w') as f:
        json.dump(m, f, indent=1)
    print(f'{len(checks)} checks, {len(na)} not claimed')


if __name__ == '__main__':
    main()
