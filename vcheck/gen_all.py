"""Regenerates every translated Coq file under coq/theories/Gen from /repo's current sources."""
import traceback
from vcheck import core

GENERATORS = []   # (name, callable -> text)


def register(name):
    def deco(f):
        GENERATORS.append((name, f))
        return f
    return deco


@register('LogicOps')
def _logic_ops():
    from translate import gen_logic_ops
    from kyupy import logic
    return gen_logic_ops.generate(logic)[0]


def generate(names=None, verbose=False):
    """Returns {name: None | error string}. A generator that fails leaves a file that does not
    compile (fail-closed) so that stale output can never satisfy a proof."""
    res = {}
    for name, f in GENERATORS:
        if names is not None and name not in names:
            continue
        try:
            txt = f()
            res[name] = None
        except Exception:
            res[name] = traceback.format_exc()
            txt = f'(* generation failed *)\nDefinition generation_failed : False := I.\n(* {res[name][-1500:].replace("*)", "* )")} *)\n'
        changed = core.write_if_changed(f'{core.GEN}/{name}.v', txt)
        if verbose:
            print(f'gen {name}: {"FAILED" if res[name] else "ok"}{" (changed)" if changed else ""}')
    return res


def generate_all(verbose=False):
    return generate(None, verbose)


@register('SimTables')
def _sim_tables():
    from translate import gen_sim_tables
    from kyupy import sim
    return gen_sim_tables.generate(sim)


@register('LogicSimDispatch')
def _dispatch():
    from translate import gen_dispatch
    from kyupy import sim, logic_sim
    return gen_dispatch.generate(sim, logic_sim)[0]


@register('TechLibs')
def _techlibs():
    import os
    from translate import gen_techlibs
    from vcheck import core
    return gen_techlibs.generate(os.path.join(core.REPO, 'src', 'kyupy', 'techlib.py'))[0]


@register('TechLibTexts')
def _techlib_texts():
    import os
    from translate import gen_techlibs
    from vcheck import core
    return gen_techlibs.generate_texts(os.path.join(core.REPO, 'src', 'kyupy', 'techlib.py'))[0]


@register('LogicTables')
def _logic_tables():
    import os
    import kyupy
    from translate import gen_logic_tables
    from kyupy import logic
    from vcheck import core
    return gen_logic_tables.generate(logic, kyupy, os.path.join(core.REPO, 'src', 'kyupy', 'logic.py'))[0]


@register('HeapSrc')
def _heap_src():
    import os
    from translate import gen_heap
    from vcheck import core
    return gen_heap.generate(os.path.join(core.REPO, 'src', 'kyupy', 'sim.py'))[0]


@register('LaunchSrc')
def _launch_src():
    import os
    from translate import gen_launch
    from vcheck import core
    return gen_launch.generate(os.path.join(core.REPO, 'src', 'kyupy', '__init__.py'))[0]


@register('WaveEvalSrc')
def _wave_eval_src():
    import os
    from translate import gen_wave_eval
    from vcheck import core
    return gen_wave_eval.generate(os.path.join(core.REPO, 'src', 'kyupy', 'wave_sim.py'))


@register('WaveDriversSrc')
def _wave_drivers_src():
    import os
    from translate import gen_wave_drivers
    from vcheck import core
    return gen_wave_drivers.generate(os.path.join(core.REPO, 'src', 'kyupy', 'wave_sim.py'))


@register('SimOpsSrc')
def _simops_src():
    import os
    from translate import gen_simops
    from vcheck import core
    return gen_simops.generate(os.path.join(core.REPO, 'src', 'kyupy', 'sim.py'))[0]


@register('CircuitPrimsSrc')
def _circuit_prims_src():
    import os
    from translate import gen_circuit_prims
    from vcheck import core
    return gen_circuit_prims.generate(os.path.join(core.REPO, 'src', 'kyupy', 'circuit.py'))[0]


@register('CircuitElimSrc')
def _circuit_elim_src():
    import os
    from translate import gen_circuit_elim
    from vcheck import core
    return gen_circuit_elim.generate(os.path.join(core.REPO, 'src', 'kyupy', 'circuit.py'))[0]


@register('CircuitPickleSrc')
def _circuit_pickle_src():
    import os
    from translate import gen_circuit_pickle
    from vcheck import core
    return gen_circuit_pickle.generate(os.path.join(core.REPO, 'src', 'kyupy', 'circuit.py'))[0]


@register('TraversalsSrc')
def _traversals_src():
    import os
    from translate import gen_traversals
    from vcheck import core
    return gen_traversals.generate(os.path.join(core.REPO, 'src', 'kyupy', 'circuit.py'))[0]


@register('DefRouteSrc')
def _def_route_src():
    import os
    from translate import gen_def_route
    from vcheck import core
    return gen_def_route.generate(os.path.join(core.REPO, 'src', 'kyupy', 'def_file.py'))[0]


@register('DefCallbacksSrc')
def _def_callbacks_src():
    import os
    from translate import gen_def_callbacks
    from vcheck import core
    return gen_def_callbacks.generate(os.path.join(core.REPO, 'src', 'kyupy', 'def_file.py'))


@register('StilMapsSrc')
def _stil_maps_src():
    import os
    from translate import gen_stil_maps
    from vcheck import core
    return gen_stil_maps.generate(os.path.join(core.REPO, 'src', 'kyupy', 'stil.py'))[0]


@register('SdfCallbacksSrc')
def _sdf_callbacks_src():
    import os
    from translate import gen_sdf_callbacks
    from vcheck import core
    return gen_sdf_callbacks.generate(os.path.join(core.REPO, 'src', 'kyupy', 'sdf.py'))


@register('LogicSimDriversSrc')
def _logicsim_drivers_src():
    import os
    from translate import gen_logicsim_drivers
    from vcheck import core
    return gen_logicsim_drivers.generate(os.path.join(core.REPO, 'src', 'kyupy', 'logic_sim.py'))
