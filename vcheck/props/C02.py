"""C02 -- 4-/8-valued simulation follows the documented algebra and is X-sound."""
import itertools
import numpy as np

from harness import circgen as cg, logicsim_corr as lc, oracle_net as on, simcheck as sk

THEOREMS = ['C02_dispatch8_spec', 'C02_dispatch4_spec', 'C02_lanes', 'C02_x_sound', 'C02_proj8', 'C02_bool_is_2valued', 'C02_gate_by_gate', 'C02_end_to_end_default',
            'C02_logicsim_model_correct']


def check_lane_semantics(c, m, stim, s1, mask):
    """algebra composition, X-soundness (brute force over completions) and init/final projection."""
    diffs = sk.oracle_compare(c, m, stim, s1, mask)
    if diffs:
        lane, p, exp, got = diffs[0]
        return f'lane {lane} position {p}: composition of the documented operators gives {exp}, simulator captured {got}'
    for lane in range(min(stim.shape[1], 3)):
        sv = stim[:, lane]
        unk = [p for p in range(len(sv)) if sv[p] in (1, 2)]
        plain = [p for p in range(len(sv)) if mask[p] and s1[p, lane] in (0, 3)]
        if plain and len(unk) <= 8:
            base = [(1 if v in (3, 5, 7) else 0) for v in sv]   # non-unknown operands: use final value for 0/1, irrelevant otherwise
            if all(v in (0, 1, 2, 3) for v in sv):
                for bits in itertools.product((0, 1), repeat=len(unk)):
                    st = list(base)
                    for p, bv in zip(unk, bits):
                        st[p] = bv
                    _, cap = on.evaluate(c, st, on.Alg2)
                    for p in plain:
                        if cap[p] is not None and cap[p] != (1 if s1[p, lane] == 3 else 0):
                            return (f'lane {lane} position {p}: simulator says {int(s1[p, lane])} but completion {dict(zip(unk, bits))} '
                                    f'of the unknown inputs gives {cap[p]}')
        if m == 8 and all(v not in (1, 2) for v in sv):
            for name, bit in (('final', 0), ('initial', 1)):
                st = [(int(v) >> bit) & 1 for v in sv]
                _, cap = on.evaluate(c, st, on.Alg2)
                for p in range(len(sv)):
                    if mask[p] and cap[p] is not None and cap[p] != ((int(s1[p, lane]) >> bit) & 1):
                        return f'lane {lane} position {p}: {name} component {(int(s1[p, lane]) >> bit) & 1} != 2-valued simulation {cap[p]}'
    return None

THEOREMS += ['C02_logicsim_chain_agrees_trace', 'C02_logicsim_drivers_source_is_model_partial']
THEOREMS += ['C02_logicsim_iteration_source_is_model', 'C02_logicsim_loop_source_is_model', 'C02_logicsim_loop_source_nonvacuous',
             'C02_logicsim_separation_build', 'C02_logicsim_drivers_source_is_model', 'C02_logicsim_drivers_source_nonvacuous']
THEOREMS += ['C02_logicsim_separation_build_x', 'C02_logicsim_iteration8x_source_is_model', 'C02_logicsim_loop8x_source_is_model',
             'C02_logicsim_loop4_source_is_model', 'C02_logicsim_loop4_source_is_model_build', 'C02_logicsim_loopx_source_nonvacuous',
             'C02_logicsim_source_round_solution_partial', 'C02_logicsim_source_round_nonvacuous']


def run(ck):
    import random
    from harness import lsim_drivers_corr as ld
    ok_drv = ld.translate_drivers(ck)   # evaluation loops / driver methods of logic_sim.py (Gen/LogicSimDriversSrc.v)
    ok_t = sk.regen_tables(ck)
    ck.prove('C02', THEOREMS)
    if ok_t:
        sk.validate_dispatch(ck, ['disp4', 'disp4_cb', 'disp8', 'disp8_cb'])
    drv_fails = ld.run(ck, random.Random(ck.seed * 7919 + 203), ck.scale(36, 300)) if ok_drv else []
    rng = random.Random(ck.seed * 7919 + 2)
    nrng = np.random.default_rng(ck.seed + 2)
    ncirc = ck.scale(50, 1200)
    coq_cases, meta, fails = [], [], []
    from harness import lsim_full_corr as lf
    sep_cases, sep_real, sep_meta = [], [], []
    for i in range(ncirc):
        m = rng.choice([4, 8])
        values = [0, 1, 2, 3] if m == 4 or rng.random() < 0.3 else ([0, 3, 5, 6, 4, 7] if rng.random() < 0.5 else list(range(8)))
        c, a, sims, stim = sk.gen_case(rng, nrng, values)
        reuse, strip = rng.random() < 0.5, rng.random() < 0.5
        used = i % 3 == 1       # on a simulator object that has already simulated another batch
        lc.WARM['on'] = used
        res, err = sk.safe(lc.run_logicsim, c, m, stim, reuse, strip)
        lc.WARM['on'] = False
        desc = {'circuit': cg.describe(c), 'm': m, 'c_reuse': reuse, 'strip_forks': strip, 'stimulus': stim.tolist(), 'used_simulator': used}
        ck.count(int(used), 'used-simulator rounds')
        ck.count(sims, f'm={m}')
        if err is not None:
            fails.append(('raises', desc, err[-400:]))
            continue
        sim, s1, s0 = res
        mask = lc.ppo_mask(sim)
        ck.nontrivial(sk.circuit_fingerprint(c) + (m,))
        if i % 2 == 0:
            # hypothesis of C02_logicsim_loop_source_is_model: o0 / t0 / t1 own their locations (verdict of the Coq build() and of the real arrays)
            sep_cases.append(lf.sep_case(c, reuse, strip))
            sep_real.append(lf.real_sep(sim))
            sep_meta.append(desc)
        what = check_lane_semantics(c, m, stim, s1, mask)
        if what:
            fails.append(('value', desc, what))
        for lane in sorted(set([0, sims - 1])):
            coq_cases.append(lc.case8(c, reuse, strip, stim[:, lane].tolist(), s1[:, lane].tolist()))
            meta.append(dict(desc, lane=lane))
        if i < 2:
            ck.sample({'m': m, 'nodes': len(c.nodes), 'values': values, 'sims': sims, 'stimulus_lane0': stim[:, 0].tolist()})
    # directed: every gate kind alone, all operand tuples (finds the operands when a dispatch branch is wrong)
    for mm in (4, 8):
        for desc, what in sk.single_gate_sweep(ck, mm, rng, per_kind=None if ck.thorough else (150 if mm == 4 else 250)):
            fails.append(('value', desc, what))
    ck.rule('random circuits x stimuli over {0,1,X,-} (m=4) / all eight values or the six known ones (m=8) x odd batch sizes x c_reuse x '
            'strip_forks; oracle = independent composition of the documented operators + brute-force completions + init/final projection')
    chunks = [coq_cases[i:i + 120] for i in range(0, len(coq_cases), 120)]
    outs = ck.coq_eval_many('ls', [lc.cases_file(ch) for ch in chunks])
    mism, allok = [], True
    for ci, (ok, out) in enumerate(outs):
        idx = cg.parse_nat_list(out) if ok else None
        if idx is None:
            allok = False
            ck.obligation('model evaluation (LogicSim multi-valued) ran', False, 'correspondence', out[-800:])
            continue
        mism += [ci * 120 + j for j in idx]
    ck.obligation(f'Coq model (SimOps.build + memory-level c_prop with spec_prim) = LogicSim(m=4|8) on {len(coq_cases)} lanes',
                  allok and not mism, 'correspondence', f'failing cases {mism[:10]}')
    if sep_cases:
        oks, outs_ = ck.coq_eval('sep', lf.sep_file(sep_cases))
        verd = cg.parse_nat_list(outs_) if oks else None
        bad = None if verd is None or len(verd) != len(sep_cases) else [j for j, (v, r) in enumerate(zip(verd, sep_real)) if v == 0 or v == 3 or r == 0 or v != r]
        ck.count(0 if verd is None else sum(1 for v in verd if v == 1), 'circuits whose memory map passes the separation check ops_sep_b')
        ck.obligation(f'separation hypothesis of C02_logicsim_loop_source_is_model (c_locs[tmp_idx], c_locs[tmp2_idx] and the location of every op output '
                      f'differ from each other and from the op\'s operand locations) holds on {len(sep_cases)} generated circuits -- verdict of ops_sep_b on the '
                      'Coq build() = verdict on the real sim.ops / sim.c_locs; on circuits with a gate without output line (it writes the scratch slot) the extended check ops_sepx_b of C02_logicsim_loop8x_source_is_model / C02_logicsim_loop4_source_is_model / C16_callback_loop8_source_is_model is evaluated instead',
                      bad == [], 'certificate', '' if bad == [] else (f'failing cases {bad[:10]}' if bad is not None else outs_[-600:]))
        if bad and not fails:
            for j in bad[:2]:
                ck.fail('separation', 'memory map lets the output / scratch locations of an op overlap its operands (or model and real arrays disagree)',
                        {'component': 'sim.SimOps memory map (Proofs/LogicSimLoop8.v: ops_sep_b)', 'input': sep_meta[j],
                         'broken': ['certificate ops_sep_b']}, found_input=False)
    ck.trust('modelled, not verified: SimOps.__init__, LogicSim.s_to_c/c_to_s (Model/SimOps.v, Model/LogicSimModel.v; correspondence); '
             'proved about that model (Proofs/LogicSimGlue.v, C02_logicsim_model_correct): for every well-formed acyclic netlist of known gates, any '
             'c_reuse / strip_forks and any stimulus the compared entry point sim_case8 returns the gate-by-gate composition of the documented '
             'operators; outside that domain the memory map is tied by C08 certificates and correspondence')
    if not fails:
        for key, what, rp in drv_fails[:3]:
            ck.fail(key, what, rp, found_input=False)
    for kind, desc, what in fails[:5]:
        ck.fail(f'logicsim{desc["m"]}:{kind}', f'LogicSim(m={desc["m"]}) ' + what, {'component': 'logic_sim.LogicSim', 'input': desc, 'actual': what})
    if not fails:
        for j in mism[:3]:
            ck.fail('model-disagrees', 'Coq model and implementation disagree',
                    {'component': 'Model/LogicSimModel.v: sim_case8', 'input': meta[j], 'broken': ['correspondence LogicSim m=4/8']}, found_input=False)


def replay(rp):
    inp = rp['input']
    c = cg.from_description(inp['circuit'])
    stim = np.array(inp['stimulus'], dtype=np.uint8)
    lc.WARM['on'] = bool(inp.get('used_simulator'))
    res, err = sk.safe(lc.run_logicsim, c, inp['m'], stim, inp['c_reuse'], inp['strip_forks'])
    lc.WARM['on'] = False
    if err is not None:
        return True
    sim, s1, s0 = res
    return check_lane_semantics(c, inp['m'], stim, s1, lc.ppo_mask(sim)) is not None
