"""C14 -- every SDF delay lands on the right line, polarity and dataset; none is lost."""
import random
import numpy as np

from vcheck import gen_all
from harness import circgen as cg, sdfgen as sg, sdf_text as st

THEOREMS = ['C14_cells_none_lost', 'C14_cells_none_lost_in', 'C14_cells_keys', 'C14_cells_lost_refuted', 'C14_delayfile_of_blocks',
            'C14_cell_entries', 'C14_io_items_of_blocks', 'C14_one_triple_both', 'C14_two_triples', 'C14_empty_triple_zero',
            'C14_iopath_slots', 'C14_iopath_entry_present', 'C14_iopath_untouched_zero', 'C14_iopath_resolve',
            'C14_edge_posedge', 'C14_edge_negedge', 'C14_edge_plain',
            'C14_interconnect_slots', 'C14_interconnect_entry_present', 'C14_interconnect_untouched_zero', 'C14_interconnect_resolve',
            'C14_interconnect_line', 'C14_interconnect_skip_nonneg', 'C14_dataset_axis',
            # sdf.py from TEXT (Model/SdfText.v)
            'C14_text_parse_cfile', 'C14_text_parse_print', 'C14_text_print_is_cfile', 'C14_text_ignored_text_irrelevant',
            'C14_text_skipped_items_irrelevant', 'C14_text_entry_kept', 'C14_text_entry_kept_any', 'C14_text_delayfile_of_blocks',
            'C14_text_example', 'C14_text_name_whitespace_ends_name',
            # the separators next to a name follow the lexer of fix d9c2c16 exactly
            'C14_text_parse_cfile_v1', 'C14_text_idsep_exact', 'C14_text_comment_lexed_as_name', 'C14_text_slash_name_lost',
            'C14_text_name_end_exact', 'C14_text_instance0_exact', 'C14_text_example_wide', 'C14_text_cfile_ok_not_necessary']
# source tie (translation): Gen/SdfCallbacksSrc.v = the callbacks of Model/Sdf.v
THEOREMS += ['C14_callbacks_source_is_model', 'C14_callbacks_source_nonvacuous']
LIBS = ['NANGATE', 'SAED32', 'SAED90', 'GSC180', 'NANGATE_ZN']


def pin_cases():
    from kyupy import techlib
    out = []
    for lib in LIBS:
        tl = getattr(techlib, lib)
        rows = [(k, p, v[0]) for k, (_, pd) in tl.cells.items() for p, v in pd.items()]
        for k, p, i in rows[:40]:
            assert tl.pin_index(k, p) == i
        out.append((lib, len(rows), f'pin_case lib_{lib} [' + '; '.join(f'({cg.coq_string(k)}, {cg.coq_string(p)}, {i})' for k, p, i in rows) + ']'))
    return out


def run(ck):
    res = gen_all.generate(['TechLibs'])
    ck.obligation('Gen/TechLibs.v regenerated from techlib.py', not any(res.values()), 'translation', str(res))
    # translation (tie T): Gen/SdfCallbacksSrc.v is regenerated from the current text of sdf.py; C14_callbacks_source_is_model then
    # re-proves that the translated triple / sanitize / iopath / interconnect are the callbacks of Model/Sdf.v
    from harness import sdf_callbacks_src as scs
    cb_ok = scs.translate(ck)
    proved, _ = ck.prove('C14', THEOREMS)
    if not proved:
        from vcheck import core
        core.coq_make(core.support_targets())     # the models must exist for the correspondence even when a proof broke
        if cb_ok:
            core.coq_make(['theories/Gen/SdfCallbacksSrc.vo'])
    if cb_ok:
        cbs = scs.gen_cases(random.Random(ck.seed * 104729 + 14), ck.scale(600, 12000))
        okc, outc = ck.coq_eval('sdfcb', scs.cases_file([c for c, _ in cbs]))
        badc = cg.parse_nat_list(outc) if okc else None
        ck.count(len(cbs), 'callback-source')
        ck.obligation(f'translated source Gen/SdfCallbacksSrc.v = the real SdfTransformer.triple / iopath / interconnect on {len(cbs)} argument '
                      'lists (number tokens on and off the float() domain, 0 to 4 triples, short argument lists; result or exception)',
                      okc and badc == [], 'correspondence', f'failing: {[cbs[j][1] for j in (badc or [])[:4]]} {"" if okc else outc[-600:]}')
    rng = random.Random(ck.seed * 7919 + 14)
    from kyupy import verilog, techlib
    fails, cases, meta = [], [], []
    sdf_texts = []          # (text, stream) of every SDF file of the streams below: also run through the TEXT-level model

    # --- pin table ------------------------------------------------------------------------------------------
    pcs = pin_cases()
    ok, out = ck.coq_eval('pins', sg.cases_file([t for _, _, t in pcs]))
    bad = cg.parse_nat_list(out) if ok else None
    ck.count(sum(n for _, n, _ in pcs), 'pin-table')
    ck.obligation(f'Coq pin_index over Gen/TechLibs.v = TechLib.pin_index for every (cell, pin) of {", ".join(LIBS)} ({sum(n for _, n, _ in pcs)} pins)',
                  ok and bad == [], 'correspondence', f'libraries with differences: {[pcs[i][0] for i in (bad or [])]} {"" if ok else out[-600:]}')

    # --- directed files ---------------------------------------------------------------------------------------
    for k, (vtext, stext, lib, what) in enumerate(sg.directed()):
        for bf in (False, True):
            c = verilog.parse(vtext, tlib=getattr(techlib, lib), branchforks=bf)
            df, io_, ic_ = sg.run_impl(stext, c, lib)
            eio, eic = sg.directed_expected(k, c, bf)
            ck.count(1, 'directed')
            msg = None
            if isinstance(df, Exception) or isinstance(io_, Exception) or isinstance(ic_, Exception):
                msg = f'raises {[type(x).__name__ for x in (df, io_, ic_) if isinstance(x, Exception)]}'
            elif not np.array_equal(io_, eio):
                d = sg.first_diff(io_, eio)
                msg = f'iopaths()[dataset {d[0]}, line {d[1]}, input polarity {d[2]}, output polarity {d[3]}] = {io_[d]}, the file says {eio[d]}'
            elif not np.array_equal(ic_, eic):
                d = sg.first_diff(ic_, eic)
                msg = f'interconnects()[dataset {d[0]}, line {d[1]}, {d[2]}, output polarity {d[3]}] = {ic_[d]}, the file says {eic[d]}'
            if msg:
                fails.append(('repeated-blocks:' + ('instance' if k == 0 else 'instance-less'), {'verilog': vtext, 'sdf': stext, 'lib': lib, 'branchforks': bf, 'expected_iopaths': eio.tolist(),
                                                  'expected_interconnects': eic.tolist()}, f'{what}: {msg}'))
            cases.append(sg.coq_case(stext, c, lib, df, io_, ic_))
            meta.append({'sdf': stext, 'stream': 'directed'})
        sdf_texts.append((stext, 'directed'))

    # --- random circuits x SDF renderings x branchforks -------------------------------------------------------
    n_main = ck.scale(70, 2500)
    for i in range(n_main):
        a = sg.gen_abs(rng)
        vtext = sg.render_verilog(rng, a)
        circs = {bf: sg.parse_circuit(a, vtext, bf) for bf in (False, True)}
        for j in range(2):
            s = sg.gen_sdf(rng, a)
            stext = sg.render_sdf(rng, a, s)
            sdf_texts.append((stext, 'main'))
            for bf in (False, True):
                c = circs[bf]
                df, io_, ic_ = sg.run_impl(stext, c, a.lib)
                ck.count(1, f'main:branchforks={bf},repeated_blocks={s["repeated"]}')
                ck.nontrivial(('m', a.lib, len(c.lines), bf, len(s['blocks']), hash(stext) & 0xffff))
                try:
                    msg = sg.oracle(a, s, c, bf, df, io_, ic_)
                except Exception as e:      # ground truth could not be located in the parsed circuit
                    msg = f'harness could not locate the ground-truth lines: {type(e).__name__}: {e}'
                if msg:
                    eio, eic, _, _ = sg.expected(a, s, c, bf)
                    fails.append(('repeated-blocks:random' if s['repeated'] else 'slot', {'verilog': vtext, 'sdf': stext, 'lib': a.lib, 'branchforks': bf,
                                  'expected_iopaths': eio.tolist(), 'expected_interconnects': eic.tolist()}, msg))
                if (i + j + bf) % 2 == 0 or msg:
                    cases.append(sg.coq_case(stext, c, a.lib, df, io_, ic_))
                    meta.append({'verilog': vtext, 'sdf': stext, 'lib': a.lib, 'branchforks': bf, 'stream': 'main'})
            if i < 2 and j == 0:
                ck.sample({'lib': a.lib, 'instances': [f'{x["kind"]} {x["name"]}' for x in a.insts][:5], 'cell_blocks': [b[0] for b in s['blocks']][:8],
                           'lines': [len(circs[False].lines), len(circs[True].lines)]})

    # --- edge stream: outside the claimed subset; model correspondence only -----------------------------------
    n_edge = ck.scale(60, 2000)
    for i in range(n_edge):
        a = sg.gen_abs(rng, n_inst=rng.choice([1, 2, 3]))
        vtext = sg.render_verilog(rng, a)
        s, kind = sg.gen_edge_sdf(rng, a)
        stext = sg.render_sdf(rng, a, s)
        sdf_texts.append((stext, 'edge:' + kind))
        bf = rng.random() < 0.5
        c = sg.parse_circuit(a, vtext, bf)
        df, io_, ic_ = sg.run_impl(stext, c, a.lib)
        ck.count(1, f'edge:{kind}')
        ck.nontrivial(('e', kind, a.lib, hash(stext) & 0xffff))
        try:
            cases.append(sg.coq_case(stext, c, a.lib, df, io_, ic_))
            meta.append({'verilog': vtext, 'sdf': stext, 'lib': a.lib, 'branchforks': bf, 'stream': 'edge:' + kind})
        except Exception as e:   # the file does not even pass the grammar
            ck.count(1, 'edge:rejected-by-grammar')

    # --- TEXT level: lark (contextual lexer + LALR parser) on sdf.GRAMMAR against parse_sdf / tree_of_text / print_sdf --------------
    tcases, tmeta = [], []
    n_rej, n_acc, n_dom = {}, {}, 0
    trng = random.Random(ck.seed * 7919 + 1414)

    def add_text(text, stream):
        nonlocal n_dom
        cs, d = st.text_cases(text)
        d['stream'] = stream
        ck.count(1, 'text:' + stream.split(':')[0] + (':lark-raises' if d['raises'] else ''))
        ck.nontrivial(('text', hash(text) & 0xffffff))
        key = stream.split(':')[0]
        (n_rej if d['raises'] else n_acc)[key] = (n_rej if d['raises'] else n_acc).get(key, 0) + 1
        n_dom += d['numbers_in_exact_domain']
        tcases.extend(cs)
        tmeta.extend([d] * len(cs))
        return d
    n_gen = ck.scale(100, 1500)
    step = max(1, len(sdf_texts) // n_gen)          # quick tier: an even sample over the directed / main / edge streams
    for k, (text, stream) in enumerate(sdf_texts[::step]):
        d = add_text(text, 'generated:' + stream)
        if d['raises'] and not stream.startswith('edge'):
            fails.append(('text:generated', {'sdf': text}, f'lark rejects a generated SDF file: {d["raises"]}'))
        # single-character and token mutations of a file of realistic shape
        for _ in range(2 if k < ck.scale(40, 600) else 0):
            add_text(st.mutate(trng, text), 'mutated-file')
    for _ in range(ck.scale(420, 6000)):
        text, stream, truth = st.gen_case_text(trng)
        add_text(text, stream)
        if truth is not None:
            of = st.truth_oracle(text, truth)
            if of:
                fails.append(('text:supported-language', {'sdf': text, 'expected_tree': truth}, 'sdf.py grammar: ' + of))
        tree = st.real_tree(text)[0]
        if tree is not None and st.printable(tree) and trng.random() < 0.5:
            cs, d, of = st.print_cases(tree)
            ck.count(1, 'text:printed')
            if of:
                fails.append(('text:print', d, 'sdf.py grammar: ' + of))
            tcases.extend(cs)
            tmeta.extend([d] * len(cs))
    # structured renderings: values of the concrete syntax `cfile` with the widened separators next to names, and with ONE defect
    n_cf = {'inside': 0, 'defect': 0, 'defect-rejected': 0}
    for k in range(ck.scale(220, 3000)):
        defect = None if k % 5 < 3 else st.DEFECTS[(k // 5 * 2 + k % 5 - 3) % len(st.DEFECTS)]
        cs, d, of = st.cfile_cases(trng, defect)
        n_cf['inside' if defect is None else 'defect'] += 1
        n_cf['defect-rejected'] += defect is not None and not isinstance(d['lark'], list)
        ck.count(1, 'text:cfile' + (':defect-' + defect if defect else ''))
        ck.nontrivial(('cfile', hash(d['text']) & 0xffffff))
        if of:
            fails.append(('text:supported-language', {'sdf': d['text'], 'expected_tree': d['content']}, 'sdf.py grammar: ' + of))
        tcases.extend(cs)
        tmeta.extend([d] * len(cs))
    cs, ds = st.corner_cases()
    tcases += cs
    tmeta += ds
    ck.count(len(st.CORNER_TEXTS), 'text:corner')
    cs, ds = st.dec_cases()
    tcases += cs
    tmeta += ds
    ck.count(len(cs), 'text:number')
    # the probes behind C14_text_name_whitespace_ends_name, against the implementation (D34, fixed by d9c2c16: reported again if it returns)
    try:
        ws_probe = st.whitespace_probe()
    except Exception as e:
        ws_probe = f'raises {type(e).__name__}: {e}'
    tsize = 60
    tchunks = [tcases[i:i + tsize] for i in range(0, len(tcases), tsize)]
    touts = ck.coq_eval_many('st', [st.cases_file(ch) for ch in tchunks], jobs=12)
    tbad = [ci * tsize + j for ci, (ok, out) in enumerate(touts) for j in ((cg.parse_nat_list(out) if ok else None) or [])]
    tran = all(ok and cg.parse_nat_list(out) is not None for ok, out in touts)
    terr = next((out[-600:] for ok, out in touts if not ok), '')
    ck.obligation(f'Coq transcription of sdf.GRAMMAR as lark parses it (contextual lexer: ID / ID_OR_EDGE / _NOB / NAME against the two ignore terminals, '
                  f'keywords as plain prefixes; LALR parser) = the tree lark hands to SdfTransformer, and tree_of_text = that tree with numbers scaled by 8 '
                  f'(None outside the exact number domain), on {len(tcases)} cases: the SDF files of the streams above ({n_acc.get("generated", 0)} accepted), '
                  f'single-character / token mutations of them ({n_rej.get("mutated-file", 0)} rejected by lark, {n_acc.get("mutated-file", 0)} accepted), rendered texts with '
                  f'arbitrary ignored text and odd names / numbers / payloads ({n_acc.get("rendered", 0) + n_acc.get("rendered-odd", 0)} accepted, {n_rej.get("rendered-odd", 0)} rejected), '
                  f'a malformed stream ({n_rej.get("malformed", 0)} rejected, {n_acc.get("malformed", 0)} accepted) and keyword soup ({n_rej.get("soup", 0)} rejected) -- both sides must '
                  f'reject or agree on the tree; {len(st.CORNER_TEXTS)} fixed corner-case probes; float() of number texts; print_sdf output read back by lark; '
                  f'{n_cf["inside"]} structured renderings (values of the concrete syntax cfile with any ignored text next to names that the lexer of d9c2c16 skips: '
                  f'line breaks, CR LF, comments after a line break, tabs, form feeds, nothing next to the quoted / parenthesised form): cfile_text = the text, cfile_ok holds, '
                  f'lark returns exactly cfile_abs; {n_cf["defect"]} renderings with ONE defect next to a name (misplaced comment, comment directly after a plain name, two plain '
                  f'names touching, a `//` name after a line break): cfile_ok fails and lark does NOT return cfile_abs ({n_cf["defect-rejected"]} rejected)',
                  tran and not tbad and n_rej.get('malformed', 0) > 0 and n_rej.get('mutated-file', 0) > 0 and n_acc.get('generated', 0) > 0 and n_dom > 0
                  and n_cf['inside'] > 0 and n_cf['defect'] > n_cf['defect-rejected'] > 0,
                  'correspondence', f'failing cases {tbad[:8]} {[tmeta[b] for b in tbad[:2]]} {terr}')
    lp = st.lexer_probe()
    ck.obligation('lark builds the scanners Model/SdfText.v is transcribed from (contextual lexer; regular expressions before string literals, in the order '
                  + ', '.join(st.TERMINAL_ORDER) + '; at most one non-ignore regular expression per parser state)', lp is None, 'translation', str(lp))
    ck.obligation('implementation on the probes of C14_text_name_whitespace_ends_name: a newline / tab next to a name ends the name '
                  '(instance "u1" NEWLINE: its IOPATH delays are annotated as without the newline; "A1<TAB>ZN": two pin names)', ws_probe is None, 'oracle', str(ws_probe))
    if ws_probe is not None:
        fails.append(('text:name-whitespace', {'probe': ws_probe}, 'sdf.py grammar: white space next to a name is lexed into the name: ' + ws_probe))

    per = 25
    chunks = [cases[i:i + per] for i in range(0, len(cases), per)]
    outs = ck.coq_eval_many('sdf', [sg.cases_file(ch) for ch in chunks], jobs=12)
    bad = [ci * per + j for ci, (ok, out) in enumerate(outs) for j in ((cg.parse_nat_list(out) if ok else None) or [])]
    ran = all(ok and cg.parse_nat_list(out) is not None for ok, out in outs)
    err = next((out[-800:] for ok, out in outs if not ok), '')
    ck.obligation(f'Coq model of the SDF transformer callbacks (triple, sanitize, cell, start with per-instance merge), DelayFile.__init__, iopaths and '
                  f'interconnects = implementation on {len(cases)} (file, circuit, branchforks) cases: DelayFile contents in dict order and both '
                  'arrays exactly, exceptions included', ran and not bad, 'correspondence',
                  f'failing cases {bad[:8]}; first: {meta[bad[0]] if bad else ""} {err}')
    ck.rule('TEXT level: texts of the supported SDF sub-language rendered from a generator-owned tree (header entries, CELLTYPE, (INSTANCE), TIMINGCHECK '
            'payloads, quoted / escaped / edge names, empty / negative / fractional number texts, ignored text incl. comments, tabs, form feeds, \\r\\n '
            'wherever the grammar ignores it; in front of a name any such text whose comments follow a line break, after a name any such text that does '
            'not begin with a comment): lark must accept and return exactly that tree')
    ck.rule('random Verilog netlists over NANGATE/SAED32/SAED90 cells (multi-output cells, flip-flops, unconnected pins, escaped instance names, '
            'fan-out, output ports) x both branchforks settings x SDF renderings (one or several CELL blocks per instance, several instance-less '
            'blocks, several DELAY sections, interleaving, entry shuffles, posedge/negedge, empty triples and components, one or two triples, '
            'overriding entries, unknown instances, headers/TIMINGCHECK/comments): arrays compared exactly with generator-owned ground truth; '
            'edge stream (negative values, unknown pins/cells, hierarchical names, misplaced entries, no instance-less block, 0/3 triples, mixed '
            'spellings, all-zero duplicates): Coq model vs implementation only')
    ck.trust('modelled, not verified: SdfTransformer.triple/sanitize/iopath/interconnect/cell/start, DelayFile.__init__/iopaths/interconnects '
             '(Model/Sdf.v; tied by exact correspondence incl. exceptions); sdf.GRAMMAR under lark 0.12 (contextual lexer, terminal order, ignore '
             'rules, LALR parser; Model/SdfText.v: parse_sdf, tied by exact correspondence on every run incl. malformed texts, code points < 256; the '
             'theorems cover the ways of writing a file described by the concrete syntax `cfile`, next to names its conditions are exactly what the lexer skips -- C14_text_idsep_exact / _name_end_exact / _instance0_exact; texts outside it '
             '-- e.g. a comment with parentheses inside a TIMINGCHECK payload, a keyword not followed by its item -- are covered by the correspondence only); float() of number texts is '
             'modelled for decimals denoting k/8 with at most 15 digits (dec8; other texts: tree_of_text = None, dec_valid says whether float() raises); '
             'NOT modelled: lark itself (its behaviour on sdf.GRAMMAR is transcribed, not derived), numpy broadcasting of the slot assignment, verilog.parse (ground truth lines are located by fork names); node equality is '
             'taken as index equality (names unique per kind); a fork whose ins[0] is None is outside the model (numpy would treat None as newaxis)')
    ck.assumptions.append('supported subset of C14: non-negative delays; one spelling per instance name within a file; INTERCONNECT destinations at an output '
                          'port only on fan-out-free nets (verilog.parse creates no branch fork for ports); an instance-less CELL block exists when '
                          'interconnects() is called; IOPATHs name connected pins or unconnected pins below the highest connected one')
    seen = set()
    for key, desc, what in fails:
        if key in seen:
            continue
        seen.add(key)
        ck.fail(key, 'sdf: ' + what, {'component': 'sdf.SdfTransformer.start / sdf.DelayFile', 'input': desc, 'actual': what})
    if not fails and tbad:
        ck.fail('model-disagrees-text', 'Coq model of the SDF text level and lark disagree', {'component': 'Model/SdfText.v', 'input': tmeta[tbad[0]]}, found_input=False)
    if not fails and bad:
        ck.fail('model-disagrees', 'Coq model and implementation disagree', {'component': 'Model/Sdf.v', 'input': meta[bad[0]]}, found_input=False)


def replay(rp):
    from kyupy import verilog, techlib
    inp = rp['input']
    if 'expected_tree' in inp:
        return st.truth_oracle(inp['sdf'], inp['expected_tree']) is not None
    if 'expected_iopaths' not in inp:
        return True
    c = verilog.parse(inp['verilog'], tlib=getattr(techlib, inp['lib']), branchforks=inp['branchforks'])
    df, io_, ic_ = sg.run_impl(inp['sdf'], c, inp['lib'])
    if any(isinstance(x, Exception) for x in (df, io_, ic_)):
        return True
    return not (np.array_equal(io_, np.array(inp['expected_iopaths'])) and np.array_equal(ic_, np.array(inp['expected_interconnects'])))
