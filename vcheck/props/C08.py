"""C08 -- signal-memory map and allocator never let live data overlap."""
import random
import numpy as np
from harness import heap_corr as hc, circgen as cg, simops_corr as sc, map_oracle as mo
from vcheck import gen_all, core

THEOREMS = ['C08_init', 'C08_history_inv', 'C08_alloc_inv', 'C08_free_inv', 'C08_alloc_fresh', 'C08_free_live',
            'C08_live_disjoint', 'C08_high_water', 'C08_free_commute', 'C08_map_check_sound', 'C08_build_passes_certificate',
            'C08_certificate_needs_reads_defined', 'C08_build_passes_certificate_reuse', 'C08_build_total_reuse',
            'C08_reuse_nonvacuous', 'C08_build_passes_certificate_all', 'C08_build_total_all', 'C08_all_options_nonvacuous', 'C08_option_hypotheses_checkable',
            'C08_heap_source_is_model', 'C08_heap_source_exact', 'C08_heap_source_precondition_needed', 'C08_heap_source_nonvacuous']
THEOREMS += ['C08_simops_source_prefix_partial', 'C08_simops_source_prefix_wf_partial']
# round f: the pinned copy of the allocation section (C08_simops_alloc_section_pinned) is replaced by the equality with the model
THEOREMS += ['C08_simops_alloc_source_is_model', 'C08_simops_source_is_model', 'C08_simops_source_total_certified',
             'C08_simops_source_nonvacuous']


def gen_map_case(rng):
    c, a = cg.gen_circuit(rng)
    reuse = rng.random() < 0.75
    strip = rng.random() < 0.5
    if rng.random() < 0.4:
        caps, cmin = 1, 1
    else:
        cmin = 4
        caps = rng.choice([4, 8, 16]) if rng.random() < 0.4 else [rng.choice([4, 8, 12, 16, 32]) for _ in range(len(c.lines))]
    return c, caps, cmin, reuse, strip


def run(ck):
    # translation (tie T): Gen/HeapSrc.v is regenerated from the current text of class Heap; C08_heap_source_is_model then
    # re-proves that the translated __init__ / alloc / free are the hand model the allocator theorems are stated on
    res = gen_all.generate(['HeapSrc'])
    ck.obligation('translate sim.Heap -> Gen/HeapSrc.v', res['HeapSrc'] is None, 'translation', res['HeapSrc'] or '')
    ck.trust('translator translate/gen_heap.py (fail-closed Python-ast translation of Heap.__init__ / alloc / free into a state-passing '
             'Gallina let-chain; vocabulary Model/HeapSrcLib.v: dict = sorted association list, bisect / insort on sorted lists, '
             'Python integers that stay non-negative); its output is additionally run against the real class on every history')
    ok_src = sc.translate_simops(ck)
    proved, _ = ck.prove('C08', THEOREMS)
    if not proved:
        core.coq_make(core.support_targets())     # the models must exist for the correspondence even when a proof broke
    rng = random.Random(ck.seed * 7919 + 8)
    # --- allocator: random histories, full table after every step -------------------------------------
    cases, fails = [], []
    for i in range(ck.scale(60, 500)):
        ops, style = hc.gen_history(rng, rng.choice([4, 10, 25, 60, 120] if not ck.thorough else [10, 40, 120, 250, 500]))
        steps, fail = hc.run_history(ops)
        ck.count(len(steps), f'history-style={style}')
        ck.nontrivial(('h', style, len(steps), tuple(s[2] for s in steps[:8])))
        if fail:
            fails.append(('heap', {'history': [[k, a] for k, a, _, _ in steps], 'ops': ops}, fail))
        cases.append(hc.coq_case(steps))
        if i < 2:
            ck.sample({'history': [f'{k}{a}' for k, a, _, _ in steps[:14]], 'style': style})
    hsz = 20 if not ck.thorough else 6
    chunks = [cases[i:i + hsz] for i in range(0, len(cases), hsz)]
    outs = ck.coq_eval_many('heap', [hc.cases_file(ch) for ch in chunks], jobs=12, timeout=1500)
    bad = [ci * hsz + j for ci, (ok, out) in enumerate(outs) for j in ((cg.parse_nat_list(out) if ok else None) or [])]
    ran = all(ok and cg.parse_nat_list(out) is not None for ok, out in outs)
    ck.obligation(f'Coq model of sim.Heap = implementation on {len(cases)} histories: returned location and full tables '
                  '(chunks, released, current_size, max_size) after every step', ran and not bad, 'correspondence', f'failing histories {bad[:8]}')
    if res['HeapSrc'] is None:
        outs = ck.coq_eval_many('heapsrc', [hc.cases_file_src(ch) for ch in chunks], jobs=12, timeout=1500)
        bad_src = [ci * hsz + j for ci, (ok, out) in enumerate(outs) for j in ((cg.parse_nat_list(out) if ok else None) or [])]
        ran = all(ok and cg.parse_nat_list(out) is not None for ok, out in outs)
        ck.obligation(f'translated source Gen/HeapSrc.v = implementation on {len(cases)} histories: returned location and full tables '
                      'after every step', ran and not bad_src, 'correspondence',
                      f'failing histories {bad_src[:8]}' if ran else core.coq_first_error(outs[0][1]))
    # --- memory map of SimOps -----------------------------------------------------------------------
    so_cases, cert_circs = [], []
    for i in range(ck.scale(90, 2500)):
        c, caps, cmin, reuse, strip = gen_map_case(rng)
        # a third of the capacity VECTORS is handed over as a numpy array of a narrow integer dtype (with capacities around 100 the
        # total size exceeds the dtype's range: the memory locations must not wrap around)
        dt = rng.choice([None, None, None, 'uint8', 'int8', 'int16']) if not isinstance(caps, int) else None
        if dt is not None:
            caps = [rng.choice([4, 8, 100, 120]) for _ in caps]
            ck.count(1, 'capacity vector as ' + dt)
        so, d = sc.run_impl(c, caps, cmin, reuse, strip, caps_dtype=dt)
        desc = {'circuit': cg.describe(c), 'c_caps': caps, 'c_caps_min': cmin, 'c_reuse': reuse, 'strip_forks': strip, 'c_caps_dtype': dt}
        ck.count(1, f'map:reuse={reuse},strip={strip}')
        ck.nontrivial(('m', len(c.nodes), len(c.lines), reuse, strip, str(caps)[:12]))
        if d is None:
            fails.append(('map', desc, f'SimOps raises {type(so).__name__}: {so}'))
            continue
        msg = mo.check_map(so, c, strip)
        if msg:
            fails.append(('map', desc, msg))
        if i % 2 == 0:
            so_cases.append((c, caps, cmin, reuse, strip, d))
        if i % 3 == 0:
            cert_circs.append((c, reuse, strip))
    chunks = [so_cases[i:i + 15] for i in range(0, len(so_cases), 15)]
    outs = ck.coq_eval_many('so', [sc.cases_file(ch) for ch in chunks], jobs=12)
    bad = [ci * 15 + j for ci, (ok, out) in enumerate(outs) for j in ((cg.parse_nat_list(out) if ok else None) or [])]
    ran = all(ok and cg.parse_nat_list(out) is not None for ok, out in outs)
    ck.obligation(f'Coq model of SimOps.__init__ (ops, levels, reference counts, allocation through the Heap model, aliasing) = '
                  f'implementation on {len(so_cases)} circuits x capacity vectors x options', ran and not bad, 'correspondence',
                  f'failing cases {bad[:8]}')
    if ok_src:
        sc.run_source_corr(ck, random.Random(ck.seed * 7919 + 108), ck.scale(16, 300), 'memory map')
    sc.run_certs(ck, cert_circs, 'memory map')
    sc.run_domain(ck, [x[0] for x in cert_circs], 'memory map')
    ck.rule('allocator: random alloc/free histories (mixed/LIFO/FIFO/bursts/same-size; sizes 1..64) compared after every step + '
            'invariant oracle; map: random circuits x capacity vectors x c_reuse x strip_forks, independent liveness/overlap/alias checker')
    ck.trust('the allocator theorems hold for ALL histories of the Gallina transcription Model/Heap.v (tied to sim.Heap by comparing '
             'every table after every step); the map clause (no overlap of simultaneously live signals in SimOps) is a theorem for all four '
             'combinations of c_reuse and strip_forks (C08_build_passes_certificate_all: all wf acyclic netlists of known primitives whose '
             'stripped forks have their input connected, all capacity vectors, c_caps_min > 0); the certificate is still evaluated per '
             'generated case; Model/SimOps.v is tied by '
             'correspondence and an independent overlap checker runs on the implementation\'s tables')
    for kind, desc, what in fails[:5]:
        ck.fail(f'{kind}', ('sim.Heap: ' if kind == 'heap' else 'sim.SimOps memory map: ') + what,
                {'component': 'sim.Heap' if kind == 'heap' else 'sim.SimOps', 'input': desc, 'actual': what})
    if not fails and bad:
        ck.fail('model-disagrees', 'Coq model and implementation disagree', {'component': 'Model/Heap.v or Model/SimOps.v'}, found_input=False)


def replay(rp):
    inp = rp['input']
    if 'history' in inp:
        steps, fail = hc.run_history([tuple(x) for x in inp['ops']])
        return fail is not None
    c = cg.from_description(inp['circuit'])
    so, d = sc.run_impl(c, inp['c_caps'], inp['c_caps_min'], inp['c_reuse'], inp['strip_forks'], caps_dtype=inp.get('c_caps_dtype'))
    return d is None or mo.check_map(so, c, inp['strip_forks']) is not None
