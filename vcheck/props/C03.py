"""C03 -- timing simulation settles to the Boolean function for any delays / capacity."""
from harness import wavecheck as wk, waveoracle as wo

THEOREMS = ['C03_total', 'C03_final', 'C03_init', 'C03_wf', 'C03_circuit_settles',
            'C03_flat_refines', 'C03_regions_check_sound',
            'C03_build_regions_all', 'C03_wavesim_model_alias', 'C03_wavesim_model_correct', 'C03_wglue_hyps_check_sound',
            'C03_wavesim_model_settles', 'C03_wavesim_model_example']
THEOREMS += ['C03_kernel_source_is_model', 'C03_kernel_source_any_bound', 'C03_kernel_source_example', 'C03_kernel_source_cap1_differs', 'C03_source_total', 'C03_source_settles']   # source tie of the merge kernel (Gen/WaveEvalSrc.v)


THEOREMS += ['C03_driver_eval_is_model', 'C03_driver_c_prop_is_fold', 'C03_driver_assign_is_model']   # driver code from the source text (Gen/WaveDriversSrc.v)

def oracle(k, w):
    for lane in range(k.sims):
        m = wo.check_settles(w, k.c, k.s0, k.s2, k.extra, lane, all_lines=not k.reuse)
        if m:
            return f'lane {lane}: {m}'
    return None


def run(ck):
    wk.regen_kernel(ck)
    wk.regen_drivers(ck)
    if THEOREMS:
        ck.prove('C03', THEOREMS)
    fails, mism = wk.campaign(ck, ck.scale(72, 1500), oracle, gen_kw={'strip_prob': 0.3}, coq_lanes=1, stress_every=2, line_level=True, glue=True)
    # batches WIDER than one thread block (32 lanes) on both code paths: a launch grid that covers only whole blocks leaves the trailing
    # lanes without stimulus, propagation and capture (the campaign above uses 1..5 lanes)
    import random, traceback
    wrng = random.Random(ck.seed * 7919 + 303)
    for i in range(ck.scale(6, 120)):
        k = wk.gen_wave_case(wrng, sims=wrng.choice([33, 40, 49, 63, 65, 70, 97]), n_gates=wrng.choice([2, 3, 5]), capmode=wrng.choice(['4', '8', 'vec']),
                             reuse=wrng.random() < 0.5)
        d = dict(wk.describe(k), cuda=(i % 3 != 2))
        try:
            what = oracle(k, wk.run_case(k, cuda=d['cuda']))
        except Exception:
            what = 'raises ' + traceback.format_exc()[-400:]
        ck.count(1, 'wide-batch-rounds (33..97 lanes, GPU twin 2 of 3)')
        if what:
            fails.append((d, ('WaveSimCuda' if d['cuda'] else 'WaveSim') + ' wide batch: ' + what))
    ck.rule('random circuits x integer delay tables (zero/uniform/polarity-free/fully polarity-dependent/large spread) x capacities '
            '4/8/16/per-line vectors (overflowing) x single- and multi-transition input waveforms x 1..5 lanes x c_reuse; '
            'oracle: Boolean function of initial/final input values at every line and port')
    wk.report(ck, fails, mism, 'wavesim:settle', 'wave_sim.WaveSim')


def replay(rp):
    if 'warm_round' in rp.get('input', {}):
        return wk.warm_replay(rp['input'])
    if 'copied_simulator' in rp.get('input', {}):
        return wk.copied_replay(rp['input'], oracle)
    if 'pre_extra' in rp.get('input', {}):
        return wk.pre_extra_replay(rp['input'])
    k = wk.from_description(rp['input'])
    try:
        w = wk.run_case(k, cuda=bool(rp['input'].get('cuda')))
    except Exception:
        return True
    return oracle(k, w) is not None
