"""C11 -- parsed Verilog and bench netlists simulate as the described netlist."""
import random

from harness import circgen as cg, vlog_corr as vc, vlog_gen as vg, bench_text as bt, vlog_text as vt

THEOREMS = ['C11_range_names', 'C11_range_ends', 'C11_range_single', 'C11_bitname_inj', 'C11_bus_names_nodup',
            'C11_sized_const', 'C11_const_bits_msb_first', 'C11_concat_flatten', 'C11_port_positions', 'C11_io_order',
            'C11_bench_wiring', 'C11_bench_node_unique',
            # bench.py from TEXT (Model/BenchText.v)
            'C11_bench_lex_render', 'C11_bench_parse_render', 'C11_bench_token_language', 'C11_bench_keyword_assignment_rejected',
            'C11_bench_parse_print', 'C11_bench_any_rendering', 'C11_bench_lex_iff', 'C11_bench_language', 'C11_bench_text_wiring', 'C11_bench_rendering_wiring',
            'C11_bench_text_node_unique',
            # VerilogTransformer.module, passes 0 / 1 / 1.5 / 2 / output loop (Model/VerilogModule.v)
            'C11_module_consistent', 'C11_module_io_live', 'C11_module_io_hole_witness', 'C11_module_ports',
            'C11_module_pin_out', 'C11_module_pin_in', 'C11_module_pins_only', 'C11_module_bit0_lookup_refuted', 'C11_module_bit0_lookup_fixed',
            'C11_module_assign', 'C11_module_outputs', 'C11_module_example', 'C11_module_example_theorems',
            'C11_module_branchforks', 'C11_module_branchforks_sets', 'C11_module_branchforks_example',
            'C11_module_branchforks_name_clash_refuted', 'C11_module_libs_ok', 'C11_module_pin_dict',
            # verilog.py from TEXT (Model/VerilogText.v)
            'C11_vtext_lex_render', 'C11_vtext_parse_render', 'C11_vtext_ignored_irrelevant', 'C11_vtext_token_language', 'C11_vtext_lex_iff', 'C11_vtext_language',
            'C11_vtext_tokens_of_tree',
            'C11_vtext_any_rendering', 'C11_vtext_parse_print', 'C11_vtext_open_ignored_rejected', 'C11_vtext_lex_render_tail', 'C11_vtext_eof_line_comment_accepted',
            'C11_vtext_eof_comment_witness', 'C11_vtext_lexer_probes', 'C11_vtext_pin_dict', 'C11_vtext_pin_entry', 'C11_vtext_circuits',
            'C11_vtext_circuits_of_rendering', 'C11_text_module_consistent', 'C11_text_module_ports', 'C11_text_module_pin_in',
            'C11_text_module_pin_out', 'C11_text_module_assign', 'C11_text_module_outputs', 'C11_vtext_example']

WHAT = {
    'parse-raises': 'a netlist in the supported subset is rejected',
    'parse-result': 'parse does not return one circuit',
    'io-order': 'io_nodes are not the ports in port-list order with bus bits in declared range order',
    'resolve-raises': 'library cells of the parsed circuit cannot be resolved',
    'state': 'a flip-flop of the netlist is not a state element of the parsed circuit',
    'sim-raises': 'the parsed circuit cannot be simulated',
    'function': 'the parsed circuit computes a different Boolean function than the netlist',
    'branchforks': 'branchforks=True does more than insert 1:1 forks',
}


def _one(net, text, rng, want_bench=True):
    """-> (failures [(key, what)], bench rendering or None)"""
    fails = []
    pats = vg.patterns(net, rng)
    r = vg.check_verilog(net, text, rng, pats)
    if r:
        fails.append(('verilog:' + r[0], f'{WHAT.get(r[0], r[0])}: {r[1]}'))
    b = vg.render_bench(net, rng) if want_bench else None
    if b is not None:
        rb, _ = vg.check_bench(net, b, rng, pats)
        if rb:
            fails.append(('bench:' + rb[0], rb[1] + ('' if r else '  [the Verilog rendering of the same netlist simulates correctly: the two formats disagree]')))
    return fails, b


def run(ck):
    ck.prove('C11', THEOREMS)
    rng = random.Random(ck.seed * 7919 + 11)
    fails = []          # (key, what, replay)

    def unknown():
        """failures that are not recorded as known findings (a known finding must not mask a model / implementation disagreement)"""
        return [f for f in fails if ck.known_entry(f[0]) is None]
    # ---- correspondence of the helper models ------------------------------------------------------------------
    cases, meta = [], []
    plan = ((vc.range_case, 60, 900), (vc.sigsel_case, 220, 4000), (vc.concat_case, 40, 600), (vc.names_case, 50, 800),
            (vc.io_case, 110, 2500), (vc.bench_case, 110, 2500))
    for f, nq, nt in plan:
        for _ in range(ck.scale(nq, nt)):
            c, d, got = f(rng)
            if c is None:
                ck.count(1, 'corr:' + d['kind'] + ':outside-model-domain')
                continue
            ck.count(1, 'corr:' + d['kind'] + (':raises' if 'raises' in d else ''))
            ck.nontrivial(('corr', c[:160]))
            try:
                o = vc.oracle(d, got)
            except Exception as e:      # an implementation result of an unexpected form is a failure of that case, not of the harness
                o = f'result {got!r} of unexpected form ({type(e).__name__}: {e})'
            if o:
                fails.append(('helper:' + d['kind'], 'VerilogTransformer helper: ' + o, {'component': 'verilog.VerilogTransformer', 'input': d, 'actual': o}))
            cases.append(c)
            meta.append(d)
    # ---- bench.py TEXT level: lark (lexer + LALR parser) against parse_bench / bench_of_text / print_bench ---------
    tcases, tmeta = [], []
    n_rej = {'rendered': 0, 'malformed': 0, 'soup': 0}
    for _ in range(ck.scale(260, 5000)):
        cs, d, of = bt.text_case(rng)
        ck.count(1, 'text:' + d['stream'] + (':lark-raises' if d['raises'] else (':elab-raises' if d['raises_parse'] else '')))
        ck.nontrivial(('text', d['text'][:160]))
        if d['raises']:
            n_rej[d['stream']] += 1
        if of:
            fails.append(('bench-text:' + d['stream'], 'bench.py grammar: ' + of, {'component': 'bench.GRAMMAR / lark', 'input': d, 'actual': of}))
        tcases += cs
        tmeta += [d] * len(cs)
    for _ in range(ck.scale(40, 600)):
        cs, d, of = bt.print_case(rng)
        ck.count(1, 'text:printed')
        if of:
            fails.append(('bench-text:print', 'bench.py grammar: ' + of, {'component': 'bench.GRAMMAR / lark', 'input': d, 'actual': of}))
        tcases += cs
        tmeta += [d] * len(cs)
    cs, ds = bt.corner_cases()
    tcases += cs
    tmeta += ds
    ck.count(len(ds) // 2, 'text:corner')
    tsize = 100
    tchunks = [tcases[i:i + tsize] for i in range(0, len(tcases), tsize)]
    touts = ck.coq_eval_many('bt', [bt.cases_file(ch) for ch in tchunks], jobs=12)
    tbad = [ci * tsize + j for ci, (ok, out) in enumerate(touts) for j in ((cg.parse_nat_list(out) if ok else None) or [])]
    tran = all(ok and cg.parse_nat_list(out) is not None for ok, out in touts)
    terr = next((out[-600:] for ok, out in touts if not ok), '')
    ck.obligation(f'Coq transcription of bench.GRAMMAR as lark parses it (contextual lexer: keyword vs NAME, ignore rule; LALR parser) = the statement '
                  f'sequence the real BenchTransformer is called with, and bench_of_text = bench.parse, on {len(tcases)} cases: rendered statement lists '
                  f'with arbitrary white space / comments, the fixed corner-case probes (keyword vs NAME, empty lists, \\r, end-of-text comments), a malformed stream ({n_rej["malformed"]} texts rejected by lark) and token soup '
                  f'({n_rej["soup"]} rejected) -- both must reject; print_bench output read back by lark',
                  tran and not tbad and n_rej['malformed'] > 0 and n_rej['soup'] > 0, 'correspondence',
                  f'failing cases {tbad[:8]} {[tmeta[b] for b in tbad[:2]]} {terr}')
    # ---- oracle: generated netlists -------------------------------------------------------------------------------
    n_main = ck.scale(330, 9000)
    vnet_texts = []       # (verilog text, library) of generated netlists for the text-level correspondence
    bench_cases = []
    n_bench = 0
    mod_cases, mod_meta = [], []          # VerilogTransformer.module: (coq case, description)
    n_mod_net = ck.scale(100, 2400)

    def add_module_cases(text, tl, bf, desc):
        for c, d, got in vc.module_cases_of(text, tl, bf, desc):
            mod_cases.append(c)
            mod_meta.append(d)
            ck.count(1, 'corr:module:' + desc['stream'] + (':raises-' + d['raises'] if 'raises' in d else ''))
            ck.nontrivial(('module', c[:200]))
            if 'name-mismatch' in d:
                fails.append(('module:name', f'Circuit.name {d["name-mismatch"][0]!r} is not the module name {d["name-mismatch"][1]!r}',
                              {'component': 'verilog.VerilogTransformer.module', 'input': {'text': text}, 'actual': 'name'}))
    from kyupy import techlib as _tl
    for i in range(n_main):
        lib = vg.LIBS[i % len(vg.LIBS)]
        net = vg.gen_netlist(rng, lib=lib)
        text = vg.render_verilog(net, rng)
        fl, b = _one(net, text, rng)
        ck.count(1, f'netlist:{lib}')
        ck.nontrivial(('net', lib, len(net.cells), len(net.assigns), text[:80]))
        if b is not None:
            n_bench += 1
            ck.count(1, 'bench-rendering')
            if len(bench_cases) < ck.scale(60, 1200):
                bench_cases.append((b[1], b[0]))
        for key, what in fl:
            fails.append((key, what, {'component': 'verilog.parse / bench.parse', 'input': {'netlist': net.describe(), 'verilog': text,
                                                                                        'bench': b[0] if b else None,
                                                                                        'bench_meta': ({'stmts': b[1], 'io': b[2], 'names': b[3], 'states': b[4]} if b else None)},
                          'actual': what}))
        if i < n_mod_net:
            for bf in (False, True):
                add_module_cases(text, getattr(_tl, lib), bf, {'stream': 'netlist:' + lib})
        if len(vnet_texts) < ck.scale(50, 900):
            vnet_texts.append((text, lib))
        if i < 2:
            ck.sample({'library': lib, 'verilog': text[:400], 'bench': (b[0][:200] if b else None)})
    # statement-order and 1-bit-bus streams (inside the property's quantifier)
    for probe, n in (('assign-order', ck.scale(40, 800)), ('onebit-nonzero', ck.scale(40, 800)), ('tri-bus', ck.scale(30, 600))):
        for i in range(n):
            net = vg.gen_netlist(rng, probe=probe)
            text = vg.render_verilog(net, rng, probe)
            fl, b = _one(net, text, rng, want_bench=False)
            ck.count(1, 'stream:' + probe)
            ck.nontrivial(('net', probe, text[:80]))
            if i < ck.scale(12, 300):
                add_module_cases(text, getattr(_tl, net.lib), bool(i & 1), {'stream': 'probe:' + probe})
            for key, what in fl:
                tag = {'assign-order': 'continuous assigns in an order where a source is assigned later in the text',
                       'onebit-nonzero': 'a one-bit bus [k:k], k>0, referenced by its base name',
                       'tri-bus': 'an internal bus declared as tri [l:r] (the grammar has a rule for it)'}[probe]
                fails.append((f'verilog:{probe}', f'{what}  [stream: {tag}]',
                              {'component': 'verilog.VerilogTransformer.module', 'input': {'netlist': net.describe(), 'verilog': text, 'probe': probe}, 'actual': what}))
    # constructs outside the supported subset: a clean exception or the right function are both acceptable; recorded
    prob = {}
    for name, lib, text, expect in vg.probe_texts(rng):
        res, detail = vg.run_probe(name, lib, text, expect)
        prob[name] = res
        ck.count(1, f'probe:{name}:{res}')
    ck.cov['probes_outside_subset'] = prob
    for name, lib, text, expect in vg.probe_texts(rng):
        for bf in (False, True):
            add_module_cases(text, getattr(_tl, lib), bf, {'stream': 'outside-subset:' + name})
    # known finding D33: a wire that is named exactly like the branch fork another instance pin generates (escaped identifier).
    # The clash text must be the ONLY place where branchforks=True does more than insert 1:1 forks: the control text (same
    # module, harmless wire name) is reported under the ordinary key.  Both texts also go through the module correspondence.
    n_clash = [0, 0]
    for i in range(ck.scale(24, 400)):
        t_clash, t_ctrl, lib, d = vc.gen_bf_clash(rng)
        ck.count(1, 'stream:bf-name-clash')
        for text, is_clash in ((t_clash, True), (t_ctrl, False)):
            for bf in (False, True):
                add_module_cases(text, getattr(_tl, lib), bf, {'stream': 'bf-name-clash' if is_clash else 'bf-name-clash-control'})
            df = vc.bf_diff(text, lib)
            n_clash[0 if is_clash else 1] += 1 if df else 0
            if df:
                key = 'verilog:branchforks:name-clash' if is_clash else 'verilog:branchforks'
                what = (f'branchforks=True does more than insert 1:1 forks: {df}' +
                        (f'  [the wire \\{d["clash-name"]}  is named like the branch fork of pin {d["victim"]}]' if is_clash else
                         '  [directed stream, control text without name clash]'))
                fails.append((key, what, {'component': 'verilog.VerilogTransformer.module (pass 2, `if s not in c.forks`)',
                                          'input': dict(d, verilog=text, clash=is_clash), 'actual': df}))
    ck.cov['bf_name_clash'] = {'clash_texts_differing': n_clash[0], 'control_texts_differing': n_clash[1]}
    # far outside what a synthesis tool writes: every exception path and quirk of module (tiny name pool)
    for i in range(ck.scale(560, 9000)):
        text, tl = vc.gen_wild_module(rng)
        add_module_cases(text, tl, rng.random() < 0.5, {'stream': 'wild'})
    # ---- Coq evaluation of all cases ----------------------------------------------------------------------------------
    for stmts, text in bench_cases:
        c, d, got = vc.bench_case_of(stmts, text)
        cases.append(c)
        meta.append(d)
        ck.count(1, 'corr:bench:generated-netlist')
    size = 90
    chunks = [cases[i:i + size] for i in range(0, len(cases), size)]
    outs = ck.coq_eval_many('vl', [vc.cases_file(ch) for ch in chunks], jobs=12)
    bad = [ci * size + j for ci, (ok, out) in enumerate(outs) for j in ((cg.parse_nat_list(out) if ok else None) or [])]
    ran = all(ok and cg.parse_nat_list(out) is not None for ok, out in outs)
    err = next((out[-600:] for ok, out in outs if not ok), '')
    ck.obligation(f'Coq model of VerilogTransformer.range / sigsel (bit and part selects, sized constants) / concat / SignalDeclaration.names / '
                  f'declaration + port position table + io_nodes of module, and of the bench elaborator = implementation on {len(cases)} cases '
                  '(results incl. raised exceptions; bench: every node, line, pin and the io list)', ran and not bad, 'correspondence',
                  f'failing cases {bad[:8]} {[meta[b] for b in bad[:2]]} {err}')
    icases = vc.inst_cases(ck.scale(5000, 40000))
    msize = 40
    mchunks = [mod_cases[i:i + msize] for i in range(0, len(mod_cases), msize)] + [icases[i:i + 300] for i in range(0, len(icases), 300)]
    mouts = ck.coq_eval_many('vm', [vc.mod_cases_file(ch) for ch in mchunks], jobs=12)
    n_mchunks = (len(mod_cases) + msize - 1) // msize
    ibad = [j for ok, out in mouts[n_mchunks:] for j in ((cg.parse_nat_list(out) if ok else None) or [])]
    mbad = [ci * msize + j for ci, (ok, out) in enumerate(mouts[:n_mchunks]) for j in ((cg.parse_nat_list(out) if ok else None) or [])]
    mran = all(ok and cg.parse_nat_list(out) is not None for ok, out in mouts)
    merr = next((out[-600:] for ok, out in mouts if not ok), '')
    n_raise = sum(1 for d in mod_meta if 'raises' in d)
    ck.obligation(f'Coq model of VerilogTransformer.module (passes 0, 1, 1.5, 2, output loop; Model/VerilogModule.v elab_module) = the real method on '
                  f'{len(mod_cases)} intercepted calls ({n_raise} of them raise): every node name / kind by index, every line (driver index, pin, reader index, '
                  'pin) by index, io_nodes incl. holes; the model state passes the executable C09 invariant; lib_ok_b / pins_nodup_b hold on the real '
                  'pin tables and pin dicts', mran and not mbad, 'correspondence',
                  f'failing cases {mbad[:8]} {[{k: v for k, v in mod_meta[b].items() if k != "text"} for b in mbad[:2]]} {[mod_meta[b]["text"][:400] for b in mbad[:1]]} {merr}')
    pcases, pmeta = vc.pintab_cases(vg.LIBS, rng)
    okp, outp = ck.coq_eval('vt', vc.lib_cases_file(pcases))
    pbad = cg.parse_nat_list(outp) if okp else None
    ck.obligation(f'TechLib.cells[kind][1] (pin name -> position, is_output) of every cell kind of the five libraries ({len(pcases)} lookups incl. unknown kinds) '
                  '= the table derived from the translated library text (Model/VerilogLibPins.v lib_pins_of over Gen/TechLibs.v)', okp and pbad == [],
                  'correspondence', f'failing {[pmeta[b] for b in (pbad or [])[:4]]} {"" if okp else outp[-400:]}')
    if pbad and not unknown():
        fails.append(('module:pin-table', f'TechLib pin table differs from the library text: {pmeta[pbad[0]]}',
                      {'component': 'techlib.TechLib.__init__', 'input': pmeta[pbad[0]], 'actual': 'pin table differs'}))
    ck.obligation(f'Coq model of VerilogTransformer.instantiation (pin dict: named, empty, positional and repeated pins; Model/VerilogModule.v mk_pins) = '
                  f'the real method on {len(icases)} distinct intercepted calls; the dict keys are distinct (pins_nodup)', mran and not ibad, 'correspondence',
                  f'failing cases {ibad[:6]}')
    if ibad and not unknown():
        fails.append(('module:instantiation', 'VerilogTransformer.instantiation builds a different pin dict than its transcription',
                      {'component': 'verilog.VerilogTransformer.instantiation', 'input': {'case': icases[ibad[0]][:600]}, 'actual': 'pin dict differs'}))
    if mbad and not unknown():
        d = mod_meta[mbad[0]]
        fails.append(('module:model-disagrees', f'VerilogTransformer.module builds a different circuit than its transcription (or raises / does not raise where the '
                      f'transcription does): branchforks={d["branchforks"]}, stream {d["stream"]}' + (f', raises {d["raises"]}' if 'raises' in d else ''),
                      {'component': 'verilog.VerilogTransformer.module vs Model/VerilogModule.v', 'input': {k: v for k, v in d.items()}, 'actual': 'see obligation'}))
    ck.obligation(f'oracle ran: {n_main} generated netlists x 2 branchforks settings (+{n_bench} bench renderings, cross-format), '
                  'io order, truth tables, branchforks structure', True, 'oracle')
    ck.rule('generator-owned flat netlists over all five libraries (AND/OR/NAND/NOR/XOR/XNOR/INV/BUF/AOI/OAI/AO/OA/MUX/HA/FA cells, DFF/SDFF), scalar and '
            'bus ports / wires (ascending, descending, offsets, 1-bit), bit / part selects, concatenations (nested), sized constants b/d/h with '
            'truncation, assigns, escaped identifiers, comments / attributes, white space, shuffled statements and pins, unconnected outputs, '
            'constants on pins; exhaustive truth tables up to 10 inputs+states, else 256 patterns; helper methods on random tokens incl. invalid ones')
    ck.trust('NOT modelled: lark itself (its behaviour on verilog.GRAMMAR and bench.GRAMMAR is transcribed in Model/VerilogText.v / Model/BenchText.v and '
             'compared on every run incl. its parse / scanner tables, code points < 256), Circuit.substitute / resolve_tlib_cells after parsing: covered by '
             'the generator-owned differential oracle only; int() of sized constants inside ESCAPED identifiers with sign / underscore / white space',
             'modelled, not verified: VerilogTransformer.range/sigsel/concat, SignalDeclaration.names, declaration (Model/VerilogElab.v), '
             'VerilogTransformer.instantiation and the whole of VerilogTransformer.module: passes 0, 1, 1.5, 2 and the output loop on the Node/Line/io_nodes '
             'model of C09 (Model/VerilogModule.v; the arguments of module are intercepted from the real parser), TechLib pin tables (Model/VerilogLibPins.v), '
             'BenchTransformer with the Node/Line constructors, bench.GRAMMAR under lark: lexer, keyword resolution, parser (Model/BenchText.v); exact '
             'correspondence on every run',
             'findings: the output loop looked the port cell up under the fork name f"{name}[0]" (repaired in afee8a5; C11_module_bit0_lookup_refuted is about '
             'the old loop, C11_module_bit0_lookup_fixed about the current one); a signal named like a generated branch fork is captured when '
             'branchforks=True (known finding D33, C11_module_branchforks_name_clash_refuted, exercised by the directed name-clash stream on every run)',
             'cell functions of the oracle are the datasheet families of C19 (family_of / family_fn); a floating cell input has no defined value and is '
             'not generated; an escaped scalar \\\\k[7]  and bit 7 of a bus k are the same name for kyupy: such collisions are not generated')
    ck.assumptions.append('theorems range over the transcribed helper functions; ranges use non-negative bounds (the lexer admits digits only)')
    # ---- verilog.py TEXT level: lark (contextual lexer + LALR parser, raw tree) against parse_verilog; verilog.parse against circuits_of_text ----
    import time as _time
    _t0 = _time.time()
    trng = random.Random(ck.seed * 7919 + 1111)
    vcases, vmeta = [], []
    tab_cases, tab_meta, tab_fails = vt.table_cases()
    vcases += tab_cases
    vmeta += tab_meta
    ck.count(len(tab_cases), 'vtext:lark-tables')
    for tf in tab_fails:
        fails.append(('verilog-text:tables', 'verilog.GRAMMAR under lark differs from the transcription in Model/VerilogText.v: ' + tf,
                      {'component': 'verilog.GRAMMAR / lark tables', 'input': {'kind': 'vlog-tables'}, 'actual': tf}))
    v_rej = {'rendered': 0, 'malformed': 0, 'soup': 0, 'netlist-mutated': 0}

    def add_vtext(c, d, of):
        ck.count(1, 'vtext:' + d['stream'] + (':lark-raises' if d['raises'] else ''))
        ck.nontrivial(('vtext', d['text'][:160]))
        if d['raises'] and d['stream'] in v_rej:
            v_rej[d['stream']] += 1
        if of:
            fails.append(('verilog-text:' + d['stream'], 'verilog.py grammar: ' + of, {'component': 'verilog.GRAMMAR / lark', 'input': d, 'actual': of}))
        vcases.append(c)
        vmeta.append(d)
    for _ in range(ck.scale(340, 8000)):
        add_vtext(*vt.text_case(trng))
    for text in vt.CORNER_TEXTS:
        add_vtext(*vt.text_case(trng, text, 'corner'))
    for text, lib in vnet_texts:
        add_vtext(*vt.text_case(trng, text, 'netlist'))
        add_vtext(*vt.text_case(trng, vt.mutate_chars(text, trng), 'netlist-mutated'))
    for _ in range(ck.scale(40, 600)):
        c, d, of = vt.print_case(trng)
        ck.count(1, 'vtext:printed')
        if of:
            fails.append(('verilog-text:print', 'verilog.py grammar: ' + of, {'component': 'verilog.GRAMMAR / lark', 'input': d, 'actual': of}))
        vcases.append(c)
        vmeta.append(d)
    nc, nd = vt.name_cases(trng, ck.scale(60, 400))
    vcases += nc
    vmeta += nd
    # a netlist that ends in a line comment without line break is the same netlist (the COMMENT terminal needs no NEWLINE since the repair)
    eof_probe = {}
    for tail in ('// end', '// end\n', '// end\r', '//', '/* end */'):
        tr, exc = vt.raw_tree('module m (a); input a; endmodule ' + tail)
        eof_probe[tail] = 'accepted' if tr is not None else 'raises ' + exc
    ck.cov['vtext_eof_comment_probe'] = eof_probe
    for text, lib in vnet_texts[:ck.scale(12, 100)]:
        t0, _ = vt.raw_tree(text)
        t1, exc = vt.raw_tree(text.rstrip('\n') + trng.choice([' // end', '// synopsys', ' //', '\n// last line\r']))
        ck.count(1, 'vtext:eof-comment')
        if t0 is not None and t1 != t0:
            what = ('a generated netlist followed by a last "//" comment WITHOUT line break ' +
                    (f'is rejected ({exc})' if t1 is None else 'is read as a different tree') + '; with a final line break it is read')
            fails.append(('verilog-text:eof-comment', what, {'component': 'verilog.GRAMMAR COMMENT terminal', 'input': {'kind': 'vlog-text', 'text': text[-200:] + ' // end'},
                                                          'actual': exc or 'different tree'}))
    vsize = 60
    vchunks = [vcases[i:i + vsize] for i in range(0, len(vcases), vsize)]
    # verilog.parse as a whole
    ccases, cmeta = [], []

    def add_circ(text, tl, bf, desc):
        c, d, of = vt.circ_case(text, tl, bf, desc, through_parse=desc['stream'] == 'netlist' or len(ccases) % 8 == 0)
        if of:
            fails.append(('verilog-text:parse', 'verilog.parse: ' + of, {'component': 'verilog.parse', 'input': d, 'actual': of}))
        if c is None:
            ck.count(1, 'vtext-circuit:' + desc['stream'] + ':outside-model-domain')
            return
        ck.count(1, 'vtext-circuit:' + desc['stream'] + (':raises-' + d['raises'] if 'raises' in d else ''))
        ccases.append(c)
        cmeta.append(d)
    for k, (text, lib) in enumerate(vnet_texts[:ck.scale(36, 400)]):
        add_circ(text, getattr(_tl, lib), bool(k & 1), {'stream': 'netlist'})
    for _ in range(ck.scale(110, 2500)):
        text, tl = vc.gen_wild_module(trng)
        add_circ(text, tl, trng.random() < 0.5, {'stream': 'wild'})
    for text in vt.CORNER_TEXTS:
        add_circ(text, _tl.NANGATE, False, {'stream': 'corner'})
    for _ in range(ck.scale(60, 1000)):
        tree = vt.gen_tree(trng)
        add_circ(vt.render(vt.toks_tree(tree), trng), _tl.NANGATE, trng.random() < 0.5, {'stream': 'rendered'})
    csize = 25
    cchunks = [ccases[i:i + csize] for i in range(0, len(ccases), csize)]
    _t1 = _time.time()
    vouts = ck.coq_eval_many('vx', [vt.cases_file(ch) for ch in vchunks] + [vt.circ_cases_file(ch) for ch in cchunks], jobs=12)
    ck.cov['vtext_seconds'] = {'generate': round(_t1 - _t0, 1), 'coq': round(_time.time() - _t1, 1)}
    vouts_t, vouts_c = vouts[:len(vchunks)], vouts[len(vchunks):]
    vbad = [ci * vsize + j for ci, (ok, out) in enumerate(vouts_t) for j in ((cg.parse_nat_list(out) if ok else None) or [])]
    cbad = [ci * csize + j for ci, (ok, out) in enumerate(vouts_c) for j in ((cg.parse_nat_list(out) if ok else None) or [])]
    vran = all(ok and cg.parse_nat_list(out) is not None for ok, out in vouts)
    verr = next((out[-600:] for ok, out in vouts if not ok), '')
    n_acc = sum(1 for d in vmeta if d.get('kind') == 'vlog-text' and not d['raises'])
    ck.obligation(f'Coq transcription of verilog.GRAMMAR as lark parses it (Model/VerilogText.v: contextual lexer -- scanner class per parser state, '
                  f'keyword re-typing, ignore rules, the three name patterns -- and LALR parser) = the RAW tree of Lark(GRAMMAR, parser="lalr") on '
                  f'{len(vcases)} cases: lark\'s own tables (accept set of every state entered by a terminal vs mode_after; order / embedded keywords / '
                  f'pattern sources of every scanner: {len(tab_fails)} differences), generated trees written with arbitrary ignored text (ground truth), '
                  f'generated netlists and their character mutations, the fixed probes, a malformed stream ({v_rej["malformed"]} rejected by lark) and '
                  f'token soup ({v_rej["soup"]} rejected) -- both must reject; {n_acc} texts accepted; print_tree output read back by lark; '
                  f'VerilogTransformer.name = name_cb',
                  vran and not vbad and not tab_fails and v_rej['malformed'] > 0 and v_rej['soup'] > 0 and n_acc > 0, 'correspondence',
                  f'failing cases {vbad[:8]} {[vmeta[b] for b in vbad[:2]]} {tab_fails[:2]} {verr}')
    n_craise = sum(1 for d in cmeta if 'raises' in d)
    ck.obligation(f'circuits_of_text (Model/VerilogText.v: lexer, parser, child callbacks, then elab_module) = verilog.parse(text, tlib, branchforks) on '
                  f'{len(ccases)} texts (generated netlists, wild modules, probes, rendered trees; {n_craise} raise): every node name / kind, every line, '
                  f'io_nodes of every circuit, or both raise', vran and not cbad, 'correspondence',
                  f'failing cases {cbad[:8]} {[{k: v for k, v in cmeta[b].items()} for b in cbad[:2]]} {verr}')
    if vbad and not unknown() and vmeta[vbad[0]].get('kind') == 'vlog-name':
        d = vmeta[vbad[0]]
        fails.append(('verilog-text:name', f'VerilogTransformer.name({d["token"]!r}) = {d["got"]!r}: not the token without its backslash and its last character '
                      '(Model/VerilogText.v name_cb)', {'component': 'verilog.VerilogTransformer.name', 'input': d, 'actual': d['got']}))
    elif vbad and not unknown():
        d = vmeta[vbad[0]]
        fails.append(('verilog-text:model-disagrees', f'lark with verilog.GRAMMAR and its transcription (Model/VerilogText.v parse_verilog) read a text differently '
                      f'(stream {d.get("stream", d.get("kind"))}): {str(d.get("text", d))[:300]!r}',
                      {'component': 'verilog.GRAMMAR / lark vs Model/VerilogText.v', 'input': d, 'actual': 'raw tree differs / one of them rejects'}))
    if cbad and not unknown():
        d = cmeta[cbad[0]]
        fails.append(('verilog-text:circuit-disagrees', f'verilog.parse and circuits_of_text build different circuits from a text (stream {d["stream"]}, '
                      f'branchforks={d["branchforks"]}' + (f', raises {d["raises"]}' if 'raises' in d else '') + ')',
                      {'component': 'verilog.parse vs Model/VerilogText.v circuits_of_text', 'input': d, 'actual': 'see obligation'}))
    seen = {}
    for key, what, rp in fails:
        seen.setdefault(key, []).append((what, rp))
    for key, lst in seen.items():
        what, rp = min(lst, key=lambda x: len(str(x[1])))      # the smallest failing input of each kind
        ck.fail(key, f'{what}  ({len(lst)} failing inputs of this kind)', rp)
    if not unknown() and tbad:
        ck.fail('model-disagrees-text', 'Coq model of the bench text level and lark disagree', {'component': 'Model/BenchText.v', 'input': tmeta[tbad[0]]}, found_input=False)
    if not unknown() and bad:
        ck.fail('model-disagrees', 'Coq model and implementation disagree', {'component': 'Model/VerilogElab.v', 'input': meta[bad[0]]}, found_input=False)


def replay(rp):
    inp = rp['input']
    if inp.get('kind') == 'bf-clash':
        return vc.bf_diff(inp['verilog'], inp['lib']) is not None
    if inp.get('kind') in ('bench-text', 'bench-print', 'vlog-text', 'vlog-print', 'vlog-circuit', 'vlog-tables', 'vlog-name', 'vlog-mode'):
        return True     # text cases are regenerated from the seed; the text and what lark did with it are in the replay
    if 'netlist' in inp:
        net = vg.Net.from_description(inp['netlist'])
        rng = random.Random(0)
        pats = vg.patterns(net, rng)
        if rp['key'].startswith('bench:'):
            m = inp['bench_meta']
            rb, _ = vg.check_bench(net, (inp['bench'], m['stmts'], m['io'], m['names'], m['states'], True), rng, pats)
            return rb is not None
        return vg.check_verilog(net, inp['verilog'], rng, pats) is not None
    if inp.get('kind') in ('range', 'sigsel-range', 'sigsel-const', 'sigsel-name', 'sigsel-concat', 'concat', 'names'):
        return True     # helper cases are regenerated from the seed; see 'actual'
    return True
