"""C16 -- the fault-injection callback sees and controls every evaluated signal."""
import numpy as np

from harness import circgen as cg, logicsim_corr as lc, oracle_net as on, simcheck as sk

THEOREMS = ['C16_trace', 'C16_identity', 'C16_upstream', 'C16_override', 'C16_cb_paths_equal_plain',
            'C16_model_callback_correct', 'C16_model_callback_override', 'C16_model_identity', 'C16_model_trace', 'C16_sim_case8_cb_correct']

THEOREMS += ['C16_callback_loop_structure', 'C16_callback_loop_source_is_model']
THEOREMS += ['C16_callback_loop8_source_is_model', 'C16_callback_loop8_source_is_model_build', 'C16_callback_loop4_source_is_model',
             'C16_callback_loop8_source_nonvacuous']


def to_bp_row(logic, codes, mdim):
    return logic.mv_to_bp(np.asarray(codes, dtype=np.uint8)[np.newaxis, :])[0, :mdim]


def run_with_injection(c, m, stim, target, newvals, reuse=False, strip=False):
    """Runs LogicSim with a callback that records every call and overwrites line `target` (None = identity)."""
    from kyupy import logic
    mdim = {2: 1, 4: 2, 8: 3}[m]
    calls = []

    def cb(line, values):
        full = np.zeros((3, values.shape[-1]), dtype=np.uint8)
        full[:mdim] = values
        if mdim == 1:
            full[1] = values[0]
        calls.append((line.index, logic.bp_to_mv(full[np.newaxis])[0, :stim.shape[1]].copy(), type(line).__name__))
        if target is not None and line.index == target:
            values[...] = to_bp_row(logic, newvals, mdim)
    sim, s1, s0 = lc.run_logicsim(c, m, stim, reuse, strip, inject_cb=cb)
    return sim, s1, calls


def check_case(c, m, stim, target, newvals):
    """Returns None or a description of what fails."""
    sim0, s1_plain, _ = lc.run_logicsim(c, m, stim, False, False)
    mask = lc.ppo_mask(sim0)
    nl = len(c.lines)
    expected_seq = [int(o[1]) for o in sim0.ops if o[1] < nl]
    # identity callback
    sim, s1_id, calls = run_with_injection(c, m, stim, None, None)
    if [x[0] for x in calls] != expected_seq:
        return f'callback call sequence {[x[0] for x in calls][:12]}... differs from the evaluation order of the signals {expected_seq[:12]}...'
    if any(x[2] != 'Line' for x in calls):
        return 'callback did not receive a Line object'
    if not np.array_equal(s1_id, s1_plain):
        return 'an identity callback changed the results'
    A = on.Alg2 if m == 2 else on.Alg8
    for lane in range(min(stim.shape[1], 2)):
        sv = stim[:, lane].tolist() if m != 2 else (stim[:, lane] == 3).astype(int).tolist()
        memo, _ = on.evaluate(c, sv, A)
        for li, vals, _ in calls:
            exp = memo.get(li)
            got = int(vals[lane]) if m != 2 else int(vals[lane] == 3)
            if exp is not None and exp != got:
                return f'callback for line {li} lane {lane} was given value {got}, freshly computed value is {exp}'
    # any callable is a callback -- also an object whose truth value is False (a list subclass that records what it is shown, still empty)
    class Recorder(list):
        def __call__(self, line, values):
            self.append(line.index)
    rec = Recorder()
    lc.run_logicsim(c, m, stim, False, False, inject_cb=rec)
    if list(rec) != expected_seq:
        return f'a callback OBJECT with a False truth value (empty list subclass with __call__) was shown {list(rec)[:12]}..., the evaluated signals are {expected_seq[:12]}...'
    if target is None:
        return None
    # overriding callback
    sim, s1_inj, calls = run_with_injection(c, m, stim, target, newvals)
    for lane in range(stim.shape[1]):
        sv = stim[:, lane].tolist() if m != 2 else (stim[:, lane] == 3).astype(int).tolist()
        ov = int(newvals[lane]) if m != 2 else int(newvals[lane] == 3)
        memo, cap = on.evaluate(c, sv, A, overrides={target: ov})
        for p, v in enumerate(cap):
            if v is None or not mask[p]:
                continue
            got = int(s1_inj[p, lane]) if m != 2 else int(s1_inj[p, lane] == 3)
            if v != got:
                return (f'after overwriting line {target} with {ov} (lane {lane}) position {p} captured {got}, a circuit in which that '
                        f'line is driven with {ov} gives {v}')
    # an injection affects THAT propagation only: a plain propagation on the same simulator object afterwards gives the plain results
    import io, contextlib
    from kyupy import logic
    with contextlib.redirect_stdout(io.StringIO()):
        sim.s[0] = logic.mv_to_bp(stim)
        sim.s_to_c(); sim.c_prop(); sim.c_to_s()
    s1_after = logic.bp_to_mv(sim.s[1])[:, :stim.shape[1]]
    if not np.array_equal(s1_after[mask], s1_plain[mask]):
        p, lane = [int(x) for x in np.argwhere(s1_after != s1_plain)[0]]
        return (f'a plain propagation AFTER the run that overwrote line {target} still differs from the plain results: position {p} lane {lane} '
                f'captured {int(s1_after[p, lane])}, plain {int(s1_plain[p, lane])}')
    # the same must hold with memory reuse and with stripped forks (the injected signal is still evaluated there unless it
    # is a stripped fan-out branch)
    for reuse, strip in ((True, False), (False, True), (True, True)):
        if strip and not all(len(f.ins) > 0 and f.ins[0] is not None for f in c.forks.values()):
            continue
        simo, s1o, callso = run_with_injection(c, m, stim, target, newvals, reuse, strip)
        if target not in [x[0] for x in callso]:
            continue
        for lane in range(stim.shape[1]):
            sv = stim[:, lane].tolist() if m != 2 else (stim[:, lane] == 3).astype(int).tolist()
            ov = int(newvals[lane]) if m != 2 else int(newvals[lane] == 3)
            memo, cap = on.evaluate(c, sv, A, overrides={target: ov})
            for p, v in enumerate(cap):
                if v is None or not mask[p]:
                    continue
                got = int(s1o[p, lane]) if m != 2 else int(s1o[p, lane] == 3)
                if v != got:
                    return (f'c_reuse={reuse} strip_forks={strip}: after overwriting line {target} with {ov} (lane {lane}) position {p} '
                            f'captured {got}, a circuit in which that line is driven with {ov} gives {v}')
    # nothing upstream changes: every signal evaluated before the target holds its plain value
    from kyupy import logic
    pos = expected_seq.index(target)
    for li in expected_seq[:pos]:
        if not np.array_equal(sim.c[sim.c_locs[li]], sim0.c[sim0.c_locs[li]]):
            return f'line {li}, evaluated before the injected line {target}, changed'
    return None


def const_circuit(rng):
    """Directed shape: constant-0 drivers (tie-low cells, buffers with an open input) next to other readers of the constant -- gates with
    an open pin, a tie-high cell (inverter with an open input) -- evaluated after them; the injection target is a constant-0 line."""
    from kyupy.circuit import Circuit, Node, Line
    c = Circuit('const')
    nets = []
    for i in range(rng.randint(1, 3)):
        pi = Node(c, f'i{i}', 'input'); c.io_nodes.append(pi)
        f = Node(c, f'i{i}', '__fork__'); Line(c, pi, f); nets.append(f)
    consts = []
    for i in range(rng.randint(1, 3)):
        k = Node(c, f'k{i}', rng.choice(['__const0__', 'BUF1', 'buf', 'tiel']))
        f = Node(c, f'k{i}', '__fork__'); l = Line(c, k, f); nets.append(f); consts.append(l)
    if rng.random() < 0.6:
        k = Node(c, 'h0', rng.choice(['__const1__', 'INV1', 'tieh']))
        f = Node(c, 'h0', '__fork__'); Line(c, k, f); nets.append(f)
    for g in range(rng.randint(2, 6)):
        kind, ar = rng.choice([('OR2', 2), ('AND2', 2), ('XOR2', 2), ('or3', 3), ('AO21', 3), ('MUX21', 3), ('NOR2', 2), ('XNOR2', 2)])
        cell = Node(c, f'g{g}', kind)
        open_pin = rng.randrange(ar) if rng.random() < 0.5 else None
        for p in range(ar):
            if p != open_pin:
                Line(c, rng.choice(nets), (cell, p))
        f = Node(c, f'g{g}', '__fork__'); Line(c, cell, f); nets.append(f)
    for i, f in enumerate(rng.sample(nets, min(len(nets), rng.randint(2, 4)))):
        po = Node(c, f'o{i}', 'output'); c.io_nodes.append(po); Line(c, f, po)
    return c, rng.choice(consts).index


def run(ck):
    import random
    ok_t = sk.regen_tables(ck)
    from harness import lsim_drivers_corr as ld
    ok_drv = ld.translate_drivers(ck)   # evaluation loops incl. the callback statement (Gen/LogicSimDriversSrc.v)
    ck.prove('C16', THEOREMS)
    if ok_t:
        sk.validate_dispatch(ck, ['disp2_cb', 'disp4_cb', 'disp8_cb'])
    drv_fails = ld.run(ck, random.Random(ck.seed * 7919 + 1603), ck.scale(36, 300)) if ok_drv else []
    rng = random.Random(ck.seed * 7919 + 16)
    nrng = np.random.default_rng(ck.seed + 16)
    ncirc = ck.scale(45, 900)
    coq_cases, meta, fails = [], [], []
    for i in range(ncirc):
        m = rng.choice([2, 4, 8])
        values = {2: [0, 3], 4: [0, 1, 2, 3], 8: list(range(8))}[m]
        c, a, sims, stim = sk.gen_case(rng, nrng, values)
        forced = None
        if i % 5 == 4:      # directed: inject at a constant-0 line
            c, forced = const_circuit(rng)
            stim = np.array(values, dtype=np.uint8)[nrng.integers(0, len(values), size=(len(c.s_nodes), sims))]
            ck.count(1, 'constant-line injections')
        sims = stim.shape[1]
        sim0, err = sk.safe(lc.run_logicsim, c, m, stim, False, False)
        desc = {'circuit': cg.describe(c), 'm': m, 'stimulus': stim.tolist()}
        if err is not None:
            fails.append((desc, 'raises ' + err[-300:]))
            continue
        lines_eval = [int(o[1]) for o in sim0[0].ops if o[1] < len(c.lines)]
        target = rng.choice(lines_eval) if lines_eval else None
        if forced is not None and forced in lines_eval:
            target = forced
        newvals = np.array(values, dtype=np.uint8)[nrng.integers(0, len(values), size=sims)]
        if forced is not None:
            newvals[:] = 3 if m == 2 else newvals     # a non-zero value on the constant line
            newvals[0] = 3
        used = i % 3 == 1       # every simulator of this case has already simulated another batch
        desc.update({'target': target, 'newvals': newvals.tolist(), 'used_simulator': used})
        lc.WARM['on'] = used
        what, err = sk.safe(check_case, c, m, stim, target, newvals)
        lc.WARM['on'] = False
        ck.count(int(used), 'used-simulator rounds')
        ck.count(sims, f'm={m}')
        ck.nontrivial(sk.circuit_fingerprint(c) + (m, target))
        if err is not None:
            fails.append((desc, 'raises ' + err[-400:]))
            continue
        if what:
            fails.append((desc, what))
            continue
        if m != 2 and target is not None:
            sim, s1_inj, calls = run_with_injection(c, m, stim, target, newvals)
            lane = 0
            coq_cases.append(
                f'opt_eqb (pair_eqb (list_eqb Nat.eqb) (list_eqb code_eqb)) (sim_case8_cb {cg.coq_netlist(c)} false false '
                f'{cg.coq_list(stim[:, lane].tolist(), lambda x: lc.CODE[x])} (repeat Una {stim.shape[0]}) {target} {lc.CODE[int(newvals[lane])]}) '
                f'(Some ({cg.coq_list([x[0] for x in calls])}, {cg.coq_list(s1_inj[:, lane].tolist(), lambda x: lc.CODE[x])}))')
            meta.append(desc)
        if i < 2:
            ck.sample({'m': m, 'nodes': len(c.nodes), 'injected_line': target, 'new_values': newvals.tolist()[:4]})
    ck.rule('random circuits x logics 2/4/8 x random injected signal x random injected values per lane; recorded call sequence, values '
            'seen by the callback, identity run, overridden run vs a circuit with that signal driven, upstream signals untouched')
    ok, out = ck.coq_eval('cb', lc.cases_file(coq_cases)) if coq_cases else (True, '= [] : list nat')
    idx = cg.parse_nat_list(out) if ok else None
    ck.obligation(f'Coq model of c_prop with callback (call sequence + captured results) = implementation on {len(coq_cases)} injections',
                  idx == [], 'correspondence', '' if idx == [] else out[-600:])
    ck.trust('modelled, not verified: the callback protocol of LogicSim.c_prop (Model/LogicSimModel.v prop1_cb; correspondence); proved about '
             'that model (Proofs/LogicSimGlue.v): c_prop_cb on the SimOps memory map refines exec_ops_cb of Model/OpSem.v, so C16_trace / '
             '_identity / _upstream / _override hold for the compared entry point sim_case8_cb (C16_sim_case8_cb_correct)')
    if not fails:
        for key, what, rp in drv_fails[:3]:
            ck.fail(key, what, rp, found_input=False)
    for desc, what in fails[:5]:
        ck.fail(f'inject_cb:m={desc["m"]}', f'LogicSim(m={desc["m"]}).c_prop(inject_cb): ' + what,
                {'component': 'logic_sim.LogicSim.c_prop(inject_cb)', 'input': desc, 'actual': what})
    if not fails and idx:
        for j in idx[:3]:
            ck.fail('model-disagrees', 'Coq model and implementation disagree', {'component': 'sim_case8_cb', 'input': meta[j]}, found_input=False)


def replay(rp):
    inp = rp['input']
    c = cg.from_description(inp['circuit'])
    lc.WARM['on'] = bool(inp.get('used_simulator'))
    what, err = sk.safe(check_case, c, inp['m'], np.array(inp['stimulus'], dtype=np.uint8), inp.get('target'),
                        np.array(inp.get('newvals', []), dtype=np.uint8))
    lc.WARM['on'] = False
    return err is not None or what is not None
