"""C10 -- copy, pickle, fork elimination and cell substitution preserve function."""
import io
import contextlib
import itertools
import pickle
import random
import traceback
import numpy as np

from harness import circgen as cg, oracle_net as on, cell_corr
from harness import circuit_view_corr as vc
from harness import subst_sem_corr as ssc
from harness import resolve_sem_corr as rsc

RSNAPS = []     # resolve cases for the per-case tie of the loop theorem C10_resolve_function (harness/resolve_sem_corr.py)
SNAPS = []      # substitute cases for the per-case tie of the theorems C10_substitute_* (harness/subst_sem_corr.py)

# copy / pickle / eliminate_1to1_forks over the edit model Model/Circuit.v (substitute / resolve: differential testing below)
THEOREMS = ['C10_view_wf', 'C10_history_view_wf',
            'C10_copy_view', 'C10_pickle_view', 'C10_pin_equiv_solution', 'C10_copy_solution', 'C10_pickle_solution',
            'C10_copy_view_not_equal',
            'C10_csol_iff_solution', 'C10_solution_iff_csol', 'C10_eliminate_function', 'C10_eliminate_solution_view',
            'C10_sem_lut_buf',
            'C10_eliminate_s_names', 'C10_eliminate_s_names_perm', 'C10_eliminate_state_order_refuted',
            'C10_eliminate_order_kept', 'C10_state_first_b_sound', 'C10_order_kept_example', 'C10_example_solution',
            'C10_eliminate_driverless_fork_kept']
# substitute on arbitrary implementations (Properties/C10.v section 6; Proofs/CircuitSubstGlue.v: structure for all inputs,
# CircuitSubstSem[Gen].v: semantics from the structure, CircuitDanglingSem.v: clean-up, CircuitSubstMain.v: assembly,
# CircuitSubstCheck.v: per-case decision procedure, CircuitSubstExample.v / CircuitSubstWitness.v: non-vacuity and D22 / D21 / D29)
THEOREMS_SUBST = ['C10_substitute_split', 'C10_substitute_pre_glue', 'C10_pure_ports_b_sound', 'C10_subst_glue_b_sound',
                  'C10_glue_function', 'C10_substitute_pre_function', 'C10_substitute_function',
                  'C10_remove_dangling_function', 'C10_cleanup_function', 'C10_substitute_function_full', 'C10_subst_full_unfold',
                  'C10_substitute_pre_function_checked', 'C10_substitute_example', 'C10_substitute_example_pure',
                  'C10_substitute_d22_refuted', 'C10_substitute_d21_refuted', 'C10_substitute_state_order_refuted',
                  'C10_substitute_pure_ports_needed']
THEOREMS = THEOREMS + THEOREMS_SUBST
# resolve_tlib_cells as ONE theorem over its loop (Properties/C10.v section 7; Proofs/CircuitResolveDang.v: clean-up with unresolved
# library instances, CircuitResolveGlue.v: one substitution among unresolved instances, CircuitResolveSem.v: the loop)
THEOREMS_RESOLVE = ['C10_resolve_function', 'C10_resolve_function_checked', 'C10_lib_total_b_sound', 'C10_resolve_ports_kept',
                    'C10_rsol_no_lib', 'C10_resolve_step', 'C10_resolve_trace_is_loop', 'C10_substitute_ids_fresh', 'C10_resolve_example']
THEOREMS += [t for t in THEOREMS_RESOLVE]
# library clause (Properties/C10Lib.v): every cell definition of the five libraries x {all pins connected (every name), every
# single pin unconnected (first name), no output connected (every name)}; exceptions = known findings D15 / D21 / D22, each
# with a *_refuted theorem
THEOREMS_LIB = cell_corr.THEOREMS_LIB
# source tie of eliminate_1to1_forks (Properties/C10.v section 9; translate/gen_circuit_elim.py -> Gen/CircuitElimSrc.v,
# Proofs/CircuitElimSrcProofs.v, Proofs/CircuitElimSrcExample.v)
THEOREMS_ELIMSRC = ['C10_eliminate_source_is_model', 'C10_eliminate_source_is_model_ceq', 'C10_eliminate_body_source_is_model',
                    'C10_eliminate_source_example']
THEOREMS += THEOREMS_ELIMSRC


def s_names(c):
    return [(n.name, ) for n in c.s_nodes]


def s_keys(c):
    return [(n.name, n.kind) for n in c.s_nodes]


def capture_table(c, patterns):
    """2-valued LogicSim results at all s_node positions for the given stimulus patterns (list of bit lists over s_nodes)."""
    from kyupy import logic, logic_sim
    with contextlib.redirect_stdout(io.StringIO()):
        s = logic_sim.LogicSim(c, sims=len(patterns), m=2)
    stim = (np.array(patterns, dtype=np.uint8).T * 3).astype(np.uint8)
    s.s[0] = logic.mv_to_bp(stim)
    s.s_to_c(); s.c_prop(); s.c_to_s()
    res = logic.bp_to_mv(s.s[1])[:, :len(patterns)]
    mask = np.zeros(s.s_len, dtype=bool)
    mask[s.poppo_s_locs] = True
    return np.where(mask[:, None], (res == 3).astype(int), -1)


def patterns_for(n, rng, limit=64):
    if n <= 6:
        return [list(p) for p in itertools.product((0, 1), repeat=n)]
    return [[rng.randint(0, 1) for _ in range(n)] for _ in range(limit)]


def same_function(c1, c2, rng, what, reordered=None):
    """None if c2 has the same interface names/order and truth table as c1.  If only the ORDER of the state elements
    changed (same ports in the same order, same set of state elements) the function is still compared, position by
    name, and the reordering is reported through reordered[0]."""
    n1, n2 = s_names(c1), s_names(c2)
    k1, k2 = s_keys(c1), s_keys(c2)
    perm = list(range(len(n1)))
    if n1 != n2:
        nio = len(c1.io_nodes)
        if reordered is not None and len(c2.io_nodes) == nio and k1[:nio] == k2[:nio] and sorted(k1) == sorted(k2) \
                and len(set(k1)) == len(k1):
            perm = [k2.index(k) for k in k1]        # position in c2 of the s_node at position p of c1
            reordered.append(f'{what}: order of state elements changed: {[x[0] for x in n1[nio:]]} -> {[x[0] for x in n2[nio:]]}')
        else:
            return f'{what}: names/order of ports and state elements changed: {n1[:8]} -> {n2[:8]}'
    pats = patterns_for(len(n1), rng)
    if not pats or not n1:
        return None
    pats2 = []
    for pt in pats:
        q = [0] * len(pt)
        for p, v in enumerate(pt):
            q[perm[p]] = v
        pats2.append(q)
    t1, t2 = capture_table(c1, pats), capture_table(c2, pats2)[perm, :]
    if not np.array_equal(t1, t2):
        p, k = np.argwhere(t1 != t2)[0]
        return f'{what}: position {p} ({n1[p][0]}) for stimulus {pats[k]} was {t1[p, k]}, now {t2[p, k]}'
    return None


def driverless_1to1_forks(c):
    """non-port forks with exactly one reader and no driver: the stub forks substitute leaves for unconnected instance inputs (D38)"""
    ios = set(c.io_nodes)
    return [n.name for n in c.forks.values() if n not in ios and len(n.outs) == 1 and (len(n.ins) < 1 or n.ins[0] is None)]


def eliminate_after(r, rng, what):
    """the composition of the property: eliminate_1to1_forks() on a (resolved) circuit must not raise, must leave a consistent graph,
    must keep every fork without driver, and must keep names and function (order of state elements: D29).  None or a message."""
    from harness import circuit_edit as ce
    stubs = driverless_1to1_forks(r)
    e = r.copy()
    try:
        e.eliminate_1to1_forks()
    except Exception as ex:
        return f'{what}: eliminate_1to1_forks() raises {type(ex).__name__}: {ex} (forks with one reader and no driver: {stubs[:4]})'
    msg = ce.invariant(e)
    if msg:
        return f'{what}: inconsistent after eliminate_1to1_forks(): {msg}'
    gone = [s for s in stubs if s not in e.forks]
    if gone:
        return f'{what}: eliminate_1to1_forks() removed the driverless forks {gone[:4]}'
    return same_function(r, e, rng, what + ' -> eliminate', [])


def open_input_host(rng, tlib, kinds):
    """one library instance with ONE input pin unconnected and (mostly) only one output connected: after resolve_tlib_cells the stub
    fork of that input tends to have no driver and a single reader (D38)"""
    for _ in range(20):
        kind = rng.choice(kinds)
        impl, pins = tlib.cells[kind]
        ins = [n for n, (i, o) in pins.items() if not o]
        outs = [n for n, (i, o) in pins.items() if o]
        if len(ins) >= 2 and outs:
            break
    opened = rng.choice(ins)
    co = set(outs) if rng.random() < 0.3 else {rng.choice(outs)}
    return kind, opened, co, instance_circuit(tlib, kind, set(ins) - {opened}, co)


def transform_sequence(rng, start=None, fixed_steps=None):
    """random circuit of simulation primitives (or the given circuit); copy / pickle / eliminate in random order"""
    # half of the circuits get arbitrary node / line creation orders (forks before cells, a state element last)
    if start is None:
        c, a = cg.gen_circuit(rng, allow_dangling=False, permute=rng.random() < 0.5)
        desc = {'kind': 'sequence', 'circuit': cg.describe(c), 'steps': []}
    else:
        c, desc = start
        desc = dict(desc, kind='sequence', circuit=cg.describe(c), steps=[])
    cur = c
    reordered = []
    for k in range(len(fixed_steps) if fixed_steps is not None else rng.randint(1, 4) if start is None else rng.randint(2, 4)):
        step = fixed_steps[k] if fixed_steps is not None else \
            rng.choice(['copy', 'pickle', 'eliminate'] if start is None else ['copy', 'pickle', 'eliminate', 'eliminate'])
        desc['steps'].append(step)
        if step == 'copy':
            nxt = cur.copy()
        elif step == 'pickle':
            nxt = pickle.loads(pickle.dumps(cur))
        else:
            nxt = cur.copy()
            stubs = driverless_1to1_forks(nxt)
            try:
                nxt.eliminate_1to1_forks()
            except Exception as ex:
                desc['class'] = 'eliminate-raises'
                return desc, (f'{" -> ".join(desc["steps"])}: eliminate_1to1_forks() raises {type(ex).__name__}: {ex} '
                              f'(forks with one reader and no driver: {stubs[:4]})')
            if [x for x in stubs if x not in nxt.forks]:
                return desc, f'{" -> ".join(desc["steps"])}: eliminate_1to1_forks() removed a fork without driver'
        # only fork elimination may be excused for reordering state elements (known finding D29); the function is still compared
        from harness import circuit_edit as ce
        inv = ce.invariant(nxt)       # every port still a node of the circuit, indices, pins, dictionaries, statistics
        if inv:
            return desc, f'{" -> ".join(desc["steps"])}: inconsistent circuit: {inv}'
        msg = same_function(cur, nxt, rng, ' -> '.join(desc['steps']), reordered if step == 'eliminate' else None)
        if msg:
            return desc, msg
        if step != 'eliminate' and (nxt != cur or [n.index for n in nxt.nodes] != list(range(len(nxt.nodes)))):
            return desc, f'{step}: the copy is not structurally equal to the original'
        cur = nxt
    if reordered:
        desc['class'] = 'eliminate-state-order'
        return desc, reordered[0]
    return desc, None


def bench_style_circuit(rng):
    """a circuit whose PORTS ARE FORKS (ISCAS-bench style, as every TechLib implementation circuit): statements in any order (use before
    definition), INPUT / OUTPUT declarations at any position (also after all assignments, so that port forks get HIGH node indices),
    outputs that are also read by one or several internal gates, buffer chains (many 1:1 forks to eliminate)"""
    from kyupy import bench
    if rng.random() < 0.05:
        # one net with a fan-out beyond 256 branches (an unbuffered clock / enable / reset net): pin numbers of fork outputs exceed one byte
        w = rng.choice([257, 300, 520])
        outs = sorted(rng.sample(range(w), 4))
        text = 'INPUT(a, b)\n' + ''.join(f'g{k} = {rng.choice(["AND", "OR", "XOR", "NAND"])}(a, {"b" if k % 3 else f"g{k - 1}" if k else "b"})\n' for k in range(w)) + \
               f'OUTPUT({", ".join(f"g{k}" for k in outs)})\n'
        return bench.parse(text), text
    chainy = rng.random() < 0.5        # long chains of single-reader gates, outputs at the end: more forks get eliminated than nodes follow a port fork
    n_in, n_g = rng.randint(1, 3), rng.randint(5, 10) if chainy else rng.randint(2, 8)
    ins = [f'i{k}' for k in range(n_in)]
    sigs, stmts = list(ins), []
    for g in range(n_g):
        kind = rng.choice(['AND', 'OR', 'NAND', 'NOR', 'XOR', 'NOT', 'BUF', 'BUF', 'NOT', 'BUF'])
        # mostly chains: the latest signal is read next (one reader per fork), sometimes one of the last few, sometimes any
        pick = lambda: sigs[-1] if rng.random() < (0.85 if chainy else 0.5) else rng.choice(sigs[-3:] if rng.random() < 0.6 else sigs)
        ops = [pick() for _ in range(1 if kind in ('NOT', 'BUF') else 2)]
        stmts.append(f'g{g} = {kind}({", ".join(ops)})')
        sigs.append(f'g{g}')
    # outputs mostly near the end of the chain (and then usually read once more by the gate that follows)
    pool = sigs[n_in:]
    outs = []
    for _ in range(rng.randint(1, min(3, n_g))):
        x = rng.choice(pool[-2:] if chainy and rng.random() < 0.8 else pool[-3:] if rng.random() < 0.7 else pool)
        if x not in outs:
            outs.append(x)
    if rng.random() < (0.2 if chainy else 0.5):
        rng.shuffle(stmts)
    decls = [f'INPUT({", ".join(ins)})'] if rng.random() < 0.5 else [f'INPUT({x})' for x in ins]
    decls += [f'OUTPUT({", ".join(outs)})'] if rng.random() < 0.5 else [f'OUTPUT({x})' for x in outs]
    mode = rng.choice(['first', 'last', 'last', 'mixed'])
    if mode == 'first':
        lines = decls + stmts
    elif mode == 'last':
        lines = stmts + decls
    else:
        lines = list(stmts)
        for d in decls:
            lines.insert(rng.randint(0, len(lines)), d)
    text = '\n'.join(lines) + '\n'
    return bench.parse(text), text


def instance_circuit(tlib, kind, connected_ins, connected_outs):
    """a circuit with one instance of `kind`; the chosen pins are wired to ports through forks"""
    from kyupy.circuit import Circuit, Node, Line
    impl, pins = tlib.cells[kind]
    c = Circuit('inst')
    u = Node(c, 'u1', kind)
    for name, (idx, is_out) in sorted(pins.items(), key=lambda kv: (kv[1][1], kv[1][0])):
        if is_out and name in connected_outs:
            f = Node(c, 'w_' + name)
            Line(c, (u, idx), f)
            o = Node(c, 'po_' + name, 'output')
            Line(c, f, o)
            c.io_nodes.append(o)
        elif not is_out and name in connected_ins:
            i = Node(c, 'pi_' + name, 'input')
            f = Node(c, 'w_' + name)
            Line(c, i, f)
            Line(c, f, (u, idx))
            c.io_nodes.append(i)
    return c


def expected_instance_table(tlib, kind, connected_ins, connected_outs, pats_of):
    """what the instance should compute: its implementation circuit with unconnected inputs at 0; state = the
    implementation's state elements"""
    impl, pins = tlib.cells[kind]
    ins = [n for n in impl.io_nodes if len(n.ins) == 0]
    outs = [n for n in impl.io_nodes if len(n.ins) > 0]
    state = [n for n in impl.s_nodes[len(impl.io_nodes):]]
    return impl, ins, outs, state


def resolve_cell(lib, tlib, kind, rng):
    impl, pins = tlib.cells[kind]
    in_names = [n for n, (i, o) in pins.items() if not o]
    out_names = [n for n, (i, o) in pins.items() if o]
    # all pins connected, then a random subset
    subsets = [(set(in_names), set(out_names))]
    if in_names or out_names:
        subsets.append((set(x for x in in_names if rng.random() < 0.7), set(x for x in out_names if rng.random() < 0.7)))
    if len(in_names) >= 2 and out_names:
        # one INPUT pin unconnected, one output connected: resolve, then eliminate_1to1_forks on the result (D38)
        opened = rng.choice(in_names)
        subsets.append((set(in_names) - {opened}, {rng.choice(out_names)}))
    for ci, co in subsets:
        desc = {'kind': 'resolve', 'library': lib, 'cell': kind, 'connected_inputs': sorted(ci), 'connected_outputs': sorted(co)}
        c = instance_circuit(tlib, kind, ci, co)
        before_names = s_names(c)
        try:
            r = c.copy()
            snap = rsc.snapshot(r, tlib)
            r.resolve_tlib_cells(tlib)
        except Exception as e:
            return desc, f'resolve_tlib_cells raises {type(e).__name__}: {e}'
        snap['desc'] = dict(desc)
        RSNAPS.append(rsc.finish(snap, r))
        if any(n.kind in tlib.cells for n in r.nodes):
            return desc, 'library cells remain after resolving'
        after_names = s_names(r)
        if before_names != after_names:
            cls = 'names'
            if len(after_names) > len(before_names) and after_names[:len(before_names)] == before_names:
                cls = 'adds-state'
            elif not co and len(after_names) < len(before_names) and before_names[:len(after_names)] == after_names:
                cls = 'drops-state-without-outputs'
            desc['class'] = cls
            return desc, f'resolving changes the names/order of ports and state elements: {before_names} -> {after_names}'
        # function: compare with the implementation circuit evaluated directly (unconnected inputs read 0)
        ins = [n for n in impl.io_nodes if len(n.ins) == 0]
        outs = [n for n in impl.io_nodes if len(n.ins) > 0]
        impl_state = impl.s_nodes[len(impl.io_nodes):]
        res_state = r.s_nodes[len(r.io_nodes):]
        if len(impl_state) != len(res_state):
            return desc, f'implementation has {len(impl_state)} state elements, the resolved instance {len(res_state)}'
        pis = [n for n in r.io_nodes if n.kind == 'input']
        nvar = len(pis) + len(res_state)
        for bits in patterns_for(nvar, rng, 32):
            pv = dict(zip([p.name[3:] for p in pis], bits[:len(pis)]))
            sv = bits[len(pis):]
            stim_impl = [0] * len(impl.s_nodes)
            for i, n in enumerate(impl.s_nodes):
                if i < len(impl.io_nodes):
                    stim_impl[i] = pv.get(n.name, 0)
                else:
                    stim_impl[i] = sv[i - len(impl.io_nodes)]
            _, cap_i = on.evaluate(impl, stim_impl, on.Alg2)
            stim_r = [0] * len(r.s_nodes)
            for i, n in enumerate(r.s_nodes):
                if i < len(r.io_nodes):
                    stim_r[i] = pv.get(n.name[3:], 0) if n.kind == 'input' else 0
                else:
                    stim_r[i] = sv[i - len(r.io_nodes)]
            t = capture_table(r, [stim_r])[:, 0]
            exp = {n.name: cap_i[i] for i, n in enumerate(impl.s_nodes) if cap_i[i] is not None and i < len(impl.io_nodes)}
            for i, n in enumerate(r.s_nodes):
                if i < len(r.io_nodes):
                    if n.kind == 'output' and exp.get(n.name[3:]) is not None and t[i] != exp[n.name[3:]]:
                        fam = on.family(kind) if not kind.startswith(('AO', 'OA')) else None
                        top = sorted(in_names, key=lambda x: pins[x][0])[-1] if in_names else None
                        if fam in ('and', 'nand') and top not in ci and len(impl.nodes) - len(impl.io_nodes) == 1:
                            desc['class'] = 'variadic-high-pin-unconnected'
                        return desc, f'output {n.name[3:]} for inputs {pv} state {sv}: resolved instance gives {t[i]}, implementation {exp[n.name[3:]]}'
                else:
                    j = len(impl.io_nodes) + (i - len(r.io_nodes))
                    if cap_i[j] is not None and t[i] >= 0 and t[i] != cap_i[j]:
                        return desc, f'next state for inputs {pv} state {sv}: resolved instance gives {t[i]}, implementation {cap_i[j]}'
        # the composition "resolve, then eliminate forks": names, order and function before / after
        msg = eliminate_after(r, rng, 'resolve_tlib_cells')
        if msg:
            desc['class'] = 'eliminate-after-resolve'
            return desc, msg
    return None, None


def substitute_random(rng):
    """random host circuit with one cell replaced by a random implementation shape"""
    from kyupy import bench
    from kyupy.circuit import Circuit, Node, Line
    shapes = ['input(a,b) output(z) z=AND2(a,b)',
              'input(a,b,c) output(y,z) t=OR2(a,b) y=AND2(t,c) z=XOR2(t,a)',           # multi-output, internal fan-out
              'input(a,b) output(y,z) y=NAND2(a,b) z=INV1(y)',                         # output read internally
              'input(a,b,c) output(z) z=BUF1(a)',                                      # inputs nobody reads
              'input(a) output(y,z) y=INV1(a) z=BUF1(a)',                              # input with several readers
              'input(a,b) output(z) t=AND2(a,b) u=OR2(a,b) z=XOR2(t,u)']
    shapes += ['input(a,b,c) output(z) z=AO22(a,b,a,c)',                               # one input on two pins of the same gate
               'input(a,b) output(y,z) y=AND2(a,a) z=OR3(a,b,a)']
    if rng.random() < 0.6:
        # random implementation: operands drawn with replacement (same signal on several pins, fan-out, unread inputs)
        ni, ng = rng.randint(1, 4), rng.randint(1, 4)
        sigs = [f'i{k}' for k in range(ni)]
        gates = []
        for g in range(ng):
            kind, ar = rng.choice([('AND2', 2), ('OR2', 2), ('XOR2', 2), ('NAND3', 3), ('AO21', 3), ('AO22', 4), ('MUX21', 3), ('INV1', 1), ('NOR4', 4)])
            gates.append(f'g{g}={kind}(' + ','.join(rng.choice(sigs) for _ in range(ar)) + ')')
            sigs.append(f'g{g}')
        outs = rng.sample([f'g{g}' for g in range(ng)], rng.randint(1, min(3, ng)))
        txt = f'input({",".join(f"i{k}" for k in range(ni))}) output({",".join(outs)}) ' + ' '.join(gates)
    else:
        txt = rng.choice(shapes)
    impl = bench.parse(txt)
    impl.eliminate_1to1_forks()
    ins = [n for n in impl.io_nodes if len(n.ins) == 0]
    outs = [n for n in impl.io_nodes if len(n.ins) > 0]
    desc = {'kind': 'substitute', 'impl': txt}
    host = Circuit('host')
    u = Node(host, 'u1', 'MYCELL')
    conn_in = [rng.random() < 0.85 for _ in ins]
    conn_out = [rng.random() < 0.85 for _ in outs]
    desc['connected'] = [conn_in, conn_out]
    pis = []
    for k, n in enumerate(ins):
        if conn_in[k]:
            p = Node(host, f'pi{k}', 'input'); host.io_nodes.append(p); pis.append((k, p))
            f = Node(host, f'wi{k}')
            Line(host, p, f); Line(host, f, (u, k))
    pos = []
    for k, n in enumerate(outs):
        if conn_out[k]:
            f = Node(host, f'wo{k}')
            Line(host, (u, k), f)
            o = Node(host, f'po{k}', 'output'); host.io_nodes.append(o); pos.append((k, o))
            Line(host, f, o)
            if rng.random() < 0.4:      # the output feeds more logic
                g = Node(host, f'g{k}', 'INV1'); Line(host, f, g)
                o2 = Node(host, f'pq{k}', 'output'); host.io_nodes.append(o2); Line(host, g, o2)
    # host state elements that have nothing to do with the instance (their order in s_nodes must survive), a host gate in front of an
    # instance pin (it dangles if that pin only feeds an unconnected output), and an arbitrary node / line creation order
    if rng.random() < 0.5 and pis:
        src = pis[0][1].outs[0].reader          # the fork behind the first input port
        for j in range(rng.randint(1, 3)):
            d = Node(host, f'st{j}', rng.choice(['DFF', 'dff_x1', 'LATCH']))
            Line(host, src, d)
            q = Node(host, f'pst{j}', 'output'); host.io_nodes.append(q)
            Line(host, d, q)
        desc['host_state'] = True
    if rng.random() < 0.4:
        cand = [k for k, n in enumerate(ins) if conn_in[k]]
        if cand:
            k = rng.choice(cand)
            ln = u.ins[k]
            fk = ln.driver
            ln.remove()
            g = Node(host, f'hg{k}', 'BUF1')
            Line(host, fk, g); Line(host, g, (u, k))
            desc['host_gate_at'] = k
    if rng.random() < 0.6:
        host = cg.permute_circuit(rng, host)
        u = host.cells['u1']
        pis = [(k, host.cells[p.name]) for k, p in pis]
        pos = [(k, host.cells[o.name]) for k, o in pos]
        desc['permuted'] = True
    desc['host'] = cg.describe(host)
    before, before_k = s_names(host), s_keys(host)
    snap = ssc.snapshot(host, u, impl)
    try:
        host.substitute(u, impl)
    except Exception as e:
        return desc, f'substitute raises {type(e).__name__}: {e}'
    snap['desc'] = desc
    SNAPS.append(ssc.finish(snap, host))
    reordered = None
    if before != s_names(host):
        nio, after_k = len(host.io_nodes), s_keys(host)
        if before_k[:nio] == after_k[:nio] and sorted(before_k) == sorted(after_k):
            reordered = f'substitute changes the order of the state elements: {[x[0] for x in before[nio:]]} -> {[x[0] for x in s_names(host)[nio:]]}'
        else:
            return desc, f'substitute changes the names/order of ports and state elements: {before} -> {s_names(host)}'
    for bits in patterns_for(len(pis), rng, 32):
        stim_impl = [0] * len(impl.s_nodes)
        for (k, p), b in zip(pis, bits):
            stim_impl[impl.s_nodes.index(ins[k])] = b
        _, cap_i = on.evaluate(impl, stim_impl, on.Alg2)
        stim = [0] * len(host.s_nodes)
        for (k, p), b in zip(pis, bits):
            stim[host.s_nodes.index(p)] = b
        t = capture_table(host, [stim])[:, 0]
        for k, o in pos:
            exp = cap_i[impl.s_nodes.index(outs[k])]
            if t[host.s_nodes.index(o)] != exp:
                # does the difference come from the reading "a variadic gate's arity is its highest CONNECTED pin" (known finding D22)?
                # evaluate the implementation with the readers of the unconnected inputs left unconnected instead of reading a 0 port
                cut = impl.copy()
                for kk, n in enumerate(ins):
                    if not conn_in[kk]:
                        for l in list(cut.forks[n.name].outs):
                            if l is not None:
                                l.remove()
                _, cap_c = on.evaluate(cut, stim_impl, on.Alg2)
                if cap_c[impl.s_nodes.index(outs[k])] == t[host.s_nodes.index(o)]:
                    desc['class'] = 'variadic-high-pin-unconnected'
                return desc, f'output {k} for inputs {bits}: after substitution {t[host.s_nodes.index(o)]}, implementation computes {exp}'
    if reordered:
        desc['class'] = 'state-order'
        return desc, reordered
    return desc, None


def view_correspondence(ck):
    """model view / s_names = implementation, on edit histories with eliminate / copy / pickle steps (harness/circuit_view_corr.py)"""
    rng = random.Random(ck.seed * 7919 + 1010)
    hs = vc.witness_histories(rng)
    wok, wdetail = vc.witness_check(hs)
    ck.obligation('the histories of the witness theorems C10_eliminate_state_order_refuted (s_nodes i,o,d1,d2 -> i,o,d2,d1), '
                  'C10_copy_view_not_equal (trailing None pin dropped by copy) and C10_eliminate_driverless_fork_kept (forks with one reader and '
                  'no driver survive eliminate_1to1_forks, which does not raise) show the same on the implementation', wok, 'oracle', wdetail)
    if not wok:
        ck.fail('view:witness', 'a witness history of Properties/C10.v behaves differently on the implementation: ' + wdetail,
                {'component': 'kyupy.circuit', 'input': {'view_ops': vc.STUB_HISTORY + [['elim'], ['elim']]} if 'stub' in wdetail else {},
                 'actual': wdetail})
    for i in range(ck.scale(70, 400)):
        h = vc.run_view_history(rng, rng.choice([8, 20, 40, 60] if not ck.thorough else [20, 60, 120]))
        h['style'] = 'edit'
        hs.append(h)
    for i in range(ck.scale(70, 400)):
        hs.append(vc.netlist_history(rng))
    raised = [h for h in hs if h['failure']]
    n_rem, n_sf, sf_bad = vc.order_kept_oracle(hs)
    ck.obligation(f'oracle (C10_eliminate_order_kept on the implementation): eliminate_1to1_forks from a state in which every state element '
                  f'precedes every removable fork keeps the names and order of s_nodes: {n_sf} such steps, {n_rem} of them removed forks',
                  not sf_bad and n_rem > 0, 'oracle', str(sf_bad[:2]))
    n_obs = n_tr = 0
    for h in hs:
        obs = [s for s in h['steps'] if s[1] is not None]
        n_obs += len(obs)
        n_tr += sum(1 for s in obs if s[0][0] in ('elim', 'copy', 'pickle'))
        ck.count(len(obs), 'view:' + h['style'].split(':')[0])
        for s in obs:
            if s[0][0] in ('elim', 'copy', 'pickle'):
                ck.dist['view-op:' + s[0][0]] = ck.dist.get('view-op:' + s[0][0], 0) + 1
        ck.nontrivial(('v', h['style'], len(h['steps']), tuple(s[0][0] for s in h['steps'][-6:])))
    parts = vc.chunks(hs, ck.scale(10, 40))
    outs = ck.coq_eval_many('view', [vc.cases_file([hs[i]['steps'] for i in part]) for part in parts], jobs=10, timeout=1200)
    bad, ran = [], True
    for part, (ok, out) in zip(parts, outs):
        pairs = vc.parse_pairs(out) if ok else None
        if pairs is None:
            ran = False
            bad.append(('coq', out[-300:]))
            continue
        bad += [(part[ci], k) for ci, k in pairs]
    ck.obligation(f'netlist view of the edit model = circgen.coq_netlist(real Circuit), s_names = [n.name for n in c.s_nodes], '
                  f's_nodes(view) = [n.index for n in c.s_nodes], state_first_b = the same condition on the live objects, cinv_b, io_ok_b and the closed form of s_node_ids at {n_obs} observed states '
                  f'of {len(hs)} histories ({n_tr} directly after eliminate_1to1_forks / copy / pickle)', ran and not bad and not raised,
                  'correspondence', f'failing (history, step): {bad[:6]} {[h["failure"] for h in raised[:2]]}')
    for h in raised[:2]:
        ck.fail('view:raises', f'a well-formed edit history raises: {h["failure"]}',
                {'component': 'kyupy.circuit', 'input': {'view_ops': [s[0] for s in h['steps']]}, 'actual': h['failure']})
    first = [b for b in bad if b[0] != 'coq'][:1]
    if first:
        hi, k = first[0]
        st = hs[hi]['steps']
        ck.fail('view:model-disagrees', 'netlist view / s_nodes of the model Model/Circuit.v + Model/CircuitView.v and of the real Circuit disagree '
                f'after step {k} ({ce_describe(st[k][0])})',
                {'component': 'Circuit (nodes/lines/io_nodes/s_nodes) vs Model/CircuitView.v',
                 'input': {'view_ops': [s[0] for s in st[:k + 1]], 'step': k, 'n_force': hs[hi].get('built', 0),
                           'observe_from': max(0, hs[hi].get('built', 0) - 1)},
                 'actual': {'names': st[k][1][1], 'indices': st[k][1][2]} if st[k][1] else None})
    elif bad:
        ck.fail('view:coq', 'the view correspondence cases did not evaluate', {'component': 'Model/CircuitViewCorr.v', 'input': {}, 'actual': str(bad[0][1])},
                found_input=False)


def ce_describe(op):
    from harness import circuit_edit as ce
    return ce.describe(op)


def substitute_sem_correspondence(ck, rng):
    """per-case tie of the theorems C10_substitute_*: the compared substitute cases (the truth-table stream above and a second stream
    with state elements / uneliminated forks / feedback through the host) as tables; Coq rebuilds both circuits, runs the model,
    compares the result with the real Circuit, evaluates every hypothesis checker and the glue relation (harness/subst_sem_corr.py)"""
    snaps = list(SNAPS)
    n_tt = len(snaps)
    for i in range(ck.scale(120, 1500)):
        s = ssc.sem_case(rng)
        if s is not None:
            snaps.append(s)
    del SNAPS[:]
    n_allout = sum(1 for s in snaps if s['flags'][1])
    n_allin = sum(1 for s in snaps if s['flags'][0] and s['flags'][1])
    n_d22 = sum(1 for s in snaps if not s['flags'][2])
    n_thm = sum(1 for s in snaps if s['flags'][1] and s['flags'][2])
    for s in snaps:
        ck.count(1, 'substitute-sem:' + ('all-outputs' if s['flags'][1] else 'unconnected-output'))
        ck.nontrivial(('ss', s['desc'].get('impl'), str(s['desc'].get('connected'))))
    size = 40
    parts = [list(range(k, min(k + size, len(snaps)))) for k in range(0, len(snaps), size)]
    outs = ck.coq_eval_many('substsem', [ssc.cases_file([snaps[i] for i in part]) for part in parts], jobs=10, timeout=1200)
    bad, ran = [], True
    for part, (ok, out) in zip(parts, outs):
        pairs = ssc.parse_pairs(out) if ok else None
        if pairs is None:
            ran = False
            bad.append(('coq', out[-300:]))
            continue
        bad += [(part[ci], k) for ci, k in pairs]
    ck.obligation(f'substitute, semantic theorems: on {len(snaps)} compared substitute cases ({n_tt} of the truth-table stream, {len(snaps) - n_tt} with state '
                  f'elements / uneliminated forks / feedback) the model substitute_pre + cleanup = substitute = the real Circuit after '
                  f'Circuit.substitute (nodes, lines, io_nodes), every hypothesis checker of C10_substitute_function_full holds (cinv_b, io_ok_b, '
                  f'subst_shape_b, pure_ports_b, instance is a cell and no port), the glue relation subst_glue_b holds on the state before the clean-up '
                  f'(the per-case route C10_substitute_pre_function_checked), the nodes collected for the clean-up are listed, and the connectivity / D22 '
                  f'flags computed from the live objects equal all_ins_connected_b / all_outs_connected_b / d22_free_b; C10_substitute_function_full '
                  f'applies to {len(snaps) - n_d22} cases ({n_thm} with all outputs connected = C10_substitute_function, {n_allin} of them with all inputs '
                  f'connected; {len(snaps) - n_allout} cases with an unconnected output, i.e. with clean-up), {n_d22} cases fall under D22 (d22_free_b false)',
                  ran and not bad and n_thm > 0, 'correspondence', f'failing (case, item): {bad[:6]}')
    first = [b for b in bad if b[0] != 'coq'][:3]
    for ci, k in first:
        s = snaps[ci]
        ck.fail('substitute-sem:' + str(k), f'substitute case {ci}: {ssc.CODES.get(k, k)} ({s["desc"].get("impl")}, connected {s["desc"].get("connected")})',
                {'component': 'Circuit.substitute vs Model/CircuitSubstSem.v', 'input': {'kind': 'substitute-sem', 'host': s['host'], 'u': s['u'], 'impl': s['impl'],
                                                                                     'desc': {k2: v for k2, v in s['desc'].items() if k2 != 'host'}},
                 'actual': ssc.CODES.get(k, str(k))})
    if bad and not first:
        ck.fail('substitute-sem:coq', 'the substitute cases did not evaluate', {'component': 'Model/CircuitSubstSem.v', 'input': {}, 'actual': str(bad[0][1])},
                found_input=False)


def resolve_sem_correspondence(ck, rng, libs):
    """per-case tie of the loop theorem C10_resolve_function[_checked]: the one-instance hosts of the resolve:<lib> stream and a stream of
    multi-instance hosts (harness/resolve_sem_corr.py); returns the failures of the multi-instance oracle"""
    from kyupy import techlib
    snaps = list(RSNAPS)
    del RSNAPS[:]
    n_single = len(snaps)
    fails = []
    n_multi = n_fn = n_clean_inst = 0
    for lib in libs:
        tl = getattr(techlib, lib)
        comb, seq = rsc.comb_small(tl), rsc.seq_small(tl)
        for i in range(ck.scale(14, 200)):
            try:
                snap, desc, what, cls = rsc.multi_case(rng, lib, tl, comb, seq, capture_table,
                                                       post=lambda r: eliminate_after(r, rng, 'resolve_tlib_cells'))
            except Exception:
                snap, desc, what, cls = None, {'kind': 'resolve-multi', 'library': lib}, 'raises ' + traceback.format_exc()[-400:], 'raises'
            ck.count(1, 'resolve-multi:' + lib)
            n_multi += 1
            if snap is not None:
                snaps.append(snap)
                n_inst = len(desc.get('kinds', []))
                ck.nontrivial(('rm', lib, tuple(desc.get('kinds', [])), snap['visited']))
                if snap['visited'] < n_inst:
                    n_clean_inst += 1
                if what is None and snap['d22']:
                    n_fn += 1
            if what:
                fails.append((f'resolve-multi:{lib}:{cls}', desc, what))
    n_d22 = sum(1 for s in snaps if not s['d22'])
    n_vis = sum(s['visited'] for s in snaps)
    not_flat = [s for s in snaps if not s['flat']]
    size = 30
    parts = [list(range(k, min(k + size, len(snaps)))) for k in range(0, len(snaps), size)]
    outs = ck.coq_eval_many('resolvesem', [rsc.cases_file([snaps[i] for i in part]) for part in parts], jobs=10, timeout=1200)
    bad, ran = [], True
    for part, (ok, out) in zip(parts, outs):
        pairs = rsc.parse_pairs(out) if ok else None
        if pairs is None:
            ran = False
            bad.append(('coq', out[-300:]))
            continue
        bad += [(part[ci], k) for ci, k in pairs]
    ck.obligation(f'resolve_tlib_cells, loop theorem: on {len(snaps)} compared resolve cases ({n_single} one-instance hosts of the resolve:<lib> stream, '
                  f'{len(snaps) - n_single} hosts with 2-5 instances of different cells feeding each other, creation order unrelated to the signal flow; '
                  f'{n_vis} Circuit.substitute calls in all, {n_clean_inst} multi-instance hosts in which a clean-up deleted an instance before its turn) the '
                  f'model loop resolve_tlib = its trace version resolve_trace = the real Circuit after resolve_tlib_cells with the FULL library (nodes, lines, '
                  f'io_nodes), every hypothesis checker of C10_resolve_function_checked holds (cinv_b, io_ok_b of the host; lib_ok_sem_b and lib_total_b of '
                  f'the library table restricted to the kinds that occur; no implementation node carries a name of the full library), resolve_host_ok_b '
                  f'equals the D22 / port flag computed from the live objects, the decidable conclusions hold (result consistent, io_nodes unchanged, no '
                  f'library kind left) and the number of substituted instances equals the number of Circuit.substitute calls; the theorem applies to '
                  f'{len(snaps) - n_d22} cases, {n_d22} fall under D22 (resolve_host_ok_b false)',
                  ran and not bad and not not_flat and len(snaps) - n_single > 0, 'correspondence', f'failing (case, item): {bad[:6]}')
    ck.obligation(f'oracle (multi-instance hosts): LogicSim on the resolved host = the host with every library instance evaluated through its '
                  f'implementation circuit on its own (harness/oracle_net.py, unconnected instance inputs read 0) at every output port and host '
                  f'state element, ports and names unchanged, no library cell left, result consistent: {n_multi} hosts, function compared on {n_fn}',
                  not [f for f in fails if ck.known_entry(f[0]) is None] and n_fn > 0, 'oracle', fails[0][2] if fails else '')
    first = [b for b in bad if b[0] != 'coq'][:3]
    for ci, k in first:
        s = snaps[ci]
        ck.fail('resolve-sem:' + str(k), f'resolve case {ci}: {rsc.CODES.get(k, k)} ({s["desc"].get("library")}, {s["desc"].get("cell") or s["desc"].get("kinds")})',
                {'component': 'Circuit.resolve_tlib_cells vs Model/CircuitResolveSem.v',
                 'input': {'kind': 'resolve-sem', 'library': s['desc'].get('library'), 'host': s['host'],
                           'desc': {k2: v for k2, v in s['desc'].items() if k2 != 'host'}},
                 'actual': rsc.CODES.get(k, str(k))})
    if bad and not first:
        ck.fail('resolve-sem:coq', 'the resolve cases did not evaluate', {'component': 'Model/CircuitResolveSem.v', 'input': {}, 'actual': str(bad[0][1])},
                found_input=False)
    for s in not_flat[:2]:
        ck.fail('resolve-sem:flat', 'an implementation circuit contains a node whose kind is a cell name of the library',
                {'component': 'kyupy.techlib', 'input': {'kind': 'resolve-sem', 'library': s['desc'].get('library'), 'host': s['host']}, 'actual': 'not flat'})
    return fails


ELIM_SRC_STEP = '''From KV Require Import Model.CircuitElimSrcLib Gen.CircuitElimSrc.
Definition step_p := step_src Node_init_src Node_remove_src Line_init_src Line_remove_src GrowingList_setitem_src.
Definition step_s (c : circ) (o : op) : option circ :=
  match o with Eliminate1to1 => Circuit_eliminate_1to1_forks_src c | _ => step_p c o end.
'''
FORK = '__fork__'
# nodes a f s g z r: a -> f -> g.0, s -> g.1, g -> z -> r; a, z port forks (z: one driver, one reader), f internal 1:1 fork, s driverless
ELIM_SRC_SCENARIOS = [
    [['node', 'a', FORK], ['node', 'f', FORK], ['node', 's', FORK], ['node', 'g', 'AND2'], ['node', 'z', FORK], ['node', 'r', 'BUF1'],
     ['line', 0, None, 1, None], ['line', 1, None, 3, 0], ['line', 2, None, 3, 1], ['line', 3, None, 4, None], ['line', 4, None, 5, None],
     ['io', 0, 0], ['io', 1, 4], ['elim'], ['elim']],
    # chain of internal 1:1 forks between two port forks, the LAST node is a port fork that moves into the freed slots
    [['node', 'x', 'BUF1'], ['node', 'f1', FORK], ['node', 'f2', FORK], ['node', 'f3', FORK], ['node', 'y', 'BUF1'], ['node', 'p', FORK],
     ['node', 'q', FORK], ['line', 5, None, 0, None], ['line', 0, None, 1, None], ['line', 1, None, 2, None], ['line', 2, None, 3, None],
     ['line', 3, None, 4, None], ['line', 4, None, 6, None], ['node', 'w', 'BUF1'], ['line', 6, None, 7, None],
     ['io', 0, 5], ['io', 1, 6], ['elim'], ['elim']],
]


def elim_source(ck):
    """tie T for eliminate_1to1_forks: regenerate Gen/CircuitElimSrc.v (and the primitives it calls) from the current circuit.py and
    run the translated function against the real method, full state after every step"""
    from vcheck import gen_all, core
    from harness import circuit_edit as ce
    res = gen_all.generate(['CircuitPrimsSrc', 'CircuitElimSrc'])
    err = res['CircuitElimSrc'] or res['CircuitPrimsSrc']
    ck.obligation('translate circuit.py Circuit.eliminate_1to1_forks -> Gen/CircuitElimSrc.v (statement by statement, fail-closed; the calls '
                  'n.remove() / out_line.remove() go to the translated primitives of Gen/CircuitPrimsSrc.v)', err is None, 'translation', err or '')
    ck.trust('translator translate/gen_circuit_elim.py (extends the fail-closed ast translator of translate/gen_circuit_prims.py by: '
             '`set(self.io_nodes)` and `n in ios` with Node.__hash__ / __eq__ pinned to name + kind, `for n in list(self.forks.values())` as a '
             'structural scan over the snapshot, `continue`, calls of the translated Node.remove / Line.remove; vocabulary '
             'Model/CircuitElimSrcLib.v; assumptions: no hash collision between None and a (name, kind) tuple, no write to .name / .kind '
             'inside the loop (checked syntactically)); its output is additionally run against the real method on edit histories')
    return err is None


def elim_source_correspondence(ck, gen_ok):
    from vcheck import core
    from harness import circuit_edit as ce
    src_ok = gen_ok and core.coq_make(['theories/Gen/CircuitElimSrc.vo'] + core.support_targets())[0]
    rng = random.Random(ck.seed * 7919 + 1012)
    hs = []
    for ops in ELIM_SRC_SCENARIOS:
        hs.append(ce.run_history(rng, 0, 'valid', fixed_ops=[list(o) for o in ops]))
    for ops in ce.open_input_scenarios()[::ck.scale(4, 1)] + ce.instance_scenarios(rng, ck.scale(1, 8))[:ck.scale(12, 200)]:
        hs.append(ce.run_history(rng, 0, 'valid', fixed_ops=ops))
    for i in range(ck.scale(18, 200)):
        h = ce.run_history(rng, rng.choice([12, 30, 60]), 'valid' if i % 3 else 'wild')
        # every history ends with the call under test
        h2 = ce.run_history(rng, 0, 'wild', fixed_ops=[list(o) if isinstance(o, list) else o for o in h['ops']] + [['elim']])
        hs.append(h2 if len(h2['steps']) > len(h['steps']) else h)
    n_el = sum(1 for h in hs for s in h['steps'] if s[0][0] == 'elim')
    n_rm = 0
    for h in hs:
        prev = None
        for op, clean, v in h['steps']:
            if op[0] == 'elim' and v is not None and prev is not None and len(v['nodes']) < len(prev['nodes']):
                n_rm += 1
            prev = v if v is not None else prev
    ck.count(n_el, 'eliminate steps on the translated source')
    ck.nontrivial(('elim-src', n_el, n_rm))
    bad, ran = [], src_ok
    if src_ok:
        parts = [list(range(i, min(i + 12, len(hs)))) for i in range(0, len(hs), 12)]
        texts = []
        for part in parts:
            t = ce.cases_file_both([hs[i]['steps'] for i in part])
            line = [l for l in t.splitlines() if l.startswith('Definition step_s :=')]
            assert len(line) == 1
            texts.append(t.replace(line[0] + '\n', ELIM_SRC_STEP))
        outs = ck.coq_eval_many('elimsrc', texts, jobs=8, timeout=900)
        for part, (ok, out) in zip(parts, outs):
            pairs, pairs_src = ce.parse_pairs_both(out) if ok else (None, None)
            if pairs_src is None:
                ran = False
                bad.append(('coq', out[-300:]))
            else:
                bad += [(part[ci], k) for ci, k in pairs_src]
    ck.obligation(f'translated source Gen/CircuitElimSrc.v = implementation: on {len(hs)} edit histories (port forks with one driver and one '
                  f'reader, chains of 1:1 forks, driverless stub forks of substituted instances, random valid / wild histories) every '
                  f'eliminate_1to1_forks() step ({n_el}, {n_rm} of them removing nodes) is executed by the translated method and every primitive '
                  f'step by the translated primitives: node table, line table, dicts, io list after every step and which calls raise',
                  ran and not bad and n_el > 0 and n_rm > 0, 'correspondence',
                  (f'failing (history, step): {bad[:6]}' if src_ok else 'Gen/CircuitElimSrc.v does not compile / was not generated'))


# ---- source tie of the pickle pair (Properties/C10.v section 10; translate/gen_circuit_pickle.py -> Gen/CircuitPickleSrc.v,
# Model/CircuitPickleSrcLib.v, Model/CircuitPickleSrcCorr.v, Proofs/CircuitPickleSrcProofs.v) ---------------------------------------
THEOREMS_PICKLESRC = ['C10_getstate_source_is_model', 'C10_setstate_source_is_model', 'C10_pickle_source_is_model',
                      'C10_pickle_source_example']
THEOREMS += THEOREMS_PICKLESRC
PICKLE_SRC_STEP = """From KV Require Import Model.CircuitPickleSrcLib Gen.CircuitPickleSrc.
Definition step_p := step_src Node_init_src Node_remove_src Line_init_src Line_remove_src GrowingList_setitem_src.
Definition step_s (c : circ) (o : op) : option circ :=
  match o with
  | PickleRoundTrip => match Circuit_getstate_src c PNone with Some v => option_map snd (Circuit_setstate_src v) | None => None end
  | _ => step_p c o
  end.
"""
PICKLE_CASE_HEADER = """From Coq Require Import ZArith.
From KV Require Import Model.CircuitPrimsSrcLib Model.CircuitPickleSrcLib Model.CircuitPickleSrcCorr Gen.CircuitPrimsSrc Gen.CircuitPickleSrc.
"""
LIST_CLASS_TAG = {'IndexList': 'CIndexList', 'GrowingList': 'CGrowingList', 'list': 'CList'}


class UnexpectedForm(Exception):
    pass


def py_lit(q, v):
    """a Python value made of None / int / str / tuple / list / dict with str keys as a [pyval] literal (anything else: UnexpectedForm)"""
    if v is None:
        return 'PNone'
    if type(v) is int:
        return f'(PInt ({v})%Z)'
    if type(v) is str:
        return f'(PStr {q(v)})'
    if type(v) is tuple:
        return '(PTuple [' + '; '.join(py_lit(q, x) for x in v) + '])'
    if type(v) is list:
        return '(PList [' + '; '.join(py_lit(q, x) for x in v) + '])'
    if type(v) is dict and all(type(k) is str for k in v):
        return '(PDict [' + '; '.join(f'({q(k)}, {py_lit(q, x)})' for k, x in v.items()) + '])'
    raise UnexpectedForm(f'{type(v).__name__} inside the state dict')


def unpickled_lit(q, ce, c2):
    tags = []
    for a in ('nodes', 'lines', 'io_nodes'):
        cls = type(getattr(c2, a)).__name__
        if type(getattr(c2, a)).__module__ not in ('kyupy.circuit', 'builtins') or cls not in LIST_CLASS_TAG:
            raise UnexpectedForm(f'{a} is a {cls}')
        tags.append(LIST_CLASS_TAG[cls])
    return f'(Some (mkM {py_lit(q, c2.name)} {" ".join(tags)}, {ce.coq_view(q, ce.view(c2))}))'


def pickle_source(ck):
    """tie T for Circuit.__getstate__ / __setstate__: regenerate Gen/CircuitPickleSrc.v from the current circuit.py"""
    from vcheck import gen_all
    res = gen_all.generate(['CircuitPrimsSrc', 'CircuitPickleSrc'])
    err = res['CircuitPickleSrc'] or res['CircuitPrimsSrc']
    ck.obligation('translate circuit.py Circuit.__getstate__ / __setstate__ -> Gen/CircuitPickleSrc.v (statement by statement, fail-closed; '
                  'Node(...) / Line(...) go to the translated constructors of Gen/CircuitPrimsSrc.v; the class each list attribute is '
                  'created with is part of the translated result)', err is None, 'translation', err or '')
    ck.trust('translator translate/gen_circuit_pickle.py (extends the fail-closed ast translator of translate/gen_circuit_prims.py by the '
             'sort pyval = Python value of None / int / str / tuple / list / dict, list comprehensions over the circuit containers, the dict '
             'display, loops over values of the state dict, Node(self, *s), Line(self, (self.nodes[i], p), ..), io_nodes.append; vocabulary '
             'Model/CircuitPickleSrcLib.v; assumptions: pickling / unpickling a value of that form is the identity, the new object starts '
             'without attributes and shares nothing with the pickled circuit (its graph state starts as the empty state), no '
             '__reduce__ / __copy__ hook (checked syntactically)); its output is additionally run against the real methods')
    return err is None


def pickle_source_correspondence(ck, gen_ok):
    import pickle as _pickle
    from vcheck import core
    from harness import circuit_edit as ce
    from kyupy import circuit as kc
    src_ok = gen_ok and core.coq_make(['theories/Gen/CircuitPickleSrc.vo'] + core.support_targets())[0]
    rng = random.Random(ck.seed * 7919 + 1013)
    # A: edit histories whose pickle steps run the translated pair; after the round trip a non-last line is removed and a node added
    hs = []
    for i in range(ck.scale(12, 160)):
        h = ce.run_history(rng, rng.choice([10, 25, 50]), 'valid' if i % 4 else 'wild')
        ops = [list(o) if isinstance(o, list) else o for o in h['ops']]
        if h['steps'] and h['steps'][-1][2] is None:
            ops = ops[:-1]
        views = [st[2] for st in h['steps'] if st[2] is not None]
        # after a round trip the objects are numbered in creation order = index order: line 0 exists iff there is a line
        tail = ([['pickle']] + ([['rmline', 0]] if views and views[-1]['lines'] else []) +
                [['node', 'after_pickle', FORK], ['pickle'], ['rmnode', 0]])
        hs.append(ce.run_history(rng, 0, 'wild', fixed_ops=ops + tail))
    n_pk = sum(1 for h in hs for st in h['steps'] if st[0][0] == 'pickle' and st[2] is not None)
    n_rm = 0
    for h in hs:
        for a, b in zip(h['steps'], h['steps'][1:]):
            if a[0][0] == 'pickle' and a[2] is not None and b[0][0] == 'rmline' and b[2] is not None and len(a[2]['lines']) > 1:
                n_rm += 1
    # B: the state dict itself and the translated __setstate__ on the REAL dict
    q = ce.Strings()
    defs, calls, what = [], [], []
    n_raise_get = n_ok = n_raise_set = 0

    def real_setstate(st):
        c2 = kc.Circuit.__new__(kc.Circuit)
        try:
            c2.__setstate__(st)
        except RecursionError:
            raise
        except Exception:
            return None
        return c2

    pool = []
    for i in range(ck.scale(30, 400)):
        h = ce.run_history(rng, rng.choice([6, 15, 40]), 'valid' if i % 3 else 'wild')
        ops = [st[0] for st in h['steps'] if st[2] is not None]
        if len(ops) != len(h['steps']):
            ops = ops[:len(ops)]
        pool.append(ops)
    form_errors = []
    for ci, ops in enumerate(pool):
        tr = ce.Tracker()
        try:
            with ce.tracking(tr):
                S = ce.Session(tr)
                for op in ops:
                    ce.apply(S, list(op) if isinstance(op, list) else op)
            tr.on = False
        except Exception as e:
            tr.on = False
            continue
        c = S.c
        if ci % 5 == 0:
            c.name = f'top{ci}'
        try:
            try:
                st = c.__getstate__()
            except RecursionError:
                raise
            except Exception:
                st = None
            if st is None:
                n_raise_get += 1
                r = f'(PKR {py_lit(q, c.name)} None None)'
            else:
                st2 = _pickle.loads(_pickle.dumps(st))
                lit = py_lit(q, st)
                if py_lit(q, st2) != lit:
                    raise UnexpectedForm('the state dict does not survive pickling unchanged')
                try:
                    c2 = _pickle.loads(_pickle.dumps(c))
                except RecursionError:
                    raise
                except Exception:
                    c2 = None
                n_ok += c2 is not None
                r = f'(PKR {py_lit(q, c.name)} (Some {lit}) {"None" if c2 is None else unpickled_lit(q, ce, c2)})'
                # damaged dicts: a node twice, a line to a missing node, a dropped key
                if ci % 4 == 1 and st['nodes']:
                    for bad_st in (dict(st, nodes=list(st['nodes']) + [st['nodes'][0]]),
                                   dict(st, lines=list(st['lines']) + [(0, 0, len(st['nodes']), 0)]),
                                   dict(st, io_nodes=list(st['io_nodes']) + [len(st['nodes'])]),
                                   {k: v for k, v in st.items() if k != 'lines'},
                                   dict(st, nodes=[tuple(x[:1]) if x[1] == FORK else x for x in st['nodes']])):
                        c3 = real_setstate(bad_st)
                        n_raise_set += c3 is None
                        defs.append(f'Definition ops_{len(calls)} : list op := [].\n'
                                    f'Definition r_{len(calls)} : pk_real := (PKD {py_lit(q, bad_st)} '
                                    f'{"None" if c3 is None else unpickled_lit(q, ce, c3)}).\n')
                        what.append((ci, 'damaged dict'))
                        calls.append(len(calls))
        except UnexpectedForm as e:
            form_errors.append((ci, str(e)))
            continue
        defs.append(f'Definition ops_{len(calls)} : list op := [' + '; '.join(ce.coq_op(q, op) for op in ops) + '].\n'
                    f'Definition r_{len(calls)} : pk_real := {r}.\n')
        what.append((ci, 'history'))
        calls.append(len(calls))
    ck.count(n_pk + len(calls), 'pickle round trips / state dicts on the translated source')
    ck.nontrivial(('pickle-src', n_pk, n_rm, n_ok, n_raise_get, n_raise_set))
    bad, ran = [], src_ok
    if src_ok:
        parts = [list(range(i, min(i + 8, len(hs)))) for i in range(0, len(hs), 8)]
        texts = []
        for part in parts:
            t = ce.cases_file_both([hs[i]['steps'] for i in part])
            line = [l for l in t.splitlines() if l.startswith('Definition step_s :=')]
            assert len(line) == 1
            texts.append(t.replace(line[0] + '\n', PICKLE_SRC_STEP))
        chunks = [calls[i:i + 40] for i in range(0, len(calls), 40)]
        for ch in chunks:
            body = '; '.join(f'pickle_case Circuit_getstate_src Circuit_setstate_src ops_{k} r_{k}' for k in ch)
            texts.append(ce.HEADER + PICKLE_CASE_HEADER + q.defs() + ''.join(defs[k] for k in ch) +
                         f'Eval vm_compute in (failing_codes 0 [{body}]).\n')
        outs = ck.coq_eval_many('picklesrc', texts, jobs=8, timeout=900)
        for part, (ok, out) in zip(parts, outs[:len(parts)]):
            pairs, pairs_src = ce.parse_pairs_both(out) if ok else (None, None)
            if pairs_src is None:
                ran = False
                bad.append(('coq', out[-300:]))
            else:
                bad += [('history', part[ci], k) for ci, k in pairs_src]
        for ch, (ok, out) in zip(chunks, outs[len(parts):]):
            pairs = ce.parse_pairs(out) if ok else None
            if pairs is None:
                ran = False
                bad.append(('coq', out[-300:]))
            else:
                bad += [('dict', what[ch[i]], {1: 'model state', 2: 'state dict differs', 3: 'unpickled object differs'}.get(code, code))
                        for i, code in pairs]
    bad += [('form', ci, msg) for ci, msg in form_errors]
    ck.obligation(f'translated source Gen/CircuitPickleSrc.v = implementation: (a) on {len(hs)} edit histories every pickle round trip '
                  f'({n_pk}) is executed by the translated __getstate__ / __setstate__ (all primitive steps by the translated primitives), '
                  f'followed by the removal of a line of the unpickled circuit ({n_rm} of them not the last line) and a second round trip: '
                  f'full state after every step and which calls raise; (b) on {len(calls)} circuits / state dicts the dict the real '
                  f'__getstate__ returns (every item, types included; {n_raise_get} raising) = the translated one, and the translated '
                  f'__setstate__ run on the REAL dict = the real unpickled object (full view, name, classes of nodes / lines / io_nodes; '
                  f'{n_ok} rebuilt, {n_raise_set} damaged dicts raising)',
                  ran and not bad and n_pk > 0 and n_rm > 0 and n_ok > 0 and n_raise_set > 0, 'correspondence',
                  (f'failing: {bad[:6]}' if src_ok else 'Gen/CircuitPickleSrc.v does not compile / was not generated'))


def run(ck):
    from kyupy import techlib
    gen_ok = elim_source(ck)
    pk_ok = pickle_source(ck)
    if THEOREMS:
        ck.prove('C10', THEOREMS)
    elim_source_correspondence(ck, gen_ok)
    pickle_source_correspondence(ck, pk_ok)
    view_correspondence(ck)
    cell_corr.run_lib(ck)      # ck.prove('C10Lib', THEOREMS_LIB) + exhaustive library correspondence / oracle
    rng = random.Random(ck.seed * 7919 + 10)
    fails = []
    for i in range(ck.scale(60, 1500)):
        try:
            desc, what = transform_sequence(rng)
        except Exception:
            desc, what = {'kind': 'sequence'}, 'raises ' + traceback.format_exc()[-400:]
        ck.count(1, 'copy/pickle/eliminate sequences')
        ck.nontrivial(('s', i))
        if what:
            fails.append(('sequence:' + desc.get('class', 'function'), desc, what))
    # the same sequences on circuits whose ports are forks with arbitrary node indices (bench style)
    for i in range(ck.scale(150, 1500)):
        desc = {'kind': 'sequence'}
        try:
            c, text = bench_style_circuit(rng)
            desc, what = transform_sequence(rng, start=(c, {'bench': text}))
        except Exception:
            what = 'raises ' + traceback.format_exc()[-400:]
        ck.count(1, 'copy/pickle/eliminate sequences on bench-style circuits (ports are forks, declarations anywhere)')
        ck.nontrivial(('sb', i))
        if what:
            fails.append(('sequence-bench:' + desc.get('class', 'function'), desc, what))
    # the same sequences on RESOLVED circuits whose instance had an unconnected input pin (stub forks without driver, D38)
    n_stub = 0
    combs = {}
    for i in range(ck.scale(40, 600)):
        lib = rng.choice(['NANGATE', 'SAED32', 'GSC180', 'SAED90'])
        tl = getattr(techlib, lib)
        desc = {'kind': 'sequence', 'library': lib}
        try:
            if lib not in combs:
                combs[lib] = rsc.comb_small(tl)
            kind, opened, co, host = open_input_host(rng, tl, combs[lib])
            desc.update({'cell': kind, 'unconnected_input': opened, 'connected_outputs': sorted(co)})
            host.resolve_tlib_cells(tl)
            n_stub += 1 if driverless_1to1_forks(host) else 0
            desc, what = transform_sequence(rng, start=(host, desc))
        except Exception:
            what = 'raises ' + traceback.format_exc()[-400:]
        ck.count(1, 'copy/pickle/eliminate sequences on resolved instances with an unconnected input')
        ck.nontrivial(('sr', lib, desc.get('cell'), desc.get('unconnected_input')))
        if what:
            fails.append(('sequence-resolved:' + desc.get('class', 'function'), desc, what))
    ck.obligation(f'the copy / pickle / eliminate sequences also run on resolved circuits with a fork that has one reader and no driver '
                  f'(instance input pin unconnected): {n_stub} such circuits', n_stub > 0, 'oracle', '')
    for i in range(ck.scale(120, 3000)):
        try:
            desc, what = substitute_random(rng)
        except Exception:
            desc, what = {'kind': 'substitute'}, 'raises ' + traceback.format_exc()[-400:]
        ck.count(1, 'substitute shapes')
        ck.nontrivial(('u', desc.get('impl'), str(desc.get('connected'))))
        if what:
            fails.append(('substitute:' + (desc.get('class') or desc.get('impl', '')), desc, what))
    libs = ['GSC180', 'NANGATE', 'NANGATE_ZN', 'SAED32', 'SAED90']
    seen = set()
    for lib in libs:
        tl = getattr(techlib, lib)
        for kind, (impl, pins) in tl.cells.items():
            if id(impl) in seen and not ck.thorough:
                continue           # quick: one name per definition
            seen.add(id(impl))
            try:
                desc, what = resolve_cell(lib, tl, kind, rng)
            except Exception:
                desc, what = {'kind': 'resolve', 'library': lib, 'cell': kind}, 'raises ' + traceback.format_exc()[-400:]
            ck.count(1, 'resolve:' + lib)
            ck.nontrivial(('r', lib, impl.name))
            if what:
                fails.append((f'resolve:{lib}:{kind}:{desc.get("class", "function" if "raises" not in what else "raises")}', desc, what))
    substitute_sem_correspondence(ck, rng)
    fails += resolve_sem_correspondence(ck, random.Random(ck.seed * 7919 + 1011), libs)
    unknown = [f for f in fails if ck.known_entry(f[0]) is None]
    ck.obligation('copy / pickle / eliminate_1to1_forks / substitute / resolve_tlib_cells preserve names, order and Boolean function on every '
                  'generated circuit and for every library cell definition (listed known findings excepted)', not unknown, 'correspondence',
                  unknown[0][2] if unknown else '')
    ck.cov['exhaustive'] = False
    ck.sample({'kind': 'resolve', 'library': 'NANGATE', 'cell': 'SDFFRS_X1', 'pins': 'all / random subset', 'stimuli': 'all input x state combinations'})
    ck.rule('random circuits x random sequences of copy/pickle/eliminate; six implementation shapes (multi-output, output read internally, '
            'unread inputs, fan-out inputs) x random subsets of connected pins; every cell definition of the five libraries x all pins / '
            'random pin subsets x all (or 32 random) input-state combinations')
    ck.rule('view correspondence: random well-formed edit histories (circuit_edit.propose, extra eliminate/copy/pickle steps, every step '
            'observed) + random gate-level circuits of circgen (60% with permuted creation order) replayed as Node/Line/io ops followed by '
            '1-4 eliminate/copy/pickle steps + the two witness histories')
    ck.trust('copy / pickle / eliminate_1to1_forks: theorems over the Gallina transcription Model/Circuit.v (tied to circuit.py state by state '
             'in C09) and its netlist view Model/CircuitView.v, which is tied to the real Circuit (circgen.coq_netlist, s_nodes names and '
             'indices) by the view correspondence above; the id-based semantics csol / ciface of Model/CircuitSem.v are derived notions, proved '
             'equivalent to NetlistSem.solution / iface_pos on the view (C10_csol_iff_solution, C10_solution_iff_csol), which C01 ties to LogicSim',
             'substitute: theorems C10_substitute_* over the same transcription for ARBITRARY implementations (structure of the result for all '
             'inputs, solutions of the result = valuations of the host with the instance read as the implementation, clean-up included; '
             'hypothesis checkers and the model result tied to the real Circuit.substitute on every compared case by harness/subst_sem_corr.py); '
             'resolve_tlib_cells (the loop over instances) and the position-based s_nodes order: decided by comparing LogicSim truth tables and '
             's_nodes names/order before and after each transformation, with the expected function of a library instance taken from an '
             'independent evaluation of its implementation circuit; the truth-table comparison is also kept for copy / pickle / eliminate / substitute')
    for key, desc, what in fails[:40]:
        ck.fail(key, what, {'component': 'circuit.Circuit transformations', 'input': desc, 'actual': what})


def replay(rp):
    from kyupy import techlib
    inp = rp['input']
    if inp.get('kind') == 'resolve-lib':
        return cell_corr.replay(inp)
    if 'view_ops' in inp:
        rng = random.Random(0)
        h = vc.run_view_history(rng, 0, fixed_ops=inp['view_ops'], n_force=inp.get('n_force', 0), observe_from=inp.get('observe_from', 0))
        if h['failure']:
            return True
        import os, subprocess
        from vcheck import core
        os.makedirs(core.CASES, exist_ok=True)
        path = os.path.join(core.CASES, f'C10_replay_{os.getpid()}.v')
        with open(path, 'w') as f:
            f.write(vc.cases_file([h['steps']]))
        ok, out = core.coqc_file(path, timeout=600)
        core.Check._cleanup_case(path)
        pairs = vc.parse_pairs(out) if ok else None
        return pairs is None or bool(pairs)
    if inp.get('kind') == 'substitute-sem':
        return ssc.replay_case(inp)
    if inp.get('kind') == 'resolve-sem':
        return rsc.replay_case(inp)
    if inp.get('kind') == 'resolve-multi':
        tl = getattr(techlib, inp['library'])
        host = ssc.rebuild(inp['host'], 'host')
        try:
            host.resolve_tlib_cells(tl)
        except Exception:
            return True
        from harness import circuit_edit as ce
        if ce.invariant(host) is not None or any(n.kind in tl.cells for n in host.nodes):
            return True
        return rsc.replay_case(inp)
    if inp.get('kind') == 'sequence' and 'circuit' in inp and inp.get('steps'):
        try:
            d, what = transform_sequence(random.Random(0), start=(cg.from_description(inp['circuit']), {}), fixed_steps=inp['steps'])
        except Exception:
            return True
        return what is not None
    if inp.get('kind') == 'resolve':
        rng = random.Random(0)
        d, what = resolve_cell(inp['library'], getattr(techlib, inp['library']), inp['cell'], rng)
        return what is not None
    return True
