"""C05 -- 8-valued logic simulation conservatively predicts timing simulation."""
import numpy as np
from harness import wavecheck as wk, waveoracle as wo, wavesim_corr as wc, logicsim_corr as lc, simcheck as sk

THEOREMS = ['C05_hazard_sound_op', 'C05_no_change_no_edge', 'C05_init_final_wave', 'C05_init_final_logic8', 'C05_logic8_predicts_wave',
            'C05_wavesim_model_predicted']
THEOREMS += ['C05_source_no_change_no_edge']   # source tie of the merge kernel (Gen/WaveEvalSrc.v)


def stim_codes(k):
    """8-valued code per s_node position and lane for the {0,1,R,F} stimulus (directly written waveforms are excluded by the generator)."""
    ini = (k.s0 != 0).astype(np.uint8)
    fin = (k.s2 != 0).astype(np.uint8)
    return (fin | (ini << 1) | ((ini ^ fin) << 2)).astype(np.uint8)


def oracle(k, w):
    codes = stim_codes(k)
    for reuse, strip in ((False, False), (True, True)):
        if strip and any(len(f.ins) == 0 for f in k.c.forks.values()):
            continue
        sim, s1, _ = lc.run_logicsim(k.c, 8, codes, reuse, strip)
        mask = lc.ppo_mask(sim)
        s = np.asarray(w.s)
        for p in range(w.s_len):
            if not mask[p] or np.asarray(w.c_locs)[w.ppo_offset + p] < 0:
                continue
            for lane in range(k.sims):
                v = int(s1[p, lane])
                if v in (1, 2):
                    return f'position {p} lane {lane}: 8-valued simulation of a 0/1/R/F stimulus produced X/-'
                if ((v >> 1) & 1) != int(s[3, p, lane]) or (v & 1) != int(s[6, p, lane]):
                    return (f'position {p} lane {lane}: timing simulation init/final {int(s[3, p, lane])}/{int(s[6, p, lane])}, '
                            f'8-valued logic simulation says {(v >> 1) & 1}/{v & 1} (c_reuse={reuse}, strip_forks={strip})')
                if v in (0, 3):
                    body, term = wo.waveform(w, w.ppo_offset + p, lane)
                    if any(t > wc.TMIN for t in body):
                        return (f'position {p} lane {lane}: logic simulation reports hazard-free {v} but the waveform has transitions {body[:6]}')
    return None


def pulse_gate_case(rng, kind, ar, sims=48):
    """Directed shape: ONE gate of the given kind whose every input pin is fed by its own XOR2 of two primary inputs, so that each pin
    sees 0, 1, a rising / falling edge or an internally generated positive / negative pulse (two edges with a skew), in all
    combinations over the lanes; polarity-dependent and polarity-free delays.  The gate output is a primary output."""
    from kyupy.circuit import Circuit, Node, Line
    from harness import circgen as cg
    c = Circuit('pulse')
    g = Node(c, 'g', kind)
    for k in range(ar):
        a, b = Node(c, f'a{k}', 'input'), Node(c, f'b{k}', 'input')
        x = Node(c, f'x{k}', 'XOR2')
        c.io_nodes.append(a); c.io_nodes.append(b)
        Line(c, a, (x, 0)); Line(c, b, (x, 1)); Line(c, x, (g, k))
    o = Node(c, 'o', 'output')
    c.io_nodes.append(o)
    Line(c, g, o)
    k = wk.Case()
    k.c, k.a, k.reuse, k.strip, k.sims = c, None, False, False, sims
    k.delays, k.style = wc.gen_delays(rng, len(c.lines), rng.choice(['full', 'polfree', 'spread', 'uniform']))
    k.caps = 16
    k.s0, k.s1, k.s2, k.extra = wc.gen_stimulus(rng, c, sims, tmax=20, extra_prob=0.0)
    k.tcap, k.a_ctrl = None, None
    return k


def run(ck):
    sk.regen_tables(ck)
    wk.regen_kernel(ck)
    if THEOREMS:
        ck.prove('C05', THEOREMS)
    fails, mism = wk.campaign(ck, ck.scale(40, 1200), oracle, gen_kw={'extra_prob': 0.0, 'strip_prob': 0.25}, coq_lanes=1, coq_every=2, glue=True,
                              stress_every=3, stress_over={'extra_prob': 0.0, 'n_pi': 10, 'sims': 5})      # parity-rich circuits, skewed per-line capacities, single-transition stimuli
    # small-circuit stress: 2-4 gates, many lanes, so that every primitive sees internally generated pulses on its pins
    import random
    rng = random.Random(ck.seed * 7919 + 505)
    for i in range(ck.scale(200, 8000)):
        k = wk.gen_wave_case(rng, n_gates=rng.choice([2, 3, 4]), seq=False, extra_prob=0.0, sims=8, reuse=False,
                             capmode='16', style=rng.choice(['full', 'spread', 'polfree']), allow_dangling=False, tcap=None)
        try:
            w = wk.run_case(k)
            what = oracle(k, w)
        except Exception as e:
            what = f'raises {type(e).__name__}: {e}'
        ck.count(k.sims, 'small-circuit-stress')
        ck.nontrivial(('st', i))
        if what:
            fails.append((wk.describe(k), 'small-circuit stress: ' + what))
            if len(fails) > 5:
                break
    # directed: every gate kind alone behind per-pin pulse generators
    from harness import circgen as cg
    kinds = cg.GATE_KINDS if ck.thorough else rng.sample(cg.GATE_KINDS, 14) + [('MUX21', 3), ('AO22', 4), ('OAI211', 4), ('XNOR3', 3)]
    for kind, ar in kinds:
        k = pulse_gate_case(rng, kind, ar, sims=ck.scale(192, 512))
        try:
            w = wk.run_case(k)
            what = oracle(k, w)
        except Exception as e:
            what = f'raises {type(e).__name__}: {e}'
        ck.count(k.sims, 'pulse-gate')
        ck.nontrivial(('pg', kind))
        if what and len(fails) <= 5:
            fails.append((wk.describe(k), f'{kind} behind pulse generators: ' + what))
    ck.rule('random circuits x integer delays x capacities x stimuli over {0,1,R,F} with arbitrary transition times; both simulators '
            '(LogicSim m=8 with both option settings vs WaveSim); distinct = circuit/delay-style/capacity fingerprint')
    wk.report(ck, fails, mism, 'logic8-vs-wave', 'wave_sim.WaveSim vs logic_sim.LogicSim(m=8)')


def replay(rp):
    if 'warm_round' in rp.get('input', {}):
        return wk.warm_replay(rp['input'])
    if 'copied_simulator' in rp.get('input', {}):
        return wk.copied_replay(rp['input'], oracle)
    if 'pre_extra' in rp.get('input', {}):
        return wk.pre_extra_replay(rp['input'])
    k = wk.from_description(rp['input'])
    try:
        w = wk.run_case(k)
    except Exception:
        return True
    return oracle(k, w) is not None
