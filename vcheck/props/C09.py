"""C09 -- the circuit graph stays consistent under every edit history."""
import random
from harness import circuit_edit as ce

THEOREMS = ['C09_empty', 'C09_step_inv', 'C09_step_primitive', 'C09_history_inv', 'C09_step_inv_io', 'C09_history_inv_io',
            'C09_copy', 'C09_pickle', 'C09_copy_is_pickle', 'C09_eliminate', 'C09_remove_dangling', 'C09_stats', 'C09_cinv_b_sound',
            'C09_substitute_early_cleanup_refuted', 'C09_substitute_witness_ok', 'C09_example', 'C09_example2',
            'C09_supported_all', 'C09_history_inv_all', 'C09_substitute', 'C09_substitute_core', 'C09_resolve',
            'C09_subst_dup_port_refuted', 'C09_subst_cell_port_refuted', 'C09_subst_designated_port_refuted',
            'C09_subst_fork_output_refuted', 'C09_resolve_removed_instance_refuted', 'C09_resolve_removed_instance_ok',
            'C09_substitute_example', 'C09_example3']
THEOREMS += ['C09_prims_source_is_model', 'C09_ceq_respected', 'C09_prims_source_step', 'C09_prims_source_history',
             'C09_prims_source_example']
# eliminate_1to1_forks translated from the source (translate/gen_circuit_elim.py) keeps the invariant (via C10_eliminate_source_is_model)
THEOREMS += ['C09_eliminate_source']
# the pickle pair translated from the source (translate/gen_circuit_pickle.py): invariant, container classes, line removal afterwards
THEOREMS += ['C09_pickle_source', 'C09_unpickled_line_remove']

LIB_NETLIST = '''module m (a, b, c, y, z); input a, b, c; output y, z;
  %s u1 (%s);
  %s u2 (%s);
endmodule'''


def chunks_by_steps(histories, n_chunks):
    """balanced partition (by number of steps) of history indices"""
    order = sorted(range(len(histories)), key=lambda i: -len(histories[i]['steps']))
    bins = [[] for _ in range(max(1, min(n_chunks, len(histories))))]
    load = [0] * len(bins)
    for i in order:
        b = load.index(min(load))
        bins[b].append(i)
        load[b] += len(histories[i]['steps']) + 3
    return [b for b in bins if b]


def library_sweep(ck):
    """every cell of the five shipped libraries, all pins connected / no output connected / one input pin and all outputs but the
    first unconnected, resolved through resolve_tlib_cells and then passed to eliminate_1to1_forks: must not raise and must leave
    a consistent graph (regression for D9: implementation inputs that nothing reads; D38: stub forks without driver)"""
    from kyupy import techlib
    from kyupy.circuit import Circuit, Node, Line
    fails = []
    n = 0
    for lname in ('GSC180', 'NANGATE', 'NANGATE_ZN', 'SAED32', 'SAED90'):
        lib = getattr(techlib, lname)
        for kind, (impl, pins) in lib.cells.items():
            n_ins = sum(1 for p in pins.values() if not p[1])
            for connect in ('all', 'inputs-only') + tuple(f'input-{k}-open' for k in range(n_ins if n_ins > 1 else 0)):
                c = Circuit('lib')
                inst = Node(c, 'u1', kind)
                for pname, (idx, is_out) in pins.items():
                    if connect.startswith('input-') and (idx > 0 if is_out else idx == int(connect.split('-')[1])):
                        continue
                    f = Node(c, 'net_' + pname)
                    if is_out:
                        if connect != 'inputs-only':
                            Line(c, (inst, idx), f)
                            if connect.startswith('input-'):
                                Line(c, f, Node(c, 'rd_' + pname, 'BUF1'))
                    else:
                        Line(c, f, (inst, idx))
                n += 1
                ck.count(1, f'library-cell:{lname}')
                try:
                    c.resolve_tlib_cells(lib)
                except Exception as e:
                    fails.append((f'{lname}.{kind}', connect, f'resolve_tlib_cells raised {type(e).__name__}: {e}'))
                    continue
                msg = ce.invariant(c)
                if msg:
                    fails.append((f'{lname}.{kind}', connect, msg))
                    continue
                try:
                    c.eliminate_1to1_forks()
                except Exception as e:
                    fails.append((f'{lname}.{kind}', connect, f'eliminate_1to1_forks after resolve_tlib_cells raised {type(e).__name__}: {e}'))
                    continue
                msg = ce.invariant(c)
                if msg:
                    fails.append((f'{lname}.{kind}', connect, 'after resolve_tlib_cells + eliminate_1to1_forks: ' + msg))
            ck.nontrivial(('lib', id(impl)))
    return n, fails


def verilog_regression():
    """the reproducer of D9 through the public parsers: cells with an implementation input that nothing reads"""
    from kyupy import verilog, techlib
    out = []
    for lname, kind in (('NANGATE', 'TBUF_X1'), ('NANGATE', 'TLAT_X1'), ('SAED32', 'HEADX2_RVT'), ('SAED32', 'ANTENNA_RVT'),
                        ('SAED32', 'CLOAD1_RVT'), ('GSC180', 'TBUFX1')):
        lib = getattr(techlib, lname)
        if kind not in lib.cells:
            continue
        pins = lib.cells[kind][1]
        ins = [p for p, (i, o) in pins.items() if not o]
        outs = [p for p, (i, o) in pins.items() if o]
        conn = ', '.join([f'.{p}(i{k})' for k, p in enumerate(ins)] + [f'.{p}(o{k})' for k, p in enumerate(outs)])
        ports = [f'i{k}' for k in range(len(ins))] + [f'o{k}' for k in range(len(outs))]
        text = (f'module m ({", ".join(ports)}); input {", ".join(ports[:len(ins)])}; ' +
                (f'output {", ".join(ports[len(ins):])}; ' if outs else '') + f'{kind} u1 ({conn}); endmodule')
        try:
            c = verilog.parse(text, tlib=lib)
            c.resolve_tlib_cells(lib)
            msg = ce.invariant(c)
        except Exception as e:
            msg = f'{type(e).__name__}: {e}'
        if msg:
            out.append((kind, text, msg))
    return out


def run(ck):
    from vcheck import gen_all, core
    # translation (tie T): Gen/CircuitPrimsSrc.v is regenerated from the current text of circuit.py; C09_prims_source_is_model then
    # re-proves that the translated primitives are the hand-written primitives of Model/Circuit.v
    res = gen_all.generate(['CircuitPrimsSrc', 'CircuitElimSrc', 'CircuitPickleSrc'])
    ck.obligation('translate circuit.py Circuit.__getstate__ / __setstate__ -> Gen/CircuitPickleSrc.v (translate/gen_circuit_pickle.py; '
                  'C09_pickle_source / C09_unpickled_line_remove are stated about it; the classes the list attributes are created with '
                  'are part of the translated result)', res['CircuitPickleSrc'] is None, 'translation', res['CircuitPickleSrc'] or '')
    ck.obligation('translate circuit.py Circuit.eliminate_1to1_forks -> Gen/CircuitElimSrc.v (translate/gen_circuit_elim.py; '
                  'C09_eliminate_source is stated about it)', res['CircuitElimSrc'] is None, 'translation', res['CircuitElimSrc'] or '')
    ck.obligation('translate circuit.py primitives -> Gen/CircuitPrimsSrc.v', res['CircuitPrimsSrc'] is None, 'translation',
                  res['CircuitPrimsSrc'] or '')
    ck.trust('translator translate/gen_circuit_prims.py (fail-closed, type-directed Python-ast translation of GrowingList.__setitem__ / '
             'free_index, IndexList.__delitem__, Node.__init__ / remove, Line.__init__ / remove into state-passing Gallina over the state '
             'type of Model/Circuit.v; class headers, the methods the two list classes define and the containers of Circuit.__init__ are '
             'pinned; vocabulary Model/CircuitPrimsSrcLib.v: object identity = creation-order id, attribute = record field, obj.circuit = '
             'liveness flag, list attribute = pin list, dict = association list, int = Z); its output is additionally run against the real '
             'classes on every history')
    proved, _ = ck.prove('C09', THEOREMS)
    src_ok = res['CircuitPrimsSrc'] is None and core.coq_make(['theories/Gen/CircuitPrimsSrc.vo'] + core.support_targets())[0]
    if not proved and not src_ok:
        core.coq_make(core.support_targets())     # the models must exist for the correspondence even when a proof broke
    rng = random.Random(ck.seed * 7919 + 9)
    lens = [8, 25, 60, 120, 200] if not ck.thorough else [25, 100, 200, 400, 400]
    hs = []
    for i in range(ck.scale(26, 110)):
        h = ce.run_history(rng, rng.choice(lens), 'valid')
        h['style'] = 'valid'
        hs.append(h)
    for i in range(ck.scale(40, 220)):
        h = ce.run_history(rng, rng.choice(lens), 'wild')
        h['style'] = 'wild'
        hs.append(h)
    for ops in ce.chain_scenarios(rng, ck.scale(12, 200)) + ce.instance_scenarios(rng, ck.scale(6, 60)):
        h = ce.run_history(rng, 0, 'valid', fixed_ops=ops)
        h['style'] = 'instance'
        hs.append(h)
    for ops in ce.removed_instance_scenarios() + ce.open_input_scenarios():
        h = ce.run_history(rng, 0, 'valid', fixed_ops=ops)
        h['style'] = 'instance'
        if len(h['steps']) != len(ops) or not all(s[1] for s in h['steps']):
            h['failure'] = h['failure'] or (len(h['steps']), 'a step of the removed-instance / open-input scenario is not well-formed use / was skipped')
        hs.append(h)
    for ops in ce.shape_witness_scenarios():
        h = ce.run_history(rng, 0, 'wild', fixed_ops=ops)
        h['style'] = 'wild'
        hs.append(h)
    found = []
    for i, h in enumerate(hs):
        st = h['steps']
        ck.count(len(st), f"history:{h['style']}")
        for op, clean, v in st:
            ck.dist['op:' + op[0]] = ck.dist.get('op:' + op[0], 0) + 1
        ck.nontrivial((h['style'], len(st), tuple(s[0][0] for s in st[:10])))
        if i < 2:
            ck.sample({'style': h['style'], 'ops': [ce.describe(s[0])[:60] for s in st[:10]]})
        if h['failure']:
            found.append(h)
    # --- model = implementation, state by state --------------------------------------------------------
    parts = chunks_by_steps(hs, ck.scale(14, 56))
    src_every = ck.scale(1, 1)
    mk_file = (lambda x: ce.cases_file_both(x, src_every)) if src_ok else ce.cases_file
    outs = ck.coq_eval_many('hist', [mk_file([hs[i]['steps'] for i in part]) for part in parts], jobs=14, timeout=1500)
    bad, ran = [], True
    bad_src, ran_src = [], src_ok
    for part, (ok, out) in zip(parts, outs):
        pairs, pairs_src = ce.parse_pairs_both(out) if ok else (None, None)
        if pairs is None:
            ran = False
            bad.append(('coq', out[-300:]))
        else:
            bad += [(part[ci], k) for ci, k in pairs]
        if src_ok:
            if pairs_src is None:
                ran_src = False
                bad_src.append(('coq', out[-300:]))
            else:
                bad_src += [(part[ci], k) for ci, k in pairs_src]
    n_steps = sum(len(h['steps']) for h in hs)
    n_clean = sum(1 for h in hs for s in h['steps'] if s[1])
    ck.obligation(f'Coq model of circuit.py (Node/Line/IndexList/GrowingList, remove_dangling_nodes, eliminate_1to1_forks, substitute, '
                  f'resolve_tlib_cells, copy, pickle) = implementation on {len(hs)} edit histories / {n_steps} steps: node table, line table, '
                  f'cells/forks dicts, io list and stats after EVERY step (and which calls raise); on the {n_clean} well-formed steps also '
                  f'pre = true, cinv_b(model state) = true and io_ok_b(model state) = true', ran and not bad, 'correspondence', f'failing (history, step): {bad[:6]}')
    if res['CircuitPrimsSrc'] is None:
        ck.obligation(f'translated source Gen/CircuitPrimsSrc.v = implementation on {"every second one" if src_every == 2 else "each"} of the same {len(hs)} histories: every '
                      'Node() / Line() / Line.remove / Node.remove / io_nodes[..] = n step is executed by the translated primitives (the composite '
                      'operations by the hand model), full state after every step and which calls raise', ran_src and not bad_src,
                      'correspondence', f'failing (history, step): {bad_src[:6]}' if src_ok else 'Gen/CircuitPrimsSrc.v does not compile')
    # --- library cells (D9 regression) -------------------------------------------------------------------
    n_lib, lib_fails = library_sweep(ck)
    vr = verilog_regression()
    ck.obligation(f'oracle: all {n_lib} (library cell x connection pattern: all pins, no output, each single input pin open with only the first output '
                  f'connected) instances resolve without exception into a consistent graph and eliminate_1to1_forks on the result does not raise and leaves a consistent graph; '
                  'verilog.parse + resolve_tlib_cells of TBUF_X1/TLAT_X1/HEADX2_RVT/ANTENNA_RVT/CLOAD1_RVT/TBUFX1 instances', not lib_fails and not vr,
                  'oracle', f'{lib_fails[:3]} {vr[:2]}')
    n_or = sum(1 for h in hs for s in h['steps'] if s[1])
    ck.obligation(f'oracle: Python invariant checker (independent of the model) after each of {n_or} well-formed steps: no violation, no exception',
                  not found, 'oracle', '; '.join(h['failure'][1] for h in found[:3]))
    ck.rule('random edit histories (<= 200 ops quick) drawn from one RNG: "valid" = every op satisfies well-formed use (oracle + model + cinv_b), '
            '"instance" = one instance per implementation x connection pattern of its pins (each subset of outputs connected), then substitute; '
            '"wild" = also duplicate names, occupied explicit pins, removal of connected/removed objects (model only, until the first exception); '
            '~35% removals, explicit/implicit pins, multi-output forks, removal in the middle of a fork, eliminate_1to1_forks, copy / pickle '
            '(continue on the result), substitute / resolve_tlib_cells with bench-parsed implementations (multi-output, unused input, output read '
            'internally, empty); plus every cell of the five shipped libraries')
    ck.trust('theorems are about the Gallina transcription Model/Circuit.v, tied to circuit.py by comparing the complete canonical state after every '
             'step of random histories; Python object identity is modelled by creation-order ids (observed by wrapping Node/Line.__init__ in the harness)',
             'proved for ALL histories of well-formed use: Node, Line, Line.remove, Node.remove, io_nodes[]=, get_or_add_fork, remove_dangling_nodes, '
             'eliminate_1to1_forks, substitute, resolve_tlib_cells, copy, pickle round trip (graph invariant CInv and "every io_nodes entry is a '
             'listed node"); well-formed use of substitute includes the shape of the implementation (distinct fork ports, designated cell not a '
             'port, no fork drives a pure output port: each shown necessary by a witness reproduced on the real code); for '
             'resolve_tlib_cells the conditions are evaluated per live instance in the state in which the loop visits it (instances removed by '
             'an earlier clean-up are skipped since 11c77ac; the loop before that commit is refuted by C09_resolve_removed_instance_refuted); '
             'the model is tied by correspondence, the results are also checked with the sound '
             'executable invariant cinv_b and by the independent Python oracle on every generated history and every library cell')
    # --- findings ----------------------------------------------------------------------------------------
    for h in found[:4]:
        _, ops, msg = ce.shrink(h['metas'])
        msg = msg or h['failure'][1]
        last = ops[-1][0] if ops else 'none'
        ck.fail(f'history:{last}', f'circuit graph inconsistent after a well-formed edit history ({len(ops)} ops): {msg}',
                {'component': 'kyupy.circuit', 'input': {'ops': ops}, 'readable': [ce.describe(o) for o in ops], 'actual': msg})
    for cell, connect, msg in lib_fails[:3]:
        ck.fail(f'library:{cell}', f'resolve_tlib_cells on an instance of {cell} ({connect} connected): {msg}',
                {'component': 'Circuit.substitute', 'input': {'cell': cell, 'connect': connect}, 'actual': msg})
    for kind, text, msg in vr[:2]:
        ck.fail(f'verilog:{kind}', f'verilog.parse + resolve_tlib_cells: {msg}', {'component': 'Circuit.substitute', 'input': {'verilog': text}, 'actual': msg})
    if bad and not found:
        first = [b for b in bad if b[0] != 'coq'][:1]
        detail = {}
        if first:
            hi, k = first[0]
            detail = {'history': hs[hi]['ops'][:k + 1], 'step': k, 'implementation_state': hs[hi]['steps'][k][2]}
        ck.fail('model-disagrees', 'Coq model Model/Circuit.v and circuit.py disagree (state after a step / raising behaviour)',
                {'component': 'Model/Circuit.v', 'input': detail}, found_input=False)


def replay(rp):
    inp = rp['input']
    if 'ops' in inp:
        return ce.replay_ops(inp['ops']) is not None
    if 'verilog' in inp:
        return bool([x for x in verilog_regression() if x[1] == inp['verilog']])
    if 'cell' in inp:
        from vcheck.core import Check
        class _C:      # minimal stand-in for the counters
            def count(self, *a, **k): pass
            def nontrivial(self, *a, **k): pass
        return any(f[0] == inp['cell'] for f in library_sweep(_C())[1])
    return False
