"""C12 -- multi-valued operators agree across both storage formats and the algebra."""
import itertools
import traceback

import numpy as np

from vcheck import gen_all, core
from translate import pysym
from harness import nd_corr as nc, circgen as cg

THEOREMS = ['C12_bp8_nary', 'C12_bp4_nary', 'C12_mv_nary', 'C12_unary', 'C12_unary_inplace', 'C12_mv_bp_agree',
            'C12_bool_restriction', 'C12_de_morgan_bool', 'C12_de_morgan8', 'C12_lanes_independent',
            # array layer (Model/NdArray.v, Model/MvWrappers.v): wrappers on arrays of any shape
            'C12_index_offset_bijection', 'C12_broadcast_rule', 'C12_broadcast_fail', 'C12_broadcast_index',
            'C12_wrapper_elementwise', 'C12_wrapper_exact', 'C12_wrapper_out', 'C12_wrapper_junk_irrelevant',
            'C12_wrapper_not', 'C12_wrapper_not_out', 'C12_elem_algebra', 'C12_wrapper_example', 'C12_wrapper_broadcast_refuted',
            'C12_transition_exact', 'C12_transition_elementwise', 'C12_transition_out', 'C12_transition_example']

Z, X, U, O, P, R, F, N = range(8)


# ---- independent oracle: the documented algebra --------------------------------------------------
def s_not(c):
    if c in (X, U): return X
    return (c ^ 0b011)


def s_buf(c):
    return X if c in (X, U) else c


def s_and(cs):
    if Z in cs: return Z
    if any(c in (X, U) for c in cs): return X
    f = all(c & 1 for c in cs); i = all(c & 2 for c in cs); a = any(c & 4 for c in cs)
    return f | (i << 1) | (a << 2)


def s_or(cs):
    if O in cs: return O
    if any(c in (X, U) for c in cs): return X
    f = any(c & 1 for c in cs); i = any(c & 2 for c in cs); a = any(c & 4 for c in cs)
    return f | (i << 1) | (a << 2)


def s_xor(cs):
    if any(c in (X, U) for c in cs): return X
    f = sum(c & 1 for c in cs) & 1; i = sum((c >> 1) & 1 for c in cs) & 1; a = any(c & 4 for c in cs)
    return f | (i << 1) | (a << 2)


SPEC = {'and': s_and, 'or': s_or, 'xor': s_xor, 'not': lambda cs: s_not(cs[0]), 'buf': lambda cs: s_buf(cs[0])}


def combos(nvals, k):
    return np.array(list(itertools.product(range(nvals), repeat=k)), dtype=np.uint8).T  # (k, nvals**k)


def call_bp(logic, m, op, cs):
    """cs: (k, n) codes. Runs logic.bp<m>v_<op> on bit-parallel arrays; returns n result codes."""
    mdim = 3 if m == 8 else 2
    k, n = cs.shape
    arrs = [logic.mv_to_bp(c[np.newaxis, :])[0, :mdim].copy() for c in cs]
    out = np.full_like(arrs[0], 0xa5)
    r = getattr(logic, f'bp{m}v_{op}')(out, *arrs)
    full = np.zeros((3, out.shape[-1]), dtype=np.uint8)
    full[:mdim] = r
    return logic.bp_to_mv(full[np.newaxis])[0, :n]


def call_mv(logic, op, cs):
    k, n = cs.shape
    out = np.full(n, 0xa5, dtype=np.uint8)
    getattr(logic, f'_mv_{op}')(out, *[c.copy() for c in cs])
    return out


def big_case(logic, n, seed):
    """operands far larger than one batch of any internal chunking (64 KiB and beyond): array operators and bit-parallel operators against the
    8 x 8 tables of the documented algebra; None or (operator, description)"""
    rng = np.random.default_rng(seed)
    T2 = {op: np.array([[SPEC[op]([a, b]) for b in range(8)] for a in range(8)], dtype=np.uint8) for op in ('and', 'or', 'xor')}
    TN = np.array([s_not(a) for a in range(8)], dtype=np.uint8)
    a = rng.integers(0, 8, size=n, dtype=np.uint8)
    b = rng.integers(0, 8, size=n, dtype=np.uint8)

    def first(got, exp):
        i = int(np.argmax(np.asarray(got) != exp))
        return f'n={n} seed={seed}: element {i} (operands {int(a[i])}, {int(b[i])}) is {int(np.asarray(got)[i])}, the algebra gives {int(exp[i])}'
    for op in ('and', 'or', 'xor'):
        for name, got in ((f'mv_{op}', getattr(logic, f'mv_{op}')(a, b)), (f'bp8v_{op}', call_bp(logic, 8, op, np.stack([a, b])))):
            if not np.array_equal(np.asarray(got), T2[op][a, b]):
                return name, first(got, T2[op][a, b])
        a4, b4 = a & 3, b & 3
        got = call_bp(logic, 4, op, np.stack([a4, b4]))
        exp = T2[op][a4, b4]
        if not np.array_equal(got, exp):
            return f'bp4v_{op}', first(got, exp)
    for name, got in (('mv_not', logic.mv_not(a)), ('bp8v_not', call_bp(logic, 8, 'not', a[np.newaxis]))):
        if not np.array_equal(np.asarray(got), TN[a]):
            return name, first(got, TN[a])
    # the same data as a signals x patterns MATRIX whose LAST axis is the long one, with and without out=, one operand broadcast
    rows = 3
    A = np.stack([np.roll(a, k) for k in range(rows)])
    B = np.stack([np.roll(b, 2 * k + 1) for k in range(rows)])
    for op in ('and', 'or', 'xor'):
        fn = getattr(logic, f'mv_{op}')
        for what, x, y in (('matrix', A, B), ('matrix x row', A, b), ('column x matrix', A[:, :1], B)):
            exp = T2[op][np.broadcast_arrays(x, y)[0], np.broadcast_arrays(x, y)[1]]
            o = np.full(exp.shape, 0xee, dtype=np.uint8)
            for how, got in (('', fn(x, y)), (' out=', fn(x, y, out=o))):
                if not np.array_equal(np.asarray(got), exp):
                    i = tuple(int(v) for v in np.argwhere(np.asarray(got) != exp)[0])
                    return f'mv_{op}', f'n={n} seed={seed}: {what}{how} of shape {exp.shape}: element {i} is {int(np.asarray(got)[i])}, the algebra gives {int(exp[i])}'
    o = np.full(A.shape, 0xee, dtype=np.uint8)
    for how, got in (('', logic.mv_not(A)), (' out=', logic.mv_not(A, out=o))):
        if not np.array_equal(np.asarray(got), TN[A]):
            i = tuple(int(v) for v in np.argwhere(np.asarray(got) != TN[A])[0])
            return 'mv_not', f'n={n} seed={seed}: matrix{how} of shape {A.shape}: element {i} is {int(np.asarray(got)[i])}, the algebra gives {int(TN[A][i])}'
    return None


def array_layer(ck, logic):
    """Correspondence numpy / logic.mv_* vs the shape-polymorphic Coq model on random shapes (ranks 0..5, axes of length 1 and 0,
    missing leading axes, incompatible shapes, out= None / right / with extra leading 1 axes / wrong) + the contract stated by
    multi-index with the harness' own broadcasting rule.  The wrapper theorems of Properties/C12.v are about this model."""
    import random
    rng = random.Random(ck.seed * 7919 + 1212)
    n = ck.scale(170, 2500)
    cases, owner, descs, fails = [], [], [], []
    for i in range(n):
        c, d, f = nc.wrapper_case(rng, logic)
        descs.append(d)
        ck.count(1, 'array-layer:' + d['op'] + (':out=' if d['out_shape'] is not None else ''))
        ck.nontrivial(('array-layer', d['op'], str(d['x1_shape']), str(d['x2_shape']), str(d['out_shape'])))
        if c is not None:
            cases.append(c)
            owner.append(i)
        for key, msg in f:
            fails.append((key, d, msg))
        if i % 3 == 0:
            for c in nc.primitive_cases_c12(rng):
                cases.append(c)
                owner.append(None)
                ck.count(1, 'array-layer:numpy-primitive')
    chunk = 150
    chunks = [cases[i:i + chunk] for i in range(0, len(cases), chunk)]
    outs = ck.coq_eval_many('nd', [nc.cases_file(ch) for ch in chunks], jobs=12)
    bad = [ci * chunk + j for ci, (okk, out) in enumerate(outs) for j in ((cg.parse_nat_list(out) if okk else None) or [])]
    ran = all(okk and cg.parse_nat_list(out) is not None for okk, out in outs)
    detail = ''
    if not ran:
        detail = next((core.coq_first_error(out) for okk, out in outs if not okk or cg.parse_nat_list(out) is None), '')
    elif bad:
        detail = 'model and implementation differ on: ' + ' ;; '.join(cases[b][:300] for b in bad[:4])
    ck.obligation(f'Coq model Model/NdArray.v + Model/MvWrappers.v = numpy / logic.mv_not, mv_or, mv_and, mv_xor, mv_transition on {len(cases)} calls '
                  '(broadcast shapes, ravel/unravel, a|b, out=/where=, putmask, wrapper results and exceptions) on random shapes',
                  ran and not bad, 'correspondence', detail)
    ck.rule('array layer: mv_not / mv_or / mv_and / mv_xor / mv_transition on random operand shapes of rank 0..5 (axes of length 0 and 1, missing leading axes, '
            'either operand or both stretched, incompatible shapes) x out= absent / broadcast shape / extra leading 1 axes / wrong shape or size, keyword and positional; '
            'numpy primitives (broadcast shapes of 2 and 3 operands, ravel/unravel, a|b, out=/where=, putmask) on the same shape generator')
    ck.trust('array model Model/NdArray.v: numpy broadcasting, ufunc out=/where= (operands must stretch to out), putmask (same size, flat order), '
             'row-major element order are small Coq functions = assumptions about numpy, compared with the real calls on every generated shape')
    seen = set()
    for key, d, msg in fails:
        if key in seen:
            continue
        seen.add(key)
        ck.fail(key, f'logic.{d["op"]}: {msg}', {'component': 'array-layer:logic.' + d['op'], 'input': d, 'actual': msg})
    if not fails and bad:
        b = bad[0]
        d = descs[owner[b]] if owner[b] is not None else {'op': 'numpy primitive'}
        ck.fail('model:array-layer', f'{d["op"]}: the implementation differs from the Coq array model (for which the C12 wrapper theorems are proved)',
                {'component': 'array-layer:model', 'input': d, 'coq_case': cases[b][:3000], 'actual': 'result differs from Model/MvWrappers.v', 'model_case': True})


def run(ck):
    from kyupy import logic
    # 1. translation (tie T): regenerate Gen/LogicOps.v from the current source
    res = gen_all.generate(['LogicOps'])
    ck.obligation('translate logic.py operators -> Gen/LogicOps.v', res['LogicOps'] is None, 'translation', res['LogicOps'] or '')
    ck.trust('translator translate/pysym.py + gen_logic_ops.py (tracing symbolic execution of logic.bp*v_*, logic._mv_*); '
             'its output is additionally run against the real functions on all operand combinations (correspondence below)',
             'model of a byte array as one bit-vector: numpy applies & | ^ ~ independently to every bit of every byte')
    # 2. proof obligations
    ck.prove('C12', THEOREMS)

    # 3. correspondence: emitted programs == real functions, exhaustively, spread over lanes
    failures = []
    fams = None
    if res['LogicOps'] is None:
        from translate import gen_logic_ops
        fams = gen_logic_ops.families(logic)
    ok_corr = True
    n_eval = 0
    for fmt, nvals, mdim in (('bp8', 8, 3), ('bp4', 4, 2), ('mv', 8, 3)):
        for op in ('and', 'or', 'xor', 'not', 'buf'):
            if fmt == 'mv' and op == 'buf':
                continue
            for k in ((1,) if op in ('not', 'buf') else (1, 2, 3, 4)):
                cs = combos(nvals, k)
                try:
                    got = call_mv(logic, op, cs) if fmt == 'mv' else call_bp(logic, int(fmt[2]), op, cs)
                except Exception:
                    failures.append((f'{fmt}_{op}/{k}', None, 'raises: ' + traceback.format_exc()[-300:]))
                    continue
                exp = np.array([SPEC[op](list(c)) for c in cs.T], dtype=np.uint8)
                n_eval += cs.shape[1]
                ck.count(cs.shape[1], f'{fmt}_{op}_k{k}')
                for j in np.flatnonzero(got != exp)[:3]:
                    failures.append((f'{fmt}_{op}/{k}', [int(x) for x in cs[:, j]], f'got {int(got[j])} expected {int(exp[j])}'))
                if fams is not None:
                    code, outs = fams[f'{fmt}_{op}'][k - 1]
                    for j in range(cs.shape[1]):
                        ins = [(int(c) >> p) & 1 for c in cs[:, j] for p in range(mdim)]
                        bits = pysym.eval_prog(code, outs, ins)
                        val = sum(b << i for i, b in enumerate(bits))
                        if val != int(got[j]):
                            ok_corr = False
                            failures.append((f'translator:{fmt}_{op}/{k}', [int(x) for x in cs[:, j]],
                                             f'traced program gives {val}, function gives {int(got[j])}'))
                            break
                ck.nontrivial(f'{fmt}_{op}_{k}')
    # in place: bp?v_not(x, x) / bp?v_buf(x, x) -- the output array IS the operand (LogicSim evaluates every inverting gate this way)
    for m, nvals, mdim in ((8, 8, 3), (4, 4, 2)):
        for op in ('not', 'buf'):
            cs = combos(nvals, 1)
            x = logic.mv_to_bp(cs[0][np.newaxis, :])[0, :mdim].copy()
            try:
                r = getattr(logic, f'bp{m}v_{op}')(x, x)
                full = np.zeros((3, x.shape[-1]), dtype=np.uint8)
                full[:mdim] = r
                got = logic.bp_to_mv(full[np.newaxis])[0, :cs.shape[1]]
            except Exception:
                failures.append((f'bp{m}_{op}:inplace', None, 'raises: ' + traceback.format_exc()[-300:]))
                continue
            exp = np.array([SPEC[op]([int(c)]) for c in cs[0]], dtype=np.uint8)
            ck.count(cs.shape[1], f'bp{m}_{op}_inplace')
            for j in np.flatnonzero(got != exp)[:3]:
                failures.append((f'bp{m}_{op}:inplace', [int(cs[0, j])], f'called with out being the operand: got {int(got[j])} expected {int(exp[j])}'))
            if fams is not None:
                code, outs = fams[f'bp{m}_{op}_inplace'][0]
                for j in range(cs.shape[1]):
                    bits = pysym.eval_prog(code, outs, [(int(cs[0, j]) >> p_) & 1 for p_ in range(mdim)])
                    if sum(b_ << i for i, b_ in enumerate(bits)) != int(got[j]):
                        ok_corr = False
                        failures.append((f'translator:bp{m}_{op}:inplace', [int(cs[0, j])], 'traced in-place program and function disagree'))
                        break
    ck.obligation('traced programs agree with the real functions on all 8^k / 4^k operand combinations (and the in-place unary forms)',
                  ok_corr and fams is not None, 'correspondence')
    ck.sample({'op': 'bp8v_and', 'operands': ['R', 'F', 'N', '1'], 'result': 'P'})

    # 4. public wrappers: shapes, broadcasting, lanes, out=
    rng = np.random.default_rng(ck.seed + 12)
    wrap_fail = []
    shapes = [(), (1,), (7,), (3, 5), (2, 3, 9), (4, 1, 6)]
    nrounds = ck.scale(20, 400)
    for _ in range(nrounds):
        sh = shapes[rng.integers(len(shapes))]
        # operand shapes that broadcast to `sh` in EVERY direction numpy allows: either operand may have size-1 axes and / or lack
        # leading axes (x2 smaller than x1, x1 smaller than x2, and both smaller than the result, e.g. (3,1) with (1,5))
        def sub_shape(full):
            t = tuple(1 if rng.random() < 0.35 else d for d in full)
            return t[int(rng.integers(0, len(t) + 1)):] if rng.random() < 0.4 else t
        mode = rng.random()
        if mode < 0.35 or len(sh) == 0:
            a_shape, b_shape = sh, sh
        elif mode < 0.55:
            a_shape, b_shape = sh, sub_shape(sh)
        elif mode < 0.75:
            a_shape, b_shape = sub_shape(sh), sh
        else:
            a_shape, b_shape = sub_shape(sh), sub_shape(sh)
        a = rng.integers(0, 8, size=a_shape, dtype=np.uint8)
        b = rng.integers(0, 8, size=b_shape, dtype=np.uint8)
        ck.count(1, 'wrapper-shapes:' + ('same' if a_shape == b_shape else 'x2-smaller' if np.broadcast_shapes(a_shape, b_shape) == a_shape else
                                         'x1-smaller' if np.broadcast_shapes(a_shape, b_shape) == b_shape else 'both-smaller'))
        for op, fn in (('and', logic.mv_and), ('or', logic.mv_or), ('xor', logic.mv_xor)):
            exp = np.vectorize(lambda x, y: SPEC[op]([int(x), int(y)]), otypes=[np.uint8])(a, b) if (a.ndim or b.ndim) else \
                np.uint8(SPEC[op]([int(a), int(b)]))
            for use_out in (False, True):
                key = f'mv_{op}:out=' if use_out else f'mv_{op}'
                try:
                    if a.ndim == 0 and b.ndim == 0:
                        if use_out:
                            continue
                        r = fn(np.array(a), np.array(b))
                    elif use_out:
                        # the output array given by keyword and (the documented signature is f(x1, x2, out=None)) positionally
                        bad = False
                        for positional in (False, True):
                            o = np.full(np.broadcast(a, b).shape, rng.choice([0xee, 0, 3]), dtype=np.uint8)
                            r = fn(a, b, o) if positional else fn(a, b, out=o)
                            if r is not o or not np.array_equal(o, exp):
                                wrap_fail.append((key, a.tolist(), b.tolist(), ('positional ' if positional else '') + 'out= array did not receive the result'))
                                bad = True
                        # legal output arrays that are NOT fresh C-contiguous uint8 buffers: Fortran order, a strided window of a larger
                        # buffer, a wider integer dtype -- the caller's array itself must receive the result
                        bsh = np.broadcast(a, b).shape
                        big = np.full(tuple(2 * d for d in bsh), 0xee, dtype=np.uint8)
                        for what, o in (('Fortran-ordered', np.asfortranarray(np.full(bsh, 0xee, dtype=np.uint8))),
                                        ('strided window', big[tuple(slice(None, None, 2) for _ in bsh)]),
                                        ('int64', np.full(bsh, 0xee, dtype=np.int64))):
                            r = fn(a, b, out=o)
                            if not np.array_equal(np.asarray(o), exp) or (np.asarray(r) is not o and not np.shares_memory(np.asarray(r), o)):
                                wrap_fail.append((key, a.tolist(), b.tolist(), f'{what} out= array did not receive the result'))
                                bad = True
                                break
                        if bad:
                            continue
                    else:
                        r = fn(a, b)
                    if not np.array_equal(np.asarray(r), exp):
                        wrap_fail.append((key, a.tolist(), b.tolist(), f'got {np.asarray(r).tolist()} expected {np.asarray(exp).tolist()}'))
                except Exception as e:
                    wrap_fail.append((key, a.tolist(), b.tolist(), f'raises {type(e).__name__}: {e}'))
                ck.count(1, key)
        # unary
        exp = np.vectorize(lambda x: s_not(int(x)), otypes=[np.uint8])(a) if a.ndim else np.uint8(s_not(int(a)))
        for use_out in (False, True):
            key = 'mv_not:out=' if use_out else 'mv_not'
            try:
                if a.ndim == 0:
                    if use_out:
                        continue
                    r = logic.mv_not(np.array(a))
                elif use_out:
                    bad = False
                    for positional in (False, True):
                        o = np.full(a.shape, rng.choice([0xee, 0, 3]), dtype=np.uint8)
                        r = logic.mv_not(a, o) if positional else logic.mv_not(a, out=o)
                        if r is not o or not np.array_equal(o, exp):
                            wrap_fail.append((key, a.tolist(), None, ('positional ' if positional else '') + 'out= array did not receive the result'))
                            bad = True
                    if bad:
                        continue
                else:
                    r = logic.mv_not(a)
                if not np.array_equal(np.asarray(r), exp):
                    wrap_fail.append((key, a.tolist(), None, f'got {np.asarray(r).tolist()}'))
            except Exception as e:
                wrap_fail.append((key, a.tolist(), None, f'raises {type(e).__name__}: {e}'))
            ck.count(1, key)
        # zero-valued one-element out (falsy array)
        try:
            o = np.zeros(1, dtype=np.uint8)
            r = logic.mv_not(np.array([0], dtype=np.uint8), out=o)
            if r is not o or int(o[0]) != 3:
                wrap_fail.append(('mv_not:out=', [0], None, 'one-element zero out= array ignored'))
        except Exception as e:
            wrap_fail.append(('mv_not:out=', [0], None, f'raises {type(e).__name__}: {e}'))
        # bp lanes: odd lane counts through mv_to_bp/bp_to_mv
        n = int(rng.integers(1, 40))
        k = int(rng.integers(1, 5))
        cs = rng.integers(0, 8, size=(k, n), dtype=np.uint8)
        for op in ('and', 'or', 'xor'):
            got = call_bp(logic, 8, op, cs)
            exp = np.array([SPEC[op](list(c)) for c in cs.T], dtype=np.uint8)
            if not np.array_equal(got, exp):
                wrap_fail.append((f'bp8v_{op}', cs.tolist(), None, f'lanes={n}: got {got.tolist()} expected {exp.tolist()}'))
            ck.count(1, 'bp8_lanes')
            ck.nontrivial(('lanes', n, k, op))
    ck.rule('exhaustive 8^k (4^k) operand combinations for k=1..4 per operator and format (distinct = operator x format x arity); '
            'plus random shapes/broadcasting/lane counts/out= for the public wrappers')
    ck.cov['exhaustive'] = True
    okc, log = core.coq_make(['theories/Model/NdCorr.vo'], timeout=600)
    if okc:
        array_layer(ck, logic)
    else:
        ck.obligation('build Model/NdCorr.vo', False, 'correspondence', core.coq_first_error(log))

    for n in [65536, 65537, 200001][:ck.scale(2, 3)]:
        seed = ck.seed * 7919 + n
        try:
            r = big_case(logic, n, seed)
        except Exception as e:
            r = ('big-arrays', f'n={n} seed={seed}: raises {type(e).__name__}: {e}')
        ck.count(1, 'big-array rounds (64 KiB and beyond, 11 operators each)')
        if r:
            ck.fail(f'big:{r[0]}', f'logic.{r[0]} on large arrays: {r[1]}', {'component': 'logic.' + r[0], 'input': {'big_n': n, 'big_seed': seed}, 'actual': r[1]})

    for name, operands, what in failures:
        ck.fail(f'op:{name}', f'{name} on operands {operands}: {what}',
                {'component': name, 'input': {'operands': operands}, 'actual': what})
    seen = set()
    for key, a, b, what in wrap_fail:
        if key in seen:
            continue
        seen.add(key)
        ck.fail(f'wrapper:{key}', f'logic.{key} {what}', {'component': 'logic.' + key, 'input': {'x1': a, 'x2': b}, 'actual': what})


def replay_array_layer(rp):
    """re-runs one wrapper call of the array-layer stream: oracle, and for model cases the Coq comparison"""
    from kyupy import logic
    d = rp['input']
    if 'x1_shape' not in d:
        return True
    coq, fails = nc.run_wrapper(logic, d)
    if fails or coq is None:
        return True
    if rp.get('model_case'):
        ck = core.Check('C12', 'quick', 0)
        okk, o = ck.coq_eval('replay', nc.cases_file([coq]))
        bad = cg.parse_nat_list(o) if okk else None
        return bad is None or bool(bad)
    return False


def replay(rp):
    from kyupy import logic
    comp = rp.get('component', '')
    inp = rp.get('input', {})
    if comp.startswith('array-layer:'):
        return replay_array_layer(rp)
    if 'big_n' in inp:
        try:
            return big_case(logic, inp['big_n'], inp['big_seed']) is not None
        except Exception:
            return True
    if 'operands' in inp and inp['operands'] is not None:
        name, k = comp.replace('translator:', '').split('/')
        fmt, op = name.split('_')
        cs = np.array(inp['operands'], dtype=np.uint8).reshape(-1, 1)
        got = call_mv(logic, op, cs) if fmt == 'mv' else call_bp(logic, int(fmt[2]), op, cs)
        return int(got[0]) != SPEC[op]([int(c) for c in cs[:, 0]])
    if comp.startswith('logic.mv_'):
        name = comp[len('logic.'):]
        fn = getattr(logic, name.split(':')[0])
        a = np.array(inp['x1'], dtype=np.uint8)
        try:
            if inp.get('x2') is None:
                o = np.full(a.shape, 0xee, dtype=np.uint8) if a.ndim else None
                r = fn(a, out=o) if ('out=' in name and o is not None) else fn(a)
                exp = np.vectorize(lambda x: s_not(int(x)), otypes=[np.uint8])(a)
            else:
                b = np.array(inp['x2'], dtype=np.uint8)
                op = name.split(':')[0][3:]
                exp = np.vectorize(lambda x, y: SPEC[op]([int(x), int(y)]), otypes=[np.uint8])(a, b)
                o = np.full(np.broadcast(a, b).shape, 0xee, dtype=np.uint8)
                r = fn(a, b, out=o) if 'out=' in name else fn(a, b)
            if 'out=' in name and r is not o:
                return True
            return not np.array_equal(np.asarray(r), exp)
        except Exception:
            return True
    return True
