"""C20 -- DEF data is extracted as written, with wildcards and via arrays expanded."""
import random
from harness import defgen as dg, circgen as cg

THEOREMS = ['C20_wildcard_resolve', 'C20_wildcard_nearest', 'C20_via_location', 'C20_wire_vias_listing',
            'C20_via_array_members', 'C20_via_array_count', 'C20_via_array_nodup', 'C20_via_array_order',
            'C20_per_layer_wires', 'C20_per_type_vias', 'C20_listing_keys_unique', 'C20_routed_accumulates', 'C20_routed_only',
            'C20_row_horizontal', 'C20_row_vertical', 'C20_row_negative_step_refuted']

WHAT = {'regular-net-wires': 'DefNet.wires raises TypeError on a regular net (int(None): wire() never sets a width)',
        'wildcard-wire-points': 'DefWire.wire_points / DefNet.wires leave a "*" coordinate as None instead of the previous value',
        'unrouted-net-listing': 'DefNet.wires / .vias raise AttributeError on a net without "+ ROUTED" statement',
        'repeated-routed': 'a second "+ ROUTED" statement of a net replaces the wires of the first'}


def parse(text):
    from kyupy import def_file
    return def_file.parse(text)


def features(gt):
    f = set()
    for sec in ('specialnets', 'nets'):
        for n in gt[sec]:
            nr = sum(1 for it in n['items'] if it[0] == 'wiring' and it[1] == 'ROUTED')
            f.add(f'{sec}:routed-statements={min(nr, 2)}')
            for it in n['items']:
                if it[0] != 'wiring':
                    continue
                if it[1] != 'ROUTED': f.add('other-wiring-keyword')
                if len(it[2]) > 1: f.add('NEW-segments')
                for w in it[2]:
                    if not any(e[0] == 'pt' for e in w['elems']): f.add('via-only-wire')
                    for e in w['elems']:
                        if e[0] == 'pt' and (e[4] or e[5]): f.add('wildcard')
                        if e[0] == 'pt' and e[4] and e[5]: f.add('double-wildcard')
                        if e[0] == 'pt' and e[3] is not None: f.add('ext-value')
                        if e[0] == 'via' and e[2] is None: f.add('via-plain')
                        if e[0] == 'via' and e[2] is not None: f.add('via-' + e[2][0])
    return f


def run(ck):
    ck.prove('C20', THEOREMS)
    rng = random.Random(ck.seed * 7919 + 20)
    fails = {}            # key -> (replay input, message)   (first failing input per kind of failure)
    net_cases, wire_cases, misc_cases, meta = [], [], [], []
    feat = {}

    def note(key, inp, msg):
        if key not in fails:
            fails[key] = (inp, msg)

    # ---- stream 1: DEF text from a structured ground truth -------------------------------------------------------
    n_files = ck.scale(150, 4000)
    for i in range(n_files):
        gt = dg.gen_def(rng)
        text = dg.render(gt, rng)
        inp = {'text': text, 'gt': gt}
        ck.count(1, 'file:' + gt['style'])
        for f in features(gt):
            feat[f] = feat.get(f, 0) + 1
        ck.nontrivial(('f', gt['style'], len(text), gt['design'], len(gt['nets']), len(gt['specialnets'])))
        try:
            d = parse(text)
        except Exception as e:                                 # noqa
            note('parse-error', inp, f'def_file.parse raises {type(e).__name__}: {str(e).splitlines()[0][:200]}')
            continue
        for key, msg in dg.check_file(gt, d):
            note(key, inp, msg)
        if i < 2:
            ck.sample({'style': gt['style'], 'text': text[:400]})
        # correspondence cases: model on the ground-truth statements vs. what the implementation returned
        for sec, special in (('specialnets', True), ('nets', False)):
            for n in gt[sec]:
                got = getattr(d, sec).get(n['name'])
                if got is None:
                    continue
                act = dg.net_actual(got)
                net_cases.append(dg.coq_net_case(n, act))
                meta.append(('net', inp, f'{sec}[{n["name"]!r}]'))
                for kw in dg.WIRING_KW:
                    ws_gt = [w for it in n['items'] if it[0] == 'wiring' and it[1].lower() == kw for w in it[2]]
                    ws = getattr(got, kw, None) or []
                    if len(ws) == len(ws_gt):
                        for w, wg in zip(ws, ws_gt):
                            try:
                                wire_cases.append(dg.coq_wire_case(wg, dg.norm(w.wire_points), dg.norm(list(w.vias.items()))))
                            except Exception:                  # noqa
                                wire_cases.append('false')
        if len(d.rows) == len(gt['rows']):
            misc_cases += [dg.coq_row_case(r, g) for r, g in zip(gt['rows'], d.rows)]
        if len(d.tracks) == len(gt['tracks']):
            misc_cases += [dg.coq_track_case(t, g) for t, g in zip(gt['tracks'], d.tracks)]
    # ---- stream 2: DefNet / DefWire objects built directly (values the grammar cannot write) -----------------------
    n_direct = ck.scale(250, 6000)
    for i in range(n_direct):
        special = rng.random() < 0.5
        style = rng.choice(['typical', 'wildcards', 'arrays', 'via-only', 'long'])
        net = dg.gen_net(rng, special, style, f'd{i}', ['u1', 'u2'], ['via1', 'via2', 'V'], big=True)
        inp = {'direct_net': net, 'special': special}
        ck.count(1, 'direct:' + ('special' if special else 'regular'))
        ck.nontrivial(('d', special, style, str(net['items'])[:80]))
        out = []
        try:
            dn = dg.build_net(net, special)
            dg.check_net('direct', net, special, dn, out)
            net_cases.append(dg.coq_net_case(net, dg.net_actual(dn)))
            meta.append(('net', inp, 'direct'))
        except Exception as e:                                 # noqa
            out.append(('direct-raises', f'{type(e).__name__}: {e}'))
        for key, msg in out:
            note(key, inp, msg)
    # ---- Coq evaluation ------------------------------------------------------------------------------------------
    texts, spans = [], []
    for tag, cases, per in (('net', net_cases, 120), ('wire', wire_cases, 400), ('misc', misc_cases, 600)):
        for k in range(0, len(cases), per):
            texts.append(dg.cases_file(cases[k:k + per]))
            spans.append((tag, k))
    outs = ck.coq_eval_many('def', texts, jobs=12)
    bad = {'net': [], 'wire': [], 'misc': []}
    ran = True
    for (tag, k), (ok, out) in zip(spans, outs):
        lst = cg.parse_nat_list(out) if ok else None
        if lst is None:
            ran = False
            bad[tag].append(('coqc', out[-600:]))
        else:
            bad[tag] += [k + j for j in lst]
    ck.obligation(f'Coq model of DefNet.wires / DefNet.vias (with the collection of "+ ROUTED" statements) = implementation on {len(net_cases)} nets '
                  '(exact per-layer / per-type listings incl. key order)', ran and not bad['net'], 'correspondence', f'failing nets {bad["net"][:8]}')
    ck.obligation(f'Coq model of DefWire.wire_points / DefWire.vias = implementation on {len(wire_cases)} parsed routing statements',
                  ran and not bad['wire'], 'correspondence', f'failing wires {bad["wire"][:8]}')
    ck.obligation(f'Coq model of the ROW / TRACKS branch of design_stmt = implementation on {len(misc_cases)} statements',
                  ran and not bad['misc'], 'correspondence', f'failing statements {bad["misc"][:8]}')
    ck.obligation('every routing feature of the property\'s quantifier was generated (wildcards, double wildcards, ext values, vias plain / with '
                  'orientation / with DO-BY-STEP, NEW segments, via-only wires, 0 / 1 / several ROUTED statements, other wiring keywords)',
                  all(feat.get(f, 0) > 0 for f in ('wildcard', 'double-wildcard', 'ext-value', 'via-plain', 'via-orient', 'via-array', 'NEW-segments',
                                                   'via-only-wire', 'nets:routed-statements=0', 'nets:routed-statements=1', 'nets:routed-statements=2',
                                                   'specialnets:routed-statements=1', 'other-wiring-keyword')), 'coverage', str(sorted(feat.items())))
    ck.dist.update({'feature:' + k: v for k, v in feat.items()})
    ck.rule('DEF texts rendered from a structured ground truth (header, UNITS, DIEAREA, ROW, TRACKS, VIAS with options, COMPONENTS, PINS, SPECIALNETS, '
            'NETS with pins / USE / ROUTED|FIXED|COVER|NOSHIELD / NEW segments / wildcards / vias plain, oriented, DO-BY-STEP; noise sections; '
            'whitespace, comment and section-order variation): everything parse() returns is compared with the ground truth, which owns the resolved '
            'coordinates; plus DefNet objects built directly with negative / 30-digit coordinates; all listings compared with the Coq model')
    ck.trust('NOT modelled: the lark grammar and lexer of def_file.py and the per-statement transformer callbacks (text -> DefFile attributes): '
             'covered by the ground-truth oracle only',
             'modelled, not verified: DefWire.wire_points, DefWire.vias, DefNet.wires, DefNet.vias, accumulation of "+ ROUTED" statements, '
             'ROW arithmetic (hand transcription Model/DefRoute.v of the repaired code; exact correspondence on every generated net)',
             'domain of the theorems: first point of a routing statement fully specified (DEF requires it); ROW theorems need a non-negative '
             'step and one of the two counts = 1 (C20_row_negative_step_refuted shows max(dx, dy) is wrong otherwise)')
    order = ['parse-error', 'regular-net-wires', 'wildcard-wire-points', 'unrouted-net-listing', 'repeated-routed']
    for key in sorted(fails, key=lambda k: (order.index(k) if k in order else 99, k))[:8]:
        inp, msg = fails[key]
        ck.fail(key, 'def_file: ' + (WHAT.get(key, key) + ' -- ' if key in WHAT else '') + msg,
                {'component': 'kyupy.def_file', 'input': inp, 'actual': msg})
    if not fails and any(bad.values()):
        first = bad['net'][0] if bad['net'] and isinstance(bad['net'][0], int) else None
        ck.fail('model-disagrees', 'Coq model and implementation disagree', {'component': 'Model/DefRoute.v',
                'input': meta[first][1] if first is not None else {}, 'where': meta[first][2] if first is not None else str(bad)[:500]}, found_input=False)


def replay(rp):
    inp = rp['input']
    if 'text' in inp:
        try:
            d = parse(inp['text'])
        except Exception:                                      # noqa
            return True
        return any(k == rp['key'] for k, _ in dg.check_file(inp['gt'], d)) or (rp['key'] not in WHAT and bool(dg.check_file(inp['gt'], d)))
    if 'direct_net' in inp:
        out = []
        try:
            dg.check_net('direct', inp['direct_net'], inp['special'], dg.build_net(inp['direct_net'], inp['special']), out)
        except Exception:                                      # noqa
            return True
        return bool(out)
    return True
